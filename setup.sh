#!/bin/sh
# Run once in /verif after a fresh restore, offline: builds the Lean project (all theorems + drivers)
# and every harness binary from files on disk only.
set -e
cd "$(dirname "$0")"
export GOFLAGS=-mod=mod GOPROXY=off GOSUMDB=off GOTOOLCHAIN=local
mkdir -p out evidence harness/bin lean/ScVerif/Generated
# harness binaries (also regenerates facts needed by lake build)
cat /repo/go.sum > harness/go.sum
[ -f harness/go.sum.extra ] && cat harness/go.sum.extra >> harness/go.sum
for f in props/C*.json; do
  id=$(basename "$f" .json)
  h=$(python3 -c "import json,sys;c=json.load(open('$f'));print(c.get('harness','$id'.lower()))")
  (cd harness && go build -tags verif -o bin/$h ./cmd/$h) || echo "setup: harness $h did not build (the check will report it)"
  for ff in $(python3 -c "import json;print(' '.join(json.load(open('$f')).get('facts',[])))"); do
    mkdir -p "$(dirname lean/$ff)"
    ./harness/bin/$h -facts "lean/$ff" || echo "setup: facts $ff failed"
  done
done
# Lean: every target named by a property config, one property at a time so that one property's
# failure cannot hide the others (./check reports a property whose targets do not build)
for f in props/C*.json; do
  t=$(python3 -c "import json;c=json.load(open('$f'));print(' '.join(c['lean_targets']+([c['driver']] if c.get('driver') else [])))")
  (cd lean && lake build $t) || echo "setup: lean targets of $f did not build (the check will report it)"
done
echo "setup done"
