// Package lib is the shared plumbing of the per-property harness binaries (cmd/cXX):
// flags, the Lean driver process, tie/monitor bookkeeping and the result file read by /verif/check.
//
// Conventions (see /verif/FRAMEWORK.md):
//   - a *tie* compares the Lean model (through the driver) with the real code on the same input;
//     any difference is a Disagreement (the correspondence is broken);
//   - a *monitor* evaluates the property itself on the real code; a failure is a Violation with a
//     signature naming the specific call site / cell / input class that failed.
package lib

import (
	"bufio"
	"encoding/json"
	"flag"
	"fmt"
	"io"
	"math/rand"
	"os"
	"os/exec"
	"path/filepath"
	"runtime/debug"
	"sort"
	"strings"
	"sync"
	"time"
)

type Flags struct {
	Tier   string
	Seed   int64
	Out    string
	Driver string
	Replay string
	Facts  string
}

func ParseFlags() Flags {
	var f Flags
	flag.StringVar(&f.Tier, "tier", "quick", "quick|thorough")
	flag.Int64Var(&f.Seed, "seed", 1, "PRNG seed (VERIF_SEED)")
	flag.StringVar(&f.Out, "out", "", "output directory for result.json")
	flag.StringVar(&f.Driver, "driver", "", "path of the compiled Lean driver")
	flag.StringVar(&f.Replay, "replay", "", "replay file to re-execute")
	flag.StringVar(&f.Facts, "facts", "", "write regenerated Lean facts to this file and exit")
	flag.Parse()
	return f
}

func (f Flags) Thorough() bool { return f.Tier == "thorough" }

// N picks a budget by tier.
func (f Flags) N(quick, thorough int) int {
	if f.Thorough() {
		return thorough
	}
	return quick
}

// RepoRoot is the repository the harness was built against (fact extractors read sources from it).
func RepoRoot() string {
	if r := os.Getenv("VERIF_REPO"); r != "" {
		return r
	}
	return "/repo"
}

func NewRand(seed int64) *rand.Rand { return rand.New(rand.NewSource(seed)) }

// ---------------------------------------------------------------------------------------------
// Lean driver process

type Driver struct {
	cmd *exec.Cmd
	in  io.WriteCloser
	w   *bufio.Writer
	out *bufio.Reader
	mu  sync.Mutex
}

func StartDriver(path string, args ...string) (*Driver, error) {
	if path == "" {
		return nil, fmt.Errorf("no driver path given")
	}
	cmd := exec.Command(path, args...)
	in, err := cmd.StdinPipe()
	if err != nil {
		return nil, err
	}
	out, err := cmd.StdoutPipe()
	if err != nil {
		return nil, err
	}
	cmd.Stderr = os.Stderr
	if err := cmd.Start(); err != nil {
		return nil, err
	}
	return &Driver{cmd: cmd, in: in, w: bufio.NewWriterSize(in, 1<<16), out: bufio.NewReaderSize(out, 1<<16)}, nil
}

// Batch sends all lines and reads one answer line per request. Requests must not contain newlines.
func (d *Driver) Batch(lines []string) ([]string, error) {
	d.mu.Lock()
	defer d.mu.Unlock()
	res := make([]string, 0, len(lines))
	errc := make(chan error, 1)
	go func() {
		for _, l := range lines {
			if strings.ContainsAny(l, "\n\r") {
				errc <- fmt.Errorf("request contains newline: %q", l)
				return
			}
			if _, err := d.w.WriteString(l + "\n"); err != nil {
				errc <- err
				return
			}
		}
		if _, err := d.w.WriteString("#flush\n"); err != nil {
			errc <- err
			return
		}
		errc <- d.w.Flush()
	}()
	for range lines {
		s, err := d.out.ReadString('\n')
		if err != nil {
			return res, fmt.Errorf("driver ended after %d answers: %v", len(res), err)
		}
		res = append(res, strings.TrimRight(s, "\n"))
	}
	if err := <-errc; err != nil {
		return res, err
	}
	return res, nil
}

func (d *Driver) Ask(line string) (string, error) {
	r, err := d.Batch([]string{line})
	if err != nil {
		return "", err
	}
	return r[0], nil
}

func (d *Driver) Close() {
	d.in.Close()
	done := make(chan struct{})
	go func() { d.cmd.Wait(); close(done) }()
	select {
	case <-done:
	case <-time.After(5 * time.Second):
		d.cmd.Process.Kill()
	}
}

// RunOnce starts a fresh driver, answers the lines, and closes it (for stateful drivers: one run = one
// fresh model state).
func RunOnce(path string, lines []string, args ...string) ([]string, error) {
	d, err := StartDriver(path, args...)
	if err != nil {
		return nil, err
	}
	defer d.Close()
	return d.Batch(lines)
}

// ---------------------------------------------------------------------------------------------
// Bookkeeping

type Disagreement struct {
	Input any    `json:"input"`
	Model string `json:"model"`
	Code  string `json:"code"`
}

type Tie struct {
	Name          string         `json:"name"`
	Kind          string         `json:"kind"` // K1 K2 K3 K4
	Rule          string         `json:"rule"`
	Evaluations   int            `json:"evaluations"`
	Distinct      int            `json:"distinct_nontrivial"`
	Exhaustive    bool           `json:"exhaustive"`
	Samples       []any          `json:"samples"`
	Disagreements []Disagreement `json:"disagreements"`
	NDisagree     int            `json:"n_disagreements"`
	Distribution  map[string]int `json:"distribution"`
	Error         string         `json:"error,omitempty"`
	seen          map[string]struct{}
}

func NewTie(name, kind, rule string) *Tie {
	return &Tie{Name: name, Kind: kind, Rule: rule, Distribution: map[string]int{}, seen: map[string]struct{}{}}
}

// Record one compared case. key identifies the case for distinct counting; nontrivial says whether
// the case counts as non-trivial under the tie's stated rule.
func (t *Tie) Record(key string, nontrivial bool, input any, model, code string) bool {
	t.Evaluations++
	if nontrivial {
		if _, ok := t.seen[key]; !ok {
			t.seen[key] = struct{}{}
			t.Distinct++
		}
	}
	if len(t.Samples) < 3 || (t.Evaluations%997 == 0 && len(t.Samples) < 8) {
		t.Samples = append(t.Samples, map[string]any{"input": input, "model": model, "code": code})
	}
	if model != code {
		t.NDisagree++
		if len(t.Disagreements) < 10 {
			t.Disagreements = append(t.Disagreements, Disagreement{Input: input, Model: model, Code: code})
		}
		return false
	}
	return true
}

func (t *Tie) Count(bucket string) { t.Distribution[bucket]++ }

func (t *Tie) Fail(err error) {
	t.Error = err.Error()
}

type Violation struct {
	Signature string `json:"signature"`
	What      string `json:"what"`
	Input     any    `json:"input"`
	Expected  string `json:"expected"`
	Observed  string `json:"observed"`
	Count     int    `json:"count"`
}

type Monitor struct {
	Name         string         `json:"name"`
	Rule         string         `json:"rule"`
	Evaluations  int            `json:"evaluations"`
	Distinct     int            `json:"distinct_nontrivial"`
	Samples      []any          `json:"samples"`
	Violations   []*Violation   `json:"violations"`
	Distribution map[string]int `json:"distribution"`
	Error        string         `json:"error,omitempty"`
	bySig        map[string]*Violation
	seen         map[string]struct{}
}

func NewMonitor(name, rule string) *Monitor {
	return &Monitor{Name: name, Rule: rule, Distribution: map[string]int{}, bySig: map[string]*Violation{}, seen: map[string]struct{}{}}
}

// Eval counts one evaluation of the property on the real code.
func (m *Monitor) Eval(key string, nontrivial bool, sample any) {
	m.Evaluations++
	if nontrivial {
		if _, ok := m.seen[key]; !ok {
			m.seen[key] = struct{}{}
			m.Distinct++
		}
	}
	if sample != nil && (len(m.Samples) < 3 || (m.Evaluations%997 == 0 && len(m.Samples) < 8)) {
		m.Samples = append(m.Samples, sample)
	}
}

func (m *Monitor) Count(bucket string) { m.Distribution[bucket]++ }

// Violate records a property violation observed on the real code. The first (ideally smallest)
// input per signature is kept as the replay.
func (m *Monitor) Violate(signature, what string, input any, expected, observed string) {
	if v, ok := m.bySig[signature]; ok {
		v.Count++
		return
	}
	v := &Violation{Signature: signature, What: what, Input: input, Expected: expected, Observed: observed, Count: 1}
	m.bySig[signature] = v
	m.Violations = append(m.Violations, v)
}

type Result struct {
	Property string         `json:"property"`
	Tier     string         `json:"tier"`
	Seed     int64          `json:"seed"`
	Ties     []*Tie         `json:"ties"`
	Monitors []*Monitor     `json:"monitors"`
	Notes    []string       `json:"notes,omitempty"`
	Extra    map[string]any `json:"extra,omitempty"`
}

func NewResult(property string, f Flags) *Result {
	return &Result{Property: property, Tier: f.Tier, Seed: f.Seed, Extra: map[string]any{}}
}

func (r *Result) Tie(name, kind, rule string) *Tie {
	t := NewTie(name, kind, rule)
	r.Ties = append(r.Ties, t)
	return t
}

func (r *Result) Monitor(name, rule string) *Monitor {
	m := NewMonitor(name, rule)
	r.Monitors = append(r.Monitors, m)
	return m
}

func (r *Result) Write(outdir string) error {
	for _, t := range r.Ties {
		if t.Samples == nil {
			t.Samples = []any{}
		}
		if t.Disagreements == nil {
			t.Disagreements = []Disagreement{}
		}
	}
	for _, m := range r.Monitors {
		if m.Samples == nil {
			m.Samples = []any{}
		}
		if m.Violations == nil {
			m.Violations = []*Violation{}
		}
		sort.Slice(m.Violations, func(i, j int) bool { return m.Violations[i].Signature < m.Violations[j].Signature })
	}
	b, err := json.MarshalIndent(r, "", " ")
	if err != nil {
		return err
	}
	if outdir == "" {
		_, err = os.Stdout.Write(append(b, '\n'))
		return err
	}
	if err := os.MkdirAll(outdir, 0o755); err != nil {
		return err
	}
	return os.WriteFile(filepath.Join(outdir, "result.json"), b, 0o644)
}

// Catch runs f and reports whether it panicked.
func Catch(f func()) (panicked bool, msg string) {
	defer func() {
		if r := recover(); r != nil {
			panicked = true
			msg = fmt.Sprint(r)
			_ = debug.Stack
		}
	}()
	f()
	return false, ""
}

// Replay file helpers -------------------------------------------------------------------------

type Replay struct {
	Property  string `json:"property"`
	Kind      string `json:"kind"` // "concrete" | "no-failing-input-found"
	Broken    any    `json:"broken,omitempty"`
	Signature string `json:"signature,omitempty"`
	What      string `json:"what,omitempty"`
	Seed      int64  `json:"seed"`
	Input     any    `json:"input,omitempty"`
	Expected  string `json:"expected,omitempty"`
	Observed  string `json:"observed,omitempty"`
}

func ReadReplay(path string) (*Replay, error) {
	b, err := os.ReadFile(path)
	if err != nil {
		return nil, err
	}
	var r Replay
	if err := json.Unmarshal(b, &r); err != nil {
		return nil, err
	}
	return &r, nil
}

func Fatal(err error) {
	fmt.Fprintln(os.Stderr, "harness error:", err)
	os.Exit(3)
}
