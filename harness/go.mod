module github.com/smart-core-os/sc-golang/verifharness

go 1.23

require (
	github.com/smart-core-os/sc-golang v0.0.0
	google.golang.org/protobuf v1.34.2
)

require github.com/smart-core-os/sc-api/go v1.0.0-beta.51

require google.golang.org/grpc v1.67.1 // indirect

replace github.com/smart-core-os/sc-golang => /repo
