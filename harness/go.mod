module github.com/smart-core-os/sc-golang/verifharness

go 1.23

require (
	github.com/google/go-cmp v0.6.0
	github.com/grpc-ecosystem/go-grpc-middleware/v2 v2.1.0
	github.com/mennanov/fmutils v0.1.1
	github.com/smart-core-os/sc-api/go v1.0.0-beta.51
	github.com/smart-core-os/sc-golang v0.0.0
	github.com/tanema/gween v0.0.0-20200427131925-c89ae23cc63c
	go.uber.org/zap v1.21.0
	golang.org/x/exp v0.0.0-20240823005443-9b4947da3948
	google.golang.org/grpc v1.67.1
	google.golang.org/protobuf v1.34.2
)

require (
	go.uber.org/atomic v1.9.0 // indirect
	go.uber.org/multierr v1.9.0 // indirect
	golang.org/x/net v0.29.0 // indirect
	golang.org/x/sys v0.25.0 // indirect
	golang.org/x/text v0.18.0 // indirect
	google.golang.org/genproto/googleapis/rpc v0.0.0-20240930140551-af27646dc61f // indirect
)

replace github.com/smart-core-os/sc-golang => /repo
