package main

import (
	"fmt"
	"math/rand"
	"strings"
	"time"

	"github.com/smart-core-os/sc-golang/internal/minibus"
	"github.com/smart-core-os/sc-golang/verifharness/lib"
)

// dropCase drives the real minibus.DropExcess goroutine one channel operation at a time:
// "r:<tok>" offers one input, "e" takes one output.
type dropCase struct {
	Kind       string   `json:"kind"` // "drun"
	Moves      []string `json:"moves"`
	CheckEmpty bool     `json:"check_empty"` // after the moves, when nothing should be pending, verify nothing is offered for a few ms
}

type dropObs struct {
	Outs      []string
	Pending   string // "-" or the message taken after the moves
	RecvBlock string
	MaxRecv   time.Duration
	Error     string
}

func (o dropObs) answer() string { return showChanges(o.Outs) + "|" + o.Pending }

// runCode: a take is attempted exactly when the slot must be full by the property itself (a message
// was offered since the last take); takes of an empty slot are recorded as "none" (and, for sampled
// cases, checked to yield nothing for a few ms).
func (c dropCase) runCode(_ []string) dropObs {
	obs := dropObs{Pending: "-"}
	in := make(chan any)
	out := minibus.DropExcess(in)
	defer func() {
		close(in)
		t := time.NewTimer(stepTimeout)
		defer t.Stop()
		for {
			select {
			case _, ok := <-out:
				if !ok {
					return
				}
			case <-t.C:
				obs.Error = "goroutine did not terminate after close(in)"
				return
			}
		}
	}()
	take := func(wait time.Duration) string {
		t := time.NewTimer(wait)
		defer t.Stop()
		select {
		case v, ok := <-out:
			if !ok {
				return "closed"
			}
			return fmt.Sprint(v)
		case <-t.C:
			return "timeout"
		}
	}
	full := false
	for _, mv := range c.Moves {
		if mv == "e" {
			if !full {
				got := "none"
				if c.CheckEmpty {
					if g := take(2 * time.Millisecond); g != "timeout" {
						got = g
					}
				}
				obs.Outs = append(obs.Outs, got)
				continue
			}
			obs.Outs = append(obs.Outs, take(stepTimeout))
			full = false
			continue
		}
		t0 := time.Now()
		t := time.NewTimer(stepTimeout)
		select {
		case in <- strings.TrimPrefix(mv, "r:"):
			if d := time.Since(t0); d > obs.MaxRecv {
				obs.MaxRecv = d
			}
		case <-t.C:
			obs.RecvBlock = mv
		}
		t.Stop()
		if obs.RecvBlock != "" {
			return obs
		}
		full = true
	}
	if full {
		obs.Pending = take(stepTimeout)
	} else if c.CheckEmpty {
		if got := take(3 * time.Millisecond); got != "timeout" {
			obs.Pending = got
		}
	}
	return obs
}

func (c dropCase) monitor(m *lib.Monitor, obs dropObs) {
	if obs.RecvBlock != "" {
		m.Violate("C09/DropExcess/recv-blocked", "an offered message was not accepted although nothing else was asked of the goroutine (a writer would block)", c, "accepted promptly", "blocked > 2s at "+obs.RecvBlock)
		return
	}
	if obs.Error != "" {
		m.Violate("C09/DropExcess/terminate", "the goroutine did not terminate", c, "closed", obs.Error)
		return
	}
	var sent, got []string
	for _, mv := range c.Moves {
		if mv != "e" {
			sent = append(sent, strings.TrimPrefix(mv, "r:"))
		}
	}
	for _, o := range obs.Outs {
		if o == "none" {
			continue
		}
		if o == "timeout" || o == "closed" {
			m.Violate("C09/DropExcess/emit-missing", "the buffered message was not offered to the consumer", c, "a message", o)
			return
		}
		got = append(got, o)
	}
	if obs.Pending != "-" {
		got = append(got, obs.Pending)
	}
	// subsequence, in order
	j := 0
	for _, g := range got {
		for j < len(sent) && sent[j] != g {
			j++
		}
		if j == len(sent) {
			m.Violate("C09/DropExcess/not-a-subsequence", "received messages must be a subsequence of the sent ones, in order", c, strings.Join(sent, " "), strings.Join(got, " "))
			return
		}
		j++
	}
	// after the final take the consumer holds the latest message
	if len(sent) > 0 {
		if len(got) == 0 || got[len(got)-1] != sent[len(sent)-1] {
			m.Violate("C09/DropExcess/latest-value", "the consumer must end up with the most recently sent message", c, sent[len(sent)-1], strings.Join(got, " "))
		}
	}
	m.Eval(strings.Join(c.Moves, " "), len(sent) > len(got), nil)
}

func runDrop(f lib.Flags, res *lib.Result, drv *lib.Driver) {
	tie := res.Tie("DropExcess-machine", "K1",
		"the REAL minibus.DropExcess goroutine driven through its channels one operation at a time vs the model's single-slot machine: ALL patterns of offer/take of length <= 9 (distinct message tokens), plus random patterns of length <= 60; compared: every taken message and the slot after the run (a sample of runs also checks that nothing is offered when the slot should be empty); non-trivial = at least two offers; distinct = the pattern")
	mon := res.Monitor("DropExcess-latest", "on the same runs, independent of the model: offers never block; what the consumer received is a subsequence of what was sent and ends with the most recent message; distinct = the pattern; non-trivial = something was dropped")
	var cases []dropCase
	L := f.N(9, 12)
	for n := 1; n <= L; n++ {
		for bits := 0; bits < 1<<n; bits++ {
			var moves []string
			k := 0
			for i := 0; i < n; i++ {
				if bits>>i&1 == 1 {
					k++
					moves = append(moves, fmt.Sprintf("r:m%d", k))
				} else {
					moves = append(moves, "e")
				}
			}
			cases = append(cases, dropCase{Kind: "drun", Moves: moves, CheckEmpty: bits%16 == 5})
		}
	}
	r := lib.NewRand(f.Seed + 13)
	for i, n := 0, f.N(500, 5000); i < n; i++ {
		cases = append(cases, genDropCase(r))
	}
	lines := make([]string, len(cases))
	for i, c := range cases {
		lines[i] = "drun " + strings.Join(c.Moves, " ")
	}
	ans, err := drv.Batch(lines)
	if err != nil {
		tie.Fail(err)
		return
	}
	var maxRecv time.Duration
	slow := 0
	for i, c := range cases {
		obs := c.runCode(nil)
		if obs.MaxRecv > maxRecv {
			maxRecv = obs.MaxRecv
		}
		nsent := 0
		for _, mv := range c.Moves {
			if mv != "e" {
				nsent++
			}
		}
		code := obs.answer()
		if obs.RecvBlock != "" || obs.Error != "" {
			code += "!" + obs.RecvBlock + obs.Error
		}
		tie.Record(strings.Join(c.Moves, " "), nsent >= 2, c, ans[i], code)
		c.monitor(mon, obs)
		if obs.RecvBlock != "" || obs.Error != "" || strings.Contains(code, "timeout") {
			slow++
			if slow > 8 {
				tie.Fail(fmt.Errorf("aborted after %d runs in which the goroutine did not respond within %s (last: %s)", slow, stepTimeout, code))
				break
			}
		}
	}
	res.Extra["DropExcess_max_input_accept_latency_us"] = maxRecv.Microseconds()
}

func genDropCase(r *rand.Rand) dropCase {
	n := 5 + r.Intn(56)
	var moves []string
	k := 0
	p := 1 + r.Intn(3)
	for i := 0; i < n; i++ {
		if r.Intn(4) < p {
			k++
			moves = append(moves, fmt.Sprintf("r:m%d", k))
		} else {
			moves = append(moves, "e")
		}
	}
	return dropCase{Kind: "drun", Moves: moves, CheckEmpty: r.Intn(20) == 0}
}
