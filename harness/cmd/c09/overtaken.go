package main

import (
	"context"
	"fmt"
	"strings"
	"sync"
	"time"

	"google.golang.org/grpc/status"
	"google.golang.org/protobuf/proto"
	"google.golang.org/protobuf/types/known/wrapperspb"

	"github.com/smart-core-os/sc-golang/pkg/resource"
	"github.com/smart-core-os/sc-golang/verifharness/lib"
)

// ---------------------------------------------------------------------------------------------------
// urun: an Update that is OVERTAKEN between its two reads
// ---------------------------------------------------------------------------------------------------
//
// Collection.Update reads the item, releases the lock, runs the caller's callbacks, takes the write lock, reads
// again, compares, saves, unlocks and then decides the kind of its event.  The rival writer is placed in the
// call's own InterceptBefore callback (the code runs it between the two reads, no lock held): no hooks, no
// timing.  Every pair (what the first read sees, what is stored at commit time) over absent (-), the empty
// message (_) and two values, with and without WithCreateIfAbsent.  Three subscribers: one with backpressure
// that keeps up (the tie compares the event it gets for the overtaken write: kind, old, new), a lossy one that
// keeps up, and a lossy one that is BEHIND from just before the overtaken write (an unrelated change sits in
// its forwarder) until after a Delete of the item that follows it — the window in which a wrong kind is not
// cosmetic: a second ADD merges with the REMOVE into nothing.

type urunCase struct {
	Kind     string `json:"kind"`      // "urun"
	CIA      bool   `json:"cia"`       // WithCreateIfAbsent
	AtRead   string `json:"at_read"`   // what the first read finds: - | _ | <val>
	AtCommit string `json:"at_commit"` // what the rival leaves stored before the commit: - | _ | <val>
	Msg      string `json:"msg"`
}

func (c urunCase) key() string {
	return fmt.Sprintf("cia=%s %s>%s %s", flag(c.CIA), c.AtRead, c.AtCommit, c.Msg)
}

func (c urunCase) modelLine() string {
	return fmt.Sprintf("ucommit %s %s %s %s", flag(c.CIA), c.AtRead, c.AtCommit, c.Msg)
}

func storedMsg(tok string) proto.Message {
	if tok == "_" {
		return wrapperspb.String("")
	}
	return wrapperspb.String(tok)
}

func storedTok(m proto.Message) string {
	t := tokOf(m)
	if t == "" {
		return "_"
	}
	return t
}

type urunObs struct {
	Outcome string // NotFound | Aborted | <other code> | ok
	Event   string // the overtaken write's event as the backpressured subscriber got it: KIND,old,new
	Streams map[string][]string
	Held    string // what the collection holds for the item at the end
	Stuck   string
}

func (o urunObs) answer() string {
	if o.Stuck != "" {
		return "!" + o.Stuck
	}
	if o.Outcome != "ok" {
		return o.Outcome
	}
	return o.Event
}

const urunID = "a"

func (c urunCase) runCode() (obs urunObs) {
	var copts []resource.Option
	if c.AtRead != "-" {
		copts = append(copts, resource.WithInitialRecord(urunID, storedMsg(c.AtRead)))
	}
	col := resource.NewCollection(copts...)
	ctx, cancel := context.WithCancel(context.Background())
	defer cancel()
	bpCh := col.Pull(ctx, resource.WithBackpressure(true))
	fastCh := col.Pull(ctx)
	slowCh := col.Pull(ctx, resource.WithBackpressure(true), resource.WithUpdatesOnly(false), resource.WithBackpressure(false))
	obs.Streams = map[string][]string{}
	var mu sync.Mutex
	var wg sync.WaitGroup
	show := func(ev *resource.CollectionChange) string {
		return strings.Join([]string{ev.Id, kindName(ev.ChangeType), storedTok2(ev.OldValue), storedTok2(ev.NewValue)}, ",")
	}
	collect := func(name string, ch <-chan *resource.CollectionChange) {
		wg.Add(1)
		go func() {
			defer wg.Done()
			for ev := range ch {
				mu.Lock()
				obs.Streams[name] = append(obs.Streams[name], show(ev))
				mu.Unlock()
			}
		}()
	}
	collect("bp", bpCh)
	collect("fast", fastCh)
	count := func(name string) int { mu.Lock(); defer mu.Unlock(); return len(obs.Streams[name]) }
	slowRecv := func(wait time.Duration) bool {
		select {
		case ev, ok := <-slowCh:
			if !ok {
				return false
			}
			mu.Lock()
			obs.Streams["slow"] = append(obs.Streams["slow"], show(ev))
			mu.Unlock()
			return true
		case <-time.After(wait):
			return false
		}
	}
	seeds := 0
	if c.AtRead != "-" {
		seeds = 1
		if !slowRecv(pipeWait) {
			obs.Stuck = "the slow reader's seed"
			return obs
		}
	}
	// the slow reader falls behind: an unrelated change goes into its forwarder's hand, nothing is received
	if ok, err := timedCall(pipeWait, func() error { _, err := col.Add("pad", wrapperspb.String("p")); return err }); !ok || err != nil {
		obs.Stuck = "the unrelated write"
		return obs
	}
	rivalEvents := 0
	rival := func() {
		if c.AtCommit == c.AtRead {
			return
		}
		if c.AtRead != "-" && (c.AtCommit == "-" || c.AtCommit == "_") {
			if _, err := col.Delete(urunID); err == nil {
				rivalEvents++
			}
		}
		switch {
		case c.AtCommit == "-":
		case c.AtRead == "-" || c.AtCommit == "_":
			if _, err := col.Add(urunID, storedMsg(c.AtCommit)); err == nil {
				rivalEvents++
			}
		default:
			if _, err := col.Update(urunID, storedMsg(c.AtCommit)); err == nil {
				rivalEvents++
			}
		}
	}
	ran := false
	wopts := []resource.WriteOption{resource.InterceptBefore(func(old, change proto.Message) {
		if !ran {
			ran = true
			rival()
			if rivalEvents > 0 {
				// the slow reader takes ONE event now (the unrelated one): its forwarder goes on to the rival's
				// change, and from here on the reader is behind again
				slowRecv(pipeWait)
			}
		}
	})}
	if c.CIA {
		wopts = append(wopts, resource.WithCreateIfAbsent())
	}
	ok, err := timedCall(pipeWait, func() error { _, err := col.Update(urunID, wrapperspb.String(c.Msg), wopts...); return err })
	if !ok {
		obs.Stuck = "the overtaken write did not return"
		return obs
	}
	obs.Outcome = "ok"
	if err != nil {
		obs.Outcome = status.Code(err).String()
	}
	want := seeds + 1 + rivalEvents // seed, pad, the rival's events
	if err == nil {
		want++
	}
	if !waitFor(pipeWait, func() bool { return count("bp") >= want }) {
		obs.Stuck = fmt.Sprintf("the backpressured subscriber got %d of %d events", count("bp"), want)
		return obs
	}
	if err == nil {
		mu.Lock()
		f := fields(obs.Streams["bp"][want-1])
		mu.Unlock()
		obs.Event = strings.Join(f[1:], ",")
	}
	// the item is deleted (if it is there), a fence is written, the slow reader reads on
	if _, present := col.Get(urunID); present {
		if ok, err := timedCall(pipeWait, func() error { _, err := col.Delete(urunID); return err }); !ok || err != nil {
			obs.Stuck = "the delete that follows"
			return obs
		}
	}
	if ok, err := timedCall(pipeWait, func() error { _, err := col.Add("~", wrapperspb.String("f")); return err }); !ok || err != nil {
		obs.Stuck = "the fence write"
		return obs
	}
	fenced := func(name string) bool {
		mu.Lock()
		defer mu.Unlock()
		s := obs.Streams[name]
		return len(s) > 0 && strings.HasPrefix(s[len(s)-1], "~,")
	}
	for i := 0; i < 16 && !fenced("slow"); i++ {
		if !slowRecv(400 * time.Millisecond) {
			break
		}
	}
	waitFor(pipeWait, func() bool { return fenced("fast") && fenced("bp") })
	obs.Held = "-"
	if msg, ok := col.Get(urunID); ok {
		obs.Held = storedTok(msg)
	}
	cancel()
	wg.Wait()
	return obs
}

func storedTok2(m proto.Message) string {
	if m == nil {
		return "-"
	}
	return storedTok(m)
}

func (c urunCase) monitor(m *lib.Monitor, obs urunObs) {
	const sig = "C09/Collection/overtaken-update/"
	if obs.Stuck != "" {
		m.Violate(sig+"stuck", "a write or a delivery did not complete", c, "completes", obs.Stuck)
		return
	}
	// independent oracle: an Update that went through is a commit at what was stored at commit time
	if obs.Outcome == "ok" {
		kind, old := "UPDATE", c.AtCommit
		if c.AtCommit == "-" {
			kind = "ADD"
		}
		if want := kind + "," + old + "," + c.Msg; obs.Event != want {
			m.Violate(sig+"event-not-of-the-commit", "an Update that was overtaken between its two reads and still went through must announce the change it made to what was stored when it committed (ADD iff the item was absent then, else UPDATE from the value stored then)", c, want, obs.Event)
		}
	} else if c.AtRead == c.AtCommit && !(c.AtRead == "-" && !c.CIA) {
		m.Violate(sig+"spurious-failure", "nobody interfered and the write failed", c, "ok", obs.Outcome)
	}
	for _, name := range []string{"bp", "fast", "slow"} {
		view := map[string]string{}
		got := obs.Streams[name]
		chained := true
		for _, ev := range got {
			f := fields(ev)
			cur, present := view[f[0]]
			if !present {
				cur = "-"
			}
			if !wfAt(cur, f[1], f[2], f[3]) && chained {
				chained = false
				m.Violate(sig+name+"/old-value-chain", "an Update was overtaken between its two reads: a change delivered afterwards is not well formed at the subscriber's view", c, "well-formed at "+showView(view), ev+" (stream "+strings.Join(got, ";")+")")
			}
			if f[1] == "REMOVE" {
				delete(view, f[0])
			} else {
				view[f[0]] = f[3]
			}
		}
		want := map[string]string{"pad": "p", "~": "f"}
		if obs.Held != "-" {
			want[urunID] = obs.Held
		}
		if a, w := showView(view), showView(want); a != w {
			m.Violate(sig+name+"/fold-differs", "an Update was overtaken between its two reads, the item was deleted afterwards: the subscriber's received changes fold to a different view than the collection holds", c, w, a+" (stream "+strings.Join(got, ";")+")")
		}
	}
	m.Eval(c.key(), c.AtRead != c.AtCommit, nil)
	m.Count("outcome=" + obs.Outcome)
}

func runOvertaken(f lib.Flags, res *lib.Result, drv *lib.Driver) {
	tie := res.Tie("overtaken-update-event", "K2",
		"the model's firstRead / commit (UpdateKind.lean, driver op ucommit) vs the REAL resource.Collection.Update with the rival writer placed in the call's own InterceptBefore callback (run by the code between its two reads, no lock held; no hooks, no timing): EVERY pair (stored at the first read, stored at commit time) over absent, the empty message and two values x with/without WithCreateIfAbsent; compared: the error code, or the event a subscriber with backpressure gets for the write (kind, old, new); non-trivial = the rival changed the item; distinct = the case")
	tie.Exhaustive = true
	mon := res.Monitor("overtaken-update", "on the same runs, independent of the model: an overtaken Update that goes through announces ADD iff the item was absent at commit time, else UPDATE from the value stored then; an undisturbed one does not fail; three subscribers (backpressure; lossy keeping up; lossy that is BEHIND from before the overtaken write until after a Delete of the item that follows it — its subscription options are the list [backpressure true, …, backpressure false]): every stream chains per id and, after a fence, folds to what the collection holds; distinct = the case; non-trivial = the rival changed the item")
	var cases []urunCase
	for _, cia := range []bool{true, false} {
		for _, r := range []string{"-", "_", "x"} {
			for _, w := range []string{"-", "_", "x", "y"} {
				cases = append(cases, urunCase{Kind: "urun", CIA: cia, AtRead: r, AtCommit: w, Msg: "m"})
			}
		}
	}
	lines := make([]string, len(cases))
	for i, c := range cases {
		lines[i] = c.modelLine()
	}
	ans, err := drv.Batch(lines)
	if err != nil {
		tie.Fail(err)
		return
	}
	obss := make([]urunObs, len(cases))
	parallelDo(len(cases), func(i int) { obss[i] = cases[i].runCode() })
	for i, c := range cases {
		obs := obss[i]
		if obs.Stuck != "" { // a stall of a loaded machine does not repeat
			obs = c.runCode()
		}
		c.monitor(mon, obs)
		tie.Record(c.key(), c.AtRead != c.AtCommit, c, ans[i], obs.answer())
		tie.Count("outcome=" + obs.Outcome)
	}
}
