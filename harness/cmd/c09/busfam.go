package main

import (
	"context"
	"fmt"
	"sort"
	"strings"
	"sync/atomic"
	"time"

	"github.com/smart-core-os/sc-golang/internal/minibus"
	"github.com/smart-core-os/sc-golang/internal/verifhook"
	"github.com/smart-core-os/sc-golang/verifharness/lib"
)

// busCase: the REAL minibus.Bus (what Value.set, Collection.Update and Collection.Delete publish through, and
// what "with backpressure" means: Bus.Send blocks in listener.send until the receiver takes the event) with
// SEVERAL senders in progress at once — Value.Set and Collection.Update call Bus.Send after they have released
// the resource's lock, so two writers' sends overlap as soon as the first has to wait for a subscriber —,
// listeners that were cancelled but not collected yet, and listeners registered meanwhile.  One move at a time:
//
//	l      Listen (a new subscriber with backpressure: its channel is the listener's unbuffered channel)
//	c<k>   listener k's context is cancelled and its channel drained until the bus has closed it
//	s      a new sender starts Send(<n>) on its own goroutine: it skips cancelled listeners at once and parks
//	       at the first live one (behind the senders already parked there), or returns
//	r<k>   listener k's channel is received from once: the sender parked there first goes on
//
// Tied to the model's busStep (ScVerif/C09/Bus.lean, senders scheduled greedily by the driver;
// C09_bus_exactly_once, C09_bus_collect_keeps_live, C09_bus_send_progress).
type busCase struct {
	Kind  string   `json:"kind"` // "busrun"
	Moves []string `json:"moves"`
}

func (c busCase) key() string       { return strings.Join(c.Moves, " ") }
func (c busCase) modelLine() string { return "busrun " + strings.Join(c.Moves, " ") }

type busObs struct {
	Outs       []string
	Received   [][]int // per listener
	RegAt      []int   // per listener: how many sends had started when it was registered
	Cancelled  []bool
	Sends      int
	Failed     []int // sends that returned false
	Unreturned []int
	Unsynced   bool
}

func (o busObs) handed() string {
	parts := make([]string, len(o.Received))
	for k, r := range o.Received {
		if len(r) == 0 {
			parts[k] = "-"
			continue
		}
		s := make([]string, len(r))
		for i, e := range r {
			s[i] = fmt.Sprint(e)
		}
		parts[k] = strings.Join(s, ",")
	}
	return strings.Join(parts, ";")
}

func (o busObs) answer() string { return strings.Join(o.Outs, " ") + "|" + o.handed() }

// stripBusPos: "e0:p1#2" -> "e0:parked", "0:ret" -> "0:ret" (where a sender is parked is used for waiting only)
func stripBusPos(ans string) string {
	parts := strings.SplitN(ans, "|", 2)
	outs := strings.Split(parts[0], " ")
	for i, o := range outs {
		if j := strings.Index(o, ":p"); j >= 0 {
			outs[i] = o[:j] + ":parked"
		}
	}
	if len(parts) == 2 {
		return strings.Join(outs, " ") + "|" + parts[1]
	}
	return strings.Join(outs, " ")
}

type busWriter struct {
	done     chan bool
	ctr      *atomic.Int64
	ret      bool
	parkedAt int64 // the count at which the sender was last seen parked
}

func (c busCase) runCode(model string) (obs busObs) {
	var bus minibus.Bus
	root, stop := context.WithCancel(context.Background())
	defer stop()
	type lst struct {
		ch     <-chan any
		cancel context.CancelFunc
	}
	var ls []lst
	var ws []*busWriter
	var mouts []string
	if model != "" && !strings.HasPrefix(model, "!") {
		mouts = strings.Split(strings.SplitN(model, "|", 2)[0], " ")
	}
	haveModel := len(mouts) == len(c.Moves)
	synced := haveModel
	recv := func(k int, wait time.Duration) (int, string) {
		t := time.NewTimer(wait)
		defer t.Stop()
		select {
		case ev, ok := <-ls[k].ch:
			if !ok {
				return 0, "closed"
			}
			n, _ := ev.(int)
			obs.Received[k] = append(obs.Received[k], n)
			return n, ""
		case <-t.C:
			return 0, "timeout"
		}
	}
	// follow: wait until sender e stands where the model says; returns what was observed of it
	follow := func(e int, pos string) string {
		w := ws[e]
		returned := func(wait time.Duration) bool {
			if w.ret {
				return true
			}
			t := time.NewTimer(wait)
			defer t.Stop()
			select {
			case ok := <-w.done:
				w.ret = true
				if !ok {
					obs.Failed = append(obs.Failed, e)
				}
				return true
			case <-t.C:
				return false
			}
		}
		switch {
		case !synced:
			// without the model: the sender released by this move comes to its next listener (the yield point
			// counts) or returns; it is parked once the count has stopped moving
			for t0 := time.Now(); w.ctr.Load() <= w.parkedAt && time.Since(t0) < 100*time.Millisecond; {
				if returned(50 * time.Microsecond) {
					return "ret"
				}
			}
			for {
				v := w.ctr.Load()
				if returned(300 * time.Microsecond) {
					return "ret"
				}
				if w.ctr.Load() == v {
					w.parkedAt = v
					return "parked"
				}
			}
		case pos == "ret":
			if returned(pipeWait) {
				return "ret"
			}
			obs.Unsynced, synced = true, false
			return "parked"
		default:
			var want int64
			if i := strings.Index(pos, "#"); i >= 0 {
				fmt.Sscanf(pos[i+1:], "%d", &want)
			}
			if !waitCount(w.ctr, want, pipeWait) {
				obs.Unsynced, synced = true, false
			}
			w.parkedAt = want
			settle()
			if returned(0) {
				return "ret"
			}
			return "parked"
		}
	}
	for i, mv := range c.Moves {
		mo := ""
		if haveModel {
			mo = mouts[i]
		}
		switch mv[0] {
		case 'l':
			ctx, cancel := context.WithCancel(root)
			ls = append(ls, lst{bus.Listen(ctx), cancel})
			obs.Received = append(obs.Received, nil)
			obs.RegAt = append(obs.RegAt, len(ws))
			obs.Cancelled = append(obs.Cancelled, false)
			obs.Outs = append(obs.Outs, "ok")
		case 'c':
			var k int
			fmt.Sscanf(mv[1:], "%d", &k)
			if k >= len(ls) {
				obs.Outs = append(obs.Outs, "ok")
				continue
			}
			ls[k].cancel()
			obs.Cancelled[k] = true
			for { // until the bus has closed the channel (senders parked here are released by the cancellation)
				if _, what := recv(k, pipeWait); what != "" {
					break
				}
			}
			obs.Outs = append(obs.Outs, "ok")
		case 's':
			e := len(ws)
			w := &busWriter{done: make(chan bool, 1), ctr: new(atomic.Int64)}
			ws = append(ws, w)
			go func() {
				id := verifhook.GoID()
				xrunWriters.Store(id, w.ctr)
				defer xrunWriters.Delete(id)
				w.done <- bus.Send(context.Background(), e)
			}()
			pos := ""
			if j := strings.Index(mo, ":"); j >= 0 {
				pos = mo[j+1:]
			}
			obs.Outs = append(obs.Outs, fmt.Sprintf("e%d:%s", e, follow(e, pos)))
		case 'r':
			var k int
			fmt.Sscanf(mv[1:], "%d", &k)
			if k >= len(ls) || obs.Cancelled[k] {
				obs.Outs = append(obs.Outs, "none")
				continue
			}
			var e int
			var what string
			switch {
			case !synced:
				e, what = recv(k, time.Millisecond)
			case mo == "none":
				what = "timeout"
				if i%4 == 2 {
					e, what = recv(k, 300*time.Microsecond)
				}
			default:
				if e, what = recv(k, pipeWait); what != "" {
					obs.Unsynced, synced = true, false
				}
			}
			if what != "" {
				obs.Outs = append(obs.Outs, "none")
				continue
			}
			pos := ""
			if j := strings.Index(mo, ":"); j >= 0 && synced {
				pos = mo[j+1:]
				var me int
				if _, err := fmt.Sscanf(mo[:j], "%d", &me); err != nil || me != e {
					synced = false // another sender than the model's: go on by time
				}
			}
			if e < 0 || e >= len(ws) {
				obs.Outs = append(obs.Outs, fmt.Sprintf("%d:?", e))
				continue
			}
			obs.Outs = append(obs.Outs, fmt.Sprintf("%d:%s", e, follow(e, pos)))
		}
	}
	obs.Sends = len(ws)
	// the verdict of the monitor must not depend on the model's schedule: if the run left it, keep every live
	// listener receiving until all senders have returned (bounded)
	if !synced {
		deadline := time.Now().Add(pipeWait)
		for time.Now().Before(deadline) {
			open := false
			for _, w := range ws {
				if !w.ret {
					select {
					case ok := <-w.done:
						w.ret = true
						_ = ok
					default:
						open = true
					}
				}
			}
			if !open {
				break
			}
			for k := range ls {
				if !obs.Cancelled[k] {
					recv(k, time.Millisecond)
				}
			}
		}
	}
	for e, w := range ws {
		if !w.ret {
			select {
			case ok := <-w.done:
				w.ret = true
				if !ok {
					obs.Failed = append(obs.Failed, e)
				}
			case <-time.After(300 * time.Millisecond):
				obs.Unreturned = append(obs.Unreturned, e)
			}
		}
	}
	// release whoever is still parked
	stop()
	return obs
}

// monitor: independent of the model.  Oracle: listener k is in the snapshot of send e iff it was registered
// before e started (and not collected: only cancelled listeners are collected).
func (c busCase) monitor(m *lib.Monitor, obs busObs) {
	const sig = "C09/Bus/overlapping-sends/"
	if len(obs.Failed) > 0 {
		m.Violate(sig+"send-failed", "Bus.Send reported failure although its context is live", c, "true", fmt.Sprintf("sends %v returned false", obs.Failed))
	}
	if len(obs.Unreturned) > 0 {
		m.Violate(sig+"send-did-not-return", "a Send did not return although every live listener received once per send and once more", c, "all sends return", fmt.Sprintf("sends %v still blocked; received %v", obs.Unreturned, obs.Received))
		return
	}
	overlapped := false
	for k, got := range obs.Received {
		seen := map[int]int{}
		for _, e := range got {
			seen[e]++
			if seen[e] == 2 {
				m.Violate(sig+"event-delivered-twice", "a listener was handed the same event twice (with several senders in progress and a cancelled listener being collected)", c, "each event once", fmt.Sprintf("listener %d received %v", k, got))
			}
			if e < obs.RegAt[k] {
				m.Violate(sig+"delivered-to-later-listener", "a listener was handed an event whose Send had started before the listener was registered", c, fmt.Sprintf("only events >= %d", obs.RegAt[k]), fmt.Sprintf("listener %d received %v", k, got))
			}
		}
		if obs.Cancelled[k] {
			continue
		}
		for e := obs.RegAt[k]; e < obs.Sends; e++ {
			if seen[e] == 0 {
				m.Violate(sig+"event-dropped", "with backpressure nothing is dropped: a live listener that kept receiving was never handed the event of a Send that started after it was registered and has returned", c, fmt.Sprintf("listener %d receives every event from %d to %d", k, obs.RegAt[k], obs.Sends-1), fmt.Sprintf("listener %d received %v", k, got))
				break
			}
		}
		if !sort.IntsAreSorted(got) {
			overlapped = true
		}
	}
	m.Eval(c.key(), obs.Sends >= 2, nil)
	m.Count(fmt.Sprintf("sends=%d", obs.Sends))
	if overlapped {
		m.Count("a listener received two overlapping sends' events in the other order")
	}
}

// finalRounds: every live listener receives once per send and once more, in registration order
func finalRounds(listeners int, cancelled map[int]bool, sends int) []string {
	var ms []string
	for round := 0; round <= sends; round++ {
		for k := 0; k < listeners; k++ {
			if !cancelled[k] {
				ms = append(ms, fmt.Sprintf("r%d", k))
			}
		}
	}
	return ms
}

func genBusCases(f lib.Flags) []busCase {
	var cases []busCase
	type cfg struct {
		listeners int
		dead      []int // cancelled before the first send: registered, not collected yet
		cancels   bool  // cancellations also among the moves
		maxSends  int
		L         int
	}
	cfgs := []cfg{
		{4, []int{0}, false, 2, f.N(6, 7)}, {4, []int{1}, false, 2, f.N(5, 6)}, {3, []int{0}, false, 3, f.N(6, 7)},
		{3, nil, false, 3, f.N(5, 6)}, {3, []int{1}, true, 2, f.N(4, 5)}, {2, nil, true, 3, f.N(5, 6)}, {4, []int{0, 2}, false, 2, f.N(5, 6)},
	}
	for _, g := range cfgs {
		var prefix []string
		for k := 0; k < g.listeners; k++ {
			prefix = append(prefix, "l")
		}
		dead := map[int]bool{}
		for _, k := range g.dead {
			prefix = append(prefix, fmt.Sprintf("c%d", k))
			dead[k] = true
		}
		var rec func(n int, body []string, sends int, cancelled map[int]bool)
		rec = func(n int, body []string, sends int, cancelled map[int]bool) {
			if len(body) > 0 && sends > 0 {
				ms := append(append([]string{}, prefix...), body...)
				ms = append(ms, finalRounds(g.listeners, cancelled, sends)...)
				cases = append(cases, busCase{Kind: "busrun", Moves: ms})
			}
			if n == 0 {
				return
			}
			if sends < g.maxSends {
				rec(n-1, append(body, "s"), sends+1, cancelled)
			}
			for k := 0; k < g.listeners; k++ {
				if cancelled[k] {
					continue
				}
				if sends > 0 {
					rec(n-1, append(body, fmt.Sprintf("r%d", k)), sends, cancelled)
				}
				if g.cancels {
					c2 := map[int]bool{k: true}
					for x := range cancelled {
						c2[x] = true
					}
					rec(n-1, append(body, fmt.Sprintf("c%d", k)), sends, c2)
				}
			}
		}
		rec(g.L, nil, 0, dead)
	}
	// random longer ones: listeners come and go while up to four sends are in progress
	r := lib.NewRand(f.Seed + 23)
	for i, n := 0, f.N(400, 4000); i < n; i++ {
		var ms []string
		listeners, sends := 0, 0
		cancelled := map[int]bool{}
		for k, n0 := 0, 1+r.Intn(3); k < n0; k++ {
			ms = append(ms, "l")
			listeners++
		}
		for t, L := 0, 4+r.Intn(16); t < L; t++ {
			switch x := r.Intn(10); {
			case x == 0 && listeners < 5:
				ms = append(ms, "l")
				listeners++
			case x == 1:
				k := r.Intn(listeners)
				if !cancelled[k] {
					ms = append(ms, fmt.Sprintf("c%d", k))
					cancelled[k] = true
				}
			case x <= 4 && sends < 4:
				ms = append(ms, "s")
				sends++
			default:
				ms = append(ms, fmt.Sprintf("r%d", r.Intn(listeners)))
			}
		}
		if sends == 0 {
			ms = append(ms, "s")
			sends++
		}
		ms = append(ms, finalRounds(listeners, cancelled, sends)...)
		cases = append(cases, busCase{Kind: "busrun", Moves: ms})
	}
	return cases
}

// runBusConfirmed: a disagreement or a violation is reported only if it shows again in each of two immediate
// re-runs of the same case (the queueing order of two senders at one listener is waited for, not forced: on a
// loaded machine a sender can be overtaken between the hook it is counted at and the channel it parks on).
func (c busCase) runConfirmed(model string) (obs busObs, priv *lib.Monitor) {
	for attempt := 0; attempt < 3; attempt++ {
		obs = c.runCode(model)
		priv = lib.NewMonitor("private", "")
		c.monitor(priv, obs)
		if len(priv.Violations) == 0 && (obs.Unsynced || stripBusPos(model) == obs.answer()) {
			break
		}
	}
	return obs, priv
}

func runBus(f lib.Flags, res *lib.Result, drv *lib.Driver) {
	tie := res.Tie("bus-overlapping-sends", "K1",
		"the REAL minibus.Bus (the publish path of Value.set / Collection.Update / Collection.Delete; a plain listener is a subscriber with backpressure) with up to 3 (random: 4) senders in progress AT ONCE, listeners cancelled but not collected yet, cancelled and registered meanwhile, one move at a time (l = Listen, c<k> = cancel listener k and drain its channel until closed, s = a new sender starts Send on its own goroutine, r<k> = listener k is received from once; after every move the harness waits until the sender concerned has returned or stands at the listener the model says, counted by the yield point in Send's loop on the sender's goroutine; final rounds: every live listener receives once per send and once more) vs the model's busStep with senders scheduled greedily (FIFO among the senders parked at one listener): ALL move sequences up to length L (quick 4..6, thorough 5..7) over {s, r<k>[, c<k>]} for 2..4 listeners of which none / the first / a middle one / two are cancelled beforehand, plus random longer ones with listeners coming and going; cases in which a listener with a parked sender is cancelled are not tied (the released senders race); compared: which sender each receive releases, whether it then returns or parks again, and what every listener has been handed in the end; a case that differs is re-run twice; non-trivial = at least two sends; distinct = the moves")
	mon := res.Monitor("bus-exactly-once", "on the same runs, independent of the model (oracle: a listener is owed the events of the sends that started after it was registered): with several senders in progress, cancelled listeners being skipped and collected, every live listener that keeps receiving is handed every such event exactly once — never twice, never an event of an earlier send —, every Send returns true once the live listeners have received; a failing case is re-run twice; distinct = the moves; non-trivial = at least two sends")
	verifhook.Set(xrunHook)
	defer verifhook.Set(nil)
	cases := genBusCases(f)
	lines := make([]string, len(cases))
	for i, c := range cases {
		lines[i] = c.modelLine()
	}
	ans, err := drv.Batch(lines)
	if err != nil {
		tie.Fail(err)
		return
	}
	slow := 0
	const chunk = 256
	for lo := 0; lo < len(cases); lo += chunk {
		hi := lo + chunk
		if hi > len(cases) {
			hi = len(cases)
		}
		obss := make([]busObs, hi-lo)
		privs := make([]*lib.Monitor, hi-lo)
		parallelDo(hi-lo, func(j int) { obss[j], privs[j] = cases[lo+j].runConfirmed(ans[lo+j]) })
		for j, obs := range obss {
			c := cases[lo+j]
			c.monitor(mon, obs)
			switch {
			case strings.HasPrefix(ans[lo+j], "!race"):
				tie.Count("a listener with a parked sender is cancelled (released senders race; monitor only)")
			case obs.Unsynced:
				tie.Count("unsynced (a sender did not reach the model's position within 2s; monitor only)")
				slow++
			default:
				tie.Record(c.key(), obs.Sends >= 2, c, stripBusPos(ans[lo+j]), obs.answer())
				tie.Count(fmt.Sprintf("sends=%d", obs.Sends))
			}
			if len(obs.Unreturned) > 0 {
				slow++
			}
		}
		if slow > 6 {
			tie.Fail(fmt.Errorf("aborted after %d cases in which a sender did not reach the model's position within %s", slow, pipeWait))
			break
		}
	}
}
