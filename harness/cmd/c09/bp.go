package main

import (
	"context"
	"fmt"
	"strings"
	"sync/atomic"
	"time"

	"google.golang.org/protobuf/types/known/wrapperspb"

	"github.com/smart-core-os/sc-golang/pkg/resource"
	"github.com/smart-core-os/sc-golang/verifharness/lib"
)

// brunCase: ONE backpressured subscriber (Value.Pull / Collection.Pull with WithBackpressure(true)) and
// ONE writer, one move at a time:
//
//	w   the writer starts its next write t<n> (Set / Update of item "a") unless its previous one is still
//	    waiting; the model says whether it goes through at once (the forwarder holds nothing) or waits
//	d   the consumer receives once; a waiting write then goes through
//
// Tied to the model's `bstep` (ScVerif/C09/Subs.lean, theorem C09_backpressure_lossless).
type brunCase struct {
	Kind   string   `json:"kind"`   // "brun"
	Target string   `json:"target"` // value | collection
	Seed   bool     `json:"seed"`   // subscribe with the current value as seed (else WithUpdatesOnly)
	Moves  []string `json:"moves"`
}

type brunObs struct {
	Skipped  bool
	Outs     []string
	Drain    []string
	Started  []string // tokens of the writes started, in order
	Received []string
	Early    string // a write returned although the forwarder still held an undelivered event
	Stuck    string
	WriteErr string
}

func (o brunObs) answer() string { return showOuts(o.Outs) + "|" + showOuts(o.Drain) }

func (c brunCase) modelLine() string {
	seed := "-"
	if c.Seed {
		seed = "s0"
	}
	return "brun " + seed + " " + strings.Join(c.Moves, " ")
}

func (c brunCase) key() string {
	return fmt.Sprintf("%s/%v/%s", c.Target, c.Seed, strings.Join(c.Moves, ""))
}

// brunStuck counts, across the workers, the runs in which a write or a receive did not complete within
// its bound; after a few of them the remaining cases are skipped (a broken tree must not stretch the run).
var brunStuck atomic.Int64

func (c brunCase) runCode(model string) (obs brunObs) {
	if brunStuck.Load() > 4 {
		obs.Skipped = true
		return obs
	}
	defer func() {
		if obs.Stuck != "" {
			brunStuck.Add(1)
		}
	}()
	ctx, cancel := context.WithCancel(context.Background())
	defer cancel()
	ropts := []resource.ReadOption{resource.WithBackpressure(true)}
	if !c.Seed {
		ropts = append(ropts, resource.WithUpdatesOnly(true))
	}
	var write func(tok string) error
	var recv func(wait time.Duration) string
	if c.Target == "value" {
		v := resource.NewValue(resource.WithInitialValue(wrapperspb.String("s0")))
		ch := v.Pull(ctx, ropts...)
		write = func(tok string) error { _, err := v.Set(wrapperspb.String(tok)); return err }
		recv = func(wait time.Duration) string {
			t := time.NewTimer(wait)
			defer t.Stop()
			select {
			case ev, ok := <-ch:
				if !ok {
					return "closed"
				}
				return tokOf(ev.Value)
			case <-t.C:
				return "timeout"
			}
		}
	} else {
		col := resource.NewCollection(resource.WithInitialRecord("a", wrapperspb.String("s0")))
		ch := col.Pull(ctx, ropts...)
		write = func(tok string) error { _, err := col.Update("a", wrapperspb.String(tok)); return err }
		recv = func(wait time.Duration) string {
			t := time.NewTimer(wait)
			defer t.Stop()
			select {
			case ev, ok := <-ch:
				if !ok {
					return "closed"
				}
				if ev.Id != "a" || ev.NewValue == nil {
					return showChange(ev, false)
				}
				return tokOf(ev.NewValue)
			case <-t.C:
				return "timeout"
			}
		}
	}
	mouts, mtail, haveModel := splitModel(model, len(c.Moves), ";")
	seedN := 0
	if c.Seed {
		seedN = 1
	}
	var pending chan error
	pendingTok := ""
	completed := 0
	next := 1
	done := func(wait time.Duration) bool { // has the pending write returned (within wait)?
		t := time.NewTimer(wait)
		defer t.Stop()
		select {
		case err := <-pending:
			if err != nil && obs.WriteErr == "" {
				obs.WriteErr = pendingTok + ": " + err.Error()
			}
			pending = nil
			completed++
			return true
		case <-t.C:
			return false
		}
	}
	capacity := func(where string) {
		// the forwarder holds at most one event: seed + completed writes - received <= 1
		if obs.Early == "" && seedN+completed-len(obs.Received) > 1 {
			obs.Early = fmt.Sprintf("%s: %d writes returned (+%d seed) but the consumer received only %d", where, completed, seedN, len(obs.Received))
		}
	}
	take := func(wait time.Duration) string {
		g := recv(wait)
		if g != "timeout" && g != "closed" {
			obs.Received = append(obs.Received, g)
		}
		return g
	}
	for i, mv := range c.Moves {
		mo := ""
		if haveModel {
			mo = mouts[i]
		}
		if mv == "w" {
			if pending != nil {
				if done(0) {
					obs.Outs = append(obs.Outs, "returned:"+pendingTok)
				} else {
					obs.Outs = append(obs.Outs, "still:"+pendingTok)
				}
				capacity(fmt.Sprintf("move %d", i))
				continue
			}
			tok := fmt.Sprintf("t%d", next)
			next++
			obs.Started = append(obs.Started, tok)
			ch := make(chan error, 1)
			go func() { ch <- write(tok) }()
			pending, pendingTok = ch, tok
			wait := 300 * time.Microsecond
			switch {
			case !haveModel:
				wait = 20 * time.Millisecond
			case strings.HasPrefix(mo, "ok:"):
				wait = pipeWait
			case i%4 == 1:
				wait = 2 * time.Millisecond
			}
			if done(wait) {
				obs.Outs = append(obs.Outs, "ok:"+tok)
			} else if haveModel && strings.HasPrefix(mo, "ok:") {
				obs.Outs = append(obs.Outs, "stuck:"+tok)
				obs.Stuck = tok
				return obs
			} else {
				obs.Outs = append(obs.Outs, "wait:"+tok)
			}
			capacity(fmt.Sprintf("move %d", i))
			continue
		}
		var got string
		switch {
		case !haveModel:
			if got = take(30 * time.Millisecond); got == "timeout" {
				got = "none"
			}
		case strings.HasPrefix(mo, "none"):
			got = "none"
			if i%5 == 2 {
				if g := take(500 * time.Microsecond); g != "timeout" {
					got = g
				}
			}
		default:
			got = take(pipeWait)
		}
		if pending != nil && got != "none" {
			w := pipeWait
			if !haveModel {
				w = 30 * time.Millisecond
			}
			tok := pendingTok
			if done(w) {
				got += "+" + tok
			} else {
				got += "+stuck:" + tok
				obs.Stuck = tok
				obs.Outs = append(obs.Outs, got)
				return obs
			}
		}
		obs.Outs = append(obs.Outs, got)
		capacity(fmt.Sprintf("move %d", i))
	}
	// drain: everything started must come out
	n := 4
	if haveModel {
		n = len(listOf(mtail[0]))
	}
	for k := 0; k < n; k++ {
		w := pipeWait
		if !haveModel {
			w = 30 * time.Millisecond
		}
		g := take(w)
		if g == "timeout" && !haveModel {
			break
		}
		obs.Drain = append(obs.Drain, g)
		if pending != nil {
			if !done(w) {
				obs.Stuck = pendingTok
				return obs
			}
		}
		capacity("drain")
	}
	if g := take(300 * time.Microsecond); g != "timeout" {
		obs.Drain = append(obs.Drain, g)
	}
	if pending != nil && !done(pipeWait) {
		obs.Stuck = pendingTok
	}
	return obs
}

func (c brunCase) monitor(m *lib.Monitor, obs brunObs) {
	T := "Value"
	if c.Target == "collection" {
		T = "Collection"
	}
	if obs.Stuck != "" {
		m.Violate("C09/"+T+"/backpressure/pipeline/writer-stuck", "a write did not return although the forwarder held nothing / the consumer had received", c, "return", "write "+obs.Stuck+" still blocked")
		return
	}
	if obs.WriteErr != "" {
		m.Violate("C09/"+T+"/backpressure/pipeline/write-error", "a write failed although the subscriber received within milliseconds", c, "nil", obs.WriteErr)
	}
	if obs.Early != "" {
		m.Violate("C09/"+T+"/backpressure/pipeline/writer-did-not-wait", "with backpressure a write returned while the forwarder still held an undelivered event (writers must wait for delivery)", c, "at most one undelivered event", obs.Early)
	}
	want := append([]string{}, obs.Started...)
	if c.Seed {
		want = append([]string{"s0"}, want...)
	}
	if strings.Join(obs.Received, " ") != strings.Join(want, " ") {
		m.Violate("C09/"+T+"/backpressure/pipeline/dropped-or-reordered", "with backpressure and a subscriber that (eventually) receives, every write must arrive, in order, after the seed", c, strings.Join(want, " "), strings.Join(obs.Received, " "))
	}
	m.Eval(c.key(), len(obs.Started) >= 2, nil)
}

func runBackpressure(f lib.Flags, res *lib.Result, drv *lib.Driver) {
	tie := res.Tie("backpressure-subscriber", "K1",
		"the REAL resource.Value / resource.Collection with ONE backpressured Pull subscriber and ONE writer, one move at a time (w = the writer starts its next write unless its previous one is still waiting, d = the consumer receives once) vs the model's bstep: ALL patterns of w/d up to length L (quick 9, thorough 12) x {Value, Collection} x {seeded, updates-only}; compared: for every write whether it returns at once or waits, when the waiting write returns, what every receive and a final drain yield; non-trivial = at least two writes; distinct = (target, seed, pattern)")
	mon := res.Monitor("backpressure-lossless", "on the same runs, independent of the model: the consumer receives the seed and then exactly the writes started, in order; at no time have more writes returned than the consumer has received plus the one event the forwarder can hold (writers wait for delivery); every write returns once the consumer has received; no write fails; distinct = the case")
	var cases []brunCase
	L := f.N(9, 12)
	for _, target := range []string{"value", "collection"} {
		for _, seed := range []bool{true, false} {
			for n := 1; n <= L; n++ {
				for bits := 0; bits < 1<<n; bits++ {
					moves := make([]string, n)
					for i := range moves {
						if bits>>i&1 == 1 {
							moves[i] = "w"
						} else {
							moves[i] = "d"
						}
					}
					cases = append(cases, brunCase{Kind: "brun", Target: target, Seed: seed, Moves: moves})
				}
			}
		}
	}
	lines := make([]string, len(cases))
	for i, c := range cases {
		lines[i] = c.modelLine()
	}
	ans, err := drv.Batch(lines)
	if err != nil {
		tie.Fail(err)
		return
	}
	slow := 0
	const chunk = 256
	for lo := 0; lo < len(cases); lo += chunk {
		hi := lo + chunk
		if hi > len(cases) {
			hi = len(cases)
		}
		obss := make([]brunObs, hi-lo)
		parallelDo(hi-lo, func(j int) { obss[j] = cases[lo+j].runCode(ans[lo+j]) })
		for j, obs := range obss {
			c := cases[lo+j]
			if obs.Skipped {
				tie.Count("skipped after stuck runs")
				continue
			}
			c.monitor(mon, obs)
			code := obs.answer()
			tie.Record(c.key(), len(obs.Started) >= 2, c, ans[lo+j], code)
			tie.Count("target=" + c.Target)
			if obs.Stuck != "" || strings.Contains(code, "timeout") {
				slow++
			}
		}
		if slow > 6 || brunStuck.Load() > 4 {
			tie.Fail(fmt.Errorf("aborted after %d cases in which a write or a receive did not complete within %s", slow, pipeWait))
			break
		}
	}
	tie.Exhaustive = true
}
