// Harness for C09 (lossy delivery preserves the folded view; slow readers never block writers): ties
// the Lean model (driverC09) to pkg/resource/backpressure.go and internal/minibus/util.go by driving
// the real goroutines one channel operation at a time, and evaluates the property on the real code.
package main

import (
	"encoding/json"
	"fmt"
	"os"
	"strings"
	"time"

	"github.com/smart-core-os/sc-golang/internal/verifhook"
	"github.com/smart-core-os/sc-golang/verifharness/lib"
)

func main() {
	f := lib.ParseFlags()
	if f.Replay != "" {
		os.Exit(replay(f))
	}
	res := lib.NewResult("C09", f)
	drv, err := lib.StartDriver(f.Driver)
	if err != nil {
		lib.Fatal(err)
	}
	defer drv.Close()
	ropts := startRopts(f)   // probes that only wait
	sets := startSetCases(f) // mostly waiting (the 5 s send timeout): runs next to everything below
	latMon := newLatencyMonitor(res)
	latDone := make(chan map[string]int64, 1)
	go func() { latDone <- runLatencyCases(f, latMon) }() // mostly waiting as well
	slowMon := newSlowReaderMonitor(res)
	slowDone := make(chan struct{})
	go func() { defer close(slowDone); runSlowReader(f, slowMon) }()
	timed := func(name string, run func()) {
		t0 := time.Now()
		run()
		res.Extra["wall_ms/"+name] = time.Since(t0).Milliseconds()
	}
	// the machine-level families touch neither the bus nor the hooks: they run next to the resource-level ones,
	// with a driver process and a result of their own (merged in below)
	resM := lib.NewResult("C09", f)
	machDone := make(chan struct{})
	go func() {
		defer close(machDone)
		drvM, err := lib.StartDriver(f.Driver)
		if err != nil {
			lib.Fatal(err)
		}
		defer drvM.Close()
		timedM := func(name string, run func()) {
			t0 := time.Now()
			run()
			resM.Extra["wall_ms/"+name] = time.Since(t0).Milliseconds()
		}
		timedM("mergeChanges-table", func() { runMergeTable(f, resM, drvM) })
		timedM("mergeExcess-machine", func() { runMachine(f, resM, drvM) })
		timedM("DropExcess-machine", func() { runDrop(f, resM, drvM) })
	}()
	timed("bus-send-deadline", func() { runSend(f, res, drv) })
	timed("value-pull-pipeline", func() { runValuePipeline(f, res, drv) })
	timed("collection-subscribers", func() { runCollectionPipelines(f, res, drv) })
	timed("backpressure-subscriber", func() { runBackpressure(f, res, drv) })
	timed("mixed-subscribers", func() { runMixed(f, res, drv) })
	timed("bus-overlapping-sends", func() { runBus(f, res, drv) })
	timed("two-writers", func() { runTwoWriters(f, res) })
	timed("slow-reader (rest of it)", func() { <-slowDone })
	timed("held-up-delete", func() { runHeldUpDelete(f, res, drv) })
	timed("overtaken-update", func() { runOvertaken(f, res, drv) })
	timed("overtaken-delete", func() { runOvertakenDelete(f, res, drv) })
	timed("trait-collection-stream", func() { runTraitPull(f, res) })
	timed("writers-and-subscribers (rest of it)", func() {
		for k, v := range <-latDone {
			res.Extra[k] = v
		}
	})
	timed("machine-level families (rest of them)", func() { <-machDone })
	res.Ties = append(resM.Ties, res.Ties...)
	res.Monitors = append(res.Monitors, resM.Monitors...)
	for k, v := range resM.Extra {
		res.Extra[k] = v
	}
	sets.finish(res, drv)
	timed("read-options-path (rest of it)", func() { ropts.finish(res, drv) })
	if err := res.Write(f.Out); err != nil {
		lib.Fatal(err)
	}
}

func replay(f lib.Flags) int {
	rp, err := lib.ReadReplay(f.Replay)
	if err != nil {
		lib.Fatal(err)
	}
	raw, err := json.Marshal(rp.Input)
	if err != nil || rp.Input == nil {
		fmt.Println("replay: no concrete input in file (", rp.Kind, rp.Broken, ")")
		return 2
	}
	var head struct {
		Kind string `json:"kind"`
	}
	_ = json.Unmarshal(raw, &head)
	m := lib.NewMonitor("replay", "")
	switch head.Kind {
	case "merge":
		var c mergeCase
		if err := json.Unmarshal(raw, &c); err != nil {
			lib.Fatal(err)
		}
		code := c.runCode()
		fmt.Printf("replay merge %s %s -> %s\n", c.A, c.B, code)
		c.monitor(m, code)
	case "mrun":
		var c machineCase
		if err := json.Unmarshal(raw, &c); err != nil {
			lib.Fatal(err)
		}
		obs := c.runCode(nil)
		fmt.Printf("replay mrun start=%v moves=%v -> %s\n", c.Start, c.Moves, obs.answer())
		c.monitor(m, obs)
	case "drun":
		var c dropCase
		if err := json.Unmarshal(raw, &c); err != nil {
			lib.Fatal(err)
		}
		obs := c.runCode(nil)
		fmt.Printf("replay drun %v -> %s\n", c.Moves, obs.answer())
		c.monitor(m, obs)
	case "send":
		var c sendCase
		if err := json.Unmarshal(raw, &c); err != nil {
			lib.Fatal(err)
		}
		kind, elapsed := c.runCode()
		fmt.Printf("replay %s -> %s after %s\n", c.line(), kind, elapsed)
		c.monitor(m, kind, elapsed)
	case "set":
		var c setCase
		if err := json.Unmarshal(raw, &c); err != nil {
			lib.Fatal(err)
		}
		obs := c.runCode()
		fmt.Printf("replay set %v -> %s after %s (returned %s, stored %s, err %q)\n", c.Subscribers, obs.Outcome, obs.Elapsed, obs.Returned, obs.Stored, obs.ErrText)
		c.monitor(m, obs)
	case "vrun":
		var c vrunCase
		if err := json.Unmarshal(raw, &c); err != nil {
			lib.Fatal(err)
		}
		obs := c.runCode("", nil)
		fmt.Printf("replay vrun %s -> %s (stored %s)\n", c.key(), obs.answer(), obs.Stored)
		c.monitor(m, obs)
	case "crun":
		var c crunCase
		if err := json.Unmarshal(raw, &c); err != nil {
			lib.Fatal(err)
		}
		obs := c.runCode("", nil)
		fmt.Printf("replay crun %s -> %s (list %s)\n", c.key(), obs.answer(), obs.Listed)
		c.monitor(m, obs)
	case "brun":
		var c brunCase
		if err := json.Unmarshal(raw, &c); err != nil {
			lib.Fatal(err)
		}
		obs := c.runCode("")
		fmt.Printf("replay brun %s -> %s (received %v)\n", c.key(), obs.answer(), obs.Received)
		c.monitor(m, obs)
	case "xrun":
		var c xrunCase
		if err := json.Unmarshal(raw, &c); err != nil {
			lib.Fatal(err)
		}
		obs := c.runCode("")
		fmt.Printf("replay xrun %s -> %s (received %v)\n", c.key(), obs.answer(), obs.Received)
		c.monitor(m, obs)
	case "srun":
		var c srunCase
		if err := json.Unmarshal(raw, &c); err != nil {
			lib.Fatal(err)
		}
		obs := c.runCode(nil)
		fmt.Printf("replay srun %s -> %s (list %s)\n", c.key(), strings.Join(obs.Got, ";"), obs.Listed)
		c.monitor(m, obs)
	case "prun":
		var c prunCase
		if err := json.Unmarshal(raw, &c); err != nil {
			lib.Fatal(err)
		}
		obs := c.runCode()
		fmt.Printf("replay prun %s -> %v (holds %v)\n", c.key(), obs.Streams, obs.Listed)
		c.monitor(m, obs)
	case "yrun":
		var c yrunCase
		if err := json.Unmarshal(raw, &c); err != nil {
			lib.Fatal(err)
		}
		verifhook.Set(xrunHook)
		obs := c.runCode()
		fmt.Printf("replay yrun %s -> %v\n", c.key(), obs.Received)
		c.monitor(m, obs)
	case "busrun":
		var c busCase
		if err := json.Unmarshal(raw, &c); err != nil {
			lib.Fatal(err)
		}
		verifhook.Set(xrunHook)
		obs, _ := c.runConfirmed("")
		fmt.Printf("replay busrun %s -> %s\n", c.key(), obs.answer())
		c.monitor(m, obs)
	case "urun":
		var c urunCase
		if err := json.Unmarshal(raw, &c); err != nil {
			lib.Fatal(err)
		}
		obs := c.runCode()
		fmt.Printf("replay urun %s -> %s (streams %v)\n", c.key(), obs.answer(), obs.Streams)
		c.monitor(m, obs)
	case "odel":
		var c odelCase
		if err := json.Unmarshal(raw, &c); err != nil {
			lib.Fatal(err)
		}
		verifhook.Set(odelHook)
		obs := c.runCode()
		fmt.Printf("replay odel %s -> %s (streams %v)\n", c.key(), obs.answer(), obs.Streams)
		c.monitor(m, obs)
	case "tpull":
		var c tpullCase
		if err := json.Unmarshal(raw, &c); err != nil {
			lib.Fatal(err)
		}
		obs := c.runCode()
		fmt.Printf("replay tpull %s -> %s (list %v)\n", c.key(), strings.Join(obs.Got, ";"), obs.Listed)
		c.monitor(m, obs)
	case "ropts":
		var c roptsCase
		if err := json.Unmarshal(raw, &c); err != nil {
			lib.Fatal(err)
		}
		obs := c.runCode()
		fmt.Printf("replay ropts %s -> %s\n", c.key(), obs.answer())
		c.monitor(m, obs)
	case "latency":
		var c latencyCase
		if err := json.Unmarshal(raw, &c); err != nil {
			lib.Fatal(err)
		}
		c.run(m)
	default:
		fmt.Println("replay: unknown input kind", head.Kind)
		return 2
	}
	if len(m.Violations) > 0 {
		for _, v := range m.Violations {
			fmt.Printf("STILL FAILS %s: %s (expected %s, observed %s)\n", v.Signature, v.What, v.Expected, v.Observed)
		}
		return 1
	}
	fmt.Println("replay: property holds on this input now")
	return 0
}
