package main

import (
	"context"
	"fmt"
	"strconv"
	"strings"
	"time"

	"github.com/smart-core-os/sc-golang/internal/minibus"
	"github.com/smart-core-os/sc-golang/verifharness/lib"
)

// sendCase ties the model of the send deadline (ScVerif/C09/SendTimeout.lean `busSend`) to the real
// minibus.Bus: listeners `<readyAt>/<cancelledAt>` in time units (`-` = never), Send with a deadline.
// The unit is large (sendUnit) and instants are whole units well apart, so the outcome does not depend
// on scheduling jitter; only the outcome kind is compared, the elapsed time is monitored coarsely.
type sendCase struct {
	Kind      string   `json:"kind"` // "send"
	Deadline  int      `json:"deadline"`
	Listeners []string `json:"listeners"`
}

const sendUnit = 200 * time.Millisecond

func (c sendCase) line() string {
	return strings.TrimSpace(fmt.Sprintf("send %d %s", c.Deadline, strings.Join(c.Listeners, " ")))
}

func optUnits(s string) (time.Duration, bool) {
	if s == "-" {
		return 0, false
	}
	n, _ := strconv.Atoi(s)
	return time.Duration(n) * sendUnit, true
}

func (c sendCase) runCode() (kind string, elapsed time.Duration) {
	var bus minibus.Bus
	root, stop := context.WithCancel(context.Background())
	defer stop()
	for _, l := range c.Listeners {
		q := strings.Split(l, "/")
		lctx, cancel := context.WithCancel(root)
		ch := bus.Listen(lctx)
		if d, ok := optUnits(q[0]); ok {
			go func() {
				select {
				case <-time.After(d):
				case <-root.Done():
					return
				}
				for range ch {
				}
			}()
		}
		if d, ok := optUnits(q[1]); ok {
			time.AfterFunc(d, cancel)
		} else {
			defer cancel()
		}
	}
	ctx, cancel := context.WithTimeout(context.Background(), time.Duration(c.Deadline)*sendUnit)
	defer cancel()
	t0 := time.Now()
	done := make(chan bool, 1)
	go func() { done <- bus.Send(ctx, "event") }()
	select {
	case ok := <-done:
		elapsed = time.Since(t0)
		if ok {
			return "ok", elapsed
		}
		return "deadline", elapsed
	case <-time.After(time.Duration(c.Deadline)*sendUnit + 5*time.Second):
		return "hang", time.Since(t0)
	}
}

func runSend(f lib.Flags, res *lib.Result, drv *lib.Driver) {
	tie := res.Tie("bus-send-deadline", "K1",
		"real minibus.Bus.Send with a context deadline of 3 time units (unit 200ms) over every list of 1-2 listeners (thorough: 1-3) whose receiver becomes ready at 0, 1 unit or never and whose listen context is cancelled at 1 unit or never, vs the model busSend; compared: the outcome (ok / deadline exceeded); non-trivial = all; distinct = the listener list")
	tie.Exhaustive = true
	mon := res.Monitor("send-never-hangs", "on the same runs: Send returns by its deadline (+3s tolerance) whatever the listeners do; it fails only if some listener neither receives nor is cancelled; distinct = the listener list")
	ready := []string{"0", "1", "-"}
	canc := []string{"-", "1"}
	var one []string
	for _, r := range ready {
		for _, c := range canc {
			one = append(one, r+"/"+c)
		}
	}
	var cases []sendCase
	var rec func(prefix []string, n int)
	rec = func(prefix []string, n int) {
		if n == 0 {
			cases = append(cases, sendCase{Kind: "send", Deadline: 3, Listeners: append([]string{}, prefix...)})
			return
		}
		for _, l := range one {
			rec(append(prefix, l), n-1)
		}
	}
	for n := 1; n <= f.N(2, 3); n++ {
		rec(nil, n)
	}
	lines := make([]string, len(cases))
	for i, c := range cases {
		lines[i] = c.line()
	}
	ans, err := drv.Batch(lines)
	if err != nil {
		tie.Fail(err)
		return
	}
	// the cases are independent and mostly wait: run them concurrently
	type out struct {
		kind    string
		elapsed time.Duration
	}
	outs := make([]out, len(cases))
	sem := make(chan struct{}, 32)
	doneAll := make(chan struct{})
	go func() {
		for i := range cases {
			sem <- struct{}{}
			go func(i int) {
				k, e := cases[i].runCode()
				outs[i] = out{k, e}
				<-sem
			}(i)
		}
		for i := 0; i < cap(sem); i++ {
			sem <- struct{}{}
		}
		close(doneAll)
	}()
	<-doneAll
	for i, c := range cases {
		model := strings.SplitN(ans[i], "@", 2)[0]
		// a disagreement is re-run alone, twice: scheduling jitter of a loaded machine does not repeat, a
		// changed Send does
		for attempt := 0; attempt < 2 && outs[i].kind != model; attempt++ {
			k, e := c.runCode()
			tie.Count("re-run after " + outs[i].kind + " vs model " + model)
			outs[i] = out{k, e}
		}
		tie.Record(c.line(), true, c, model, outs[i].kind)
		tie.Count(outs[i].kind)
		c.monitor(mon, outs[i].kind, outs[i].elapsed)
	}
}

func (c sendCase) monitor(m *lib.Monitor, kind string, elapsed time.Duration) {
	dl := time.Duration(c.Deadline) * sendUnit
	m.Eval(c.line(), true, nil)
	if kind == "hang" || elapsed > dl+3*time.Second {
		m.Violate("C09/Bus.Send/hang", "Send did not return by its deadline", c, "return by "+dl.String(), kind+" after "+elapsed.String())
		return
	}
	stuck, allReady := false, true
	for _, l := range c.Listeners {
		q := strings.Split(l, "/")
		if q[0] == "-" && q[1] == "-" {
			stuck = true
		}
		if q[0] != "0" {
			allReady = false
		}
	}
	if stuck && kind != "deadline" {
		m.Violate("C09/Bus.Send/no-error-on-undeliverable", "Send reported success although a live listener never received", c, "deadline", kind)
	}
	if !stuck && kind != "ok" {
		m.Violate("C09/Bus.Send/spurious-deadline", "Send failed although every listener received or was cancelled well before the deadline", c, "ok", kind)
	}
	_ = allReady // promptness with ready receivers is measured by the writers-and-subscribers monitor on the real Value/Collection
}
