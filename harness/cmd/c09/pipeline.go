package main

import (
	"context"
	"fmt"
	"math/rand"
	"runtime"
	"sort"
	"strings"
	"sync"
	"sync/atomic"
	"time"

	"google.golang.org/protobuf/proto"
	"google.golang.org/protobuf/types/known/durationpb"
	"google.golang.org/protobuf/types/known/wrapperspb"

	"github.com/smart-core-os/sc-golang/pkg/cmp"
	"github.com/smart-core-os/sc-golang/pkg/resource"
	"github.com/smart-core-os/sc-golang/verifharness/lib"
)

// The REAL subscriber pipelines, end to end, one external move at a time:
//
//	vrun   resource.Value with a lossy Pull: bus -> DropExcess -> Pull's forwarder (read mask, then the
//	       equivalence against the value last sent) -> consumer.  Moves "w:<tok>" (Set) / "d" (the consumer
//	       receives once).  Tied to the model's `vstepF` machine scheduled greedily (ScVerif/C09/Subs.lean).
//	crun   resource.Collection with SEVERAL lossy subscribers on one bus, each either Collection.Pull or
//	       Collection.PullID: bus -> mergeCollectionExcess -> Pull's forwarder [-> PullID's goroutine] ->
//	       consumer k.  Moves "u:<id>:<val>" / "x:<id>" (Update-or-create / Delete) and "d<k>" (consumer k
//	       receives once: a seed of the start view first, so writes also arrive during the seed phase).  Tied to the model's `sysStep` (one machine per subscriber, independent).
//
// Scheduling: the forwarders run freely, so after every move the harness waits until each forwarder has
// caught up with the model's greedy schedule (it has looked at as many values as the model says: counted
// by the equivalence / an accept-all include function, which run on the forwarder's goroutine).  The
// counts are used for waiting only, never compared.  A wait that does not complete is not an alarm by
// itself: the case is then not tied (counted as unsynced) and only the monitors, which do not depend on
// timing, judge it.

const pipeWait = 2 * time.Second // bound of every single wait in these families

// pipeBudget bounds what a broken tree can cost: the first blocked write is given 3 s, later ones 300 ms,
// and after a few of them the remaining cases of the family are skipped (the workers share the counter).
type pipeBudget struct {
	slow     int
	unsynced int
	aborted  string
	blocked  atomic.Int64
}

const maxBlocked = 4

func (b *pipeBudget) writeBound() time.Duration {
	if b != nil && b.blocked.Load() > 0 {
		return 300 * time.Millisecond
	}
	return 3 * time.Second
}

func (b *pipeBudget) exhausted() bool { return b != nil && b.blocked.Load() > maxBlocked }

func (b *pipeBudget) noteBlocked() {
	if b != nil {
		b.blocked.Add(1)
	}
}

func waitCount(ctr *atomic.Int64, want int64, d time.Duration) bool {
	if ctr.Load() >= want {
		return true
	}
	deadline := time.Now().Add(d)
	for i := 0; ; i++ {
		if ctr.Load() >= want {
			return true
		}
		if time.Now().After(deadline) {
			return false
		}
		if i < 200 {
			runtime.Gosched()
		} else {
			time.Sleep(50 * time.Microsecond)
		}
	}
}

// settle gives goroutines that should NOT do anything a moment to do it anyway (a deviating tree).
func settle() {
	for i := 0; i < 20; i++ {
		runtime.Gosched()
	}
}

// ---------------------------------------------------------------------------------------------------
// change times: NOT monotonic in write order
// ---------------------------------------------------------------------------------------------------
//
// Every write of these families is stamped with a change time chosen by the generator, either through the
// public write option WithWriteTime ("@t") or by stepping the resource's injected clock before the write
// ("^t"); times go up, down and zigzag.  Nothing in the lossy stages may depend on them: the most recent
// value is the last one WRITTEN.  The time travels with the value (value tokens "sn@t", the time field of a
// collection change), so the ties also compare which change time is delivered with which value.

var timeBase = time.Unix(1_700_000_000, 0)

const seedT = 5 // the clock's reading when the resource is created: the change time of seeds

type stepClock struct{ now atomic.Int64 }

func newStepClock() *stepClock      { c := &stepClock{}; c.now.Store(seedT); return c }
func (c *stepClock) Now() time.Time { return timeBase.Add(time.Duration(c.now.Load()) * time.Second) }

func relTime(t time.Time) string {
	if t.IsZero() {
		return "zero"
	}
	return fmt.Sprintf("%d", int64(t.Sub(timeBase)/time.Second))
}

// splitTime: "x@7" -> ("x", 7, false); "x^7" -> ("x", 7, true: through the clock); "x" -> ("x", seedT, true)
func splitTime(s string) (body string, t int64, viaClock bool) {
	if i := strings.LastIndexAny(s, "@^"); i >= 0 {
		fmt.Sscanf(s[i+1:], "%d", &t)
		return s[:i], t, s[i] == '^'
	}
	return s, seedT, true
}

// timeOf: the change time the k-th write (k = 0, 1, …) of a generated case is stamped with
func timeOf(pattern string, k int) string {
	clampT := func(t int) int {
		if t < 0 {
			return 0
		}
		return t
	}
	via := pattern[len(pattern)-1:]
	switch pattern[:len(pattern)-1] {
	case "down":
		return fmt.Sprintf("%s%d", via, clampT(40-k))
	case "zig":
		if k%2 == 0 {
			return fmt.Sprintf("%s%d", via, 20+k)
		}
		return fmt.Sprintf("%s%d", via, clampT(20-k))
	case "same":
		return via + "7"
	default: // up
		return fmt.Sprintf("%s%d", via, k+1)
	}
}

// ---------------------------------------------------------------------------------------------------
// Value
// ---------------------------------------------------------------------------------------------------

type vrunCase struct {
	Kind  string   `json:"kind"`  // "vrun"
	Equiv string   `json:"equiv"` // nil | never | eq | class | near
	Mask  bool     `json:"mask"`  // read mask "seconds": token sn is delivered as s0
	Seed  string   `json:"seed"`  // value at subscribe time; "-" = WithUpdatesOnly (no seed, nothing sent yet)
	Moves []string `json:"moves"` // "w:<sn>@<t>" Set(…, WithWriteTime(t)) | "w:<sn>^<t>" clock stepped to t, then Set | "d"
}

// wtok: the model token "sn@t" of a write move
func wtok(mv string) string {
	body, t, _ := splitTime(strings.TrimPrefix(mv, "w:"))
	return fmt.Sprintf("%s@%d", body, t)
}

func (c vrunCase) seedTok() string {
	if c.Seed == "-" {
		return "-"
	}
	return fmt.Sprintf("%s@%d", c.Seed, seedT)
}

func showValueChange(ev *resource.ValueChange) string {
	return durTok(ev.Value) + "@" + relTime(ev.ChangeTime)
}

type vrunObs struct {
	Skipped    bool     // not run: the family's budget for blocked writes is used up
	Outs       []string // per "d" move: value | none | timeout | closed
	Drain      []string
	WriteBlock string
	WriteErr   string
	Unsynced   bool
	MaxWrite   time.Duration
	Stored     string
}

func (o vrunObs) answer() string { return showOuts(o.Outs) + "|" + showOuts(o.Drain) }

func showOuts(xs []string) string {
	if len(xs) == 0 {
		return "-"
	}
	return strings.Join(xs, ";")
}

func durOf(tok string) *durationpb.Duration {
	return &durationpb.Duration{Seconds: int64(tok[0] - '0'), Nanos: int32(tok[1] - '0')}
}

func durTok(m proto.Message) string {
	d, ok := m.(*durationpb.Duration)
	if !ok || d == nil {
		return fmt.Sprintf("?%T", m)
	}
	return fmt.Sprintf("%d%d", d.Seconds, d.Nanos)
}

// the closed family of equivalences, on the real messages (x may be nil: nothing sent yet)
func equivOf(name string, calls *atomic.Int64) resource.Comparer {
	var f func(x, y *durationpb.Duration) bool
	eq := cmp.Equal()
	switch name {
	case "never":
		f = func(x, y *durationpb.Duration) bool { return false }
	case "eq":
		f = func(x, y *durationpb.Duration) bool { return eq(x, y) }
	case "class":
		f = func(x, y *durationpb.Duration) bool { return x.Seconds == y.Seconds }
	case "near":
		f = func(x, y *durationpb.Duration) bool { d := x.Seconds - y.Seconds; return d >= -1 && d <= 1 }
	default:
		return nil
	}
	return resource.ComparerFunc(func(x, y proto.Message) bool {
		calls.Add(1)
		xd, _ := x.(*durationpb.Duration)
		yd, _ := y.(*durationpb.Duration)
		if xd == nil || yd == nil {
			return false
		}
		return f(xd, yd)
	})
}

// the same family on tokens, written independently (oracle of the monitor)
func equivTok(name, a, b string) bool {
	switch name {
	case "eq":
		return a[:2] == b[:2]
	case "class":
		return a[0] == b[0]
	case "near":
		d := int(a[0]) - int(b[0])
		return d >= -1 && d <= 1
	}
	return false
}

func (c vrunCase) filt(tok string) string {
	if c.Mask {
		return tok[:1] + "0" + tok[2:]
	}
	return tok
}

func (c vrunCase) modelLine() string {
	eq := c.Equiv
	if eq == "nil" {
		eq = "never"
	}
	mask := "0"
	if c.Mask {
		mask = "1"
	}
	ms := make([]string, len(c.Moves))
	for i, mv := range c.Moves {
		ms[i] = mv
		if mv != "d" {
			ms[i] = "w:" + wtok(mv)
		}
	}
	return "vrun " + eq + " " + mask + " " + c.seedTok() + " " + strings.Join(ms, " ")
}

// splitModel: per-move model outputs and the drain list; ok=false if the answer has another shape.
func splitModel(ans string, nmoves int, sep string) (outs []string, tail []string, ok bool) {
	parts := strings.Split(ans, "|")
	if len(parts) < 2 {
		return nil, nil, false
	}
	if parts[0] != "-" && parts[0] != "" {
		outs = strings.Split(parts[0], sep)
	}
	if len(outs) != nmoves {
		return nil, nil, false
	}
	return outs, parts[1:], true
}

func listOf(s string) []string {
	if s == "-" || s == "" {
		return nil
	}
	return strings.Split(s, ";")
}

// runCode: model = the driver's answer ("" in replay mode: time-based scheduling).
func (c vrunCase) runCode(model string, b *pipeBudget) vrunObs {
	var obs vrunObs
	if b.exhausted() {
		obs.Skipped = true
		return obs
	}
	var calls atomic.Int64
	initial := "00"
	if c.Seed != "-" {
		initial = c.Seed
	}
	clock := newStepClock()
	opts := []resource.Option{resource.WithInitialValue(durOf(initial)), resource.WithClock(clock)}
	if e := equivOf(c.Equiv, &calls); e != nil {
		opts = append(opts, resource.WithEquivalence(e))
	}
	v := resource.NewValue(opts...)
	ctx, cancel := context.WithCancel(context.Background())
	defer cancel()
	var ropts []resource.ReadOption
	if c.Mask {
		ropts = append(ropts, resource.WithReadPaths(&durationpb.Duration{}, "seconds"))
	}
	if c.Seed == "-" {
		ropts = append(ropts, resource.WithUpdatesOnly(true))
	}
	ch := v.Pull(ctx, ropts...)

	mouts, mtail, haveModel := splitModel(model, len(c.Moves), ";")
	free := model != "" && c.Equiv == "nil" // no hook to wait on: the run is not scheduled by the model at all
	if free {
		haveModel = false
	}
	synced := haveModel
	recv := func(wait time.Duration) string {
		t := time.NewTimer(wait)
		defer t.Stop()
		select {
		case ev, ok := <-ch:
			if !ok {
				return "closed"
			}
			return showValueChange(ev)
		case <-t.C:
			return "timeout"
		}
	}
	catchUp := func(out string) {
		if !synced {
			switch {
			case free:
				time.Sleep(time.Duration(50*(len(obs.Outs)%4)) * time.Microsecond) // whatever interleaving results is fine
			case !haveModel:
				time.Sleep(3 * time.Millisecond)
			default:
				time.Sleep(200 * time.Microsecond)
			}
			return
		}
		var want int64
		fmt.Sscanf(out[strings.LastIndex(out, ",")+1:], "%d", &want)
		if !waitCount(&calls, want, pipeWait) {
			obs.Unsynced = true
			synced = false
		}
		settle()
	}
	for i, mv := range c.Moves {
		mo := ""
		if haveModel {
			mo = mouts[i]
		}
		if mv == "d" {
			switch {
			case free:
				got := recv(time.Millisecond)
				if got == "timeout" {
					got = "none"
				}
				obs.Outs = append(obs.Outs, got)
			case !haveModel:
				got := recv(30 * time.Millisecond)
				if got == "timeout" {
					got = "none"
				}
				obs.Outs = append(obs.Outs, got)
			case strings.HasPrefix(mo, "none,"):
				got := "none"
				if i%5 == 2 {
					if g := recv(500 * time.Microsecond); g != "timeout" {
						got = g
					}
				}
				obs.Outs = append(obs.Outs, got)
			default:
				obs.Outs = append(obs.Outs, recv(pipeWait))
			}
			catchUp(mo)
			continue
		}
		tok, wt, viaClock := splitTime(strings.TrimPrefix(mv, "w:"))
		var wopts []resource.WriteOption
		if viaClock {
			clock.now.Store(wt)
		} else {
			wopts = append(wopts, resource.WithWriteTime(timeBase.Add(time.Duration(wt)*time.Second)))
		}
		t0 := time.Now()
		ok, err := timedCall(b.writeBound(), func() error { _, err := v.Set(durOf(tok), wopts...); return err })
		if !ok {
			b.noteBlocked()
			obs.WriteBlock = mv
			return obs
		}
		if err != nil {
			obs.WriteErr = mv + ": " + err.Error()
			return obs
		}
		if d := time.Since(t0); d > obs.MaxWrite {
			obs.MaxWrite = d
		}
		catchUp(mo)
	}
	// drain to quiescence (model-guided while the run followed the model's schedule, else until quiet)
	if free {
		// nothing is suppressed without an equivalence and the generator gives these cases distinct values:
		// the stream is quiescent exactly when the last value written (else the seed) has arrived
		target := c.seedTok()
		for _, mv := range c.Moves {
			if mv != "d" {
				target = wtok(mv)
			}
		}
		last := ""
		for _, o := range obs.Outs {
			if o != "none" {
				last = o
			}
		}
		for target != "-" && last != c.filt(target) {
			g := recv(pipeWait)
			if g == "timeout" || g == "closed" {
				break
			}
			obs.Drain = append(obs.Drain, g)
			last = g
		}
		if g := recv(300 * time.Microsecond); g != "timeout" && g != "closed" {
			obs.Drain = append(obs.Drain, g)
		}
	} else if haveModel && !obs.Unsynced {
		for range listOf(mtail[0]) {
			obs.Drain = append(obs.Drain, recv(pipeWait))
		}
		if g := recv(300 * time.Microsecond); g != "timeout" {
			obs.Drain = append(obs.Drain, g)
		}
	} else {
		quiet := 30 * time.Millisecond
		if obs.Unsynced {
			quiet = 300 * time.Millisecond
		}
		for {
			g := recv(quiet)
			if g == "timeout" || g == "closed" {
				break
			}
			obs.Drain = append(obs.Drain, g)
		}
	}
	obs.Stored = durTok(v.Get())
	return obs
}

func (c vrunCase) monitor(m *lib.Monitor, obs vrunObs) {
	if obs.WriteBlock != "" {
		m.Violate("C09/Value/lossy/pipeline/writer-blocked", "Set did not return although the only subscriber is lossy (it had stopped receiving)", c, "prompt return", "blocked at "+obs.WriteBlock)
		return
	}
	if obs.WriteErr != "" {
		m.Violate("C09/Value/lossy/pipeline/set-error", "Set failed with a lossy subscriber attached", c, "nil", obs.WriteErr)
		return
	}
	if obs.MaxWrite > promptBound {
		m.Violate("C09/Value/lossy/pipeline/writer-waited", "Set waited for a lossy subscriber", c, "< "+promptBound.String(), obs.MaxWrite.String())
	}
	var written []string // what the subscriber may see, in order: the seed, then every write, as filtered
	if c.Seed != "-" {
		written = append(written, c.filt(c.seedTok()))
	}
	lastWritten := c.seedTok()
	for _, mv := range c.Moves {
		if mv != "d" {
			tok := wtok(mv)
			written = append(written, c.filt(tok))
			lastWritten = tok
		}
	}
	var got []string
	for _, o := range append(append([]string{}, obs.Outs...), obs.Drain...) {
		switch o {
		case "none":
		case "timeout", "closed":
			if obs.Unsynced && o == "timeout" {
				continue // the run left the model's schedule: the model's expectation of a value here does not apply
			}
			m.Violate("C09/Value/lossy/pipeline/not-delivered", "a value the forwarder holds for the consumer was not delivered", c, "a value", o)
			return
		default:
			got = append(got, o)
		}
	}
	j := 0
	for _, g := range got {
		for j < len(written) && written[j] != g {
			j++
		}
		if j == len(written) {
			m.Violate("C09/Value/lossy/pipeline/not-a-subsequence", "received values (each with the change time of its write) must be a subsequence of the written ones (seed first), in order, as the read mask shows them", c, strings.Join(written, " "), strings.Join(got, " "))
			return
		}
		j++
	}
	for i := 1; i < len(got); i++ {
		if equivTok(c.Equiv, got[i-1], got[i]) {
			m.Violate("C09/Value/lossy/pipeline/equivalent-delivered", "a value equivalent to the one delivered just before it was delivered", c, "no consecutive equivalent values", strings.Join(got, " "))
			break
		}
	}
	if lastWritten != "-" && obs.Stored != lastWritten[:2] {
		m.Violate("C09/Value/lossy/pipeline/stored-differs", "Get does not return the last value written", c, lastWritten, obs.Stored)
	}
	// eventually the most recent value, modulo the configured equivalence
	if lastWritten != "-" {
		want := c.filt(lastWritten)
		switch {
		case len(got) == 0:
			m.Violate("C09/Value/lossy/pipeline/latest-not-received", "after draining, the subscriber has received nothing although a value was written", c, want, "-")
		case got[len(got)-1] != want && !equivTok(c.Equiv, got[len(got)-1], want):
			m.Violate("C09/Value/lossy/pipeline/latest-not-received", "after draining to quiescence the subscriber's last value is neither the most recent value nor equivalent to it", c, want+" (equivalence "+c.Equiv+")", strings.Join(got, " "))
		}
	}
	m.Eval(c.key(), len(got) < len(written), nil)
	m.Count("equiv=" + c.Equiv)
	prev, nonMono := int64(seedT), false
	for _, mv := range c.Moves {
		if mv != "d" {
			_, t, _ := splitTime(mv)
			if t < prev {
				nonMono = true
			}
			prev = t
		}
	}
	if nonMono {
		m.Count("a write stamped earlier than the one before it")
	}
}

func (c vrunCase) key() string {
	return fmt.Sprintf("%s/%v/%s/%s", c.Equiv, c.Mask, c.Seed, strings.Join(c.Moves, " "))
}

func genVrunCases(f lib.Flags) []vrunCase {
	var cases []vrunCase
	// exhaustive: every pattern of writes from a three-value alphabet (two of them equivalent under
	// class/near, 10 ~ 11; 20 is equivalent to neither under class, 30 not under near) and receives
	// the k-th write of a case is stamped by the configuration's time pattern (up/down/zig/same, through
	// WithWriteTime "@" or the stepped clock "^"): write times are not monotonic
	alphabet := []string{"w:10", "w:11", "w:20", "d"}
	var rec func(n int, pattern string, nw int, prefix []string, yield func([]string))
	rec = func(n int, pattern string, nw int, prefix []string, yield func([]string)) {
		if n == 0 {
			yield(append([]string{}, prefix...))
			return
		}
		for _, a := range alphabet {
			if a == "d" {
				rec(n-1, pattern, nw, append(prefix, a), yield)
			} else {
				rec(n-1, pattern, nw+1, append(prefix, a+timeOf(pattern, nw)), yield)
			}
		}
	}
	type cfg struct {
		equiv string
		mask  bool
		seed  string
		times string
		L     int
	}
	cfgs := []cfg{
		{"never", false, "10", "down@", f.N(4, 5)}, {"never", false, "10", "zig^", f.N(4, 5)},
		{"class", false, "10", "zig@", f.N(6, 7)}, {"eq", false, "10", "down^", f.N(5, 6)}, {"near", false, "10", "up@", f.N(5, 6)},
		{"class", false, "-", "down@", f.N(5, 6)}, {"eq", true, "10", "zig^", f.N(5, 6)},
		{"class", true, "-", "same@", f.N(4, 5)},
	}
	for _, g := range cfgs {
		for n := 1; n <= g.L; n++ {
			rec(n, g.times, 0, nil, func(moves []string) {
				cases = append(cases, vrunCase{Kind: "vrun", Equiv: g.equiv, Mask: g.mask, Seed: g.seed, Moves: moves})
			})
		}
	}
	r := lib.NewRand(f.Seed + 17)
	equivs := []string{"nil", "never", "eq", "class", "near"}
	via := []string{"@", "^"}
	for i, n := 0, f.N(300, 4000); i < n; i++ {
		c := vrunCase{Kind: "vrun", Equiv: equivs[r.Intn(len(equivs))], Mask: r.Intn(3) == 0, Seed: "-"}
		if r.Intn(4) > 0 {
			c.Seed = fmt.Sprintf("%d%d", 1+r.Intn(4), r.Intn(3))
		}
		if c.Equiv == "nil" {
			c.Mask = false // these cases are not scheduled by the model: distinct values make "the latest has arrived" unambiguous
			if c.Seed != "-" {
				c.Seed = "10"
			}
		}
		slow := r.Intn(3)
		nw := 0
		for k, L := 0, 2+r.Intn(14); k < L; k++ {
			switch {
			case r.Intn(3) < slow:
				c.Moves = append(c.Moves, "d")
			case c.Equiv == "nil":
				nw++
				c.Moves = append(c.Moves, fmt.Sprintf("w:%d%d%s%d", 1+nw/10, nw%10, via[r.Intn(2)], r.Intn(10)))
			default:
				c.Moves = append(c.Moves, fmt.Sprintf("w:%d%d%s%d", 1+r.Intn(4), r.Intn(3), via[r.Intn(2)], r.Intn(10)))
			}
		}
		cases = append(cases, c)
	}
	return cases
}

func runValuePipeline(f lib.Flags, res *lib.Result, drv *lib.Driver) {
	tie := res.Tie("value-pull-pipeline", "K1",
		"the REAL resource.Value with one lossy Pull subscriber, end to end (Set -> bus -> DropExcess -> Pull's forwarder with read mask and equivalence -> consumer), one move at a time (w:<value>@<t> / w:<value>^<t> = Set stamped with change time t through WithWriteTime / through the resource's stepped clock — times go up, down and zigzag, NOT monotonic in write order — d = the consumer receives once, yielding value@time; after every move the harness waits until the forwarder has caught up) vs the model's vstepF machine scheduled greedily: ALL move sequences up to length L (4..6 quick, 5..7 thorough, by configuration) over 3 values (two of them equivalent) + receive, for the equivalences never/eq(cmp.Equal)/class/near(non-transitive), with and without a read mask, with a seed and updates-only; plus random longer ones; compared: what every receive yields and what a final drain yields; non-trivial = at least two writes; distinct = (equivalence, mask, seed, moves)")
	mon := res.Monitor("value-pull-latest", "on the same runs, independent of the model: Set never blocks or fails; the received values, each with the change time its write was stamped with, are a subsequence of seed+writes as the read mask shows them (write times are not monotonic: WithWriteTime in the past, clock stepped back); no value equivalent to the one delivered just before it; after a final drain the last received value IS the most recent value or is equivalent to it under the configured equivalence (nil equivalence included, monitor only); distinct = the case; non-trivial = something was dropped")
	cases := genVrunCases(f)
	lines := make([]string, len(cases))
	for i, c := range cases {
		lines[i] = c.modelLine()
	}
	ans, err := drv.Batch(lines)
	if err != nil {
		tie.Fail(err)
		return
	}
	var b pipeBudget
	var maxW time.Duration
	const chunk = 128
chunks:
	for lo := 0; lo < len(cases); lo += chunk {
		hi := lo + chunk
		if hi > len(cases) {
			hi = len(cases)
		}
		obss := make([]vrunObs, hi-lo)
		parallelDo(hi-lo, func(j int) { obss[j] = cases[lo+j].runCode(ans[lo+j], &b) })
		for j, obs := range obss {
			i, c := lo+j, cases[lo+j]
			if obs.Skipped {
				tie.Count("skipped after blocked writes")
				continue
			}
			if obs.MaxWrite > maxW {
				maxW = obs.MaxWrite
			}
			nw := 0
			for _, mv := range c.Moves {
				if mv != "d" {
					nw++
				}
			}
			c.monitor(mon, obs)
			code := obs.answer()
			if obs.WriteBlock != "" {
				code += "!blocked:" + obs.WriteBlock
			}
			if obs.WriteErr != "" {
				code += "!error"
			}
			switch {
			case obs.Unsynced:
				b.unsynced++
				tie.Count("unsynced (the forwarder did not reach the model's schedule within 2s; monitors only)")
			case c.Equiv == "nil":
				tie.Count("nil equivalence (no hook to wait on: monitors only)")
			default:
				tie.Record(c.key(), nw >= 2, c, stripCounts(ans[i]), code)
				tie.Count("equiv=" + c.Equiv)
			}
			if obs.Unsynced || obs.WriteBlock != "" || strings.Contains(code, "timeout") {
				b.slow++
				b.aborted = c.key() + " -> " + code
			}
		}
		if b.slow > 6 || b.exhausted() {
			tie.Fail(fmt.Errorf("aborted after %d cases in which the real pipeline did not respond within its bound (last: %s)", b.slow, b.aborted))
			break chunks
		}
	}
	res.Extra["max_write_latency_us/value-pipeline"] = maxW.Microseconds()
}

// stripCounts removes the ",<n>" / "@a/b" scheduling counts from a model answer.
func stripCounts(ans string) string {
	parts := strings.SplitN(ans, "|", 2)
	if len(parts) != 2 {
		return ans
	}
	var outs []string
	for _, o := range listOf(parts[0]) {
		if i := strings.LastIndex(o, ","); i >= 0 {
			outs = append(outs, o[:i])
		}
	}
	return showOuts(outs) + "|" + parts[1]
}

// ---------------------------------------------------------------------------------------------------
// Collection, several subscribers
// ---------------------------------------------------------------------------------------------------

type crunCase struct {
	Kind  string            `json:"kind"` // "crun"
	Start map[string]string `json:"start"`
	Subs  []string          `json:"subs"`  // "pull" | "id:<id>"; a "!" after the kind = WithUpdatesOnly; then optionally "~<include>": WithInclude(all|odd|even|ida)
	Hold  bool              `json:"hold"`  // plus a backpressured Pull subscriber that receives at once and keeps the event objects
	Moves []string          `json:"moves"` // "u:<id>:<val>[@t|^t]" | "x:<id>[^t]" | "d<k>"  (@t: WithWriteTime, ^t: the clock is stepped to t first)
}

// the closed family of WithInclude functions, on tokens (oracle side; the driver has its own copy)
func includeTok(name, id, val string) bool {
	if val == "" { // the empty message (what an overtaken create finds stored): no digit, counted as 0
		val = "0"
	}
	switch name {
	case "odd":
		return (val[len(val)-1]-'0')%2 == 1
	case "even":
		return (val[len(val)-1]-'0')%2 == 0
	case "ida":
		return id == "a"
	}
	return true
}

// subKind: "pull!~odd" -> ("pull!", "odd"); no "~" = "all"
func subKind(kind string) (base, include string) {
	if i := strings.Index(kind, "~"); i >= 0 {
		return kind[:i], kind[i+1:]
	}
	return kind, "all"
}

func filterView(include string, v map[string]string) map[string]string {
	out := map[string]string{}
	for id, val := range v {
		if includeTok(include, id, val) {
			out[id] = val
		}
	}
	return out
}

// showChangeRel: like showChange, with the change time relative to timeBase
func showChangeRel(c *resource.CollectionChange) string {
	if c == nil {
		return "nil-change"
	}
	return strings.Join([]string{c.Id, kindName(c.ChangeType), relTime(c.ChangeTime), tokOf(c.OldValue), tokOf(c.NewValue), flag(c.SeedValue), flag(c.LastSeedValue)}, ",")
}

// parseCMove: a write move -> op ("u"|"x"), id, value, change time, whether it is set through the clock
func parseCMove(mv string) (op, id, val string, t int64, viaClock bool) {
	body, t, viaClock := splitTime(mv)
	p := strings.Split(body, ":")
	op, id = p[0], p[1]
	if len(p) > 2 {
		val = p[2]
	}
	if op == "x" {
		viaClock = true // Delete stamps its event with the clock whatever write options it is given
	}
	return op, id, val, t, viaClock
}

type heldEvent struct {
	ev   *resource.CollectionChange
	shot string
}

type crunObs struct {
	Skipped    bool       // not run: the family's budget for blocked writes is used up
	Outs       []string   // per "d<k>" move
	Drains     [][]string // per subscriber
	Seeds      [][]string // per subscriber: what it received before the moves
	Held       [][]heldEvent
	HoldGot    []heldEvent
	WriteBlock string
	WriteErr   string
	Unsynced   bool
	MaxWrite   time.Duration
	Listed     string
	Events     []string // the events the writes must have published (shadow)
}

func (o crunObs) answer() string {
	s := showOutsSp(o.Outs)
	for _, d := range o.Drains {
		s += "|" + showOuts(d)
	}
	return s
}

func showOutsSp(xs []string) string { return strings.Join(xs, " ") }

// events: the changes a single writer's operations publish, from the start view (plain-map shadow).
func (c crunCase) events() (evs []string, perMove []string, final map[string]string, removedOnce map[string]bool) {
	view := copyView(c.Start)
	removedOnce = map[string]bool{}
	for _, mv := range c.Moves {
		ev := ""
		if strings.HasPrefix(mv, "d") {
			perMove = append(perMove, ev)
			continue
		}
		op, id, val, t, _ := parseCMove(mv)
		switch op {
		case "u":
			if cur, ok := view[id]; ok {
				ev = fmt.Sprintf("%s,UPDATE,%d,%s,%s,0,0", id, t, cur, val)
			} else {
				ev = fmt.Sprintf("%s,ADD,%d,-,%s,0,0", id, t, val)
			}
			view[id] = val
		case "x":
			if cur, ok := view[id]; ok {
				ev = fmt.Sprintf("%s,REMOVE,%d,%s,-,0,0", id, t, cur)
				delete(view, id)
				removedOnce[id] = true
			}
		}
		perMove = append(perMove, ev)
		if ev != "" {
			evs = append(evs, ev)
		}
	}
	return evs, perMove, view, removedOnce
}

func (c crunCase) modelLine() string {
	_, perMove, _, _ := c.events()
	var ms []string
	for i, mv := range c.Moves {
		if strings.HasPrefix(mv, "d") {
			ms = append(ms, mv)
		} else if perMove[i] != "" {
			ms = append(ms, "s:"+perMove[i])
		}
	}
	return "crun " + strings.Join(c.Subs, ",") + " " + showOuts(c.seeds("all")) + " " + strings.Join(ms, " ")
}

// seeds: the seed changes Pull sends for the start view as the named filter admits it: one ADD per admitted
// item, sorted by id, the last flagged.  (The model line carries seeds("all"); the driver filters per subscriber.)
func (c crunCase) seeds(include string) []string {
	var ids []string
	for id, val := range c.Start {
		if includeTok(include, id, val) {
			ids = append(ids, id)
		}
	}
	sort.Strings(ids)
	var out []string
	for i, id := range ids {
		last := "0"
		if i == len(ids)-1 {
			last = "1"
		}
		out = append(out, fmt.Sprintf("%s,ADD,%d,-,%s,1,%s", id, seedT, c.Start[id], last))
	}
	return out
}

func (c crunCase) key() string {
	h := ""
	if c.Hold {
		h = "+hold"
	}
	return showView(c.Start) + "/" + strings.Join(c.Subs, ",") + h + "/" + strings.Join(c.Moves, " ")
}

type crunSub struct {
	kind   string
	id     string
	seen   atomic.Int64
	events <-chan *resource.CollectionChange
	values <-chan *resource.ValueChange
}

func (s *crunSub) recv(wait time.Duration) (string, *resource.CollectionChange) {
	t := time.NewTimer(wait)
	defer t.Stop()
	if s.kind == "pull" {
		select {
		case ev, ok := <-s.events:
			if !ok {
				return "closed", nil
			}
			return showChangeRel(ev), ev
		case <-t.C:
			return "timeout", nil
		}
	}
	select {
	case ev, ok := <-s.values:
		if !ok {
			return "closed", nil
		}
		return tokOf(ev.Value), nil
	case <-t.C:
		return "timeout", nil
	}
}

func (c crunCase) runCode(model string, b *pipeBudget) crunObs {
	var obs crunObs
	if b.exhausted() {
		obs.Skipped = true
		return obs
	}
	evs, perMove, _, _ := c.events()
	obs.Events = evs
	var copts []resource.Option
	for id, val := range c.Start {
		copts = append(copts, resource.WithInitialRecord(id, wrapperspb.String(val)))
	}
	clock := newStepClock()
	copts = append(copts, resource.WithClock(clock))
	col := resource.NewCollection(copts...)
	root, stop := context.WithCancel(context.Background())
	defer stop()

	// the model line has only the moves that publish or receive
	var moves []string
	var moveEv []string
	for i, mv := range c.Moves {
		if strings.HasPrefix(mv, "d") || perMove[i] != "" {
			moves = append(moves, mv)
			moveEv = append(moveEv, perMove[i])
		}
	}
	mouts, mtail, haveModel := splitModel(model, len(moves), " ")
	if haveModel && len(mtail) != len(c.Subs) {
		haveModel = false
	}
	synced := haveModel

	subs := make([]*crunSub, len(c.Subs))
	base := make([]int64, len(c.Subs))
	obs.Seeds = make([][]string, len(c.Subs))
	obs.Held = make([][]heldEvent, len(c.Subs))
	obs.Drains = make([][]string, len(c.Subs))
	for k, kind := range c.Subs {
		s := &crunSub{kind: "pull"}
		kind, include := subKind(kind)
		ropts := []resource.ReadOption{resource.WithInclude(func(id string, item proto.Message) bool {
			s.seen.Add(1)
			return includeTok(include, id, tokOf(item))
		})}
		if strings.Contains(kind, "!") {
			ropts = append(ropts, resource.WithUpdatesOnly(true)) // no seeds; the view the stream starts from is the start view
		}
		if strings.HasPrefix(kind, "id") {
			s.kind, s.id = "id", kind[strings.Index(kind, ":")+1:]
			s.values = col.PullID(root, s.id, ropts...)
		} else {
			s.events = col.Pull(root, ropts...)
		}
		base[k] = s.seen.Load() // the seed list was filtered while subscribing; seeds are not looked at again
		subs[k] = s
	}
	var holdMu sync.Mutex
	holdN := 0
	if c.Hold {
		hch := col.Pull(root, resource.WithBackpressure(true))
		go func() {
			for ev := range hch {
				holdMu.Lock()
				obs.HoldGot = append(obs.HoldGot, heldEvent{ev, showChangeRel(ev)})
				holdN++
				holdMu.Unlock()
			}
		}()
	}
	// the consumers take their seeds as part of the moves: writes may arrive while seeds are still being handed on
	catchUp := func(out string) {
		if !synced {
			if !haveModel {
				time.Sleep(3 * time.Millisecond)
			} else {
				time.Sleep(300 * time.Microsecond)
			}
			return
		}
		counts := strings.Split(out[strings.LastIndex(out, "@")+1:], "/")
		for k, s := range subs {
			var want int64
			if k < len(counts) {
				fmt.Sscanf(counts[k], "%d", &want)
			}
			if !waitCount(&s.seen, base[k]+want, pipeWait) {
				obs.Unsynced = true
				synced = false
				return
			}
		}
		settle()
	}
	for i, mv := range moves {
		mo := ""
		if haveModel {
			mo = mouts[i]
		}
		if strings.HasPrefix(mv, "d") {
			var k int
			fmt.Sscanf(mv, "d%d", &k)
			if k >= len(subs) {
				obs.Outs = append(obs.Outs, "none")
				continue
			}
			s := subs[k]
			var got string
			var ev *resource.CollectionChange
			switch {
			case !haveModel:
				if got, ev = s.recv(30 * time.Millisecond); got == "timeout" {
					got = "none"
				}
			case strings.HasPrefix(mo, "none@"):
				got = "none"
				if i%5 == 2 {
					if g, e := s.recv(500 * time.Microsecond); g != "timeout" {
						got, ev = g, e
					}
				}
			default:
				got, ev = s.recv(pipeWait)
			}
			obs.Outs = append(obs.Outs, got)
			if ev != nil {
				obs.Held[k] = append(obs.Held[k], heldEvent{ev, got})
			}
			catchUp(mo)
			continue
		}
		op, wid, wval, wt, viaClock := parseCMove(mv)
		wopts := []resource.WriteOption{resource.WithCreateIfAbsent()}
		if viaClock {
			clock.now.Store(wt)
		} else {
			wopts = append(wopts, resource.WithWriteTime(timeBase.Add(time.Duration(wt)*time.Second)))
		}
		t0 := time.Now()
		ok, err := timedCall(b.writeBound(), func() error {
			if op == "x" {
				_, err := col.Delete(wid)
				return err
			}
			_, err := col.Update(wid, wrapperspb.String(wval), wopts...)
			return err
		})
		if !ok {
			b.noteBlocked()
			obs.WriteBlock = mv
			return obs
		}
		if err != nil {
			obs.WriteErr = mv + ": " + err.Error()
			return obs
		}
		if d := time.Since(t0); d > obs.MaxWrite {
			obs.MaxWrite = d
		}
		catchUp(mo)
	}
	// drain every subscriber to quiescence
	for k, s := range subs {
		if haveModel && !obs.Unsynced {
			for _, want := range listOf(mtail[k]) {
				g, ev := s.recv(pipeWait)
				obs.Drains[k] = append(obs.Drains[k], g)
				if ev != nil {
					obs.Held[k] = append(obs.Held[k], heldEvent{ev, g})
				}
				if want == "closed" || g == "closed" || g == "timeout" {
					break
				}
			}
			if n := len(obs.Drains[k]); n == 0 || obs.Drains[k][n-1] != "closed" {
				if g, ev := s.recv(300 * time.Microsecond); g != "timeout" {
					obs.Drains[k] = append(obs.Drains[k], g)
					if ev != nil {
						obs.Held[k] = append(obs.Held[k], heldEvent{ev, g})
					}
				}
			}
		} else {
			quiet := 30 * time.Millisecond
			if obs.Unsynced {
				quiet = 300 * time.Millisecond
			}
			for {
				g, ev := s.recv(quiet)
				if g == "timeout" {
					break
				}
				obs.Drains[k] = append(obs.Drains[k], g)
				if ev != nil {
					obs.Held[k] = append(obs.Held[k], heldEvent{ev, g})
				}
				if g == "closed" {
					break
				}
			}
		}
	}
	if c.Hold {
		want := len(c.Start) + len(evs)
		deadline := time.Now().Add(pipeWait)
		for time.Now().Before(deadline) {
			holdMu.Lock()
			n := holdN
			holdMu.Unlock()
			if n >= want {
				break
			}
			time.Sleep(100 * time.Microsecond)
		}
		holdMu.Lock()
		obs.HoldGot = append([]heldEvent{}, obs.HoldGot...)
		holdMu.Unlock()
	}
	var listed []string
	for _, msg := range col.List() {
		listed = append(listed, tokOf(msg))
	}
	sort.Strings(listed)
	obs.Listed = strings.Join(listed, ",")
	return obs
}

func (c crunCase) monitor(m *lib.Monitor, obs crunObs) {
	if obs.WriteBlock != "" {
		m.Violate("C09/Collection/multi/writer-blocked", "a write did not return although every subscriber that had stopped receiving is lossy (Pull / PullID without backpressure)", c, "prompt return", "blocked at "+obs.WriteBlock)
		return
	}
	if obs.WriteErr != "" {
		m.Violate("C09/Collection/multi/write-error", "a write failed", c, "nil", obs.WriteErr)
		return
	}
	if obs.MaxWrite > promptBound {
		m.Violate("C09/Collection/multi/writer-waited", "a write waited for a lossy subscriber", c, "< "+promptBound.String(), obs.MaxWrite.String())
	}
	_, perMove, final, removedOnce := c.events()
	var vals []string
	for _, v := range final {
		vals = append(vals, v)
	}
	sort.Strings(vals)
	if want := strings.Join(vals, ","); want != obs.Listed {
		m.Violate("C09/Collection/multi/list-differs", "List does not show the written state", c, want, obs.Listed)
	}
	// which moves are for which subscriber
	perSub := make([][]string, len(c.Subs))
	oi := 0
	for i, mv := range c.Moves {
		if strings.HasPrefix(mv, "d") {
			var k int
			fmt.Sscanf(mv, "d%d", &k)
			if oi < len(obs.Outs) && k < len(perSub) {
				perSub[k] = append(perSub[k], obs.Outs[oi])
			}
			oi++
		} else if perMove[i] != "" {
			// a publishing move has no output
		}
	}
	dropped := false
	for k, kind := range c.Subs {
		stream := append(append(append([]string{}, obs.Seeds[k]...), perSub[k]...), obs.Drains[k]...)
		var got []string
		closed := false
		for _, o := range stream {
			switch o {
			case "none":
			case "timeout":
				if obs.Unsynced {
					continue // the run left the model's schedule: the model's expectation of an event here does not apply
				}
				m.Violate("C09/Collection/multi/not-delivered", "an event a forwarder holds for its consumer was not delivered", c, "an event", fmt.Sprintf("subscriber %d (%s): timeout", k, kind))
				return
			case "closed":
				closed = true
			default:
				got = append(got, o)
			}
		}
		kind, include := subKind(kind)
		updatesOnly := strings.Contains(kind, "!")
		if !strings.HasPrefix(kind, "id") {
			if closed {
				m.Violate("C09/Collection/multi/stream-closed", "a Pull stream ended although its context is live", c, "open", fmt.Sprintf("subscriber %d closed", k))
				continue
			}
			// the subscriber's view is the collection as its WithInclude filter admits it (= List with that filter)
			view := map[string]string{}
			if updatesOnly {
				view = filterView(include, c.Start)
			}
			sigInc := ""
			if include != "all" {
				sigInc = "/include"
			}
			for _, ev := range got {
				at := showView(view)
				if !foldInto(view, ev) {
					m.Violate("C09/Collection/multi"+sigInc+"/old-value-chain", "with several subscribers on one collection, a delivered change is not well formed at the receiving subscriber's own (filtered) view (old values must chain per id, ADD only of an item the view lacks, REMOVE only of one it has)", c, "well-formed at "+at, fmt.Sprintf("subscriber %d (include %s): %s (stream %s)", k, include, ev, strings.Join(got, ";")))
					break
				}
				if f := fields(ev); f[1] != "REMOVE" && !includeTok(include, f[0], f[4]) {
					m.Violate("C09/Collection/multi"+sigInc+"/excluded-value-delivered", "a subscriber with an include filter was handed a value its filter excludes", c, "only admitted values", fmt.Sprintf("subscriber %d (include %s): %s (stream %s)", k, include, ev, strings.Join(got, ";")))
					break
				}
			}
			if a, w := showView(view), showView(filterView(include, final)); a != w {
				m.Violate("C09/Collection/multi"+sigInc+"/fold-differs", "after draining, a subscriber's received changes fold to a different view than the collection holds (as the subscriber's include filter admits it)", c, w, fmt.Sprintf("subscriber %d (include %s): %s (stream %s)", k, include, a, strings.Join(got, ";")))
			}
			// every delivered change carries the change time of the last write merged into it
			for _, ev := range got {
				f := fields(ev)
				if f[5] == "1" {
					continue
				}
				okT := false
				for _, sent := range obs.Events {
					if g := fields(sent); g[0] == f[0] && g[2] == f[2] && (g[4] == f[4] || f[1] == "REMOVE") {
						okT = true
						break
					}
				}
				if !okT {
					m.Violate("C09/Collection/multi/change-time", "a delivered change carries a change time no write of that id and value was stamped with", c, "the time of the write that set the value", fmt.Sprintf("subscriber %d: %s", k, ev))
					break
				}
			}
			if len(got) < len(c.Start)+len(obs.Events) && !updatesOnly || len(got) < len(obs.Events) {
				dropped = true
			}
			for _, h := range obs.Held[k] {
				if now := showChangeRel(h.ev); now != h.shot {
					m.Violate("C09/Collection/multi/event-rewritten-after-delivery", "an event object a subscriber had received was modified afterwards (it is shared with another subscriber's pipeline)", c, h.shot, fmt.Sprintf("subscriber %d now holds %s", k, now))
					break
				}
			}
			continue
		}
		// PullID: the values of one id, in order, until the item is removed
		id := kind[strings.Index(kind, ":")+1:]
		var written []string
		if v, ok := c.Start[id]; ok && !updatesOnly {
			written = append(written, v)
		}
		for _, ev := range obs.Events {
			if f := fields(ev); f[0] == id && f[1] != "REMOVE" {
				written = append(written, f[4])
			}
		}
		j := 0
		for _, g := range got {
			for j < len(written) && written[j] != g {
				j++
			}
			if j == len(written) {
				m.Violate("C09/Collection/PullID/not-a-subsequence", "PullID delivered values that are not a subsequence of the item's values, in order", c, strings.Join(written, " "), fmt.Sprintf("subscriber %d: %s", k, strings.Join(got, " ")))
				break
			}
			j++
		}
		cur, present := final[id]
		switch {
		case closed && !removedOnce[id]:
			m.Violate("C09/Collection/PullID/closed-without-remove", "a PullID stream ended although the item was never removed and the context is live", c, "open", fmt.Sprintf("subscriber %d closed", k))
		case !closed && present && (len(got) == 0 || got[len(got)-1] != cur) && !(updatesOnly && len(got) == 0 && cur == c.Start[id]):
			m.Violate("C09/Collection/PullID/latest-not-received", "after draining, a live PullID subscriber's last value is not the item's most recent value", c, cur, fmt.Sprintf("subscriber %d: %s", k, strings.Join(got, " ")))
		case !closed && !present && removedOnce[id] && len(got) > 0:
			m.Violate("C09/Collection/PullID/not-closed", "the item is gone but the drained PullID stream neither ended nor can show it", c, "closed", fmt.Sprintf("subscriber %d: %s", k, strings.Join(got, " ")))
		}
		if len(got) < len(written) {
			dropped = true
		}
	}
	if c.Hold {
		var got, want []string
		for _, h := range obs.HoldGot {
			got = append(got, h.shot)
			if now := showChangeRel(h.ev); now != h.shot {
				m.Violate("C09/Collection/multi/event-rewritten-after-delivery", "an event object a backpressured subscriber had received was modified afterwards (it is shared with a lossy subscriber's merge buffer)", c, h.shot, "now "+now)
				break
			}
		}
		if len(got) >= len(c.Start) {
			got = got[len(c.Start):] // seeds
		}
		want = obs.Events
		if strings.Join(got, ";") != strings.Join(want, ";") {
			m.Violate("C09/Collection/multi/backpressure-dropped-or-reordered", "a backpressured subscriber that keeps receiving, next to stalled lossy ones, must get every change in order", c, showChanges(want), showChanges(got))
		}
	}
	m.Eval(c.key(), dropped, nil)
	m.Count(fmt.Sprintf("subscribers=%d", len(c.Subs)))
	for _, kind := range c.Subs {
		if _, include := subKind(kind); include != "all" {
			m.Count("a subscriber with an include filter (" + include + ")")
		}
	}
	prevT, nonMono := int64(seedT), false
	for _, ev := range obs.Events {
		var t int64
		fmt.Sscanf(fields(ev)[2], "%d", &t)
		if t < prevT {
			nonMono = true
		}
		prevT = t
	}
	if nonMono {
		m.Count("a write stamped earlier than the one before it")
	}
}

func genCrunCases(f lib.Flags) []crunCase {
	var cases []crunCase
	type cfg struct {
		subs  []string
		hold  bool
		start map[string]string
		times string // how the t-th write is stamped (timeOf): change times are not monotonic in write order
		L     int
	}
	// "~<include>": the subscriber pulls WithInclude(odd|even|ida): the merge output is piped through
	// CollectionChange.include, and the values written alternate between admitted and excluded
	cfgs := []cfg{
		{[]string{"pull~even"}, false, map[string]string{"a": "a0"}, "down^", f.N(6, 7)},
		{[]string{"pull~odd", "pull~even"}, false, map[string]string{"a": "a0", "b": "b1"}, "zig@", f.N(5, 6)},
		{[]string{"pull!~even", "pull~ida"}, false, map[string]string{"a": "a0"}, "up@", f.N(5, 6)},
		{[]string{"pull~odd"}, true, map[string]string{}, "zig^", f.N(5, 6)},
		{[]string{"pull", "pull"}, false, map[string]string{}, "down@", f.N(5, 6)},
		{[]string{"pull", "pull"}, false, map[string]string{"a": "a0"}, "zig^", f.N(5, 6)},
		{[]string{"pull"}, false, map[string]string{"a": "a0", "b": "b0"}, "zig@", f.N(5, 7)},
		{[]string{"pull", "id:a"}, false, map[string]string{"a": "a0"}, "down^", f.N(4, 6)},
		{[]string{"id:a", "id:b"}, false, map[string]string{"b": "b0"}, "up@", f.N(4, 5)},
		{[]string{"pull", "id:a"}, true, map[string]string{}, "same@", f.N(4, 5)},
		{[]string{"pull"}, true, map[string]string{"a": "a0"}, "down@", f.N(5, 6)},
		{[]string{"pull!", "id!:a"}, false, map[string]string{"a": "a0"}, "zig^", f.N(4, 5)},
	}
	for _, g := range cfgs {
		var rec func(n int, view map[string]string, t int, prefix []string)
		rec = func(n int, view map[string]string, t int, prefix []string) {
			if len(prefix) > 0 {
				cases = append(cases, crunCase{Kind: "crun", Start: g.start, Subs: g.subs, Hold: g.hold, Moves: append([]string{}, prefix...)})
			}
			if n == 0 {
				return
			}
			for k := range g.subs {
				rec(n-1, view, t, append(prefix, fmt.Sprintf("d%d", k)))
			}
			for _, id := range []string{"a", "b"} {
				w := copyView(view)
				w[id] = fmt.Sprintf("%s%d", id, t)
				rec(n-1, w, t+1, append(prefix, fmt.Sprintf("u:%s:%s%d%s", id, id, t, timeOf(g.times, t-1))))
				if _, ok := view[id]; ok && id == "a" {
					w := copyView(view)
					delete(w, id)
					rec(n-1, w, t+1, append(prefix, "x:"+id+"^"+timeOf(g.times, t-1)[1:]))
				}
			}
		}
		rec(g.L, copyView(g.start), 1, nil)
	}
	r := lib.NewRand(f.Seed + 19)
	for i, n := 0, f.N(300, 4000); i < n; i++ {
		cases = append(cases, genCrunCase(r))
	}
	return cases
}

func genCrunCase(r *rand.Rand) crunCase {
	ids := []string{"a", "b", "c"}
	c := crunCase{Kind: "crun", Start: map[string]string{}, Hold: r.Intn(3) == 0}
	for _, id := range ids {
		if r.Intn(2) == 0 {
			c.Start[id] = fmt.Sprintf("%s%d", id, r.Intn(2))
		}
	}
	for k, n := 0, 1+r.Intn(3); k < n; k++ {
		uo := ""
		if r.Intn(4) == 0 {
			uo = "!" // WithUpdatesOnly
		}
		if r.Intn(3) == 0 {
			c.Subs = append(c.Subs, "id"+uo+":"+ids[r.Intn(len(ids))])
		} else {
			inc := ""
			if r.Intn(2) == 0 {
				inc = "~" + []string{"odd", "even", "ida"}[r.Intn(3)]
			}
			c.Subs = append(c.Subs, "pull"+uo+inc)
		}
	}
	view := copyView(c.Start)
	pace := make([]int, len(c.Subs)) // 0: never receives … 3: often
	for k := range pace {
		pace[k] = r.Intn(4)
	}
	for t, L := 1, 3+r.Intn(22); t <= L; t++ {
		id := ids[r.Intn(len(ids))]
		if _, ok := view[id]; ok && r.Intn(4) == 0 {
			c.Moves = append(c.Moves, fmt.Sprintf("x:%s^%d", id, r.Intn(10)))
			delete(view, id)
		} else {
			val := fmt.Sprintf("%s%d", id, r.Intn(10))
			if val == view[id] {
				val = fmt.Sprintf("%s%d", id, (int(val[1]-'0')+1)%10)
			}
			c.Moves = append(c.Moves, fmt.Sprintf("u:%s:%s%s%d", id, val, []string{"@", "^"}[r.Intn(2)], r.Intn(10)))
			view[id] = val
		}
		for k := range c.Subs {
			for r.Intn(6) < pace[k] {
				c.Moves = append(c.Moves, fmt.Sprintf("d%d", k))
			}
		}
	}
	return c
}

func runCollectionPipelines(f lib.Flags, res *lib.Result, drv *lib.Driver) {
	tie := res.Tie("collection-subscribers", "K1",
		"the REAL resource.Collection with SEVERAL lossy subscribers on one bus (each Collection.Pull or Collection.PullID, seeded or WithUpdatesOnly; optionally next to a backpressured one that keeps receiving), end to end (Update/Delete -> bus -> mergeCollectionExcess -> Pull's forwarder [-> PullID's goroutine] -> consumer k), one move at a time (u:/x: = a write stamped with a change time through WithWriteTime or the collection's stepped clock — times go up, down and zigzag, NOT monotonic in write order —, d<k> = consumer k receives once; Pull subscribers optionally WithInclude(odd|even|ida) so that the merge output is piped through CollectionChange.include with values moving into and out of the admitted set; after every move the harness waits until every forwarder has caught up) vs the model's sysStep: one machine per subscriber, independent of each other, scheduled greedily: ALL move sequences up to length L (4..5 quick, 5..7 thorough, by configuration) over 2 ids x 1..2 subscribers' receives (seeds of the start view are received as part of the moves, so writes also arrive and merge during the seed phase) from several start views and subscriber mixes, plus random longer ones (<= 3 subscribers, 3 ids); compared: what every receive yields (all fields but the wall-clock time) and what a final drain of every subscriber yields; non-trivial = at least two writes; distinct = (start, subscribers, moves)")
	mon := res.Monitor("subscribers-independent", "on the same runs, independent of the model: no write blocks, fails or waits (bound 2s) whichever lossy subscribers stall; every Pull subscriber's own stream chains per id at its own view and folds, after a drain, to the collection's state as its include filter admits it (= List with that filter), never carries a value the filter excludes, and every change carries the change time of the write that set its value; no event object a subscriber received changes afterwards (re-rendered at the end); a PullID subscriber receives a subsequence of its item's values, ends only if the item was removed, and otherwise ends on the item's most recent value; a backpressured subscriber that keeps receiving gets every change in order; distinct = the case; non-trivial = something was merged away or skipped")
	cases := genCrunCases(f)
	lines := make([]string, len(cases))
	for i, c := range cases {
		lines[i] = c.modelLine()
	}
	ans, err := drv.Batch(lines)
	if err != nil {
		tie.Fail(err)
		return
	}
	var b pipeBudget
	var maxW time.Duration
	const chunk = 128
chunks:
	for lo := 0; lo < len(cases); lo += chunk {
		hi := lo + chunk
		if hi > len(cases) {
			hi = len(cases)
		}
		obss := make([]crunObs, hi-lo)
		parallelDo(hi-lo, func(j int) { obss[j] = cases[lo+j].runCode(ans[lo+j], &b) })
		for j, obs := range obss {
			i, c := lo+j, cases[lo+j]
			if obs.Skipped {
				tie.Count("skipped after blocked writes")
				continue
			}
			if obs.MaxWrite > maxW {
				maxW = obs.MaxWrite
			}
			c.monitor(mon, obs)
			code := obs.answer()
			if obs.WriteBlock != "" {
				code += "!blocked:" + obs.WriteBlock
			}
			if obs.WriteErr != "" {
				code += "!error"
			}
			if obs.Unsynced {
				b.unsynced++
				tie.Count("unsynced (a forwarder did not reach the model's schedule within 2s; monitors only)")
			} else {
				tie.Record(c.key(), len(obs.Events) >= 2, c, stripCountsC(ans[i]), code)
				tie.Count(fmt.Sprintf("subscribers=%d", len(c.Subs)))
			}
			if obs.Unsynced || obs.WriteBlock != "" || strings.Contains(code, "timeout") {
				b.slow++
				b.aborted = c.key() + " -> " + code
			}
		}
		if b.slow > 6 || b.exhausted() {
			tie.Fail(fmt.Errorf("aborted after %d cases in which the real pipelines did not respond within their bound (last: %s)", b.slow, b.aborted))
			break chunks
		}
	}
	res.Extra["max_write_latency_us/collection-subscribers"] = maxW.Microseconds()
}

func stripCountsC(ans string) string {
	parts := strings.SplitN(ans, "|", 2)
	if len(parts) != 2 {
		return ans
	}
	var outs []string
	if parts[0] != "" {
		for _, o := range strings.Split(parts[0], " ") {
			if i := strings.LastIndex(o, "@"); i >= 0 {
				outs = append(outs, o[:i])
			}
		}
	}
	return showOutsSp(outs) + "|" + parts[1]
}
