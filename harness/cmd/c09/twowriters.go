package main

import (
	"context"
	"fmt"
	"os"
	"strings"
	"sync/atomic"
	"time"

	"google.golang.org/protobuf/proto"
	"google.golang.org/protobuf/types/known/wrapperspb"

	"github.com/smart-core-os/sc-golang/internal/verifhook"
	"github.com/smart-core-os/sc-golang/pkg/resource"
	"github.com/smart-core-os/sc-golang/verifharness/lib"
)

// yrunCase: lossy ("L") and backpressured ("B") Pull subscribers mixed on one REAL resource.Value /
// resource.Collection, one of them CANCELLED but not yet collected by the bus, and TWO writers whose writes
// overlap (Value.Set and Collection.Update publish after they have released the resource's lock):
//
//  1. every subscriber subscribes (updates only); write t0 goes through (every forwarder now holds t0)
//  2. the subscriptions in Dead are cancelled (their listeners stay registered until a Send that met them has
//     returned and collected them)
//  3. writer 1 starts t1 and is waited for until it is parked (at the first live backpressured subscriber) or has
//     returned; then writer 2 starts t2 the same way: both sends are in progress
//  4. the consumers receive in the order Recvs (each at most once per entry), then round after round until both
//     writes have returned and nothing more comes
//
// Monitor only (C09_bus_exactly_once and C09_mixed_subscribers are the theorems; the bus-level family ties the
// model): every live backpressured subscriber gets t0, t1, t2 — each exactly once —, all of them in the same
// order; every live lossy subscriber gets a subsequence of that order ending on its last element; both writes
// return without error.
type yrunCase struct {
	Kind   string   `json:"kind"`   // "yrun"
	Target string   `json:"target"` // value | collection
	Subs   []string `json:"subs"`
	Dead   []int    `json:"dead"`
	Recvs  []int    `json:"recvs"`
}

var yrunTrace = os.Getenv("C09_TRACE") != ""

func (c yrunCase) key() string {
	return fmt.Sprintf("%s/%s/dead%v/%v", c.Target, strings.Join(c.Subs, ""), c.Dead, c.Recvs)
}

type yrunObs struct {
	Received [][]string
	Errs     []string
	Stuck    string
	Parked   [2]bool // whether writer 1 / writer 2 had to wait
}

func (c yrunCase) runCode() (obs yrunObs) {
	n := len(c.Subs)
	obs.Received = make([][]string, n)
	ctxs := make([]context.Context, n)
	cancels := make([]context.CancelFunc, n)
	recvs := make([]func(wait time.Duration) (string, bool), n)
	root, stop := context.WithCancel(context.Background())
	defer stop()
	for k := range c.Subs {
		ctxs[k], cancels[k] = context.WithCancel(root)
	}
	var write func(tok string) error
	ropts := func(k int) []resource.ReadOption {
		return []resource.ReadOption{resource.WithBackpressure(c.Subs[k] == "B"), resource.WithUpdatesOnly(true)}
	}
	if c.Target == "value" {
		v := resource.NewValue(resource.WithInitialValue(wrapperspb.String("s0")), resource.WithEquivalence(resource.ComparerFunc(func(x, y proto.Message) bool { return false })))
		for k := range c.Subs {
			ch := v.Pull(ctxs[k], ropts(k)...)
			recvs[k] = func(wait time.Duration) (string, bool) {
				t := time.NewTimer(wait)
				defer t.Stop()
				select {
				case ev, ok := <-ch:
					if !ok {
						return "closed", false
					}
					return tokOf(ev.Value), true
				case <-t.C:
					return "timeout", false
				}
			}
		}
		write = func(tok string) error { _, err := v.Set(wrapperspb.String(tok)); return err }
	} else {
		col := resource.NewCollection(resource.WithInitialRecord("a", wrapperspb.String("s0")))
		for k := range c.Subs {
			ch := col.Pull(ctxs[k], ropts(k)...)
			recvs[k] = func(wait time.Duration) (string, bool) {
				t := time.NewTimer(wait)
				defer t.Stop()
				select {
				case ev, ok := <-ch:
					if !ok {
						return "closed", false
					}
					if ev.Id != "a" || ev.NewValue == nil {
						return showChange(ev, false), true
					}
					return tokOf(ev.NewValue), true
				case <-t.C:
					return "timeout", false
				}
			}
		}
		write = func(tok string) error { _, err := col.Update("a", wrapperspb.String(tok)); return err }
	}
	dead := map[int]bool{}
	take := func(k int, wait time.Duration) bool {
		g, ok := recvs[k](wait)
		if yrunTrace {
			fmt.Printf("%s take %d -> %s %v\n", time.Now().Format("05.000000"), k, g, ok)
		}
		if ok {
			obs.Received[k] = append(obs.Received[k], g)
		}
		return ok
	}
	if ok, err := timedCall(pipeWait, func() error { return write("t0") }); !ok || err != nil {
		obs.Stuck = "the first write (every forwarder is free)"
		return obs
	}
	for _, k := range c.Dead {
		if k < n {
			cancels[k]()
			dead[k] = true
			for { // until the subscription's channel is closed
				if g, ok := recvs[k](pipeWait); !ok {
					if g == "timeout" {
						obs.Stuck = fmt.Sprintf("subscription %d did not end after its context was cancelled", k)
						return obs
					}
					break
				}
			}
		}
	}
	type writer struct {
		done chan error
		ctr  *atomic.Int64
		ret  bool
	}
	start := func(tok string) *writer {
		w := &writer{done: make(chan error, 1), ctr: new(atomic.Int64)}
		go func() {
			id := verifhook.GoID()
			xrunWriters.Store(id, w.ctr)
			defer xrunWriters.Delete(id)
			w.done <- write(tok)
		}()
		return w
	}
	returned := func(w *writer, tok string, wait time.Duration) bool {
		if w.ret {
			return true
		}
		t := time.NewTimer(wait)
		defer t.Stop()
		select {
		case err := <-w.done:
			w.ret = true
			if err != nil {
				obs.Errs = append(obs.Errs, tok+": "+err.Error())
			}
			return true
		case <-t.C:
			return false
		}
	}
	// settleWriter: the writer has returned, or stands still at a listener (the yield point in Send's loop counts)
	settleWriter := func(w *writer, tok string) bool {
		for t0 := time.Now(); w.ctr.Load() == 0 && time.Since(t0) < pipeWait; {
			if returned(w, tok, 50*time.Microsecond) {
				return true
			}
		}
		for {
			v := w.ctr.Load()
			if returned(w, tok, 400*time.Microsecond) {
				return true
			}
			if w.ctr.Load() == v {
				return false
			}
		}
	}
	w1 := start("t1")
	obs.Parked[0] = !settleWriter(w1, "t1")
	w2 := start("t2")
	obs.Parked[1] = !settleWriter(w2, "t2")
	if yrunTrace {
		fmt.Printf("parked %v ctr %d %d\n", obs.Parked, w1.ctr.Load(), w2.ctr.Load())
	}
	// one receive at a time: a receive that frees a backpressured forwarder releases the writer parked there first;
	// it is waited for (until it has returned or stands still at a later listener) before the next receive, so that
	// the two writers never run at the same time
	settleBoth := func() {
		if !w1.ret {
			settleWriter(w1, "t1")
		}
		if !w2.ret {
			settleWriter(w2, "t2")
		}
	}
	for _, k := range c.Recvs {
		if k < n && !dead[k] {
			if take(k, 2*time.Millisecond) {
				settleBoth()
			}
		}
	}
	// round after round until both writes have returned …
	deadline := time.Now().Add(3 * time.Second)
	for !(returned(w1, "t1", 0) && returned(w2, "t2", 0)) {
		if time.Now().After(deadline) {
			obs.Stuck = "a write did not return although every live consumer keeps receiving"
			stop()
			return obs
		}
		for k := range c.Subs {
			if !dead[k] && take(k, 500*time.Microsecond) {
				settleBoth()
			}
		}
	}
	// … and nothing more comes (a lossy forwarder may still be on its way from the slot to its consumer)
	for k := range c.Subs {
		if dead[k] {
			continue
		}
		for take(k, 3*time.Millisecond) {
		}
		if c.Subs[k] == "L" {
			if r := obs.Received[k]; len(r) == 0 || (r[len(r)-1] != "t1" && r[len(r)-1] != "t2") {
				for take(k, 300*time.Millisecond) { // not there yet: give it the bound before judging
				}
			}
		}
	}
	return obs
}

func (c yrunCase) monitor(m *lib.Monitor, obs yrunObs) {
	T := "Value"
	if c.Target == "collection" {
		T = "Collection"
	}
	sig := "C09/" + T + "/two-writers/"
	if obs.Stuck != "" {
		m.Violate(sig+"stuck", "a write or a subscription's end did not complete", c, "completes", obs.Stuck)
		return
	}
	if len(obs.Errs) > 0 {
		m.Violate(sig+"write-error", "a write failed although every backpressured consumer kept receiving", c, "nil", strings.Join(obs.Errs, "; "))
	}
	dead := map[int]bool{}
	for _, k := range c.Dead {
		dead[k] = true
	}
	var order []string
	for k, kind := range c.Subs {
		if dead[k] || kind != "B" {
			continue
		}
		got := obs.Received[k]
		seen := map[string]int{}
		for _, g := range got {
			seen[g]++
		}
		if len(got) != 3 || seen["t0"] != 1 || seen["t1"] != 1 || seen["t2"] != 1 || got[0] != "t0" {
			m.Violate(sig+"backpressure-dropped-or-duplicated", "two overlapping writes next to a cancelled subscription: a backpressured subscriber that keeps receiving must get every write exactly once", c, "t0, then t1 and t2 once each", fmt.Sprintf("subscriber %d: %s (all: %v)", k, strings.Join(got, " "), obs.Received))
			return
		}
		if order == nil {
			order = got
		} else if strings.Join(order, " ") != strings.Join(got, " ") {
			m.Violate(sig+"backpressure-orders-differ", "two writes that queue up at the first backpressured subscriber reach every later listener in the order they left it", c, strings.Join(order, " "), fmt.Sprintf("subscriber %d: %s", k, strings.Join(got, " ")))
		}
	}
	if order == nil {
		order = []string{"t0", "t1", "t2"}
	}
	dropped := false
	for k, kind := range c.Subs {
		if dead[k] || kind != "L" {
			continue
		}
		got := obs.Received[k]
		j := 0
		okSub := true
		for _, g := range got {
			for j < len(order) && order[j] != g {
				j++
			}
			if j == len(order) {
				okSub = false
				break
			}
			j++
		}
		if !okSub {
			m.Violate(sig+"lossy-not-a-subsequence", "a lossy subscriber received values that are not a subsequence (without repeats) of the order in which the writes reached the listeners", c, strings.Join(order, " "), fmt.Sprintf("subscriber %d: %s", k, strings.Join(got, " ")))
			continue
		}
		if len(got) == 0 || got[len(got)-1] != order[len(order)-1] {
			m.Violate(sig+"lossy-latest-not-received", "after both overlapping writes have returned and the reader has read on until nothing more came, a lossy subscriber's last value is not the one that reached the listeners last", c, order[len(order)-1], fmt.Sprintf("subscriber %d: %s (all: %v)", k, strings.Join(got, " "), obs.Received))
		}
		if len(got) < 3 {
			dropped = true
		}
	}
	m.Eval(c.key(), obs.Parked[0] && obs.Parked[1], nil)
	_ = dropped
	switch {
	case obs.Parked[0] && obs.Parked[1]:
		m.Count("both writes were in progress at once")
	case obs.Parked[0] || obs.Parked[1]:
		m.Count("one write waited")
	default:
		m.Count("no write had to wait (no live backpressured subscriber)")
	}
	if len(c.Dead) > 0 {
		m.Count("a cancelled subscription still registered when the writes started")
	}
}

func runTwoWriters(f lib.Flags, res *lib.Result) {
	mon := res.Monitor("two-writers-mixed-subscribers", "the REAL resource.Value / resource.Collection with lossy and backpressured Pull subscribers mixed (ALL kind strings of length 3 and 4 with at least one backpressured one), none / each one of them cancelled after the first write and not yet collected by the bus, and TWO writers whose writes are in progress at once (writer 2 starts when writer 1 stands parked at a backpressured subscriber, seen through the yield point in Bus.Send's loop), the consumers then receive in a seeded random order and round after round until both writes have returned and nothing more comes: every live backpressured subscriber gets t0, t1, t2 — each exactly once —, all of them in the same order; every live lossy subscriber gets a subsequence of that order ending on its last element; both writes return without error; a failing case is re-run twice; distinct = the case; non-trivial = both writes had to wait")
	verifhook.Set(xrunHook)
	defer verifhook.Set(nil)
	r := lib.NewRand(f.Seed + 29)
	var cases []yrunCase
	for _, L := range []int{3, 4} {
		for bits := 0; bits < 1<<L; bits++ {
			subs := make([]string, L)
			nb := 0
			for k := range subs {
				subs[k] = "L"
				if bits>>k&1 == 1 {
					subs[k] = "B"
					nb++
				}
			}
			if nb == 0 {
				continue
			}
			for d := -1; d < L; d++ {
				var deadList []int
				if d >= 0 {
					deadList = []int{d}
				}
				for ti, target := range []string{"value", "collection"} {
					if !f.Thorough() && (bits+d+ti)%2 == 0 && L == 4 {
						continue
					}
					for rep, reps := 0, f.N(1, 3); rep < reps; rep++ {
						var recvs []int
						for i, nr := 0, 2+r.Intn(8); i < nr; i++ {
							recvs = append(recvs, r.Intn(L))
						}
						cases = append(cases, yrunCase{Kind: "yrun", Target: target, Subs: subs, Dead: deadList, Recvs: recvs})
					}
				}
			}
		}
	}
	obss := make([]yrunObs, len(cases))
	parallelDo(len(cases), func(i int) {
		c := cases[i]
		for attempt := 0; attempt < 3; attempt++ {
			obss[i] = c.runCode()
			priv := lib.NewMonitor("private", "")
			c.monitor(priv, obss[i])
			if len(priv.Violations) == 0 {
				break
			}
		}
	})
	for i, c := range cases {
		c.monitor(mon, obss[i])
	}
}
