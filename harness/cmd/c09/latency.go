package main

import (
	"context"
	"fmt"
	"sort"
	"strings"
	"time"

	"google.golang.org/protobuf/types/known/wrapperspb"

	"github.com/smart-core-os/sc-golang/pkg/resource"
	"github.com/smart-core-os/sc-golang/verifharness/lib"
)

// latencyCase: the clauses of C09 that are about the real Value/Collection with real subscribers.
//
//	value-idle        Value.Pull without backpressure, never read: N Sets each return promptly; on reading,
//	                  the subscriber gets the seed and then the most recent value
//	collection-idle   Collection.Pull without backpressure, never read during the writes: every write returns
//	                  promptly; on reading (to a fence) the events chain per id and fold to List
//	value-bp          Value.Pull with backpressure and a subscriber that keeps receiving: nothing is dropped, in
//	                  order; while the subscriber does not receive, Set does not return (the writer waits)
//	value-bp-timeout  (thorough) Value.Pull with backpressure never read: Set returns an error after ~5 s
type latencyCase struct {
	Kind string `json:"kind"` // "latency"
	What string `json:"what"`
	N    int    `json:"n"`
}

const promptBound = 2 * time.Second // "without waiting": generous bound on a loaded machine; expected µs (the alternative is blocking for good or for the 5 s send timeout)

func (c latencyCase) run(m *lib.Monitor) (maxLatency time.Duration) {
	switch c.What {
	case "value-idle":
		return c.valueIdle(m)
	case "collection-idle":
		return c.collectionIdle(m)
	case "value-bp":
		return c.valueBP(m)
	case "value-bp-timeout":
		return c.valueTimeout(m)
	}
	return 0
}

func (c latencyCase) valueIdle(m *lib.Monitor) (max time.Duration) {
	v := resource.NewValue(resource.WithInitialValue(wrapperspb.String("v0")))
	ctx, cancel := context.WithCancel(context.Background())
	defer cancel()
	ch := v.Pull(ctx) // lossy, never read while writing
	last := "v0"
	for i := 1; i <= c.N; i++ {
		last = fmt.Sprintf("v%d", i)
		t0 := time.Now()
		done := make(chan error, 1)
		go func() { _, err := v.Set(wrapperspb.String(last)); done <- err }()
		select {
		case err := <-done:
			if err != nil {
				m.Violate("C09/Value/lossy/set-error", "Set failed with an idle lossy subscriber", c, "nil", err.Error())
				return
			}
		case <-time.After(6 * time.Second):
			m.Violate("C09/Value/lossy/writer-blocked", "Set did not return with an idle lossy subscriber attached", c, "prompt return", "blocked > 6s at write "+last)
			return
		}
		if d := time.Since(t0); d > max {
			max = d
		}
	}
	if max > promptBound {
		m.Violate("C09/Value/lossy/writer-waited", "Set waited for an idle lossy subscriber", c, "< "+promptBound.String(), max.String())
	}
	// now receive: seed first, then eventually the most recent value
	var got []string
	deadline := time.After(3 * time.Second)
loop:
	for {
		select {
		case ev := <-ch:
			got = append(got, tokOf(ev.Value))
			if tokOf(ev.Value) == last {
				break loop
			}
		case <-deadline:
			break loop
		}
	}
	if len(got) == 0 || got[len(got)-1] != last {
		m.Violate("C09/Value/lossy/latest-not-received", "the subscriber did not eventually receive the most recent value", c, last, strings.Join(got, " "))
	}
	// received values are in write order (a subsequence)
	prev := -1
	for _, g := range got {
		var k int
		fmt.Sscanf(g, "v%d", &k)
		if k < prev {
			m.Violate("C09/Value/lossy/out-of-order", "received values are not in write order", c, "ascending", strings.Join(got, " "))
		}
		prev = k
	}
	m.Eval(fmt.Sprintf("value-idle/%d", c.N), len(got) < c.N, nil)
	return max
}

func (c latencyCase) collectionIdle(m *lib.Monitor) (max time.Duration) {
	col := resource.NewCollection()
	_, _ = col.Add("a", wrapperspb.String("a0"))
	ctx, cancel := context.WithCancel(context.Background())
	defer cancel()
	ch := col.Pull(ctx) // lossy, not read while writing
	ids := []string{"a", "b", "c"}
	shadow := map[string]string{"a": "a0"}
	timed := func(name string, f func() error) bool {
		t0 := time.Now()
		done := make(chan error, 1)
		go func() { done <- f() }()
		select {
		case err := <-done:
			if err != nil {
				m.Violate("C09/Collection/lossy/write-error", "a write failed with an idle lossy subscriber", c, "nil", name+": "+err.Error())
				return false
			}
		case <-time.After(6 * time.Second):
			m.Violate("C09/Collection/lossy/writer-blocked", "a write did not return with an idle lossy subscriber attached", c, "prompt return", "blocked > 6s at "+name)
			return false
		}
		if d := time.Since(t0); d > max {
			max = d
		}
		return true
	}
	for i := 1; i <= c.N; i++ {
		id := ids[i%len(ids)]
		val := fmt.Sprintf("%s%d", id, i)
		if _, present := shadow[id]; present && i%5 == 0 {
			if !timed("del "+id, func() error { _, err := col.Delete(id); return err }) {
				return
			}
			delete(shadow, id)
			continue
		}
		if !timed("ups "+id, func() error {
			_, err := col.Update(id, wrapperspb.String(val), resource.WithCreateIfAbsent())
			return err
		}) {
			return
		}
		shadow[id] = val
	}
	if !timed("fence", func() error { _, err := col.Add("~", wrapperspb.String("f")); return err }) {
		return
	}
	shadow["~"] = "f"
	if max > promptBound {
		m.Violate("C09/Collection/lossy/writer-waited", "a write waited for an idle lossy subscriber", c, "< "+promptBound.String(), max.String())
	}
	view := map[string]string{}
	n := 0
	deadline := time.After(3 * time.Second)
loop:
	for {
		select {
		case ev := <-ch:
			n++
			s := showChange(ev, false)
			if !foldInto(view, s) {
				m.Violate("C09/Collection/lossy/old-value-chain", "a delivered change is not well formed at the subscriber's view", c, "well-formed at "+showView(view), s)
			}
			if ev.Id == "~" {
				break loop
			}
		case <-deadline:
			m.Violate("C09/Collection/lossy/latest-not-received", "the subscriber did not receive the last change within 3s", c, "fence event", showView(view))
			break loop
		}
	}
	if a, b := showView(view), showView(shadow); a != b {
		m.Violate("C09/Collection/lossy/fold-differs", "the received changes fold to a different view than the collection holds", c, b, a)
	}
	var listed []string
	for _, msg := range col.List() {
		listed = append(listed, tokOf(msg))
	}
	var want []string
	for _, v := range view {
		want = append(want, v)
	}
	sort.Strings(listed)
	sort.Strings(want)
	if strings.Join(listed, ",") != strings.Join(want, ",") {
		m.Violate("C09/Collection/lossy/fold-differs-from-List", "the received changes fold to a different view than List", c, strings.Join(listed, ","), strings.Join(want, ","))
	}
	m.Eval(fmt.Sprintf("collection-idle/%d", c.N), n < c.N, nil)
	return max
}

func (c latencyCase) valueBP(m *lib.Monitor) (max time.Duration) {
	v := resource.NewValue(resource.WithInitialValue(wrapperspb.String("v0")))
	ctx, cancel := context.WithCancel(context.Background())
	defer cancel()
	ch := v.Pull(ctx, resource.WithBackpressure(true))
	// 1. the writer waits: nobody receives, so Set must not return (within 60ms)
	done := make(chan error, 1)
	go func() { _, err := v.Set(wrapperspb.String("v1")); done <- err }()
	select {
	case <-done:
		m.Violate("C09/Value/backpressure/writer-did-not-wait", "with backpressure Set returned although the subscriber had not received", c, "Set blocked until delivery", "returned")
		return
	case <-time.After(60 * time.Millisecond):
	}
	// 2. the subscriber starts receiving: seed, then v1; Set returns
	var got []string
	recv := func() bool {
		select {
		case ev := <-ch:
			got = append(got, tokOf(ev.Value))
			return true
		case <-time.After(3 * time.Second):
			return false
		}
	}
	if !recv() || !recv() {
		m.Violate("C09/Value/backpressure/not-delivered", "with backpressure an event was not delivered to a receiving subscriber", c, "v0 v1", strings.Join(got, " "))
		return
	}
	select {
	case err := <-done:
		if err != nil {
			m.Violate("C09/Value/backpressure/set-error", "Set failed although the subscriber received", c, "nil", err.Error())
		}
	case <-time.After(3 * time.Second):
		m.Violate("C09/Value/backpressure/writer-stuck", "Set did not return after the subscriber received", c, "return", "blocked")
		return
	}
	// 3. nothing is dropped while the subscriber keeps receiving
	recvDone := make(chan struct{})
	go func() {
		defer close(recvDone)
		for i := 0; i < c.N; i++ {
			if !recv() {
				return
			}
		}
	}()
	want := []string{"v0", "v1"}
	for i := 2; i < c.N+2; i++ {
		val := fmt.Sprintf("v%d", i)
		want = append(want, val)
		t0 := time.Now()
		if _, err := v.Set(wrapperspb.String(val)); err != nil {
			m.Violate("C09/Value/backpressure/set-error", "Set failed although the subscriber keeps receiving", c, "nil", err.Error())
			return
		}
		if d := time.Since(t0); d > max {
			max = d
		}
	}
	select {
	case <-recvDone:
	case <-time.After(5 * time.Second):
	}
	if strings.Join(got, " ") != strings.Join(want, " ") {
		m.Violate("C09/Value/backpressure/dropped-or-reordered", "with backpressure and a receiving subscriber every value must arrive, in order", c, strings.Join(want, " "), strings.Join(got, " "))
	}
	m.Eval(fmt.Sprintf("value-bp/%d", c.N), true, nil)
	return max
}

func (c latencyCase) valueTimeout(m *lib.Monitor) (max time.Duration) {
	v := resource.NewValue(resource.WithInitialValue(wrapperspb.String("v0")))
	ctx, cancel := context.WithCancel(context.Background())
	defer cancel()
	_ = v.Pull(ctx, resource.WithBackpressure(true)) // never read
	t0 := time.Now()
	done := make(chan error, 1)
	go func() { _, err := v.Set(wrapperspb.String("v1")); done <- err }()
	select {
	case err := <-done:
		d := time.Since(t0)
		max = d
		if err == nil {
			m.Violate("C09/Value/backpressure/timeout-no-error", "Set returned nil although its event could not be delivered", c, "an error after the 5s send timeout", "nil after "+d.String())
		} else if d < 4500*time.Millisecond || d > 8*time.Second {
			m.Violate("C09/Value/backpressure/timeout-wrong-deadline", "Set gave up at the wrong time", c, "~5s", d.String())
		}
	case <-time.After(12 * time.Second):
		m.Violate("C09/Value/backpressure/hang", "Set hangs when its event cannot be delivered", c, "an error after the 5s send timeout", "still blocked after 12s")
	}
	m.Eval("value-bp-timeout", true, nil)
	return max
}

func runLatency(f lib.Flags, res *lib.Result) {
	mon := res.Monitor("writers-and-subscribers", "real Value/Collection with real Pull subscribers: with an idle lossy subscriber every Set/Update/Delete returns (bound 2s, latencies recorded) and on reading the subscriber gets the most recent value / a per-id chained stream folding to List; with backpressure Set does not return before the subscriber receives, and nothing is dropped or reordered while it keeps receiving; thorough: a never-read backpressured Pull makes Set return an error after ~5s; distinct = scenario")
	cases := []latencyCase{
		{Kind: "latency", What: "value-idle", N: f.N(200, 2000)},
		{Kind: "latency", What: "collection-idle", N: f.N(200, 2000)},
		{Kind: "latency", What: "value-bp", N: f.N(100, 1000)},
	}
	if f.Thorough() {
		cases = append(cases, latencyCase{Kind: "latency", What: "value-bp-timeout", N: 1})
	}
	for _, c := range cases {
		d := c.run(mon)
		res.Extra["max_write_latency_us/"+c.What] = d.Microseconds()
	}
}
