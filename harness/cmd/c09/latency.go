package main

import (
	"context"
	"fmt"
	"sort"
	"strings"
	"sync/atomic"
	"time"

	"google.golang.org/protobuf/types/known/wrapperspb"

	"github.com/smart-core-os/sc-golang/pkg/resource"
	"github.com/smart-core-os/sc-golang/verifharness/lib"
)

// latencyCase: the clauses of C09 that are about the real Value/Collection with real subscribers.
//
//	value-idle        Value.Pull without backpressure, never read: N Sets each return promptly; on reading,
//	                  the subscriber gets the seed and then the most recent value
//	collection-idle   Collection.Pull without backpressure, never read during the writes: every write returns
//	                  promptly; on reading (to a fence) the events chain per id and fold to List
//	value-bp          Value.Pull with backpressure and a subscriber that keeps receiving: nothing is dropped, in
//	                  order; while the subscriber does not receive, Set does not return (the writer waits)
//	value-bp-timeout  (thorough) Value.Pull with backpressure never read: Set returns an error after ~5 s
//	collection-stress / value-stress   free-running goroutines: one writer at full speed, one lossy
//	                  subscriber receiving with random pauses (seeded): the received stream chains per id and,
//	                  after a final fence, folds to List / ends with the last value written
type latencyCase struct {
	Kind string `json:"kind"` // "latency"
	What string `json:"what"`
	N    int    `json:"n"`
	Seed int64  `json:"seed,omitempty"`
	// BP: the subscriber's backpressure options AS A LIST, in the order they are passed to Pull (an adapter's
	// default followed by the caller's own choice): the LAST one decides; none = the default (no backpressure)
	BP []bool `json:"bp,omitempty"`
}

// bpOptions: one WithBackpressure per element, in order, with options that do not concern backpressure in between
func bpOptions(bp []bool) []resource.ReadOption {
	var opts []resource.ReadOption
	for i, b := range bp {
		opts = append(opts, resource.WithBackpressure(b))
		if i%2 == 0 {
			opts = append(opts, resource.WithUpdatesOnly(false))
		}
	}
	return opts
}

// effectiveBP: what the option list asks for, written independently of the code: the last element, else false
func effectiveBP(bp []bool) bool {
	eff := false
	for _, b := range bp {
		eff = b
	}
	return eff
}

func (c latencyCase) bpSig() string {
	if len(c.BP) > 1 {
		return "/option-list"
	}
	return ""
}

const blockedAfter = 3 * time.Second // a write that has not returned by then is reported as blocked (expected: µs)

const promptBound = 2 * time.Second // "without waiting": generous bound on a loaded machine; expected µs (the alternative is blocking for good or for the 5 s send timeout)

func (c latencyCase) run(m *lib.Monitor) (maxLatency time.Duration) {
	switch c.What {
	case "value-idle":
		return c.valueIdle(m)
	case "collection-idle":
		return c.collectionIdle(m)
	case "value-bp":
		return c.valueBP(m)
	case "value-bp-timeout":
		return c.valueTimeout(m)
	case "value-churn-lossy":
		c.valueChurn(m, false)
	case "value-churn-bp":
		c.valueChurn(m, true)
	case "collection-churn":
		c.collectionChurn(m)
	case "collection-bp-pause-update":
		c.collectionPause(m, false)
	case "collection-bp-pause-delete":
		c.collectionPause(m, true)
	case "collection-bulk-idle":
		return c.collectionBulk(m)
	case "collection-stress":
		return c.collectionStress(m)
	case "value-stress":
		return c.valueStress(m)
	}
	return 0
}

// backdated: change times that zigzag with the write number (not monotonic in write order)
func backdated(i int) time.Time {
	return timeBase.Add(time.Duration((i*7919)%97) * time.Second)
}

func (c latencyCase) valueIdle(m *lib.Monitor) (max time.Duration) {
	v := resource.NewValue(resource.WithInitialValue(wrapperspb.String("v0")))
	ctx, cancel := context.WithCancel(context.Background())
	defer cancel()
	ch := v.Pull(ctx, bpOptions(c.BP)...) // lossy (the last backpressure option, if any, says false), never read while writing
	last := "v0"
	for i := 1; i <= c.N; i++ {
		last = fmt.Sprintf("v%d", i)
		t0 := time.Now()
		done := make(chan error, 1)
		// change times go DOWN while the writes go on (WithWriteTime in the past): the most recent value is the last written
		wt := resource.WithWriteTime(timeBase.Add(time.Duration(c.N-i) * time.Second))
		go func() { _, err := v.Set(wrapperspb.String(last), wt); done <- err }()
		select {
		case err := <-done:
			if err != nil {
				m.Violate("C09/Value/lossy"+c.bpSig()+"/set-error", "Set failed with an idle lossy subscriber", c, "nil", err.Error())
				return
			}
		case <-time.After(blockedAfter):
			m.Violate("C09/Value/lossy"+c.bpSig()+"/writer-blocked", "Set did not return with an idle lossy subscriber attached", c, "prompt return", "blocked > 3s at write "+last)
			return
		}
		if d := time.Since(t0); d > max {
			max = d
		}
	}
	if max > promptBound {
		m.Violate("C09/Value/lossy"+c.bpSig()+"/writer-waited", "Set waited for an idle lossy subscriber", c, "< "+promptBound.String(), max.String())
	}
	// now receive: seed first, then eventually the most recent value
	var got []string
	deadline := time.After(3 * time.Second)
loop:
	for {
		select {
		case ev := <-ch:
			got = append(got, tokOf(ev.Value))
			if tokOf(ev.Value) == last {
				break loop
			}
		case <-deadline:
			break loop
		}
	}
	if len(got) == 0 || got[len(got)-1] != last {
		m.Violate("C09/Value/lossy/latest-not-received", "the subscriber did not eventually receive the most recent value", c, last, strings.Join(got, " "))
	}
	// received values are in write order (a subsequence)
	prev := -1
	for _, g := range got {
		var k int
		fmt.Sscanf(g, "v%d", &k)
		if k < prev {
			m.Violate("C09/Value/lossy/out-of-order", "received values are not in write order", c, "ascending", strings.Join(got, " "))
		}
		prev = k
	}
	m.Eval(fmt.Sprintf("value-idle/%d/%v", c.N, c.BP), len(got) < c.N, nil)
	return max
}

func (c latencyCase) collectionIdle(m *lib.Monitor) (max time.Duration) {
	col := resource.NewCollection()
	_, _ = col.Add("a", wrapperspb.String("a0"))
	ctx, cancel := context.WithCancel(context.Background())
	defer cancel()
	ch := col.Pull(ctx, bpOptions(c.BP)...) // lossy (the last backpressure option, if any, says false), not read while writing
	ids := []string{"a", "b", "c"}
	shadow := map[string]string{"a": "a0"}
	timed := func(name string, f func() error) bool {
		t0 := time.Now()
		done := make(chan error, 1)
		go func() { done <- f() }()
		select {
		case err := <-done:
			if err != nil {
				m.Violate("C09/Collection/lossy"+c.bpSig()+"/write-error", "a write failed with an idle lossy subscriber", c, "nil", name+": "+err.Error())
				return false
			}
		case <-time.After(blockedAfter):
			m.Violate("C09/Collection/lossy"+c.bpSig()+"/writer-blocked", "a write did not return with an idle lossy subscriber attached", c, "prompt return", "blocked > 3s at "+name)
			return false
		}
		if d := time.Since(t0); d > max {
			max = d
		}
		return true
	}
	for i := 1; i <= c.N; i++ {
		id := ids[i%len(ids)]
		val := fmt.Sprintf("%s%d", id, i)
		if _, present := shadow[id]; present && i%5 == 0 {
			if !timed("del "+id, func() error { _, err := col.Delete(id); return err }) {
				return
			}
			delete(shadow, id)
			continue
		}
		if !timed("ups "+id, func() error {
			_, err := col.Update(id, wrapperspb.String(val), resource.WithCreateIfAbsent(), resource.WithWriteTime(backdated(len(id)+len(val))))
			return err
		}) {
			return
		}
		shadow[id] = val
	}
	if !timed("fence", func() error { _, err := col.Add("~", wrapperspb.String("f")); return err }) {
		return
	}
	shadow["~"] = "f"
	if max > promptBound {
		m.Violate("C09/Collection/lossy"+c.bpSig()+"/writer-waited", "a write waited for an idle lossy subscriber", c, "< "+promptBound.String(), max.String())
	}
	view := map[string]string{}
	n := 0
	deadline := time.After(3 * time.Second)
loop:
	for {
		select {
		case ev := <-ch:
			n++
			s := showChange(ev, false)
			if !foldInto(view, s) {
				m.Violate("C09/Collection/lossy/old-value-chain", "a delivered change is not well formed at the subscriber's view", c, "well-formed at "+showView(view), s)
			}
			if ev.Id == "~" {
				break loop
			}
		case <-deadline:
			m.Violate("C09/Collection/lossy/latest-not-received", "the subscriber did not receive the last change within 3s", c, "fence event", showView(view))
			break loop
		}
	}
	if a, b := showView(view), showView(shadow); a != b {
		m.Violate("C09/Collection/lossy/fold-differs", "the received changes fold to a different view than the collection holds", c, b, a)
	}
	var listed []string
	for _, msg := range col.List() {
		listed = append(listed, tokOf(msg))
	}
	var want []string
	for _, v := range view {
		want = append(want, v)
	}
	sort.Strings(listed)
	sort.Strings(want)
	if strings.Join(listed, ",") != strings.Join(want, ",") {
		m.Violate("C09/Collection/lossy/fold-differs-from-List", "the received changes fold to a different view than List", c, strings.Join(listed, ","), strings.Join(want, ","))
	}
	m.Eval(fmt.Sprintf("collection-idle/%d/%v", c.N, c.BP), n < c.N, nil)
	return max
}

// collectionBulk: "slow readers never block writers" AT SCALE: a lossy Pull that nobody receives from while N
// DISTINCT ids are added (far more than any small scenario keeps pending at once), a part of them deleted again
// (ADD then REMOVE cancels in the buffer) and a part updated (merged into the pending ADD); then the reader
// reads on to a fence.  One writer goroutine; "blocked" = no write completed for 3 s (progress-based, so a
// loaded machine that is merely slow does not count).
func (c latencyCase) collectionBulk(m *lib.Monitor) (max time.Duration) {
	r := lib.NewRand(c.Seed + 7)
	col := resource.NewCollection()
	ctx, cancel := context.WithCancel(context.Background())
	defer cancel()
	ch := col.Pull(ctx, bpOptions(c.BP)...)
	shadow := map[string]string{}
	type op struct {
		del bool
		id  string
		val string
	}
	var ops []op
	for i := 0; i < c.N; i++ {
		id := fmt.Sprintf("i%04d", i)
		ops = append(ops, op{id: id, val: id + "a"})
		shadow[id] = id + "a"
	}
	for i, n := 0, c.N/2; i < n; i++ {
		id := fmt.Sprintf("i%04d", r.Intn(c.N))
		if _, present := shadow[id]; present && r.Intn(2) == 0 {
			ops = append(ops, op{del: true, id: id})
			delete(shadow, id)
		} else {
			val := fmt.Sprintf("%sb%d", id, i)
			ops = append(ops, op{id: id, val: val})
			shadow[id] = val
		}
	}
	ops = append(ops, op{id: "~", val: "f"})
	shadow["~"] = "f"
	var done atomic.Int64
	werr := make(chan string, 1)
	var wmax atomic.Int64
	go func() {
		for _, o := range ops {
			t0 := time.Now()
			var err error
			if o.del {
				_, err = col.Delete(o.id)
			} else {
				_, err = col.Update(o.id, wrapperspb.String(o.val), resource.WithCreateIfAbsent())
			}
			if d := int64(time.Since(t0)); d > wmax.Load() {
				wmax.Store(d)
			}
			if err != nil {
				werr <- err.Error()
				return
			}
			done.Add(1)
		}
		werr <- ""
	}()
	prev := int64(-1)
wait:
	for {
		select {
		case e := <-werr:
			if e != "" {
				m.Violate("C09/Collection/lossy/bulk/write-error", "a write failed with an idle lossy subscriber", c, "nil", e)
				return
			}
			break wait
		case <-time.After(blockedAfter):
			now := done.Load()
			if now == prev {
				o := ops[now]
				m.Violate("C09/Collection/lossy/bulk/writer-blocked", "a write did not return with an idle lossy subscriber attached while changes to many distinct ids are pending for it", c, "prompt return", fmt.Sprintf("blocked > 3s at write #%d (id %s) of %d", now+1, o.id, len(ops)))
				return
			}
			prev = now
		}
	}
	max = time.Duration(wmax.Load())
	if max > promptBound {
		m.Violate("C09/Collection/lossy/bulk/writer-waited", "a write waited for an idle lossy subscriber", c, "< "+promptBound.String(), max.String())
	}
	view := map[string]string{}
	n := 0
	deadline := time.After(10 * time.Second)
loop:
	for {
		select {
		case ev := <-ch:
			n++
			s := showChange(ev, false)
			if !foldInto(view, s) {
				m.Violate("C09/Collection/lossy/bulk/old-value-chain", "a delivered change is not well formed at the subscriber's view", c, "well-formed", s)
			}
			if ev.Id == "~" {
				break loop
			}
		case <-deadline:
			m.Violate("C09/Collection/lossy/bulk/latest-not-received", "the subscriber did not receive the last change within 10s of reading on", c, "fence event", fmt.Sprintf("%d changes received", n))
			break loop
		}
	}
	if a, b := showView(view), showView(shadow); a != b {
		m.Violate("C09/Collection/lossy/bulk/fold-differs", "the received changes fold to a different view than the collection holds", c, fmt.Sprintf("%d items", len(shadow)), fmt.Sprintf("%d items: %s", len(view), diffViews(view, shadow)))
	}
	listed := map[string]int{}
	for _, msg := range col.List() {
		listed[tokOf(msg)]++
	}
	for _, v := range view {
		listed[v]--
	}
	for v, k := range listed {
		if k != 0 {
			m.Violate("C09/Collection/lossy/bulk/fold-differs-from-List", "the received changes fold to a different view than List", c, "the same values", fmt.Sprintf("%s: %+d in List", v, k))
			break
		}
	}
	m.Eval(fmt.Sprintf("collection-bulk-idle/%d/%d", c.N, c.Seed), n < len(ops), nil)
	return max
}

// diffViews: the first few ids on which two views differ
func diffViews(a, b map[string]string) string {
	var ids []string
	for id, v := range a {
		if w, ok := b[id]; !ok || w != v {
			ids = append(ids, id)
		}
	}
	for id := range b {
		if _, ok := a[id]; !ok {
			ids = append(ids, id)
		}
	}
	sort.Strings(ids)
	if len(ids) > 6 {
		ids = ids[:6]
	}
	var out []string
	for _, id := range ids {
		x, ok := a[id]
		if !ok {
			x = "-"
		}
		y, ok := b[id]
		if !ok {
			y = "-"
		}
		out = append(out, fmt.Sprintf("%s: received %s, held %s", id, x, y))
	}
	return strings.Join(out, "; ")
}

func (c latencyCase) valueBP(m *lib.Monitor) (max time.Duration) {
	v := resource.NewValue(resource.WithInitialValue(wrapperspb.String("v0")))
	ctx, cancel := context.WithCancel(context.Background())
	defer cancel()
	bp := c.BP
	if len(bp) == 0 {
		bp = []bool{true}
	}
	ch := v.Pull(ctx, bpOptions(bp)...) // the last backpressure option says true
	// 1. the writer waits: nobody receives, so Set must not return (within 60ms)
	done := make(chan error, 1)
	go func() { _, err := v.Set(wrapperspb.String("v1")); done <- err }()
	select {
	case <-done:
		m.Violate("C09/Value/backpressure/writer-did-not-wait", "with backpressure Set returned although the subscriber had not received", c, "Set blocked until delivery", "returned")
		return
	case <-time.After(60 * time.Millisecond):
	}
	// 2. the subscriber starts receiving: seed, then v1; Set returns
	var got []string
	recv := func() bool {
		select {
		case ev := <-ch:
			got = append(got, tokOf(ev.Value))
			return true
		case <-time.After(3 * time.Second):
			return false
		}
	}
	if !recv() || !recv() {
		m.Violate("C09/Value/backpressure/not-delivered", "with backpressure an event was not delivered to a receiving subscriber", c, "v0 v1", strings.Join(got, " "))
		return
	}
	select {
	case err := <-done:
		if err != nil {
			m.Violate("C09/Value/backpressure/set-error", "Set failed although the subscriber received", c, "nil", err.Error())
		}
	case <-time.After(3 * time.Second):
		m.Violate("C09/Value/backpressure/writer-stuck", "Set did not return after the subscriber received", c, "return", "blocked")
		return
	}
	// 3. nothing is dropped while the subscriber keeps receiving
	recvDone := make(chan struct{})
	go func() {
		defer close(recvDone)
		for i := 0; i < c.N; i++ {
			if !recv() {
				return
			}
		}
	}()
	want := []string{"v0", "v1"}
	for i := 2; i < c.N+2; i++ {
		val := fmt.Sprintf("v%d", i)
		want = append(want, val)
		t0 := time.Now()
		if _, err := v.Set(wrapperspb.String(val)); err != nil {
			m.Violate("C09/Value/backpressure/set-error", "Set failed although the subscriber keeps receiving", c, "nil", err.Error())
			return
		}
		if d := time.Since(t0); d > max {
			max = d
		}
	}
	select {
	case <-recvDone:
	case <-time.After(5 * time.Second):
	}
	if strings.Join(got, " ") != strings.Join(want, " ") {
		m.Violate("C09/Value/backpressure/dropped-or-reordered", "with backpressure and a receiving subscriber every value must arrive, in order", c, strings.Join(want, " "), strings.Join(got, " "))
	}
	m.Eval(fmt.Sprintf("value-bp/%d/%v", c.N, c.BP), true, nil)
	return max
}

func (c latencyCase) valueTimeout(m *lib.Monitor) (max time.Duration) {
	v := resource.NewValue(resource.WithInitialValue(wrapperspb.String("v0")))
	ctx, cancel := context.WithCancel(context.Background())
	defer cancel()
	_ = v.Pull(ctx, resource.WithBackpressure(true)) // never read
	t0 := time.Now()
	done := make(chan error, 1)
	go func() { _, err := v.Set(wrapperspb.String("v1")); done <- err }()
	select {
	case err := <-done:
		d := time.Since(t0)
		max = d
		if err == nil {
			m.Violate("C09/Value/backpressure/timeout-no-error", "Set returned nil although its event could not be delivered", c, "an error after the 5s send timeout", "nil after "+d.String())
		} else if d < 4500*time.Millisecond || d > 8*time.Second {
			m.Violate("C09/Value/backpressure/timeout-wrong-deadline", "Set gave up at the wrong time", c, "~5s", d.String())
		}
	case <-time.After(12 * time.Second):
		m.Violate("C09/Value/backpressure/hang", "Set hangs when its event cannot be delivered", c, "an error after the 5s send timeout", "still blocked after 12s")
	}
	m.Eval("value-bp-timeout", true, nil)
	return max
}

// collectionStress: real scheduling, real select nondeterminism. One writer only: concurrent writers
// can publish out of commit order (property C03), which is not this property's subject.
func (c latencyCase) collectionStress(m *lib.Monitor) (max time.Duration) {
	r := lib.NewRand(c.Seed)
	col := resource.NewCollection()
	ctx, cancel := context.WithCancel(context.Background())
	defer cancel()
	ch := col.Pull(ctx)
	ids := []string{"a", "b", "c"}
	shadow := map[string]string{}
	type op struct {
		del bool
		id  string
		val string
	}
	var ops []op
	for i := 1; i <= c.N; i++ {
		id := ids[r.Intn(len(ids))]
		if _, present := shadow[id]; present && r.Intn(4) == 0 {
			ops = append(ops, op{del: true, id: id})
			delete(shadow, id)
		} else {
			val := fmt.Sprintf("%s%d", id, i)
			ops = append(ops, op{id: id, val: val})
			shadow[id] = val
		}
	}
	shadow["~"] = "f"
	pauses := make([]time.Duration, 64)
	for i := range pauses {
		if r.Intn(3) > 0 {
			pauses[i] = time.Duration(r.Intn(300)) * time.Microsecond
		}
	}
	wpauses := make([]time.Duration, 61)
	for i := range wpauses {
		if r.Intn(2) == 0 {
			wpauses[i] = time.Duration(r.Intn(200)) * time.Microsecond
		}
	}
	werr := make(chan string, 1)
	go func() {
		for i, o := range ops {
			if p := wpauses[i%len(wpauses)]; p > 0 {
				time.Sleep(p)
			}
			t0 := time.Now()
			var err error
			if o.del {
				_, err = col.Delete(o.id)
			} else {
				_, err = col.Update(o.id, wrapperspb.String(o.val), resource.WithCreateIfAbsent(), resource.WithWriteTime(backdated(len(o.val))))
			}
			if d := time.Since(t0); d > max {
				max = d
			}
			if err != nil {
				werr <- err.Error()
				return
			}
		}
		if _, err := col.Add("~", wrapperspb.String("f")); err != nil {
			werr <- err.Error()
			return
		}
		werr <- ""
	}()
	view := map[string]string{}
	n := 0
	deadline := time.After(6 * time.Second)
loop:
	for {
		select {
		case ev := <-ch:
			s := showChange(ev, false)
			if !foldInto(view, s) {
				m.Violate("C09/Collection/lossy/stress/old-value-chain", "under free-running scheduling a delivered change is not well formed at the subscriber's view", c, "well-formed at "+showView(view), s)
			}
			if ev.Id == "~" {
				break loop
			}
			if p := pauses[n%len(pauses)]; p > 0 {
				time.Sleep(p)
			}
			n++
		case <-deadline:
			m.Violate("C09/Collection/lossy/stress/latest-not-received", "the subscriber did not receive the last change within 6s", c, "fence event", showView(view))
			break loop
		}
	}
	select {
	case e := <-werr:
		if e != "" {
			m.Violate("C09/Collection/lossy/stress/write-error", "a write failed", c, "nil", e)
		}
	case <-time.After(blockedAfter):
		m.Violate("C09/Collection/lossy/stress/writer-blocked", "the writer did not finish although the subscriber is lossy", c, "finished", "blocked")
		return
	}
	if max > promptBound {
		m.Violate("C09/Collection/lossy/stress/writer-waited", "a write waited for a slow lossy subscriber", c, "< "+promptBound.String(), max.String())
	}
	if a, b := showView(view), showView(shadow); a != b {
		m.Violate("C09/Collection/lossy/stress/fold-differs", "the received changes fold to a different view than the collection holds", c, b, a)
	}
	m.Eval(fmt.Sprintf("collection-stress/%d/%d", c.N, c.Seed), n < c.N, nil)
	m.Count(fmt.Sprintf("stress delivered/written ~%d%%", 10*(10*n/(c.N+1))))
	return max
}

func (c latencyCase) valueStress(m *lib.Monitor) (max time.Duration) {
	r := lib.NewRand(c.Seed)
	v := resource.NewValue(resource.WithInitialValue(wrapperspb.String("v0")))
	ctx, cancel := context.WithCancel(context.Background())
	defer cancel()
	ch := v.Pull(ctx)
	pauses := make([]time.Duration, 64)
	for i := range pauses {
		if r.Intn(3) > 0 {
			pauses[i] = time.Duration(r.Intn(300)) * time.Microsecond
		}
	}
	last := fmt.Sprintf("v%d", c.N)
	wpauses := make([]time.Duration, 61)
	for i := range wpauses {
		if r.Intn(2) == 0 {
			wpauses[i] = time.Duration(r.Intn(200)) * time.Microsecond
		}
	}
	werr := make(chan string, 1)
	go func() {
		for i := 1; i <= c.N; i++ {
			if p := wpauses[i%len(wpauses)]; p > 0 {
				time.Sleep(p)
			}
			t0 := time.Now()
			_, err := v.Set(wrapperspb.String(fmt.Sprintf("v%d", i)), resource.WithWriteTime(backdated(i)))
			if d := time.Since(t0); d > max {
				max = d
			}
			if err != nil {
				werr <- err.Error()
				return
			}
		}
		werr <- ""
	}()
	prev, n := -1, 0
	got := ""
	deadline := time.After(6 * time.Second)
loop:
	for {
		select {
		case ev := <-ch:
			got = tokOf(ev.Value)
			var k int
			fmt.Sscanf(got, "v%d", &k)
			if k <= prev {
				m.Violate("C09/Value/lossy/stress/out-of-order", "received values are not in write order", c, fmt.Sprintf("> v%d", prev), got)
			}
			prev = k
			if got == last {
				break loop
			}
			if p := pauses[n%len(pauses)]; p > 0 {
				time.Sleep(p)
			}
			n++
		case <-deadline:
			m.Violate("C09/Value/lossy/stress/latest-not-received", "the subscriber did not eventually receive the most recent value", c, last, got)
			break loop
		}
	}
	select {
	case e := <-werr:
		if e != "" {
			m.Violate("C09/Value/lossy/stress/set-error", "Set failed with a slow lossy subscriber", c, "nil", e)
		}
	case <-time.After(blockedAfter):
		m.Violate("C09/Value/lossy/stress/writer-blocked", "the writer did not finish although the subscriber is lossy", c, "finished", "blocked")
		return
	}
	if max > promptBound {
		m.Violate("C09/Value/lossy/stress/writer-waited", "Set waited for a slow lossy subscriber", c, "< "+promptBound.String(), max.String())
	}
	m.Eval(fmt.Sprintf("value-stress/%d/%d", c.N, c.Seed), n < c.N, nil)
	return max
}

// runConfirmed runs a scenario against a private monitor; a violation is reported only if it shows again
// in each of two immediate re-runs of the same scenario (same seed).  Genuine defects are deterministic
// here; a stall of a loaded machine is not.
func runConfirmed(c latencyCase, mon *lib.Monitor) time.Duration {
	r := confirmRun(c)
	r.report(mon)
	return r.d
}

type confirmed struct {
	c             latencyCase
	d             time.Duration
	first         *lib.Monitor
	confirmed     map[string]*lib.Violation
	notReproduced []string
}

// confirmRun touches no shared monitor: several scenarios can be confirmed side by side
func confirmRun(c latencyCase) confirmed {
	first := lib.NewMonitor("private", "")
	out := confirmed{c: c, first: first, confirmed: map[string]*lib.Violation{}}
	out.d = c.run(first)
	for _, v := range first.Violations {
		out.confirmed[v.Signature] = v
	}
	for attempt := 0; attempt < 2 && len(out.confirmed) > 0; attempt++ {
		again := lib.NewMonitor("private", "")
		c.run(again)
		seen := map[string]bool{}
		for _, v := range again.Violations {
			seen[v.Signature] = true
		}
		for sig := range out.confirmed {
			if !seen[sig] {
				delete(out.confirmed, sig)
				out.notReproduced = append(out.notReproduced, sig)
			}
		}
	}
	return out
}

func (r confirmed) report(mon *lib.Monitor) {
	c := r.c
	for _, sig := range r.notReproduced {
		mon.Count("not reproduced on re-run: " + sig)
	}
	mon.Eval(fmt.Sprintf("%s/%d/%d/%v", c.What, c.N, c.Seed, c.BP), true, nil)
	for _, v := range r.first.Violations {
		if _, ok := r.confirmed[v.Signature]; ok {
			mon.Violate(v.Signature, v.What+" (reproduced in 3 consecutive runs)", v.Input, v.Expected, v.Observed)
		}
	}
	for k, n := range r.first.Distribution {
		for i := 0; i < n; i++ {
			mon.Count(k)
		}
	}
}

func newLatencyMonitor(res *lib.Result) *lib.Monitor {
	return res.Monitor("writers-and-subscribers", "real Value/Collection with real Pull subscribers: with an idle lossy subscriber every Set/Update/Delete returns (bound 2s, latencies recorded) and on reading the subscriber gets the most recent value / a per-id chained stream folding to List; with backpressure Set does not return before the subscriber receives, and nothing is dropped or reordered while it keeps receiving; subscriber churn while a write is parked in Bus.Send behind a non-receiving backpressure subscriber (another subscription cancelled, a new one opened): the new subscriber receives the later writes (latest if lossy, all in order with backpressure); free-running stress (one writer at full speed, a lossy subscriber with seeded random pauses): the received stream chains per id / is in write order and ends, after a fence, in the collection's view / the last value; the subscriber's backpressure setting also given as an option LIST whose last element decides ([f], [t,f], [f,t,f], [t,t,f,f] for the idle lossy scenarios, [f,t], [t,f,t] for the backpressured one); AT SCALE: a lossy Pull nobody receives from while 2500 (thorough 12000) DISTINCT ids are added and half as many updates/deletes are made on top — every write returns (blocked = no write completed for 3 s), on reading on the stream chains per id and folds to List; thorough: a never-read backpressured Pull makes Set return an error after ~5s; every wait is bounded (1.5-6s) and a failing scenario is re-run twice; distinct = scenario and seed")
}

// runLatencyCases runs next to the other families (it mostly waits); returns the latencies to record.
func runLatencyCases(f lib.Flags, mon *lib.Monitor) map[string]int64 {
	extra := map[string]int64{}
	cases := []latencyCase{
		{Kind: "latency", What: "value-idle", N: f.N(200, 2000)},
		{Kind: "latency", What: "collection-idle", N: f.N(200, 2000)},
		{Kind: "latency", What: "value-bp", N: f.N(100, 1000)},
		{Kind: "latency", What: "value-churn-lossy"},
		{Kind: "latency", What: "value-churn-bp"},
		{Kind: "latency", What: "collection-churn"},
	}
	for i := 0; i < f.N(10, 100); i++ {
		cases = append(cases, latencyCase{Kind: "latency", What: "collection-stress", N: f.N(300, 1500), Seed: f.Seed*1000 + int64(i)})
		cases = append(cases, latencyCase{Kind: "latency", What: "value-stress", N: f.N(300, 1500), Seed: f.Seed*1000 + int64(i)})
	}
	if f.Thorough() {
		cases = append(cases, latencyCase{Kind: "latency", What: "value-bp-timeout", N: 1})
	}
	// next to them, each on its own goroutine (they mostly wait when something is wrong): the subscriber's
	// backpressure setting given as an option LIST (the last one decides), and the idle reader AT SCALE
	T, F := true, false
	side := []latencyCase{
		{Kind: "latency", What: "value-idle", N: 40, BP: []bool{F}},
		{Kind: "latency", What: "value-idle", N: 40, BP: []bool{T, F}},
		{Kind: "latency", What: "value-idle", N: 40, BP: []bool{F, T, F}},
		{Kind: "latency", What: "collection-idle", N: 40, BP: []bool{T, F}},
		{Kind: "latency", What: "collection-idle", N: 40, BP: []bool{T, T, F, F}},
		{Kind: "latency", What: "value-bp", N: 30, BP: []bool{F, T}},
		{Kind: "latency", What: "value-bp", N: 30, BP: []bool{T, F, T}},
		{Kind: "latency", What: "collection-bulk-idle", N: f.N(2500, 12000), Seed: f.Seed},
		{Kind: "latency", What: "collection-bulk-idle", N: f.N(1500, 5000), Seed: f.Seed + 1, BP: []bool{T, F}},
	}
	sideDone := make([]chan confirmed, len(side))
	for i, c := range side {
		sideDone[i] = make(chan confirmed, 1)
		go func(i int, c latencyCase) { sideDone[i] <- confirmRun(c) }(i, c)
	}
	defer func() {
		for i, c := range side {
			r := <-sideDone[i]
			r.report(mon)
			key := "max_write_latency_us/" + c.What
			if len(c.BP) > 1 {
				key += "/option-list"
			}
			if prev, ok := extra[key]; !ok || r.d.Microseconds() > prev {
				extra[key] = r.d.Microseconds()
			}
		}
	}()
	start := time.Now()
	for _, c := range cases {
		if time.Since(start) > 20*time.Second && strings.HasSuffix(c.What, "-stress") && !f.Thorough() {
			// a correct tree needs a few seconds for all of this; on a broken one every scenario runs into its
			// bounds three times: the remaining seeds of the stress scenarios would only repeat the finding
			mon.Count("skipped: the family's time budget of the quick tier is used up")
			continue
		}
		d := runConfirmed(c, mon)
		key := "max_write_latency_us/" + c.What
		if prev, ok := extra[key]; !ok || d.Microseconds() > prev {
			extra[key] = d.Microseconds()
		}
	}
	return extra
}
