package main

import (
	"context"
	"fmt"
	"strings"
	"sync"
	"time"

	"google.golang.org/protobuf/types/known/wrapperspb"

	"github.com/smart-core-os/sc-golang/pkg/resource"
	"github.com/smart-core-os/sc-golang/verifharness/lib"
)

// setCase ties the model of Value.set's send deadline INCLUDING its error mapping
// (ScVerif/C09/SendTimeout.lean `setReturnsError`, theorem C09_send_timeout) to the real
// resource.Value: one Set on a Value with the given Pull subscribers attached, in order.
//
//	lossy-idle        Pull without backpressure, never read        (receiver ready at once: DropExcess)
//	bp-recv           Pull with backpressure, subscriber receiving (ready at once)
//	bp-never          Pull with backpressure, never read           (never ready, never cancelled)
//	bp-never-cancel   as bp-never, its context cancelled after 1 s (never ready, cancelled at 1000)
//
// Value.set's deadline is fixed in the code (5 s = 5000 model units). The cases mostly wait, so they
// are started at the beginning of the harness run and collected at the end, concurrently with the rest.
type setCase struct {
	Kind        string   `json:"kind"` // "set"
	Subscribers []string `json:"subscribers"`
}

type setObs struct {
	Outcome  string // "ok" | "error" | "hang"
	Elapsed  time.Duration
	Returned string // token of the returned message ("-" = nil)
	ErrText  string
	Stored   string // Get() afterwards
}

const setDeadline = 5 * time.Second
const setSlack = 5 * time.Second // the quick tier runs this next to CPU-heavy work

func (c setCase) modelLine() string {
	var ls []string
	for _, s := range c.Subscribers {
		switch s {
		case "lossy-idle", "bp-recv":
			ls = append(ls, "0/-")
		case "bp-never":
			ls = append(ls, "-/-")
		case "bp-never-cancel":
			ls = append(ls, "-/1000")
		default:
			ls = append(ls, "?")
		}
	}
	return "set 5000 " + strings.Join(ls, " ")
}

func (c setCase) runCode() setObs {
	v := resource.NewValue(resource.WithInitialValue(wrapperspb.String("v0")))
	root, stop := context.WithCancel(context.Background())
	defer stop()
	for _, s := range c.Subscribers {
		ctx, cancel := context.WithCancel(root)
		switch s {
		case "lossy-idle":
			_ = v.Pull(ctx)
		case "bp-recv":
			ch := v.Pull(ctx, resource.WithBackpressure(true))
			go func() {
				for range ch {
				}
			}()
		case "bp-never":
			_ = v.Pull(ctx, resource.WithBackpressure(true)) // the seed is never taken, so nothing else is
		case "bp-never-cancel":
			_ = v.Pull(ctx, resource.WithBackpressure(true))
			time.AfterFunc(time.Second, cancel)
		}
		_ = cancel
	}
	type ret struct {
		msg string
		err error
	}
	done := make(chan ret, 1)
	t0 := time.Now()
	go func() {
		msg, err := v.Set(wrapperspb.String("v1"))
		r := ret{msg: "-", err: err}
		if msg != nil {
			r.msg = tokOf(msg)
		}
		done <- r
	}()
	var obs setObs
	select {
	case r := <-done:
		obs.Elapsed = time.Since(t0)
		obs.Returned = r.msg
		obs.Outcome = "ok"
		if r.err != nil {
			obs.Outcome, obs.ErrText = "error", r.err.Error()
		}
	case <-time.After(setDeadline + 2*setSlack):
		obs.Elapsed = time.Since(t0)
		obs.Outcome = "hang"
	}
	obs.Stored = tokOf(v.Get())
	return obs
}

// monitor: the property's clause, independent of the model — a write whose event cannot be delivered
// within the five-second send timeout returns an error (and no value) instead of hanging or reporting
// success; a write whose event can be delivered returns the written value promptly and without error.
func (c setCase) monitor(m *lib.Monitor, obs setObs) {
	undeliverable := false
	wait := time.Duration(0)
	for _, s := range c.Subscribers {
		if s == "bp-never" {
			undeliverable = true
		}
		if s == "bp-never-cancel" {
			wait = time.Second
		}
	}
	m.Eval(strings.Join(c.Subscribers, ","), true, map[string]any{"case": c, "outcome": obs.Outcome, "elapsed_ms": obs.Elapsed.Milliseconds(), "returned": obs.Returned, "stored": obs.Stored})
	if obs.Outcome == "hang" {
		m.Violate("C09/Value/backpressure/hang", "Set hangs", c, "return by the 5s send timeout", "still blocked after "+obs.Elapsed.String())
		return
	}
	if undeliverable {
		if obs.Outcome != "error" {
			m.Violate("C09/Value/backpressure/timeout-no-error", "Set reported success although its event could not be delivered within the send timeout", c, "an error after ~5s", fmt.Sprintf("nil error, returned %s after %s", obs.Returned, obs.Elapsed))
			return
		}
		if obs.Returned != "-" {
			m.Violate("C09/Value/backpressure/timeout-returns-value", "a Set that fails with the send timeout must not also return a value", c, "nil message", obs.Returned)
		}
		if obs.Elapsed < setDeadline-500*time.Millisecond || obs.Elapsed > setDeadline+setSlack {
			m.Violate("C09/Value/backpressure/timeout-wrong-deadline", "Set gave up at the wrong time", c, "~5s", obs.Elapsed.String())
		}
		return
	}
	if obs.Outcome != "ok" {
		m.Violate("C09/Value/set/spurious-error", "Set failed although every subscriber received, is lossy, or was cancelled well before the send timeout", c, "nil error", obs.ErrText)
		return
	}
	if obs.Returned != "v1" || obs.Stored != "v1" {
		m.Violate("C09/Value/set/wrong-value", "a successful Set returns and stores the written value", c, "v1/v1", obs.Returned+"/"+obs.Stored)
	}
	if obs.Elapsed > wait+promptBound {
		m.Violate("C09/Value/set/writer-waited", "Set waited although its event could be delivered", c, "< "+(wait+promptBound).String(), obs.Elapsed.String())
	}
}

// runConfirmed re-runs a case whose observation the monitor would flag; the flagged observation is kept
// only if two immediate re-runs are flagged as well (a loaded machine can stall a goroutine, a defect
// in the send-timeout path is deterministic).
func (c setCase) runConfirmed() setObs {
	obs := c.runCode()
	for attempt := 0; attempt < 2; attempt++ {
		probe := lib.NewMonitor("private", "")
		c.monitor(probe, obs)
		if len(probe.Violations) == 0 {
			return obs
		}
		again := c.runCode()
		p2 := lib.NewMonitor("private", "")
		c.monitor(p2, again)
		if len(p2.Violations) == 0 {
			return again
		}
		obs = again
	}
	return obs
}

type setRun struct {
	cases []setCase
	obs   []setObs
	wg    sync.WaitGroup
	// long-waiting latencyCase scenarios run next to the set cases, each against a private monitor
	slow    []latencyCase
	slowMon []*lib.Monitor
}

// startSetCases launches the cases in the background (they mostly sleep).
func startSetCases(f lib.Flags) *setRun {
	r := &setRun{}
	if f.Thorough() {
		kinds := []string{"lossy-idle", "bp-recv", "bp-never", "bp-never-cancel"}
		for _, a := range kinds {
			r.cases = append(r.cases, setCase{Kind: "set", Subscribers: []string{a}})
			for _, b := range kinds {
				r.cases = append(r.cases, setCase{Kind: "set", Subscribers: []string{a, b}})
			}
		}
	} else {
		r.cases = []setCase{
			{Kind: "set", Subscribers: []string{"bp-never"}}, // the one timeout case of the quick tier
			{Kind: "set", Subscribers: []string{"lossy-idle", "bp-recv"}},
			{Kind: "set", Subscribers: []string{"bp-never-cancel"}},
		}
	}
	r.slow = []latencyCase{
		{Kind: "latency", What: "collection-bp-pause-update"},
		{Kind: "latency", What: "collection-bp-pause-delete"},
	}
	r.slowMon = make([]*lib.Monitor, len(r.slow))
	for i := range r.slow {
		r.slowMon[i] = lib.NewMonitor("private", "")
		r.wg.Add(1)
		go func(i int) {
			defer r.wg.Done()
			runConfirmed(r.slow[i], r.slowMon[i])
		}(i)
	}
	r.obs = make([]setObs, len(r.cases))
	for i := range r.cases {
		r.wg.Add(1)
		go func(i int) {
			defer r.wg.Done()
			r.obs[i] = r.cases[i].runConfirmed()
		}(i)
	}
	return r
}

func (r *setRun) finish(res *lib.Result, drv *lib.Driver) {
	tie := res.Tie("value-set-deadline", "K1",
		"real resource.Value.Set with Pull subscribers attached in order (lossy idle / backpressured receiving / backpressured never receiving / backpressured never receiving and cancelled after 1s) vs the model's Bus.Send + error mapping of Value.set (setReturnsError, deadline 5000): quick = one undeliverable case + two deliverable ones, thorough = every list of 1-2 subscribers; compared: whether Set returns an error; non-trivial = all; distinct = the subscriber list")
	mon := res.Monitor("set-send-timeout", "on the same runs, independent of the model: a Set whose event cannot be delivered returns a non-nil error and no value after ~5s (4.5s..10s) instead of hanging or reporting success; a Set whose event can be delivered returns and stores the written value without error, promptly; distinct = the subscriber list")
	tie.Exhaustive = true
	r.wg.Wait()
	bp := res.Monitor("collection-backpressure-waits", "real Collection with ONE backpressured Pull subscriber that takes nothing for 6s while one Update (resp. one Delete) is in flight: the write does not return before the subscriber receives, its event is delivered after the seed, and the write then returns; runs concurrently with the Value.set timeout cases; distinct = scenario")
	for _, pm := range r.slowMon {
		bp.Evaluations += pm.Evaluations
		bp.Distinct += pm.Distinct
		for _, v := range pm.Violations {
			bp.Violate(v.Signature, v.What, v.Input, v.Expected, v.Observed)
		}
	}
	lines := make([]string, len(r.cases))
	for i, c := range r.cases {
		lines[i] = c.modelLine()
	}
	ans, err := drv.Batch(lines)
	if err != nil {
		tie.Fail(err)
		ans = nil
	}
	for i, c := range r.cases {
		if ans != nil {
			tie.Record(strings.Join(c.Subscribers, ","), true, c, strings.SplitN(ans[i], "@", 2)[0], r.obs[i].Outcome)
			tie.Count(r.obs[i].Outcome)
		}
		c.monitor(mon, r.obs[i])
		res.Extra["set_elapsed_ms/"+strings.Join(c.Subscribers, ",")] = r.obs[i].Elapsed.Milliseconds()
	}
}
