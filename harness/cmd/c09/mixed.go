package main

import (
	"context"
	"fmt"
	"strings"
	"sync"
	"sync/atomic"
	"time"

	"google.golang.org/protobuf/proto"
	"google.golang.org/protobuf/types/known/wrapperspb"

	"github.com/smart-core-os/sc-golang/internal/verifhook"
	"github.com/smart-core-os/sc-golang/pkg/resource"
	"github.com/smart-core-os/sc-golang/verifharness/lib"
)

// xrunCase: lossy ("L") and backpressured ("B") Pull subscribers MIXED on one resource, registered in the
// order given (= the order Bus.Send visits them), and ONE writer, one move at a time:
//
//	w      the writer starts its next write t<n> (Set / Update of item "a") unless its previous one is still
//	       waiting; Bus.Send hands the event to the listeners one by one: a lossy one takes it at once, a
//	       backpressured one only when its forwarder holds nothing — the listeners behind it wait with the writer
//	d<k>   consumer k receives once; if that frees a backpressured forwarder the waiting write goes on
//
// After the moves every consumer receives three more rounds (part of the case for the model).  Tied to the
// model's `xstep` (ScVerif/C09/Mixed.lean; C09_mixed_listener_progress,
// C09_mixed_writers_wait_only_for_backpressure, C09_mixed_subscribers).
type xrunCase struct {
	Kind   string   `json:"kind"`   // "xrun"
	Target string   `json:"target"` // value | collection
	Seed   bool     `json:"seed"`   // subscribe with the current value as seed (else WithUpdatesOnly)
	Subs   []string `json:"subs"`   // "L" | "B", in registration order
	Moves  []string `json:"moves"`
}

type xrunObs struct {
	Skipped    bool
	Outs       []string
	Started    []string   // tokens of the writes started, in order
	Received   [][]string // per subscriber
	Early      string     // a write returned although a backpressured forwarder still held an undelivered event
	Blocked    string     // a write did not return although every backpressured consumer had received everything before it
	Stuck      string     // a write / receive the model expects did not complete
	WriteErr   string
	Unsynced   bool
	Unreturned string
}

func (o xrunObs) answer() string { return strings.Join(o.Outs, " ") }

func (c xrunCase) allMoves() []string {
	ms := append([]string{}, c.Moves...)
	for round := 0; round < 3; round++ {
		for k := range c.Subs {
			ms = append(ms, fmt.Sprintf("d%d", k))
		}
	}
	return ms
}

func (c xrunCase) modelLine() string {
	seed := "-"
	if c.Seed {
		seed = "s0"
	}
	return "xrun " + strings.Join(c.Subs, ",") + " " + seed + " " + strings.Join(c.allMoves(), " ")
}

func (c xrunCase) key() string {
	return fmt.Sprintf("%s/%v/%s/%s", c.Target, c.Seed, strings.Join(c.Subs, ""), strings.Join(c.Moves, " "))
}

var xrunStuck atomic.Int64

// xrunWriters: goroutine id of a case's writer -> how many listeners its Bus.Send has come to (the yield
// point bus.send.beforeListener runs on the writer's goroutine).  Used for waiting only: after a move the
// harness waits until the waiting send stands at the listener the model says it stands at.
var xrunWriters sync.Map

func xrunHook(point string) {
	if point != "bus.send.beforeListener" {
		return
	}
	if ctr, ok := xrunWriters.Load(verifhook.GoID()); ok {
		ctr.(*atomic.Int64).Add(1)
	}
}

func (c xrunCase) runCode(model string) (obs xrunObs) {
	if xrunStuck.Load() > 4 {
		obs.Skipped = true
		return obs
	}
	defer func() {
		if obs.Stuck != "" || obs.Blocked != "" {
			xrunStuck.Add(1)
		}
	}()
	ctx, cancel := context.WithCancel(context.Background())
	defer cancel()
	n := len(c.Subs)
	looks := make([]atomic.Int64, n) // per subscriber: values its forwarder has looked at (collection: include calls)
	var valueLooks atomic.Int64      // value: calls of the (shared) equivalence
	recvs := make([]func(wait time.Duration) string, n)
	var write func(tok string) error
	roptsOf := func(k int) []resource.ReadOption {
		ropts := []resource.ReadOption{resource.WithBackpressure(c.Subs[k] == "B")}
		if !c.Seed {
			ropts = append(ropts, resource.WithUpdatesOnly(true))
		}
		return ropts
	}
	base := make([]int64, n)
	if c.Target == "value" {
		eq := resource.ComparerFunc(func(x, y proto.Message) bool { valueLooks.Add(1); return false })
		v := resource.NewValue(resource.WithInitialValue(wrapperspb.String("s0")), resource.WithEquivalence(eq))
		for k := range c.Subs {
			ch := v.Pull(ctx, roptsOf(k)...)
			recvs[k] = func(wait time.Duration) string {
				t := time.NewTimer(wait)
				defer t.Stop()
				select {
				case ev, ok := <-ch:
					if !ok {
						return "closed"
					}
					return tokOf(ev.Value)
				case <-t.C:
					return "timeout"
				}
			}
		}
		write = func(tok string) error { _, err := v.Set(wrapperspb.String(tok)); return err }
	} else {
		col := resource.NewCollection(resource.WithInitialRecord("a", wrapperspb.String("s0")))
		for k := range c.Subs {
			k := k
			ropts := append(roptsOf(k), resource.WithInclude(func(id string, item proto.Message) bool { looks[k].Add(1); return true }))
			ch := col.Pull(ctx, ropts...)
			base[k] = looks[k].Load()
			recvs[k] = func(wait time.Duration) string {
				t := time.NewTimer(wait)
				defer t.Stop()
				select {
				case ev, ok := <-ch:
					if !ok {
						return "closed"
					}
					if ev.Id != "a" || ev.NewValue == nil {
						return showChange(ev, false)
					}
					return tokOf(ev.NewValue)
				case <-t.C:
					return "timeout"
				}
			}
		}
		write = func(tok string) error { _, err := col.Update("a", wrapperspb.String(tok)); return err }
	}
	moves := c.allMoves()
	var mouts []string
	if model != "" {
		mouts = strings.Split(model, " ")
	}
	haveModel := len(mouts) == len(moves)
	synced := haveModel
	seedN := 0
	if c.Seed {
		seedN = 1
	}
	obs.Received = make([][]string, n)
	var pending chan error
	var visited *atomic.Int64 // listeners the pending write's Send has come to
	pendingTok := ""
	completed := 0
	next := 1
	done := func(wait time.Duration) bool {
		t := time.NewTimer(wait)
		defer t.Stop()
		select {
		case err := <-pending:
			if err != nil && obs.WriteErr == "" {
				obs.WriteErr = pendingTok + ": " + err.Error()
			}
			pending = nil
			completed++
			return true
		case <-t.C:
			return false
		}
	}
	// independent of the model: the n-th write may return only when every backpressured consumer has received
	// everything before it (seed + n-1 writes: its forwarder holds at most one event), and must return when they have
	bpBehind := func(nth int) bool {
		for k, kind := range c.Subs {
			if kind == "B" && len(obs.Received[k]) < seedN+nth-1 {
				return true
			}
		}
		return false
	}
	capacity := func(where string) {
		if obs.Early == "" && completed > 0 && bpBehind(completed) {
			obs.Early = fmt.Sprintf("%s: write %d returned but a backpressured consumer has not received the events before it (received %v)", where, completed, obs.Received)
		}
	}
	take := func(k int, wait time.Duration) string {
		g := recvs[k](wait)
		if g != "timeout" && g != "closed" {
			obs.Received[k] = append(obs.Received[k], g)
		}
		return g
	}
	catchUp := func(out string) {
		if !synced {
			w := 300 * time.Microsecond
			if !haveModel {
				w = 3 * time.Millisecond
			}
			time.Sleep(w)
			return
		}
		tail := out[strings.LastIndex(out, "@")+1:]
		if i := strings.Index(tail, "#"); i >= 0 {
			// the waiting send stands at listener p: it has come to p+1 listeners
			var p int64
			if _, err := fmt.Sscanf(tail[i+1:], "%d", &p); err == nil && pending != nil && visited != nil {
				if !waitCount(visited, p+1, pipeWait) {
					obs.Unsynced, synced = true, false
					return
				}
			}
			tail = tail[:i]
		}
		counts := strings.Split(tail, "/")
		var sum int64
		for k := range c.Subs {
			var want int64
			if k < len(counts) {
				fmt.Sscanf(counts[k], "%d", &want)
			}
			sum += want
			if c.Target == "collection" && !waitCount(&looks[k], base[k]+2*want, pipeWait) {
				obs.Unsynced, synced = true, false
				return
			}
		}
		if c.Target == "value" && !waitCount(&valueLooks, sum, pipeWait) {
			obs.Unsynced, synced = true, false
			return
		}
		settle()
	}
	strip := func(mo string) string {
		if i := strings.LastIndex(mo, "@"); i >= 0 {
			return mo[:i]
		}
		return mo
	}
	for i, mv := range moves {
		mo, mfull := "", ""
		if haveModel {
			mfull = mouts[i]
			mo = strip(mfull)
		}
		if mv == "w" {
			if pending != nil {
				if done(0) {
					obs.Outs = append(obs.Outs, "returned:"+pendingTok)
				} else {
					obs.Outs = append(obs.Outs, "still:"+pendingTok)
				}
				capacity(fmt.Sprintf("move %d", i))
				continue
			}
			tok := fmt.Sprintf("t%d", next)
			nth := next
			next++
			obs.Started = append(obs.Started, tok)
			ch := make(chan error, 1)
			ctr := new(atomic.Int64)
			go func() {
				id := verifhook.GoID()
				xrunWriters.Store(id, ctr)
				defer xrunWriters.Delete(id)
				ch <- write(tok)
			}()
			pending, pendingTok, visited = ch, tok, ctr
			mustReturn := !bpBehind(nth) // only lossy subscribers could be in its way
			wait := 300 * time.Microsecond
			switch {
			case mustReturn || (synced && strings.HasPrefix(mo, "ok:")):
				wait = pipeWait
			case !haveModel:
				wait = 20 * time.Millisecond
			case i%4 == 1:
				wait = 2 * time.Millisecond
			}
			if done(wait) {
				obs.Outs = append(obs.Outs, "ok:"+tok)
			} else if mustReturn {
				obs.Outs = append(obs.Outs, "blocked:"+tok)
				obs.Blocked = tok
				return obs
			} else if synced && strings.HasPrefix(mo, "ok:") {
				obs.Outs = append(obs.Outs, "stuck:"+tok)
				obs.Stuck = tok
				return obs
			} else {
				obs.Outs = append(obs.Outs, "wait:"+tok)
			}
			capacity(fmt.Sprintf("move %d", i))
			if haveModel {
				catchUp(mfull)
			} else {
				catchUp("")
			}
			continue
		}
		var k int
		fmt.Sscanf(mv, "d%d", &k)
		var got string
		switch {
		case !synced:
			if got = take(k, 30*time.Millisecond); got == "timeout" {
				got = "none"
			}
		case strings.HasPrefix(mo, "none"):
			got = "none"
			if i%5 == 2 {
				if g := take(k, 500*time.Microsecond); g != "timeout" {
					got = g
				}
			}
		default:
			if got = take(k, pipeWait); got == "timeout" {
				obs.Unsynced, synced = true, false // the run has left the model's schedule: go on by time
			}
		}
		if pending != nil && got != "none" && got != "timeout" {
			nth := next - 1
			switch {
			case !bpBehind(nth): // every backpressured consumer has caught up: the write must return now
				tok := pendingTok
				if done(pipeWait) {
					got += "+" + tok
				} else {
					got += "+blocked:" + tok
					obs.Blocked = tok
					obs.Outs = append(obs.Outs, got)
					return obs
				}
			case !synced:
				tok := pendingTok
				if done(30 * time.Millisecond) {
					got += "+" + tok
				}
			}
		}
		obs.Outs = append(obs.Outs, got)
		capacity(fmt.Sprintf("move %d", i))
		if haveModel {
			catchUp(mfull)
		} else {
			catchUp("")
		}
	}
	// the verdict of the monitors must not depend on the model's schedule: if the run left it (a receive the
	// model expects nothing from was not tried, …), drain every consumer by time before judging
	if haveModel && (obs.Unsynced || stripCountsC(model+"|") != obs.answer()+"|") {
		for round := 0; round < 4; round++ {
			for k := range c.Subs {
				for {
					if g := take(k, 50*time.Millisecond); g == "timeout" || g == "closed" {
						break
					}
				}
				if pending != nil {
					done(50 * time.Millisecond)
				}
			}
		}
	}
	if pending != nil && !done(pipeWait) {
		obs.Unreturned = pendingTok
	}
	return obs
}

func (c xrunCase) monitor(m *lib.Monitor, obs xrunObs) {
	T := "Value"
	if c.Target == "collection" {
		T = "Collection"
	}
	if obs.Blocked != "" {
		m.Violate("C09/"+T+"/mixed/writer-blocked-by-lossy", "a write did not return although every backpressured consumer had received everything written before it: only a lossy subscriber (stalled) can be in its way", c, "return", "write "+obs.Blocked+" still blocked; received "+fmt.Sprint(obs.Received))
		return
	}
	if obs.Stuck != "" {
		m.Violate("C09/"+T+"/mixed/writer-stuck", "a write did not return although no backpressured forwarder held an event", c, "return", "write "+obs.Stuck+" still blocked")
		return
	}
	if obs.Unreturned != "" {
		m.Violate("C09/"+T+"/mixed/writer-stuck", "the last write never returned although every consumer received three more rounds", c, "return", "write "+obs.Unreturned+" still blocked")
		return
	}
	if obs.WriteErr != "" {
		m.Violate("C09/"+T+"/mixed/write-error", "a write failed although the backpressured subscribers received within milliseconds", c, "nil", obs.WriteErr)
	}
	if obs.Early != "" {
		m.Violate("C09/"+T+"/mixed/writer-did-not-wait", "next to lossy subscribers, a write returned while a backpressured forwarder still held an undelivered event (writers must wait for delivery)", c, "at most one undelivered event per backpressured subscriber", obs.Early)
	}
	want := append([]string{}, obs.Started...)
	if c.Seed {
		want = append([]string{"s0"}, want...)
	}
	dropped := false
	for k, kind := range c.Subs {
		got := obs.Received[k]
		if kind == "B" {
			if strings.Join(got, " ") != strings.Join(want, " ") {
				m.Violate("C09/"+T+"/mixed/backpressure-dropped-or-reordered", "a backpressured subscriber next to lossy ones must receive every write, in order, after the seed", c, strings.Join(want, " "), fmt.Sprintf("subscriber %d: %s", k, strings.Join(got, " ")))
			}
			continue
		}
		j := 0
		for _, g := range got {
			for j < len(want) && want[j] != g {
				j++
			}
			if j == len(want) {
				m.Violate("C09/"+T+"/mixed/lossy-not-a-subsequence", "a lossy subscriber next to backpressured ones received values that are not a subsequence of the writes, in order", c, strings.Join(want, " "), fmt.Sprintf("subscriber %d: %s", k, strings.Join(got, " ")))
				break
			}
			j++
		}
		if len(want) > 0 && (len(got) == 0 || got[len(got)-1] != want[len(want)-1]) {
			m.Violate("C09/"+T+"/mixed/lossy-latest-not-received", "after every consumer received three more rounds, a lossy subscriber's last value is not the most recent one", c, want[len(want)-1], fmt.Sprintf("subscriber %d: %s", k, strings.Join(got, " ")))
		}
		if len(got) < len(want) {
			dropped = true
		}
	}
	m.Eval(c.key(), dropped, nil)
	m.Count("subscribers=" + strings.Join(c.Subs, ""))
}

func runMixed(f lib.Flags, res *lib.Result, drv *lib.Driver) {
	tie := res.Tie("mixed-subscribers", "K1",
		"the REAL resource.Value / resource.Collection with lossy (L) and backpressured (B) Pull subscribers MIXED on one bus in several registration orders (LB, BL, LBL, BLB, LLB, BB) and ONE writer, one move at a time (w = the writer starts its next write unless its previous one is still waiting, d<k> = consumer k receives once; after every move the harness waits until every forwarder has caught up, counted by hooks running on the forwarders' goroutines; three final rounds of receives) vs the model's xstep (Bus.Send advancing listener by listener, greedily): ALL move sequences up to length L (quick 4..5, thorough 5..6) x {Value, Collection} x {seeded, updates-only}; compared: for every write whether it returns at once or waits, with which receive a waiting write returns, what every receive yields (so which listeners the waiting send has already passed); non-trivial = at least two writes; distinct = (target, seed, subscribers, moves)")
	mon := res.Monitor("mixed-writers-wait-only-for-backpressure", "on the same runs, independent of the model: a write returns promptly whenever every backpressured consumer has received everything written before it, whichever lossy subscribers stall (else writer-blocked-by-lossy); no write returns while a backpressured consumer lacks an event written before the previous write; every backpressured subscriber receives the seed and then exactly the writes, in order; every lossy subscriber receives a subsequence ending, after the final rounds, on the most recent write; no write fails; distinct = the case; non-trivial = a lossy subscriber skipped something")
	type cfg struct {
		subs []string
		L    int
	}
	cfgs := []cfg{
		{[]string{"L", "B"}, f.N(5, 6)}, {[]string{"B", "L"}, f.N(5, 6)}, {[]string{"L", "B", "L"}, f.N(5, 6)},
		{[]string{"B", "L", "B"}, f.N(4, 5)}, {[]string{"L", "L", "B"}, f.N(4, 5)}, {[]string{"B", "B"}, f.N(4, 5)},
	}
	verifhook.Set(xrunHook)
	defer verifhook.Set(nil)
	var cases []xrunCase
	for gi, g := range cfgs {
		alphabet := []string{"w"}
		for k := range g.subs {
			alphabet = append(alphabet, fmt.Sprintf("d%d", k))
		}
		var rec func(n int, prefix []string)
		rec = func(n int, prefix []string) {
			if len(prefix) > 0 {
				for ti, target := range []string{"value", "collection"} {
					for si, seed := range []bool{true, false} {
						// the long sequences are spread over the four (target, seed) combinations
						if len(prefix) == g.L && (len(cases)+gi+ti+2*si)%2 == 1 {
							continue
						}
						cases = append(cases, xrunCase{Kind: "xrun", Target: target, Seed: seed, Subs: g.subs, Moves: append([]string{}, prefix...)})
					}
				}
			}
			if n == 0 {
				return
			}
			for _, a := range alphabet {
				rec(n-1, append(prefix, a))
			}
		}
		rec(g.L, nil)
	}
	lines := make([]string, len(cases))
	for i, c := range cases {
		lines[i] = c.modelLine()
	}
	ans, err := drv.Batch(lines)
	if err != nil {
		tie.Fail(err)
		return
	}
	slow, unsynced := 0, 0
	const chunk = 256
	for lo := 0; lo < len(cases); lo += chunk {
		hi := lo + chunk
		if hi > len(cases) {
			hi = len(cases)
		}
		obss := make([]xrunObs, hi-lo)
		parallelDo(hi-lo, func(j int) { obss[j] = cases[lo+j].runCode(ans[lo+j]) })
		for j, obs := range obss {
			c := cases[lo+j]
			if obs.Skipped {
				tie.Count("skipped after stuck runs")
				continue
			}
			c.monitor(mon, obs)
			code := obs.answer()
			if obs.Unsynced {
				unsynced++
				tie.Count("unsynced (a forwarder did not reach the model's schedule within 2s; monitors only)")
			} else {
				tie.Record(c.key(), len(obs.Started) >= 2, c, stripCountsC(ans[lo+j]+"|"), code+"|")
				tie.Count("subscribers=" + strings.Join(c.Subs, ""))
			}
			if obs.Stuck != "" || obs.Blocked != "" || obs.Unsynced || strings.Contains(code, "timeout") {
				slow++
			}
		}
		if slow > 6 || xrunStuck.Load() > 4 {
			tie.Fail(fmt.Errorf("aborted after %d cases in which a write or a receive did not complete within %s", slow, pipeWait))
			break
		}
	}
}
