package main

import (
	"fmt"
	"math/rand"
	"sort"
	"strings"
	"sync"
	"sync/atomic"
	"time"

	"github.com/smart-core-os/sc-golang/pkg/resource"
	"github.com/smart-core-os/sc-golang/verifharness/lib"
)

// machineCase drives the real mergeCollectionExcess goroutine through its two channels, one channel
// operation at a time: "r:<change>" offers one input (`in <- c`), "e" takes one output (`<-out`).
// Only one side is ever offered, so the goroutine's select has a single ready case and the run is
// deterministic.  Start is the view the history starts from (id -> value), used by the monitor only.
type machineCase struct {
	Kind  string            `json:"kind"` // "mrun"
	Start map[string]string `json:"start"`
	Moves []string          `json:"moves"`
}

const sentinelID = "~"
const stepTimeout = 3 * time.Second

type machineObs struct {
	Outs       []string // per "e" move: the change taken, "none" (not attempted: model says not enabled), "timeout"
	Pending    []string // drained after the moves with a sentinel input, FIFO order
	RecvBlock  string   // non-empty: an offered input was not accepted within stepTimeout
	MaxRecv    time.Duration
	DrainError string
}

func (o machineObs) answer() string {
	return showChanges(o.Outs) + "|" + showChanges(o.Pending)
}

// modelOuts (from the driver) tells which "e" moves the model considers enabled; nil = attempt all
// (replay mode: a take that times out is reported as such).
func (c machineCase) runCode(modelOuts []string) machineObs {
	var obs machineObs
	in := make(chan any)
	out := resource.VerifMergeCollectionExcess(in)
	defer func() {
		close(in)
		// the goroutine must terminate: out is closed (bounded wait)
		t := time.NewTimer(stepTimeout)
		defer t.Stop()
		for {
			select {
			case _, ok := <-out:
				if !ok {
					return
				}
			case <-t.C:
				obs.DrainError = "goroutine did not terminate after close(in)"
				return
			}
		}
	}()
	ei := 0
	for _, mv := range c.Moves {
		if mv == "e" {
			if modelOuts != nil && ei < len(modelOuts) && modelOuts[ei] == "none" {
				obs.Outs = append(obs.Outs, "none")
				ei++
				continue
			}
			ei++
			wait := stepTimeout
			if modelOuts == nil {
				wait = 50 * time.Millisecond
			}
			t := time.NewTimer(wait)
			select {
			case v, ok := <-out:
				if !ok {
					obs.Outs = append(obs.Outs, "closed")
				} else {
					obs.Outs = append(obs.Outs, showChange(v.(*resource.CollectionChange), true))
				}
			case <-t.C:
				if modelOuts == nil {
					obs.Outs = append(obs.Outs, "none")
				} else {
					obs.Outs = append(obs.Outs, "timeout")
				}
			}
			t.Stop()
			continue
		}
		ch := parseChange(strings.TrimPrefix(mv, "r:"))
		t0 := time.Now()
		t := time.NewTimer(stepTimeout)
		select {
		case in <- ch:
			if d := time.Since(t0); d > obs.MaxRecv {
				obs.MaxRecv = d
			}
		case <-t.C:
			obs.RecvBlock = mv
		}
		t.Stop()
		if obs.RecvBlock != "" {
			return obs
		}
	}
	// drain: a sentinel change of a fresh id goes to the back of the queue; everything taken before
	// it is what was pending, in FIFO order
	t := time.NewTimer(stepTimeout)
	defer t.Stop()
	select {
	case in <- parseChange(sentinelID + ",ADD,1,-,s,0,0"):
	case <-t.C:
		obs.DrainError = "sentinel not accepted"
		return obs
	}
	for {
		select {
		case v, ok := <-out:
			if !ok {
				obs.DrainError = "out closed during drain"
				return obs
			}
			cc := v.(*resource.CollectionChange)
			if cc.Id == sentinelID {
				return obs
			}
			obs.Pending = append(obs.Pending, showChange(cc, true))
		case <-t.C:
			obs.DrainError = "sentinel did not come out"
			return obs
		}
	}
}

func showView(v map[string]string) string {
	var ids []string
	for id := range v {
		ids = append(ids, id)
	}
	sort.Strings(ids)
	if len(ids) == 0 {
		return "-"
	}
	parts := make([]string, len(ids))
	for i, id := range ids {
		parts[i] = id + "=" + v[id]
	}
	return strings.Join(parts, ",")
}

func foldInto(view map[string]string, ev string) (wf bool) {
	f := fields(ev)
	if len(f) != 7 {
		return false
	}
	cur, present := view[f[0]]
	if !present {
		cur = "-"
	}
	wf = wfAt(cur, f[1], f[3], f[4])
	if f[1] == "REMOVE" {
		delete(view, f[0])
	} else {
		view[f[0]] = f[4]
	}
	return wf
}

// monitor: the property on the observed run, independent of the model.
func (c machineCase) monitor(m *lib.Monitor, obs machineObs) {
	if obs.RecvBlock != "" {
		m.Violate("C09/mergeCollectionExcess/recv-blocked", "an offered input was not accepted although nothing else was asked of the goroutine (a writer would block)", c, "accepted promptly", "blocked > 2s at "+obs.RecvBlock)
		return
	}
	if obs.DrainError != "" {
		m.Violate("C09/mergeCollectionExcess/drain", "the goroutine did not drain/terminate", c, "drained", obs.DrainError)
		return
	}
	full := map[string]string{}
	seen := map[string]string{}
	for k, v := range c.Start {
		full[k], seen[k] = v, v
	}
	lastOf := map[string]string{} // id -> last received event
	nrecv := 0
	for _, mv := range c.Moves {
		if mv == "e" {
			continue
		}
		ev := strings.TrimPrefix(mv, "r:")
		foldInto(full, ev)
		lastOf[fields(ev)[0]] = ev
		nrecv++
	}
	var delivered []string
	for _, o := range obs.Outs {
		if o == "none" {
			continue
		}
		if o == "timeout" || o == "closed" {
			m.Violate("C09/mergeCollectionExcess/emit-missing", "a pending change was not offered to the consumer", c, "a change", o)
			return
		}
		delivered = append(delivered, o)
	}
	delivered = append(delivered, obs.Pending...)
	lastDelivered := map[string]string{}
	for _, ev := range delivered {
		if !foldInto(seen, ev) {
			m.Violate("C09/mergeCollectionExcess/old-value-chain", "a delivered change is not well formed at the subscriber's view (old values must chain per id, ADD only of an absent id)", c, "well-formed at "+showView(seen), ev)
			return
		}
		lastDelivered[fields(ev)[0]] = ev
	}
	if a, b := showView(seen), showView(full); a != b {
		m.Violate("C09/mergeCollectionExcess/fold-differs", "the delivered changes (emitted, then pending) fold to a different view than everything received", c, b, a)
	}
	// latest: the last delivered change of an id carries the last received change's new value and time
	for id, last := range lastOf {
		lf := fields(last)
		if d, ok := lastDelivered[id]; ok {
			df := fields(d)
			if df[4] != lf[4] {
				m.Violate("C09/mergeCollectionExcess/latest-value", "the last delivered change of an id must carry its most recent value", c, lf[4], df[4])
			}
		}
	}
	// one pending change per id
	ids := map[string]bool{}
	for _, p := range obs.Pending {
		id := fields(p)[0]
		if ids[id] {
			m.Violate("C09/mergeCollectionExcess/pending-not-merged", "two changes of one id were pending at once", c, "one per id", showChanges(obs.Pending))
		}
		ids[id] = true
	}
	m.Eval(showView(c.Start)+"/"+strings.Join(c.Moves, " "), nrecv > len(delivered), nil)
	m.Count(fmt.Sprintf("received=%d delivered=%d", nrecv, len(delivered)))
}

// --- generation -------------------------------------------------------------------------------------

var mIds = []string{"a", "b"}
var mVals = []string{"x", "y"}

// nextEvents: the well-formed events possible at view v (time t).
func nextEvents(v map[string]string, t int) []string {
	var out []string
	for _, id := range mIds {
		cur, present := v[id]
		if !present {
			for _, n := range mVals {
				out = append(out, fmt.Sprintf("%s,ADD,%d,-,%s,0,0", id, t, n))
			}
		} else {
			for _, n := range mVals {
				out = append(out, fmt.Sprintf("%s,UPDATE,%d,%s,%s,0,0", id, t, cur, n))
			}
			out = append(out, fmt.Sprintf("%s,REMOVE,%d,%s,-,0,0", id, t, cur))
		}
	}
	return out
}

func copyView(v map[string]string) map[string]string {
	c := map[string]string{}
	for k, x := range v {
		c[k] = x
	}
	return c
}

// enumerate all well-formed sequences of exactly n events from view v
func allSeqs(v map[string]string, n, t int, prefix []string, yield func([]string)) {
	if n == 0 {
		yield(append([]string{}, prefix...))
		return
	}
	for _, ev := range nextEvents(v, t) {
		w := copyView(v)
		foldInto(w, ev)
		allSeqs(w, n-1, t+1, append(prefix, ev), yield)
	}
}

// enumerate all patterns: after each recv, k emit attempts with k in 0..maxEmit
func allPatterns(seq []string, maxEmit int, yield func([]string)) {
	var rec func(i int, moves []string)
	rec = func(i int, moves []string) {
		if i == len(seq) {
			yield(append([]string{}, moves...))
			return
		}
		m := append(moves, "r:"+seq[i])
		for k := 0; k <= maxEmit; k++ {
			rec(i+1, m)
			m = append(m, "e")
		}
	}
	rec(0, nil)
}

func runMachine(f lib.Flags, res *lib.Result, drv *lib.Driver) {
	tie := res.Tie("mergeExcess-machine", "K1",
		"the REAL mergeCollectionExcess goroutine driven through its channels one operation at a time (offer one input / take one output; a take is attempted when the model says it is enabled, the final state is read back with a sentinel input) vs the model's recv/emit machine: ALL well-formed event sequences of length <= L (quick 4, thorough 5) over 2 ids x 2 values from each of the 4 start views with ids absent/present x ALL patterns of 0..2 takes after each input (0..1 for the longest sequences: thorough length 5, quick length 4 from two of the four start views), plus random sequences of length <= 40 with random patterns (including takes while nothing is pending and seed-flagged/REPLACE inputs), plus BULK runs (quick 1, thorough 6: 1200-4600 distinct ids get an ADD each while next to nothing is taken, then a quarter to a half of them is updated / removed / re-added); compared: every taken change and the pending queue in order, all fields; non-trivial = at least two inputs; distinct = (start view, moves)")
	mon := res.Monitor("mergeExcess-view", "on the same runs, independent of the model: every offered input is accepted (never blocks, latency recorded); delivered changes (emitted then pending) are each well formed at the subscriber's view (old values chain per id); they fold to the view of everything received; the last delivered change of an id carries its most recent value; at most one pending change per id; the goroutine terminates on close; non-trivial = something was merged away")
	starts := []map[string]string{{}, {"a": "x"}, {"b": "y"}, {"a": "x", "b": "x"}}
	var maxRecv time.Duration
	failed := false
	slow := 0
	process := func(cases []machineCase) {
		if failed || len(cases) == 0 {
			return
		}
		lines := make([]string, len(cases))
		for i, c := range cases {
			lines[i] = "mrun " + strings.Join(c.Moves, " ")
		}
		ans, err := drv.Batch(lines)
		if err != nil {
			tie.Fail(err)
			failed = true
			return
		}
		// the runs are independent (each has its own goroutine and channels) and mostly wait for goroutine
		// hand-overs: run them on a few workers, record in order
		const chunk = 512
		for lo := 0; lo < len(cases) && !failed; lo += chunk {
			hi := lo + chunk
			if hi > len(cases) {
				hi = len(cases)
			}
			obss := make([]machineObs, hi-lo)
			parallelDo(hi-lo, func(j int) {
				parts := strings.SplitN(ans[lo+j], "|", 2)
				modelOuts := []string{}
				if len(parts) == 2 && parts[0] != "-" {
					modelOuts = strings.Split(parts[0], ";")
				}
				obss[j] = cases[lo+j].runCode(modelOuts)
			})
			for j, obs := range obss {
				i, c := lo+j, cases[lo+j]
				if obs.MaxRecv > maxRecv {
					maxRecv = obs.MaxRecv
				}
				nrecv := 0
				for _, mv := range c.Moves {
					if mv != "e" {
						nrecv++
					}
				}
				code := obs.answer()
				if obs.RecvBlock != "" || obs.DrainError != "" {
					code += "!" + obs.RecvBlock + obs.DrainError
				}
				tie.Record(showView(c.Start)+"/"+strings.Join(c.Moves, " "), nrecv >= 2, c, ans[i], code)
				tie.Count(fmt.Sprintf("inputs=%d", min(nrecv, 8)))
				c.monitor(mon, obs)
				if obs.RecvBlock != "" || obs.DrainError != "" || strings.Contains(code, "timeout") {
					slow++
				}
			}
			if slow > 8 {
				// every such run costs seconds: the correspondence is broken beyond doubt, stop here
				tie.Fail(fmt.Errorf("aborted after %d runs in which the goroutine did not respond within %s", slow, stepTimeout))
				failed = true
				return
			}
		}
	}
	const batch = 4000
	var buf []machineCase
	push := func(c machineCase) {
		buf = append(buf, c)
		if len(buf) >= batch {
			process(buf)
			buf = buf[:0]
		}
	}
	exhaustiveN := 0
	L := f.N(4, 5)
	for si, st := range starts {
		for n := 1; n <= L; n++ {
			maxEmit := 2
			if n >= 5 || (n == 4 && si >= 2 && !f.Thorough()) {
				maxEmit = 1 // quick: the longest sequences get 0..2 takes from two of the start views, 0..1 from the others
			}
			allSeqs(copyView(st), n, 1, nil, func(seq []string) {
				allPatterns(seq, maxEmit, func(moves []string) {
					exhaustiveN++
					push(machineCase{Kind: "mrun", Start: st, Moves: moves})
				})
			})
		}
	}
	r := lib.NewRand(f.Seed + 11)
	for i, n := 0, f.N(1500, 20000); i < n; i++ {
		push(genMachineCase(r))
	}
	// at scale: far more DISTINCT ids pending at once than any small case has (the buffer is one change per id
	// that has not been emitted, however many ids that is: recv is total at every size)
	for i, n := 0, f.N(1, 6); i < n; i++ {
		push(genBulkMachineCase(r, f.N(1200, 4000)+r.Intn(600)))
	}
	process(buf)
	res.Extra["mergeExcess_exhaustive_runs"] = exhaustiveN
	res.Extra["mergeExcess_max_input_accept_latency_us"] = maxRecv.Microseconds()
}

// parallelDo runs f(0..n-1) on a few workers and waits for all of them.
func parallelDo(n int, f func(i int)) {
	const workers = 6
	var wg sync.WaitGroup
	var next atomic.Int64
	for w := 0; w < workers; w++ {
		wg.Add(1)
		go func() {
			defer wg.Done()
			for {
				i := int(next.Add(1)) - 1
				if i >= n {
					return
				}
				f(i)
			}
		}()
	}
	wg.Wait()
}

func min(a, b int) int {
	if a < b {
		return a
	}
	return b
}

// genBulkMachineCase: n distinct ids get an ADD each while the consumer takes next to nothing; then a random
// part of them is written to again (updated, removed — merged into what is pending) and a few are taken.
func genBulkMachineCase(r *rand.Rand, n int) machineCase {
	v := map[string]string{}
	var moves []string
	t := 0
	push := func(ev string) {
		foldInto(v, ev)
		moves = append(moves, "r:"+ev)
		if r.Intn(400) == 0 {
			moves = append(moves, "e")
		}
	}
	for i := 0; i < n; i++ {
		t++
		push(fmt.Sprintf("i%d,ADD,%d,-,%s,0,0", i, t, mVals[r.Intn(2)]))
	}
	for k, m := 0, n/4+r.Intn(n/4); k < m; k++ {
		id := fmt.Sprintf("i%d", r.Intn(n))
		t++
		cur, present := v[id]
		switch {
		case !present:
			push(fmt.Sprintf("%s,ADD,%d,-,%s,0,0", id, t, mVals[r.Intn(2)]))
		case r.Intn(2) == 0:
			push(fmt.Sprintf("%s,REMOVE,%d,%s,-,0,0", id, t, cur))
		default:
			push(fmt.Sprintf("%s,UPDATE,%d,%s,%s,0,0", id, t, cur, mVals[r.Intn(2)]))
		}
	}
	for k := r.Intn(4); k > 0; k-- {
		moves = append(moves, "e")
	}
	return machineCase{Kind: "mrun", Start: map[string]string{}, Moves: moves}
}

func genMachineCase(r *rand.Rand) machineCase {
	st := map[string]string{}
	for _, id := range []string{"a", "b", "c"} {
		if r.Intn(2) == 0 {
			st[id] = mVals[r.Intn(2)]
		}
	}
	v := copyView(st)
	n := 2 + r.Intn(39)
	if r.Intn(3) > 0 {
		n = 2 + r.Intn(8)
	}
	var moves []string
	ids := []string{"a", "b", "c"}
	slow := r.Intn(3) // 0: consumer rarely takes, 2: often
	for t := 1; t <= n; t++ {
		id := ids[r.Intn(len(ids))]
		cur, present := v[id]
		var ev string
		switch {
		case !present:
			ev = fmt.Sprintf("%s,ADD,%d,-,%s,%d,%d", id, t, mVals[r.Intn(2)], r.Intn(8)/7, r.Intn(8)/7)
		case r.Intn(4) == 0:
			ev = fmt.Sprintf("%s,REMOVE,%d,%s,-,0,0", id, t, cur)
		case r.Intn(6) == 0:
			ev = fmt.Sprintf("%s,REPLACE,%d,%s,%s,0,%d", id, t, cur, mVals[r.Intn(2)], r.Intn(8)/7)
		default:
			ev = fmt.Sprintf("%s,UPDATE,%d,%s,%s,0,0", id, t, cur, mVals[r.Intn(2)])
		}
		foldInto(v, ev)
		moves = append(moves, "r:"+ev)
		for r.Intn(4) < slow {
			moves = append(moves, "e")
		}
	}
	return machineCase{Kind: "mrun", Start: st, Moves: moves}
}
