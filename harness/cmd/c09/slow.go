package main

import (
	"context"
	"fmt"
	"sort"
	"strings"
	"sync"
	"sync/atomic"
	"time"

	"google.golang.org/protobuf/proto"
	"google.golang.org/protobuf/types/known/wrapperspb"

	"github.com/smart-core-os/sc-golang/pkg/resource"
	"github.com/smart-core-os/sc-golang/verifharness/lib"
)

// ---------------------------------------------------------------------------------------------------
// srun: a lossy reader that is BEHIND
// ---------------------------------------------------------------------------------------------------
//
// One lossy Collection.Pull subscriber (with any of the include filters, or with no include function at all —
// the path the model-scheduled family cannot wait on), which takes `Taken` of its events (seeds first) and then
// stops receiving while a whole sequence of writes is made; afterwards it reads on.  Every write has returned
// before the reader reads on, and a write returns only when the subscriber's merge goroutine has taken its
// event, so nothing depends on timing: everything written sits in the subscriber's merge buffer and in its
// forwarder's hand, merged as far as the code merges.  Monitor only (which events merge with which depends on
// when the forwarder takes the first one; the property does not).

type srunCase struct {
	Kind        string            `json:"kind"` // "srun"
	Start       map[string]string `json:"start"`
	Include     string            `json:"include"` // none (no WithInclude) | all | odd | even | ida
	UpdatesOnly bool              `json:"updates_only"`
	Taken       int               `json:"taken"`
	Writes      []string          `json:"writes"`       // "u:<id>:<val>" | "x:<id>" | "r:<id>:<val>" (an overtaken create, see rivalCreate)
	BP          []bool            `json:"bp,omitempty"` // the reader's backpressure options as a LIST (the last one decides: always false here)
}

// rivalCreate: `Update(id, val, WithCreateIfAbsent())` that is OVERTAKEN — from its own InterceptBefore callback
// (which the code runs between the first read and the commit, no lock held) a rival writer adds the item with
// the empty message; the overtaken write still goes through (what is stored equals its provisional message)
// and is then an UPDATE of an item every subscriber has been told about, not a second ADD.  When the item
// exists already the rival's Add fails and the write is an ordinary update.
func rivalCreate(col *resource.Collection, id, val string) error {
	ran := false
	_, err := col.Update(id, wrapperspb.String(val), resource.WithCreateIfAbsent(), resource.InterceptBefore(func(old, change proto.Message) {
		if ran {
			return
		}
		ran = true
		_, _ = col.Add(id, wrapperspb.String(""))
	}))
	return err
}

func (c srunCase) key() string {
	uo := ""
	if c.UpdatesOnly {
		uo = "!"
	}
	if len(c.BP) > 0 {
		uo += fmt.Sprint(c.BP)
	}
	return fmt.Sprintf("%s/%s%s/%d/%s", showView(c.Start), c.Include, uo, c.Taken, strings.Join(c.Writes, " "))
}

type srunObs struct {
	Got        []string
	TakeFailed string
	WriteBlock string
	WriteErr   string
	MaxWrite   time.Duration
	Closed     bool
	Listed     string
}

var srunSlow atomic.Int64 // drains that ran into their bound (a broken tree): later ones wait less

func (c srunCase) final() map[string]string {
	view := copyView(c.Start)
	for _, w := range c.Writes {
		p := strings.Split(w, ":")
		if p[0] == "x" {
			delete(view, p[1])
		} else {
			view[p[1]] = p[2]
		}
	}
	return view
}

func (c srunCase) includeName() string {
	if c.Include == "none" {
		return "all"
	}
	return c.Include
}

func (c srunCase) runCode(b *pipeBudget) (obs srunObs) {
	var copts []resource.Option
	for id, val := range c.Start {
		copts = append(copts, resource.WithInitialRecord(id, wrapperspb.String(val)))
	}
	col := resource.NewCollection(copts...)
	ctx, cancel := context.WithCancel(context.Background())
	defer cancel()
	var ropts []resource.ReadOption
	if c.Include != "none" {
		inc := c.Include
		ropts = append(ropts, resource.WithInclude(func(id string, item proto.Message) bool { return includeTok(inc, id, tokOf(item)) }))
	}
	if c.UpdatesOnly {
		ropts = append(ropts, resource.WithUpdatesOnly(true))
	}
	ropts = append(ropts, bpOptions(c.BP)...)
	ch := col.Pull(ctx, ropts...)
	recv := func(wait time.Duration) string {
		t := time.NewTimer(wait)
		defer t.Stop()
		select {
		case ev, ok := <-ch:
			if !ok {
				obs.Closed = true
				return "closed"
			}
			return showChange(ev, false)
		case <-t.C:
			return "timeout"
		}
	}
	view := map[string]string{}
	if c.UpdatesOnly {
		view = filterView(c.includeName(), c.Start)
	}
	for i := 0; i < c.Taken; i++ {
		g := recv(pipeWait)
		if g == "timeout" || g == "closed" {
			obs.TakeFailed = fmt.Sprintf("event %d of %d before the writes: %s", i+1, c.Taken, g)
			return obs
		}
		obs.Got = append(obs.Got, g)
		foldInto(view, g)
	}
	for _, w := range c.Writes {
		p := strings.Split(w, ":")
		t0 := time.Now()
		ok, err := timedCall(b.writeBound(), func() error {
			if p[0] == "x" {
				_, err := col.Delete(p[1])
				return err
			}
			if p[0] == "r" {
				return rivalCreate(col, p[1], p[2])
			}
			_, err := col.Update(p[1], wrapperspb.String(p[2]), resource.WithCreateIfAbsent())
			return err
		})
		if !ok {
			b.noteBlocked()
			obs.WriteBlock = w
			return obs
		}
		if err != nil {
			obs.WriteErr = w + ": " + err.Error()
			return obs
		}
		if d := time.Since(t0); d > obs.MaxWrite {
			obs.MaxWrite = d
		}
	}
	// the reader reads on, until it holds the collection's (filtered) state and nothing more comes
	want := showView(filterView(c.includeName(), c.final()))
	for i := 0; i < 64; i++ {
		wait := 300 * time.Microsecond
		behind := showView(view) != want
		if behind {
			wait = 400 * time.Millisecond
			if srunSlow.Load() > 8 {
				wait = 20 * time.Millisecond
			}
		}
		g := recv(wait)
		if g == "timeout" || g == "closed" {
			if behind {
				srunSlow.Add(1)
			}
			break
		}
		obs.Got = append(obs.Got, g)
		foldInto(view, g)
	}
	var listed []string
	for _, msg := range col.List() {
		listed = append(listed, tokOf(msg))
	}
	sort.Strings(listed)
	obs.Listed = strings.Join(listed, ",")
	return obs
}

func (c srunCase) monitor(m *lib.Monitor, obs srunObs) {
	sig := "C09/Collection/slow-reader"
	if c.Include != "none" && c.Include != "all" {
		sig += "/include"
	}
	if len(c.BP) > 1 {
		sig += "/option-list"
	}
	for _, w := range c.Writes {
		if strings.HasPrefix(w, "r:") {
			sig += "/overtaken-create"
			break
		}
	}
	if obs.TakeFailed != "" {
		m.Violate(sig+"/not-delivered", "a lossy subscriber did not get the events it is owed before any write was made (seeds)", c, "an event", obs.TakeFailed)
		return
	}
	if obs.WriteBlock != "" {
		m.Violate(sig+"/writer-blocked", "a write did not return although the only subscriber is lossy (it had stopped receiving)", c, "prompt return", "blocked at "+obs.WriteBlock)
		return
	}
	if obs.WriteErr != "" {
		m.Violate(sig+"/write-error", "a write failed", c, "nil", obs.WriteErr)
		return
	}
	if obs.MaxWrite > promptBound {
		m.Violate(sig+"/writer-waited", "a write waited for a lossy subscriber that had stopped receiving", c, "< "+promptBound.String(), obs.MaxWrite.String())
	}
	if obs.Closed {
		m.Violate(sig+"/stream-closed", "the Pull stream ended although its context is live", c, "open", "closed")
		return
	}
	final := c.final()
	var vals []string
	for _, v := range final {
		vals = append(vals, v)
	}
	sort.Strings(vals)
	if w := strings.Join(vals, ","); w != obs.Listed {
		m.Violate(sig+"/list-differs", "List does not show the written state", c, w, obs.Listed)
	}
	include := c.includeName()
	view := map[string]string{}
	if c.UpdatesOnly {
		view = filterView(include, c.Start)
	}
	chained, admitted := true, true
	for _, ev := range obs.Got {
		at := showView(view)
		if !foldInto(view, ev) && chained {
			chained = false
			m.Violate(sig+"/old-value-chain", "a change delivered to a reader that was behind is not well formed at the reader's own (filtered) view (old values chain per id, ADD only of an item the view lacks, REMOVE only of one it has)", c, "well-formed at "+at, ev+" (stream "+strings.Join(obs.Got, ";")+")")
		}
		if f := fields(ev); len(f) == 7 && f[1] != "REMOVE" && !includeTok(include, f[0], f[4]) && admitted {
			admitted = false
			m.Violate(sig+"/excluded-value-delivered", "a subscriber with an include filter was handed a value its filter excludes", c, "only admitted values", ev)
		}
	}
	if a, w := showView(view), showView(filterView(include, final)); a != w {
		m.Violate(sig+"/fold-differs", "a lossy reader that was behind while the writes were made and then read on until nothing more came: its received changes fold to a different view than the collection holds (as its include filter admits it; = List with that filter)", c, w, a+" (stream "+strings.Join(obs.Got, ";")+")")
	}
	seeds := len(filterView(include, c.Start))
	if c.UpdatesOnly {
		seeds = 0
	}
	m.Eval(c.key(), len(obs.Got) < seeds+len(c.Writes), nil)
	m.Count("include=" + c.Include)
}

func genSrunCases(f lib.Flags) []srunCase {
	var cases []srunCase
	type cfg struct {
		start   map[string]string
		include string
		uo      bool
		L       int
		bp      []bool
	}
	one, two, none := map[string]string{"a": "a0"}, map[string]string{"a": "a0", "b": "b1"}, map[string]string{}
	cfgs := []cfg{
		{one, "even", false, f.N(4, 5), nil}, {one, "odd", false, f.N(4, 5), nil}, {two, "even", false, f.N(4, 5), nil}, {two, "odd", false, f.N(3, 4), nil},
		{one, "none", false, f.N(4, 5), nil}, {two, "none", false, f.N(3, 4), nil}, {none, "none", false, f.N(3, 4), nil}, {none, "even", false, f.N(3, 4), nil},
		{two, "ida", false, f.N(3, 4), nil}, {one, "all", false, f.N(3, 4), nil}, {two, "even", true, f.N(3, 4), nil}, {one, "none", true, f.N(3, 4), nil},
		// the reader's backpressure setting as an option list whose last element says "no backpressure"
		{one, "none", false, f.N(2, 3), []bool{false}}, {one, "none", false, f.N(3, 4), []bool{true, false}}, {two, "odd", false, f.N(2, 3), []bool{false, true, false}},
	}
	for _, g := range cfgs {
		inc := g.include
		if inc == "none" {
			inc = "all"
		}
		seeds := len(filterView(inc, g.start))
		if g.uo {
			seeds = 0
		}
		for taken := 0; taken <= seeds; taken++ {
			var rec func(n int, view map[string]string, t int, prefix []string)
			rec = func(n int, view map[string]string, t int, prefix []string) {
				if len(prefix) > 0 {
					cases = append(cases, srunCase{Kind: "srun", Start: g.start, Include: g.include, UpdatesOnly: g.uo, Taken: taken, Writes: append([]string{}, prefix...), BP: g.bp})
				}
				if n == 0 {
					return
				}
				for _, id := range []string{"a", "b"} {
					for p := 0; p < 2; p++ { // the new value's parity: inside / outside the odd and even filters at will
						w := copyView(view)
						val := fmt.Sprintf("%s%d", id, 2*t+p)
						w[id] = val
						rec(n-1, w, t+1, append(prefix, "u:"+id+":"+val))
					}
					if _, ok := view[id]; ok {
						w := copyView(view)
						delete(w, id)
						rec(n-1, w, t+1, append(prefix, "x:"+id))
					} else {
						// an overtaken create (a rival adds the item from the write's own callback)
						w := copyView(view)
						val := fmt.Sprintf("%s%d", id, 2*t+t%2)
						w[id] = val
						rec(n-1, w, t+1, append(prefix, "r:"+id+":"+val))
					}
				}
			}
			rec(g.L, copyView(g.start), 1, nil)
		}
	}
	return cases
}

func newSlowReaderMonitor(res *lib.Result) *lib.Monitor {
	return res.Monitor("slow-reader-view", "the REAL resource.Collection with one lossy Pull subscriber that is BEHIND: it takes k of its events (seeds first; every k), stops, a whole sequence of writes is made (ALL sequences up to length L — quick 3..4, thorough 4..5 — of updates-or-creates, deletes and OVERTAKEN creates (a rival adds the absent item with the empty message from the write's own InterceptBefore callback: the write is then an update of an item the reader may already hold) over 2 ids, every new value inside or outside the odd/even filters at will), then it reads on until nothing more comes; for Pull with WithInclude(odd|even|by-id|accept-all) and with NO include function, seeded and updates-only, from several stored views, also subscribed with backpressure option LISTS ending in false ([f], [t,f], [f,t,f]); independent of the model and of timing (every write has returned, so its event is in the subscriber's merge buffer or forwarder): no write blocks, fails or waits; the received changes chain per id at the reader's own filtered view, never carry an excluded value, and fold to the collection's state as the filter admits it (= List with that filter) — in particular an item that was shown and was written to several times while the reader was behind, ending outside the filter, is REMOVED; distinct = the case; non-trivial = something was merged away")
}

// runSlowReader needs neither the driver nor hooks: it runs next to the model-scheduled families.
func runSlowReader(f lib.Flags, mon *lib.Monitor) {
	cases := genSrunCases(f)
	var b pipeBudget
	const chunk = 256
	for lo := 0; lo < len(cases); lo += chunk {
		hi := lo + chunk
		if hi > len(cases) {
			hi = len(cases)
		}
		obss := make([]srunObs, hi-lo)
		parallelDo(hi-lo, func(j int) { obss[j] = cases[lo+j].runCode(&b) })
		for j, obs := range obss {
			cases[lo+j].monitor(mon, obs)
		}
		if b.exhausted() || srunSlow.Load() > 40 {
			mon.Count("family cut short: writes blocked / drains ran into their bound (a broken tree)")
			break
		}
	}
}

// ---------------------------------------------------------------------------------------------------
// prun: a Delete held up in the middle, and a second writer
// ---------------------------------------------------------------------------------------------------
//
// Collection.Delete publishes its REMOVE while it still holds the collection's lock: whatever is committed
// after a delete is published after its REMOVE ("a remove followed by an add becomes a replace" is what a
// reader that is behind must get; add-then-remove would cancel out and leave it with the old item for ever).
// The forced interleaving: the collection's clock (WithClock) parks the Delete on the clock read it makes for
// its event, a second writer starts meanwhile and is given time to overtake if the code lets it, then the
// Delete goes on.  Three subscribers: a lossy one that keeps up, a lossy one that is behind (an unrelated change
// sits in its forwarder), one with backpressure that keeps up.  (An Update held up the same way is NOT ordered by
// the code: it publishes after unlocking — that is C03's finding; this family holds up deletes only.)

type parkClock struct {
	armed   atomic.Bool
	parked  chan struct{}
	release chan struct{}
	n       atomic.Int64
}

func newParkClock() *parkClock {
	return &parkClock{parked: make(chan struct{}), release: make(chan struct{})}
}

func (c *parkClock) Now() time.Time {
	if c.armed.CompareAndSwap(true, false) {
		close(c.parked)
		<-c.release
	}
	return timeBase.Add(time.Duration(c.n.Add(1)) * time.Second)
}

type prunCase struct {
	Kind    string   `json:"kind"`    // "prun"
	Before  []string `json:"before"`  // single-writer writes before: "u:<id>:<val>" | "x:<id>"
	Delete  string   `json:"delete"`  // the id whose Delete is held up
	Second  string   `json:"second"`  // the second writer's write: "u:<id>:<val>" (update or create) | "add:<id>:<val>" | "x:<id>"
	Include string   `json:"include"` // the slow reader's include filter
}

func (c prunCase) key() string {
	return fmt.Sprintf("%s|x:%s|%s|%s", strings.Join(c.Before, " "), c.Delete, c.Second, c.Include)
}

type prunObs struct {
	NotParked bool
	Stuck     string
	Errs      []string
	Overtook  bool
	Streams   map[string][]string
	Listed    map[string]string
}

var prunStart = map[string]string{"a": "a0", "k": "k0"}

func (c prunCase) runCode() (obs prunObs) {
	clk := newParkClock()
	copts := []resource.Option{resource.WithClock(clk)}
	for id, val := range prunStart {
		copts = append(copts, resource.WithInitialRecord(id, wrapperspb.String(val)))
	}
	col := resource.NewCollection(copts...)
	ctx, cancel := context.WithCancel(context.Background())
	defer cancel()
	inc := c.Include
	slowCh := col.Pull(ctx, resource.WithInclude(func(id string, item proto.Message) bool { return includeTok(inc, id, tokOf(item)) }))
	fastCh := col.Pull(ctx)
	bpCh := col.Pull(ctx, resource.WithBackpressure(true))
	obs.Streams = map[string][]string{}
	var mu sync.Mutex
	var wg sync.WaitGroup
	collect := func(name string, ch <-chan *resource.CollectionChange) {
		wg.Add(1)
		go func() {
			defer wg.Done()
			for ev := range ch {
				mu.Lock()
				obs.Streams[name] = append(obs.Streams[name], showChange(ev, false))
				mu.Unlock()
			}
		}()
	}
	collect("fast", fastCh)
	collect("bp", bpCh)
	slowRecv := func(wait time.Duration) bool {
		select {
		case ev, ok := <-slowCh:
			if !ok {
				return false
			}
			mu.Lock()
			obs.Streams["slow"] = append(obs.Streams["slow"], showChange(ev, false))
			mu.Unlock()
			return true
		case <-time.After(wait):
			return false
		}
	}
	for range filterView(c.Include, prunStart) {
		if !slowRecv(pipeWait) {
			obs.Stuck = "the slow reader's seeds"
			return obs
		}
	}
	do := func(w string) error {
		p := strings.Split(w, ":")
		switch p[0] {
		case "x":
			_, err := col.Delete(p[1], resource.WithAllowMissing(true))
			return err
		case "add":
			_, err := col.Add(p[1], wrapperspb.String(p[2]))
			return err
		default:
			_, err := col.Update(p[1], wrapperspb.String(p[2]), resource.WithCreateIfAbsent())
			return err
		}
	}
	for _, w := range c.Before {
		if ok, err := timedCall(pipeWait, func() error { return do(w) }); !ok || err != nil {
			obs.Stuck = "write " + w
			return obs
		}
	}
	clk.armed.Store(true)
	d1 := make(chan error, 1)
	go func() { d1 <- do("x:" + c.Delete) }()
	select {
	case <-clk.parked:
	case err := <-d1:
		// the delete made no clock read (nothing to delete, or the event's time comes from elsewhere): no interleaving to force
		clk.armed.Store(false)
		obs.NotParked = true
		if err != nil {
			obs.Errs = append(obs.Errs, "delete: "+err.Error())
		}
		d1 <- nil
	case <-time.After(pipeWait):
		obs.Stuck = "the delete neither read the clock nor returned"
		return obs
	}
	d2 := make(chan error, 1)
	go func() { d2 <- do(c.Second) }()
	var err2 error
	done2 := false
	if !obs.NotParked {
		select {
		case err2 = <-d2:
			done2, obs.Overtook = true, true
		case <-time.After(40 * time.Millisecond):
		}
		close(clk.release)
	}
	select {
	case err := <-d1:
		if err != nil {
			obs.Errs = append(obs.Errs, "delete: "+err.Error())
		}
	case <-time.After(pipeWait):
		obs.Stuck = "the delete did not return"
		return obs
	}
	if !done2 {
		select {
		case err2 = <-d2:
		case <-time.After(pipeWait):
			obs.Stuck = "the second write did not return"
			return obs
		}
	}
	if err2 != nil {
		obs.Errs = append(obs.Errs, c.Second+": "+err2.Error())
	}
	// a fence: one more write every subscriber must see, then the slow reader reads on
	if ok, err := timedCall(pipeWait, func() error { return do("u:k:k9") }); !ok || err != nil {
		obs.Stuck = "the fence write"
		return obs
	}
	for slowRecv(30 * time.Millisecond) {
	}
	fenced := func(name string) bool {
		mu.Lock()
		defer mu.Unlock()
		s := obs.Streams[name]
		return len(s) > 0 && strings.HasSuffix(fields(s[len(s)-1])[4], "k9")
	}
	waitFor(pipeWait, func() bool { return fenced("fast") && fenced("bp") })
	obs.Listed = map[string]string{}
	for _, id := range []string{"a", "b", "k"} {
		if msg, ok := col.Get(id); ok {
			obs.Listed[id] = tokOf(msg)
		}
	}
	cancel()
	wg.Wait()
	return obs
}

func (c prunCase) monitor(m *lib.Monitor, obs prunObs) {
	const sig = "C09/Collection/held-up-delete/"
	if obs.Stuck != "" {
		m.Violate(sig+"stuck", "a write or a delivery did not complete", c, "completes", obs.Stuck)
		return
	}
	if len(obs.Errs) > 0 {
		m.Violate(sig+"write-error", "a write failed", c, "nil", strings.Join(obs.Errs, "; "))
		return
	}
	for _, name := range []string{"fast", "slow", "bp"} {
		include := "all"
		if name == "slow" {
			include = c.Include
		}
		view := map[string]string{}
		got := obs.Streams[name]
		chained := true
		for _, ev := range got {
			at := showView(view)
			if !foldInto(view, ev) && chained {
				chained = false
				m.Violate(sig+name+"/old-value-chain", "a Delete was held up on the clock read for its event while a second writer wrote: a change delivered afterwards is not well formed at the subscriber's view (whatever is committed after a delete must be published after its REMOVE)", c, "well-formed at "+at, ev+" (stream "+strings.Join(got, ";")+")")
			}
		}
		if a, w := showView(view), showView(filterView(include, obs.Listed)); a != w {
			m.Violate(sig+name+"/fold-differs", "a Delete was held up on the clock read for its event while a second writer wrote: the subscriber's received changes fold to a different view than the collection holds (a remove followed by an add must reach a reader that is behind as a replace, never as add-then-remove, which cancels out)", c, w, a+" (stream "+strings.Join(got, ";")+")")
		}
	}
	m.Eval(c.key(), !obs.NotParked, nil)
	switch {
	case obs.NotParked:
		m.Count("the delete made no clock read: nothing to interleave")
	case obs.Overtook:
		m.Count("the second write returned while the delete was held up")
	default:
		m.Count("the second write waited for the held-up delete")
	}
}

// modelLine: the same history for the model's wstep — every Update/Add is a commit followed at once by its
// publication, the Delete is one move (commit and publication together: it holds the lock across Bus.Send), the
// second writer's commit comes after it
func (c prunCase) modelLine() string {
	view := copyView(prunStart)
	var ms []string
	add := func(w string) {
		p := strings.Split(w, ":")
		if p[0] == "x" {
			ms = append(ms, "x:"+p[1])
			delete(view, p[1])
			return
		}
		ms = append(ms, "u:"+p[1]+":"+p[2], "p0")
		view[p[1]] = p[2]
	}
	for _, w := range c.Before {
		add(w)
	}
	add("x:" + c.Delete)
	add(c.Second)
	add("u:k:k9")
	var start []string
	for _, id := range []string{"a", "k"} {
		start = append(start, id+"="+prunStart[id])
	}
	return "wrun " + strings.Join(start, ",") + " " + strings.Join(ms, " ")
}

func runHeldUpDelete(f lib.Flags, res *lib.Result, drv *lib.Driver) {
	tie := res.Tie("held-up-delete-publish-order", "K4",
		"the REAL resource.Collection with two writers under a FORCED interleaving (the collection's clock parks a Delete on the clock read it makes for its event; a second writer starts meanwhile and gets 40 ms to overtake if the code lets it) vs the model's wstep (Writers.lean: Delete = commit and publication in one move, Update/Add = commit, then publication): compared: the events a subscriber with backpressure that keeps up receives after its seeds (= the order in which the bus got them), all fields but the time; cases: 3 prefixes x 6 second writes (re-add by Add / by Update-or-create, another id updated / deleted / added, a second delete) x the slow reader's filter; non-trivial = the delete was parked; distinct = the case")
	mon := res.Monitor("held-up-delete-order", "the REAL resource.Collection, two writers, a FORCED interleaving: the collection's clock (WithClock) parks a Delete on the clock read it makes for its event; a second writer (re-add by Add / by Update-or-create of the same id, update or delete of another id, a second delete) starts meanwhile and is given 40 ms to overtake if the code lets it; then the Delete goes on; three subscribers (a lossy one that keeps up, a lossy one that is behind — with include filters all/odd/even —, one with backpressure that keeps up); after a fence write: every subscriber's stream chains per id and folds to what the collection holds (as the filter admits it); distinct = the case; non-trivial = the delete was parked")
	var cases []prunCase
	for _, before := range [][]string{nil, {"u:k:k1"}, {"u:k:k1", "u:a:a2"}} {
		for _, second := range []string{"u:a:a3", "add:a:a5", "u:k:k4", "x:k", "x:a", "add:b:b1"} {
			for _, inc := range []string{"all", "odd", "even"} {
				if !f.Thorough() && inc != "all" && before == nil {
					continue
				}
				cases = append(cases, prunCase{Kind: "prun", Before: before, Delete: "a", Second: second, Include: inc})
			}
		}
	}
	lines := make([]string, len(cases))
	for i, c := range cases {
		lines[i] = c.modelLine()
	}
	ans, err := drv.Batch(lines)
	if err != nil {
		tie.Fail(err)
		return
	}
	obss := make([]prunObs, len(cases))
	var wg sync.WaitGroup
	for i := range cases {
		wg.Add(1)
		go func(i int) { defer wg.Done(); obss[i] = cases[i].runCode() }(i)
	}
	wg.Wait()
	for i, c := range cases {
		obs := obss[i]
		if obs.Stuck != "" { // a stall of a loaded machine does not repeat
			obs = c.runCode()
		}
		c.monitor(mon, obs)
		if obs.Stuck == "" {
			bp := obs.Streams["bp"]
			if n := len(prunStart); len(bp) >= n {
				bp = bp[n:] // seeds
			}
			tie.Record(c.key(), !obs.NotParked, c, ans[i], showChanges(bp))
		}
	}
}
