package main

import (
	"fmt"
	"strings"

	"github.com/smart-core-os/sc-golang/pkg/resource"
	"github.com/smart-core-os/sc-golang/verifharness/lib"
)

// mergeCase is one cell of mergeChanges(a, b).
type mergeCase struct {
	Kind string `json:"kind"` // "merge"
	A    string `json:"a"`
	B    string `json:"b"`
}

func (c mergeCase) line() string { return "merge " + c.A + " " + c.B }

func (c mergeCase) runCode() string {
	var out string
	panicked, msg := lib.Catch(func() {
		a, b := parseChange(c.A), parseChange(c.B)
		got, send := resource.VerifMergeChanges(*a, *b)
		if !send {
			out = "drop"
			return
		}
		out = showChange(&got, true)
	})
	if panicked {
		return "panic:" + msg
	}
	return out
}

func fields(s string) []string { return strings.Split(s, ",") }

// wfAt: is the change (kind, old, new) well formed when the id currently holds cur ("-" = absent)?
func wfAt(cur, kind, old, new string) bool {
	switch kind {
	case "ADD":
		return cur == "-" && old == "-" && new != "-"
	case "UPDATE", "REPLACE":
		return cur != "-" && old == cur && new != "-"
	case "REMOVE":
		return cur != "-" && old == cur && new == "-"
	}
	return false
}

func after(kind, new string) string {
	if kind == "REMOVE" {
		return "-"
	}
	return new
}

// monitor: the merge algebra on the real code, for pairs that are consecutive well-formed changes of
// one id from some current value: merged is well formed at the same value and leaves the same value as
// a then b; ADD;REMOVE yields nothing and cancels; REMOVE;ADD is a REPLACE old→new.
func (c mergeCase) monitor(m *lib.Monitor, code string) {
	a, b := fields(c.A), fields(c.B)
	if strings.HasPrefix(code, "panic:") {
		m.Violate("C09/mergeChanges/"+a[1]+";"+b[1]+"/panic", "mergeChanges panicked", c, "no panic", code)
		return
	}
	cur := a[3] // the value before a (for ADD: "-")
	if !wfAt(cur, a[1], a[3], a[4]) {
		return
	}
	mid := after(a[1], a[4])
	if !wfAt(mid, b[1], b[3], b[4]) {
		return
	}
	end := after(b[1], b[4])
	cell := a[1] + ";" + b[1]
	m.Eval(cell+"/"+cur+"/"+mid+"/"+end, true, map[string]any{"case": c, "code": code})
	m.Count(cell)
	if code == "drop" {
		if !(a[1] == "ADD" && b[1] == "REMOVE") {
			m.Violate("C09/mergeChanges/"+cell+"/dropped", "only an ADD followed by its REMOVE may cancel", c, "a merged change", code)
		}
		if end != cur {
			m.Violate("C09/mergeChanges/"+cell+"/cancel-changes-view", "dropping the pair must leave the view unchanged", c, cur, end)
		}
		return
	}
	g := fields(code)
	if a[1] == "ADD" && b[1] == "REMOVE" {
		m.Violate("C09/mergeChanges/"+cell+"/not-cancelled", "an add followed by a remove must cancel out", c, "drop", code)
		return
	}
	if !wfAt(cur, g[1], g[3], g[4]) {
		m.Violate("C09/mergeChanges/"+cell+"/old-value-chain", "the merged change must be well formed where the first change was (old value = value before the first)", c, fmt.Sprintf("a change from %s to %s", cur, end), code)
		return
	}
	if after(g[1], g[4]) != end {
		m.Violate("C09/mergeChanges/"+cell+"/wrong-effect", "the merged change must leave the value the two changes leave", c, end, after(g[1], g[4]))
	}
	if a[1] == "REMOVE" && b[1] == "ADD" && g[1] != "REPLACE" {
		m.Violate("C09/mergeChanges/"+cell+"/not-replace", "a remove followed by an add must become a replace", c, "REPLACE", g[1])
	}
	if g[0] != b[0] || g[2] != b[2] {
		m.Violate("C09/mergeChanges/"+cell+"/id-or-time", "the merged change keeps the id and the change time of the later change", c, b[0]+","+b[2], g[0]+","+g[2])
	}
}

// runMergeTable: K2 exhaustive over 5x5 kinds x old,new of a and b in {absent,x,y} x LastSeedValue of a
// and b x SeedValue of b.
func runMergeTable(f lib.Flags, res *lib.Result, drv *lib.Driver) {
	tie := res.Tie("mergeChanges-table", "K2",
		"exhaustive: 5x5 change kinds x OldValue,NewValue of a and of b in {absent,x,y} x LastSeedValue(a) x LastSeedValue(b) x SeedValue(b), distinct change times; every output field compared (drop = send false); non-trivial = all cases; distinct = the input cell")
	tie.Exhaustive = true
	mon := res.Monitor("merge-algebra", "for every pair that is two consecutive well-formed changes of one id (all 8 reachable kind pairs x values in {x,y}): merged is well formed where the first was (old value chain), leaves the value the pair leaves, ADD;REMOVE cancels, REMOVE;ADD becomes REPLACE; distinct = (kind pair, values)")
	vals := []string{"-", "x", "y"}
	var cases []mergeCase
	for _, ka := range kindNames {
		for _, kb := range kindNames {
			for _, ao := range vals {
				for _, an := range vals {
					for _, bo := range vals {
						for _, bn := range vals {
							for fl := 0; fl < 8; fl++ {
								a := fmt.Sprintf("a,%s,5,%s,%s,0,%d", ka, ao, an, fl&1)
								b := fmt.Sprintf("a,%s,9,%s,%s,%d,%d", kb, bo, bn, fl>>2&1, fl>>1&1)
								cases = append(cases, mergeCase{Kind: "merge", A: a, B: b})
							}
						}
					}
				}
			}
		}
	}
	lines := make([]string, len(cases))
	for i, c := range cases {
		lines[i] = c.line()
	}
	ans, err := drv.Batch(lines)
	if err != nil {
		tie.Fail(err)
		ans = nil
	}
	for i, c := range cases {
		code := c.runCode()
		if ans != nil {
			tie.Record(c.A+"/"+c.B, true, c, ans[i], code)
			if code == "drop" {
				tie.Count("drop")
			} else {
				tie.Count("out " + fields(code)[1])
			}
		}
		c.monitor(mon, code)
	}
}
