package main

import (
	"context"
	"fmt"
	"strings"
	"sync"
	"time"

	"google.golang.org/protobuf/types/known/wrapperspb"

	"github.com/smart-core-os/sc-golang/pkg/resource"
	"github.com/smart-core-os/sc-golang/verifharness/lib"
)

// ---------------------------------------------------------------------------------------------------
// ropts: the read options as a LIST, and the path (lossy / blocking) the subscription takes
// ---------------------------------------------------------------------------------------------------
//
// `ComputeReadConfig` applies the options in the order given; the LAST backpressure option decides which path
// `Value.onUpdate` / `Collection.onUpdate` install (an adapter passes its default first, the caller's choice
// after it).  Tie: the model's `computeReadConfig` / `pathOf` (ReadOpts.lean, driver op `ropts`) vs
//   * the real resource.ComputeReadConfig on every option list up to length 4 over
//     {WithBackpressure(true), WithBackpressure(false), WithUpdatesOnly(true), WithUpdatesOnly(false), EmptyReadOption}
//   * the path the real Value.Pull / Collection.Pull take on every list up to length 3 over
//     {WithBackpressure(true), WithBackpressure(false), EmptyReadOption} (+ the same after WithUpdatesOnly(true)):
//     a subscriber that never receives, three writes: on the lossy path they all return, on the blocking path they
//     cannot (the forwarder holds one event at most; the subscription is cancelled after the verdict).
// The probes only wait, they run next to the other families.

type roptsCase struct {
	Kind  string   `json:"kind"`            // "ropts"
	Opts  []string `json:"opts"`            // bp1 | bp0 | uo1 | uo0 | e
	Probe string   `json:"probe,omitempty"` // "" (configuration only) | value | collection
}

func (c roptsCase) key() string { return c.Probe + "/" + strings.Join(c.Opts, " ") }

func (c roptsCase) modelLine() string { return strings.TrimSpace("ropts " + strings.Join(c.Opts, " ")) }

func (c roptsCase) options() []resource.ReadOption {
	var opts []resource.ReadOption
	for _, o := range c.Opts {
		switch o {
		case "bp1":
			opts = append(opts, resource.WithBackpressure(true))
		case "bp0":
			opts = append(opts, resource.WithBackpressure(false))
		case "uo1":
			opts = append(opts, resource.WithUpdatesOnly(true))
		case "uo0":
			opts = append(opts, resource.WithUpdatesOnly(false))
		default:
			opts = append(opts, resource.EmptyReadOption{})
		}
	}
	return opts
}

// expected: the oracle, independent of the model and of the code: the last option of each kind, else false
func (c roptsCase) expected() (bp, uo bool) {
	for _, o := range c.Opts {
		switch o {
		case "bp1", "bp0":
			bp = o == "bp1"
		case "uo1", "uo0":
			uo = o == "uo1"
		}
	}
	return
}

type roptsObs struct {
	BP, UO bool
	Path   string // "" (not probed) | lossy | blocking | error:<text>
	Stuck  string
}

func (o roptsObs) answer() string {
	s := "bp=" + flag(o.BP) + " uo=" + flag(o.UO)
	if o.Path != "" {
		s += " path=" + o.Path
	}
	if o.Stuck != "" {
		s += " !" + o.Stuck
	}
	return s
}

const roptsVerdictAfter = 2600 * time.Millisecond // three writes that have not returned by then: the blocking path (expected on the lossy path: µs)

func (c roptsCase) runCode() (obs roptsObs) {
	opts := c.options()
	if panicked, msg := lib.Catch(func() {
		rr := resource.ComputeReadConfig(opts...)
		obs.BP, obs.UO = rr.Backpressure, rr.UpdatesOnly
	}); panicked {
		obs.Stuck = "panic:" + msg
		return obs
	}
	if c.Probe == "" {
		return obs
	}
	ctx, cancel := context.WithCancel(context.Background())
	defer cancel()
	var write func(i int) error
	switch c.Probe {
	case "value":
		v := resource.NewValue(resource.WithInitialValue(wrapperspb.String("v0")))
		_ = v.Pull(ctx, opts...) // never received from
		write = func(i int) error { _, err := v.Set(wrapperspb.String(fmt.Sprintf("v%d", i))); return err }
	default:
		col := resource.NewCollection(resource.WithInitialRecord("a", wrapperspb.String("a0")))
		_ = col.Pull(ctx, opts...) // never received from
		write = func(i int) error { _, err := col.Update("a", wrapperspb.String(fmt.Sprintf("a%d", i))); return err }
	}
	done := make(chan error, 1)
	go func() {
		for i := 1; i <= 3; i++ {
			if err := write(i); err != nil {
				done <- err
				return
			}
		}
		done <- nil
	}()
	select {
	case err := <-done:
		if err != nil {
			obs.Path = "error:" + err.Error()
		} else {
			obs.Path = "lossy"
		}
		return obs
	case <-time.After(roptsVerdictAfter):
		obs.Path = "blocking"
	}
	cancel() // the listener is skipped from now on: the parked write goes on
	select {
	case <-done:
	case <-time.After(6 * time.Second): // Value.set gives up after 5 s by itself
		obs.Stuck = "a write did not return after the only subscription was cancelled"
	}
	return obs
}

func (c roptsCase) monitor(m *lib.Monitor, obs roptsObs) {
	bp, uo := c.expected()
	if obs.Stuck != "" {
		m.Violate("C09/read-options/"+c.Probe+"/stuck", "a probe of the subscription's path did not complete", c, "completes", obs.Stuck)
		return
	}
	if obs.BP != bp || obs.UO != uo {
		m.Violate("C09/ComputeReadConfig/not-last-wins", "read options are applied in order: the last option of a kind decides (an adapter's default first, the caller's choice after it)", c, "bp="+flag(bp)+" uo="+flag(uo), "bp="+flag(obs.BP)+" uo="+flag(obs.UO))
	}
	if c.Probe != "" {
		want := "lossy"
		if bp {
			want = "blocking"
		}
		switch {
		case obs.Path == want:
		case want == "lossy":
			m.Violate("C09/read-options/"+c.Probe+"/lossy-subscriber-blocks-writer", "the last backpressure option of the subscription says NO backpressure (or there is none), the subscriber is idle: three writes must return without waiting for it", c, "lossy", obs.Path)
		default:
			m.Violate("C09/read-options/"+c.Probe+"/backpressure-not-applied", "the last backpressure option of the subscription asks for backpressure and the subscriber never receives: three writes cannot all return (nothing may be dropped)", c, "blocking", obs.Path)
		}
	}
	m.Eval(c.key(), len(c.Opts) > 1, nil)
	m.Count("probe=" + c.Probe + " bp=" + flag(bp))
}

func genRoptsCases(f lib.Flags) []roptsCase {
	var cases []roptsCase
	var rec func(alpha []string, n int, prefix []string, yield func([]string))
	rec = func(alpha []string, n int, prefix []string, yield func([]string)) {
		yield(append([]string{}, prefix...))
		if n == 0 {
			return
		}
		for _, a := range alpha {
			rec(alpha, n-1, append(prefix, a), yield)
		}
	}
	rec([]string{"bp1", "bp0", "uo1", "uo0", "e"}, f.N(4, 5), nil, func(o []string) {
		cases = append(cases, roptsCase{Kind: "ropts", Opts: o})
	})
	for _, probe := range []string{"value", "collection"} {
		rec([]string{"bp1", "bp0", "e"}, 3, nil, func(o []string) {
			cases = append(cases, roptsCase{Kind: "ropts", Opts: o, Probe: probe})
			if len(o) == 2 || f.Thorough() {
				cases = append(cases, roptsCase{Kind: "ropts", Opts: append([]string{"uo1"}, o...), Probe: probe})
			}
		})
	}
	return cases
}

type roptsRun struct {
	cases []roptsCase
	obss  []roptsObs
	done  chan struct{}
}

// startRopts starts every case on its own goroutine (the probes only wait) and returns at once.
func startRopts(f lib.Flags) *roptsRun {
	r := &roptsRun{cases: genRoptsCases(f), done: make(chan struct{})}
	r.obss = make([]roptsObs, len(r.cases))
	go func() {
		defer close(r.done)
		var wg sync.WaitGroup
		for i := range r.cases {
			if r.cases[i].Probe == "" {
				r.obss[i] = r.cases[i].runCode()
				continue
			}
			wg.Add(1)
			go func(i int) { defer wg.Done(); r.obss[i] = r.cases[i].runCode() }(i)
		}
		wg.Wait()
	}()
	return r
}

func stripPath(ans string) string {
	if i := strings.Index(ans, " path="); i >= 0 {
		return ans[:i]
	}
	return ans
}

func (r *roptsRun) finish(res *lib.Result, drv *lib.Driver) {
	tie := res.Tie("read-options-path", "K2",
		"the model's computeReadConfig / pathOf (ReadOpts.lean, driver op ropts) vs the REAL resource.ComputeReadConfig on EVERY read-option list up to length 4 (thorough 5) over {WithBackpressure(true), WithBackpressure(false), WithUpdatesOnly(true), WithUpdatesOnly(false), EmptyReadOption} (compared: Backpressure and UpdatesOnly of the request), and vs the path the REAL Value.Pull / Collection.Pull take on every list up to length 3 over {WithBackpressure(true), WithBackpressure(false), EmptyReadOption}, and the lists of length 2 (thorough: all) again behind WithUpdatesOnly(true): a subscriber that never receives and three writes — lossy = they all return, blocking = they have not returned after 2.6 s (then the subscription is cancelled and they must); a differing probe is run a second time; non-trivial = at least two options; distinct = (probe, list)")
	tie.Exhaustive = true
	mon := res.Monitor("read-options-last-wins", "on the same runs, against an oracle independent of model and code (the last option of a kind in the list, else false): the REAL ComputeReadConfig gives that request; a subscription whose last backpressure option says false (or that has none) never makes three writes wait for its idle subscriber; one whose last backpressure option says true does not let three writes return while its subscriber receives nothing; non-trivial = at least two options; distinct = (probe, list)")
	lines := make([]string, len(r.cases))
	for i, c := range r.cases {
		lines[i] = c.modelLine()
	}
	ans, err := drv.Batch(lines)
	if err != nil {
		tie.Fail(err)
		return
	}
	<-r.done
	reruns := 0
	for i, c := range r.cases {
		obs := r.obss[i]
		model := ans[i]
		if c.Probe == "" {
			model = stripPath(model)
		} else if obs.answer() != model && reruns < 2 {
			reruns++
			obs = c.runCode() // a stall of a loaded machine does not repeat (a broken tree differs every time: two re-runs are enough)
		}
		tie.Record(c.key(), len(c.Opts) > 1, c, model, obs.answer())
		tie.Count("probe=" + c.Probe)
		c.monitor(mon, obs)
	}
}
