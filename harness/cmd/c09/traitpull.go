package main

import (
	"context"
	"fmt"
	"sort"
	"strconv"
	"strings"
	"time"

	"google.golang.org/grpc"

	"github.com/smart-core-os/sc-api/go/traits"
	"github.com/smart-core-os/sc-api/go/types"
	"github.com/smart-core-os/sc-golang/pkg/resource"
	"github.com/smart-core-os/sc-golang/pkg/trait"
	"github.com/smart-core-os/sc-golang/pkg/trait/electricpb"
	"github.com/smart-core-os/sc-golang/pkg/trait/hailpb"
	"github.com/smart-core-os/sc-golang/pkg/trait/metadatapb"
	"github.com/smart-core-os/sc-golang/pkg/trait/parentpb"
	"github.com/smart-core-os/sc-golang/pkg/trait/publicationpb"
	"github.com/smart-core-os/sc-golang/pkg/trait/vendingpb"
	"github.com/smart-core-os/sc-golang/verifharness/lib"
)

// ---------------------------------------------------------------------------------------------------
// tpull: a slow subscriber of a TRAIT's collection stream (Model.PullXs / ModelServer.PullXs over Collection.Pull)
// ---------------------------------------------------------------------------------------------------
//
// Every trait package that keeps its items in a resource.Collection puts one or two conversions between
// Collection.Pull and its subscriber: the model's typed change (a goroutine handing over one event at a time)
// and the server's proto change.  The lossy guarantee is about what the SUBSCRIBER folds: every kind of change
// the merge buffer can make (REPLACE included, which no writer ever announces) has to arrive with the values it
// is about.  The subscriber here is the trait's own stream end (a server stream whose Send is the harness, or the
// model's channel where the package has no server for the collection); it receives the seeds, stops receiving
// while pads and then the case's writes are made (so the writes meet in the merge buffer), and then reads on
// until a fence item arrives.  Oracle: each change identifies its item and is well formed at the subscriber's
// view (kind vs values, old-value chain), and the view folded from the changes is what the trait's own List shows.

type tpEvent struct{ ID, Kind, Old, New string }

func (e tpEvent) String() string { return strings.Join([]string{e.ID, e.Kind, e.Old, e.New}, ",") }

// traitColl: one trait's collection behind its public API; values are small tokens kept in one field
type traitColl struct {
	name   string
	add    func(id, val string) error
	update func(id, val string) error
	remove func(id string) error
	list   func() map[string]string
	pull   func(ctx context.Context, out chan<- tpEvent) // runs the trait's stream, one tpEvent per change
}

type fakeStream[R any] struct {
	grpc.ServerStream
	ctx context.Context
	out chan *R
}

func (s *fakeStream[R]) Context() context.Context { return s.ctx }
func (s *fakeStream[R]) Send(r *R) error {
	select {
	case s.out <- r:
		return nil
	case <-s.ctx.Done():
		return s.ctx.Err()
	}
}

// serveInto runs a server-streaming handler against a fake stream and forwards every change of every response
func serveInto[R any](ctx context.Context, out chan<- tpEvent, handler func(stream *fakeStream[R]) error, changes func(*R) []tpEvent) {
	st := &fakeStream[R]{ctx: ctx, out: make(chan *R)}
	go func() { _ = handler(st) }()
	go func() {
		for {
			select {
			case <-ctx.Done():
				return
			case r := <-st.out:
				for _, ev := range changes(r) {
					select {
					case out <- ev:
					case <-ctx.Done():
						return
					}
				}
			}
		}
	}()
}

func tpKind(k types.ChangeType) string { return kindName(k) }

// idOf: the item a change is about, from the values it carries ("" = it carries none)
func idOf(old, new string) string {
	if new != "" {
		return new
	}
	return old
}

func childTok(c *traits.Child) (id, tok string) {
	if c == nil {
		return "", "-"
	}
	var names []string
	for _, t := range c.Traits {
		names = append(names, t.Name)
	}
	return c.Name, "t" + strings.Join(names, "+")
}

func newTraitColl(name string) traitColl {
	switch name {
	case "parentpb":
		m := parentpb.NewModel()
		srv := parentpb.NewModelServer(m)
		return traitColl{name: name,
			add: func(id, val string) error {
				m.AddChild(&traits.Child{Name: id, Traits: []*traits.Trait{{Name: val}}})
				return nil
			},
			update: func(id, val string) error { m.AddChildTrait(id, trait.Name(val)); return nil },
			remove: func(id string) error { _, err := m.RemoveChildByName(id); return err },
			list: func() map[string]string {
				out := map[string]string{}
				for _, c := range m.ListChildren() {
					id, tok := childTok(c)
					out[id] = tok
				}
				return out
			},
			pull: func(ctx context.Context, out chan<- tpEvent) {
				serveInto(ctx, out, func(st *fakeStream[traits.PullChildrenResponse]) error {
					return srv.PullChildren(&traits.PullChildrenRequest{}, st)
				}, func(r *traits.PullChildrenResponse) (evs []tpEvent) {
					for _, c := range r.Changes {
						oid, o := childTok(c.OldValue)
						nid, n := childTok(c.NewValue)
						evs = append(evs, tpEvent{idOf(oid, nid), tpKind(c.Type), o, n})
					}
					return evs
				})
			}}
	case "hailpb":
		m := hailpb.NewModel()
		srv := hailpb.NewModelServer(m)
		mk := func(id, val string) *traits.Hail {
			n, _ := strconv.Atoi(val)
			return &traits.Hail{Id: id, State: traits.Hail_State(n)}
		}
		tok := func(h *traits.Hail) (string, string) {
			if h == nil {
				return "", "-"
			}
			return h.Id, strconv.Itoa(int(h.State))
		}
		return traitColl{name: name,
			add:    func(id, val string) error { _, err := m.UpdateHail(mk(id, val), resource.WithCreateIfAbsent()); return err },
			update: func(id, val string) error { _, err := m.UpdateHail(mk(id, val)); return err },
			remove: func(id string) error { _, err := m.DeleteHail(id); return err },
			list: func() map[string]string {
				out := map[string]string{}
				for _, h := range m.ListHails() {
					id, t := tok(h)
					out[id] = t
				}
				return out
			},
			pull: func(ctx context.Context, out chan<- tpEvent) {
				serveInto(ctx, out, func(st *fakeStream[traits.PullHailsResponse]) error {
					return srv.PullHails(&traits.PullHailsRequest{}, st)
				}, func(r *traits.PullHailsResponse) (evs []tpEvent) {
					for _, c := range r.Changes {
						oid, o := tok(c.OldValue)
						nid, n := tok(c.NewValue)
						evs = append(evs, tpEvent{idOf(oid, nid), tpKind(c.Type), o, n})
					}
					return evs
				})
			}}
	case "publicationpb":
		m := publicationpb.NewModel()
		srv := publicationpb.NewModelServer(m)
		tok := func(p *traits.Publication) (string, string) {
			if p == nil {
				return "", "-"
			}
			return p.Id, string(p.Body)
		}
		return traitColl{name: name,
			add: func(id, val string) error {
				_, err := m.CreatePublication(&traits.Publication{Id: id, Body: []byte(val)})
				return err
			},
			update: func(id, val string) error {
				_, err := m.UpdatePublication(id, &traits.Publication{Body: []byte(val)})
				return err
			},
			remove: func(id string) error { _, err := m.DeletePublication(id); return err },
			list: func() map[string]string {
				out := map[string]string{}
				for _, p := range m.ListPublications() {
					id, t := tok(p)
					out[id] = t
				}
				return out
			},
			pull: func(ctx context.Context, out chan<- tpEvent) {
				serveInto(ctx, out, func(st *fakeStream[traits.PullPublicationsResponse]) error {
					return srv.PullPublications(&traits.PullPublicationsRequest{}, st)
				}, func(r *traits.PullPublicationsResponse) (evs []tpEvent) {
					for _, c := range r.Changes {
						oid, o := tok(c.OldValue)
						nid, n := tok(c.NewValue)
						evs = append(evs, tpEvent{idOf(oid, nid), tpKind(c.Type), o, n})
					}
					return evs
				})
			}}
	case "vendingpb/consumables":
		m := vendingpb.NewModel()
		srv := vendingpb.NewModelServer(m)
		tok := func(p *traits.Consumable) (string, string) {
			if p == nil {
				return "", "-"
			}
			return p.Name, p.Title
		}
		return traitColl{name: name,
			add:    func(id, val string) error { _, err := m.CreateConsumable(&traits.Consumable{Name: id, Title: val}); return err },
			update: func(id, val string) error { _, err := m.UpdateConsumable(&traits.Consumable{Name: id, Title: val}); return err },
			remove: func(id string) error { _, err := m.DeleteConsumable(id); return err },
			list: func() map[string]string {
				out := map[string]string{}
				for _, p := range m.ListConsumables() {
					id, t := tok(p)
					out[id] = t
				}
				return out
			},
			pull: func(ctx context.Context, out chan<- tpEvent) {
				serveInto(ctx, out, func(st *fakeStream[traits.PullConsumablesResponse]) error {
					return srv.PullConsumables(&traits.PullConsumablesRequest{}, st)
				}, func(r *traits.PullConsumablesResponse) (evs []tpEvent) {
					for _, c := range r.Changes {
						oid, o := tok(c.OldValue)
						nid, n := tok(c.NewValue)
						evs = append(evs, tpEvent{idOf(oid, nid), tpKind(c.Type), o, n})
					}
					return evs
				})
			}}
	case "vendingpb/inventory":
		m := vendingpb.NewModel()
		srv := vendingpb.NewModelServer(m)
		mk := func(id, val string) *traits.Consumable_Stock {
			n, _ := strconv.Atoi(val)
			return &traits.Consumable_Stock{Consumable: id, Remaining: &traits.Consumable_Quantity{Amount: float32(n)}}
		}
		tok := func(p *traits.Consumable_Stock) (string, string) {
			if p == nil {
				return "", "-"
			}
			return p.Consumable, strconv.Itoa(int(p.GetRemaining().GetAmount()))
		}
		return traitColl{name: name,
			add:    func(id, val string) error { _, err := m.CreateStock(mk(id, val)); return err },
			update: func(id, val string) error { _, err := m.UpdateStock(mk(id, val)); return err },
			remove: func(id string) error { _, err := m.DeleteStock(id); return err },
			list: func() map[string]string {
				out := map[string]string{}
				for _, p := range m.ListInventory() {
					id, t := tok(p)
					out[id] = t
				}
				return out
			},
			pull: func(ctx context.Context, out chan<- tpEvent) {
				serveInto(ctx, out, func(st *fakeStream[traits.PullInventoryResponse]) error {
					return srv.PullInventory(&traits.PullInventoryRequest{}, st)
				}, func(r *traits.PullInventoryResponse) (evs []tpEvent) {
					for _, c := range r.Changes {
						oid, o := tok(c.OldValue)
						nid, n := tok(c.NewValue)
						evs = append(evs, tpEvent{idOf(oid, nid), tpKind(c.Type), o, n})
					}
					return evs
				})
			}}
	case "electricpb/modes":
		m := electricpb.NewModel()
		srv := electricpb.NewModelServer(m)
		tok := func(p *traits.ElectricMode) (string, string) {
			if p == nil {
				return "", "-"
			}
			return p.Id, p.Title
		}
		return traitColl{name: name,
			add:    func(id, val string) error { return m.AddMode(&traits.ElectricMode{Id: id, Title: val}) },
			update: func(id, val string) error { _, err := m.UpdateMode(&traits.ElectricMode{Id: id, Title: val}); return err },
			remove: func(id string) error { return m.DeleteMode(id) },
			list: func() map[string]string {
				out := map[string]string{}
				for _, p := range m.Modes() {
					id, t := tok(p)
					out[id] = t
				}
				return out
			},
			pull: func(ctx context.Context, out chan<- tpEvent) {
				serveInto(ctx, out, func(st *fakeStream[traits.PullModesResponse]) error {
					return srv.PullModes(&traits.PullModesRequest{}, st)
				}, func(r *traits.PullModesResponse) (evs []tpEvent) {
					for _, c := range r.Changes {
						oid, o := tok(c.OldValue)
						nid, n := tok(c.NewValue)
						evs = append(evs, tpEvent{idOf(oid, nid), tpKind(c.Type), o, n})
					}
					return evs
				})
			}}
	case "metadatapb/collection":
		m := metadatapb.NewCollection()
		mk := func(id, val string) *traits.Metadata {
			return &traits.Metadata{Name: id, Appearance: &traits.Metadata_Appearance{Title: val}}
		}
		tok := func(p *traits.Metadata) string {
			if p == nil {
				return "-"
			}
			return p.GetAppearance().GetTitle()
		}
		return traitColl{name: name,
			add:    func(id, val string) error { _, err := m.UpdateMetadata(id, mk(id, val), resource.WithCreateIfAbsent()); return err },
			update: func(id, val string) error { _, err := m.UpdateMetadata(id, mk(id, val)); return err },
			remove: func(id string) error { _, err := m.DeleteMetadata(id); return err },
			list: func() map[string]string {
				out := map[string]string{}
				for _, p := range m.ListMetadata() {
					out[p.Name] = tok(p)
				}
				return out
			},
			pull: func(ctx context.Context, out chan<- tpEvent) {
				ch := m.PullAllMetadata(ctx)
				go func() {
					for c := range ch {
						select {
						case out <- tpEvent{c.Name, tpKind(c.ChangeType), tok(c.OldValue), tok(c.NewValue)}:
						case <-ctx.Done():
							return
						}
					}
				}()
			}}
	}
	panic("unknown trait collection " + name)
}

var tpullTraits = []string{"parentpb", "hailpb", "publicationpb", "vendingpb/consumables", "vendingpb/inventory", "electricpb/modes", "metadatapb/collection"}

type tpullCase struct {
	Kind   string   `json:"kind"` // "tpull"
	Trait  string   `json:"trait"`
	Start  []string `json:"start"`   // "<id>:<val>" items stored before the subscription
	KeepUp bool     `json:"keep_up"` // the subscriber receives all along instead of falling behind
	Writes []string `json:"writes"`  // "s:<id>:<val>" (add if absent, else update) | "x:<id>" (remove if present)
}

func (c tpullCase) key() string {
	return fmt.Sprintf("%s keepup=%s [%s] %s", c.Trait, flag(c.KeepUp), strings.Join(c.Start, " "), strings.Join(c.Writes, " "))
}

type tpullObs struct {
	Got      []string
	Made     int // writes that were made (pads, the case's, the fence)
	Listed   map[string]string
	WriteErr string
	Stuck    string
}

const tpullPads = 6 // more than the hand-over stages between the merge buffer and the harness can hold

func (c tpullCase) runCode() (obs tpullObs) {
	tc := newTraitColl(c.Trait)
	present := map[string]bool{}
	for _, s := range c.Start {
		p := strings.SplitN(s, ":", 2)
		if err := tc.add(p[0], p[1]); err != nil {
			obs.WriteErr = "start " + s + ": " + err.Error()
			return obs
		}
		present[p[0]] = true
	}
	ctx, cancel := context.WithCancel(context.Background())
	defer cancel()
	ch := make(chan tpEvent)
	tc.pull(ctx, ch)
	recv := func(wait time.Duration) (tpEvent, bool) {
		select {
		case ev := <-ch:
			obs.Got = append(obs.Got, ev.String())
			return ev, true
		case <-time.After(wait):
			return tpEvent{}, false
		}
	}
	for i := range c.Start {
		if _, ok := recv(pipeWait); !ok {
			obs.Stuck = fmt.Sprintf("seed %d of %d", i+1, len(c.Start))
			return obs
		}
	}
	write := func(w string) bool {
		p := strings.Split(w, ":")
		var err error
		switch {
		case p[0] == "x" && !present[p[1]]:
			return true
		case p[0] == "x":
			err = tc.remove(p[1])
			present[p[1]] = false
		case present[p[1]]:
			err = tc.update(p[1], p[2])
		default:
			err = tc.add(p[1], p[2])
			present[p[1]] = true
		}
		obs.Made++
		if err != nil {
			obs.WriteErr = w + ": " + err.Error()
			return false
		}
		return true
	}
	writes := c.allWrites()
	done := make(chan bool, 1)
	go func() {
		for _, w := range writes {
			if !write(w) {
				done <- false
				return
			}
			if c.KeepUp {
				time.Sleep(200 * time.Microsecond)
			}
		}
		done <- true
	}()
	if c.KeepUp {
		// the subscriber receives while the writes are made
	} else {
		select {
		case ok := <-done:
			done <- ok
		case <-time.After(pipeWait):
			obs.Stuck = "the writes did not return although the subscriber is lossy"
			return obs
		}
	}
	for i := 0; i < len(writes)+len(c.Start)+4; i++ {
		ev, ok := recv(pipeWait)
		if !ok {
			obs.Stuck = "no fence after " + strings.Join(obs.Got, ";")
			break
		}
		if ev.ID == "~" {
			break
		}
	}
	select {
	case <-done:
	case <-time.After(pipeWait):
		obs.Stuck = "the writes did not return"
	}
	obs.Listed = tc.list()
	return obs
}

func (c tpullCase) monitor(m *lib.Monitor, obs tpullObs) {
	sig := "C09/trait-pull/" + c.Trait + "/"
	if obs.WriteErr != "" {
		m.Violate(sig+"write-error", "a write through the trait's API failed", c, "nil", obs.WriteErr)
		return
	}
	if obs.Stuck != "" {
		m.Violate(sig+"stuck", "a write or a delivery did not complete", c, "completes", obs.Stuck)
		return
	}
	view := map[string]string{}
	named, chained := true, true
	kinds := map[string]bool{}
	for _, ev := range obs.Got {
		f := fields(ev)
		kinds[f[1]] = true
		if f[0] == "" {
			if named {
				named = false
				m.Violate(sig+"change-without-values", "a change reached the trait's subscriber without the values it is about (every kind the merge buffer makes - ADD, UPDATE, REMOVE and REPLACE - carries the old and/or the new value; this message has no other way of naming its item)", c, "old and/or new value", ev+" (stream "+strings.Join(obs.Got, ";")+")")
			}
			continue
		}
		cur, present := view[f[0]]
		if !present {
			cur = "-"
		}
		if !wfAt(cur, f[1], f[2], f[3]) && chained {
			chained = false
			m.Violate(sig+"old-value-chain", "a change delivered to the trait's subscriber is not well formed at the subscriber's view (kind vs values, old values chain per id)", c, "well-formed at "+showView(view), ev+" (stream "+strings.Join(obs.Got, ";")+")")
		}
		if f[1] == "REMOVE" {
			delete(view, f[0])
		} else {
			view[f[0]] = f[3]
		}
	}
	if a, w := showView(view), showView(obs.Listed); a != w {
		m.Violate(sig+"fold-differs", "a subscriber of the trait's stream that was behind while writes were made and then read on to a fence: its received changes fold to a different view than the trait's List shows", c, w, a+" (stream "+strings.Join(obs.Got, ";")+")")
	}
	m.Eval(c.key(), len(obs.Got) < len(c.Start)+obs.Made, nil)
	var ks []string
	for k := range kinds {
		ks = append(ks, k)
	}
	sort.Strings(ks)
	for _, k := range ks {
		m.Count(c.Trait + " kind=" + k)
	}
}

// allWrites: the pads (for a subscriber that falls behind), the case's writes, the fence
func (c tpullCase) allWrites() []string {
	var writes []string
	if !c.KeepUp {
		for i := 0; i < tpullPads; i++ {
			writes = append(writes, fmt.Sprintf("s:p%d:1", i))
		}
	}
	writes = append(writes, c.Writes...)
	return append(writes, "s:~:1")
}

// modelLine: the events the writes put on the collection's bus (values = the tokens written), all offered to the
// merge machine before anything is taken from it, then taken one by one
func (c tpullCase) modelLine() string {
	cur := map[string]string{}
	for _, s := range c.Start {
		p := strings.SplitN(s, ":", 2)
		cur[p[0]] = p[1]
	}
	var ms []string
	for _, w := range c.allWrites() {
		p := strings.Split(w, ":")
		old, present := cur[p[1]]
		switch {
		case p[0] == "x" && !present:
			continue
		case p[0] == "x":
			ms = append(ms, fmt.Sprintf("r:%s,REMOVE,0,%s,-,0,0", p[1], old))
			delete(cur, p[1])
		case present:
			ms = append(ms, fmt.Sprintf("r:%s,UPDATE,0,%s,%s,0,0", p[1], old, p[2]))
			cur[p[1]] = p[2]
		default:
			ms = append(ms, fmt.Sprintf("r:%s,ADD,0,-,%s,0,0", p[1], p[2]))
			cur[p[1]] = p[2]
		}
	}
	n := len(ms)
	for i := 0; i < n; i++ {
		ms = append(ms, "e")
	}
	return "tstream " + strings.Join(ms, " ")
}

// idKinds: "<id>,<KIND>,<old>,<new>" items (model: "<id>,<KIND>,<time>,<old>,<new>,…") -> "<id>:<KIND>:<old?><new?> …"
func idKinds(items []string, oldAt int) string {
	var out []string
	has := func(v string) string {
		if v == "-" {
			return "-"
		}
		return "v"
	}
	for _, it := range items {
		if f := fields(it); len(f) > oldAt+1 {
			out = append(out, f[0]+":"+f[1]+":"+has(f[oldAt])+has(f[oldAt+1]))
		}
	}
	return strings.Join(out, " ")
}

func genTpullCases(f lib.Flags) []tpullCase {
	ops := []string{"s:a:2", "s:a:3", "x:a", "s:b:2", "x:b"}
	var seqs [][]string
	var rec func(cur []string, n int)
	rec = func(cur []string, n int) {
		if len(cur) > 0 {
			seqs = append(seqs, append([]string{}, cur...))
		}
		if n == 0 {
			return
		}
		for _, o := range ops {
			rec(append(cur, o), n-1)
		}
	}
	maxLen := 3
	if f.Thorough() {
		maxLen = 4
	}
	rec(nil, maxLen)
	var cases []tpullCase
	for _, tr := range tpullTraits {
		for _, s := range seqs {
			cases = append(cases, tpullCase{Kind: "tpull", Trait: tr, Start: []string{"a:1", "c:1"}, Writes: s})
			if len(s) <= 2 {
				cases = append(cases, tpullCase{Kind: "tpull", Trait: tr, Start: []string{"b:1"}, Writes: s})
				cases = append(cases, tpullCase{Kind: "tpull", Trait: tr, Start: []string{"a:1"}, KeepUp: true, Writes: s})
			}
		}
	}
	return cases
}

func runTraitPull(f lib.Flags, res *lib.Result) {
	mon := res.Monitor("trait-collection-stream", "the REAL collection streams of the trait packages, at the subscriber's end: parentpb ModelServer.PullChildren, hailpb PullHails, publicationpb PullPublications, vendingpb PullConsumables and PullInventory, electricpb PullModes (a server stream whose Send is the harness) and metadatapb Collection.PullAllMetadata; a lossy subscriber receives the seeds, stops receiving while six pads and then EVERY sequence of up to 3 writes over set a / set a / remove a / set b / remove b are made through the trait's own API (from two start states; the writes meet in the merge buffer: every merged kind, REPLACE included), then reads on to a fence; plus subscribers that keep up; oracle: every change carries the values it is about, is well formed at the subscriber's view (kind vs values, old-value chain) and the folded view is what the trait's List shows; distinct = trait x start x writes; non-trivial = fewer changes than writes arrived")
	tie := res.Tie("trait-stream-merged-kinds", "K1",
		"the merge machine as coded (MapQueue.lean: every event the writes put on the bus offered before anything is taken, then taken one by one) piped through the conversion stage (arun (castChange f), TraitAdapter.lean; driver op tstream) vs the REAL trait streams at the subscriber's end (the seven streams of monitor trait-collection-stream, subscriber behind while the writes are made): compared: the sequence of (item, change type, old value attached?, new value attached?) the subscriber receives after its seeds - which changes were merged, into which kind (REPLACE, nothing, …), in which order, carrying which of their values; the values themselves are the monitor's subject (each trait stores its own message type); non-trivial = fewer changes than writes; distinct = trait x start x writes")
	tie.Exhaustive = true
	cases := genTpullCases(f)
	obss := make([]tpullObs, len(cases))
	parallelDo(len(cases), func(i int) { obss[i] = cases[i].runCode() })
	var lines []string
	var tied []int
	for i, c := range cases {
		if obss[i].Stuck != "" { // a stall of a loaded machine does not repeat
			obss[i] = c.runCode()
		}
		c.monitor(mon, obss[i])
		if !c.KeepUp {
			lines = append(lines, c.modelLine())
			tied = append(tied, i)
		}
	}
	drv, err := lib.StartDriver(f.Driver)
	if err != nil {
		tie.Fail(err)
		return
	}
	defer drv.Close()
	ans, err := drv.Batch(lines)
	if err != nil {
		tie.Fail(err)
		return
	}
	for k, i := range tied {
		c, obs := cases[i], obss[i]
		var outs []string
		for _, o := range strings.Split(ans[k], ";") {
			if o != "none" && o != "-" {
				outs = append(outs, o)
			}
		}
		code := "!" + obs.Stuck + obs.WriteErr
		if obs.Stuck == "" && obs.WriteErr == "" && len(obs.Got) >= len(c.Start) {
			code = idKinds(obs.Got[len(c.Start):], 2)
		}
		tie.Record(c.key(), len(outs) < obs.Made, c, idKinds(outs, 3), code)
	}
	res.Extra["trait_pull_cases"] = len(cases)
}
