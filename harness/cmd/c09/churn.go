package main

import (
	"context"
	"fmt"
	"strings"
	"sync"
	"time"

	"google.golang.org/protobuf/types/known/wrapperspb"

	"github.com/smart-core-os/sc-golang/pkg/resource"
	"github.com/smart-core-os/sc-golang/verifharness/lib"
)

// Scenarios with subscriber churn during an in-flight write, and a backpressured Collection subscriber
// that pauses for longer than any send timeout.  They are latencyCase kinds (replayable):
//
//	value-churn-lossy / value-churn-bp / collection-churn
//	    S1 (backpressure) is not receiving, so a write parks in Bus.Send; while it is parked another
//	    subscriber S2 is cancelled and a new one S3 is opened; then S1 receives, the write returns and
//	    two more writes follow: S3 must get them (latest value if lossy; all, in order, with backpressure)
//	collection-bp-pause-update / collection-bp-pause-delete
//	    one backpressured Collection.Pull subscriber that does not receive for 6 s with one write in
//	    flight: the write must not return before the subscriber receives, and its event must be delivered

type collector struct {
	mu   sync.Mutex
	vals []string
}

func (c *collector) add(s string) { c.mu.Lock(); c.vals = append(c.vals, s); c.mu.Unlock() }
func (c *collector) get() []string {
	c.mu.Lock()
	defer c.mu.Unlock()
	return append([]string{}, c.vals...)
}

func waitFor(d time.Duration, cond func() bool) bool {
	deadline := time.Now().Add(d)
	for time.Now().Before(deadline) {
		if cond() {
			return true
		}
		time.Sleep(2 * time.Millisecond)
	}
	return cond()
}

func timedCall(d time.Duration, f func() error) (returned bool, err error) {
	done := make(chan error, 1)
	go func() { done <- f() }()
	select {
	case err := <-done:
		return true, err
	case <-time.After(d):
		return false, nil
	}
}

func (c latencyCase) valueChurn(m *lib.Monitor, s3bp bool) {
	v := resource.NewValue(resource.WithInitialValue(wrapperspb.String("v0")))
	root, stop := context.WithCancel(context.Background())
	defer stop()
	s1 := v.Pull(root, resource.WithBackpressure(true)) // not receiving for now
	ctx2, cancel2 := context.WithCancel(root)
	defer cancel2()
	s2 := v.Pull(ctx2, resource.WithBackpressure(true))
	go func() {
		for range s2 {
		}
	}()
	set1 := make(chan error, 1)
	go func() { _, err := v.Set(wrapperspb.String("v1")); set1 <- err }()
	select {
	case <-set1:
		m.Violate("C09/Value/backpressure/writer-did-not-wait", "with backpressure Set returned although a subscriber had not received", c, "Set parked", "returned")
		return
	case <-time.After(50 * time.Millisecond):
	}
	// churn while the write is parked in Send
	cancel2()
	time.Sleep(30 * time.Millisecond)
	var got collector
	s3 := v.Pull(root, resource.WithBackpressure(s3bp))
	go func() {
		for ev := range s3 {
			got.add(tokOf(ev.Value))
		}
	}()
	time.Sleep(10 * time.Millisecond)
	go func() {
		for range s1 {
		}
	}()
	select {
	case err := <-set1:
		if err != nil {
			m.Violate("C09/Value/churn/set-error", "the parked Set failed although the subscriber then received", c, "nil", err.Error())
			return
		}
	case <-time.After(churnWait):
		m.Violate("C09/Value/churn/writer-stuck", "the parked Set did not return after the subscriber received", c, "return", "blocked")
		return
	}
	for _, val := range []string{"v2", "v3"} {
		val := val
		if ok, err := timedCall(churnWait, func() error { _, err := v.Set(wrapperspb.String(val)); return err }); !ok || err != nil {
			m.Violate("C09/Value/churn/writer-stuck", "a later Set did not complete", c, "nil", fmt.Sprint(ok, err))
			return
		}
	}
	okLast := waitFor(churnWait, func() bool {
		g := got.get()
		return len(g) > 0 && g[len(g)-1] == "v3"
	})
	g := got.get()
	if !okLast {
		m.Violate("C09/Value/churn/new-subscriber-starved", "a subscriber opened while a write was parked in Send (and another subscription was cancelled) does not receive later writes", c, "… v3", strings.Join(g, " "))
		return
	}
	if s3bp && strings.Join(g, " ") != "v1 v2 v3" {
		m.Violate("C09/Value/churn/backpressure-dropped", "with backpressure the new subscriber must receive its seed and every later value, in order", c, "v1 v2 v3", strings.Join(g, " "))
	}
	m.Eval(c.What, true, nil)
}

func (c latencyCase) collectionChurn(m *lib.Monitor) {
	col := resource.NewCollection()
	_, _ = col.Add("a", wrapperspb.String("a0"))
	root, stop := context.WithCancel(context.Background())
	defer stop()
	s1 := col.Pull(root, resource.WithBackpressure(true))
	ctx2, cancel2 := context.WithCancel(root)
	defer cancel2()
	s2 := col.Pull(ctx2, resource.WithBackpressure(true))
	go func() {
		for range s2 {
		}
	}()
	up1 := make(chan error, 1)
	go func() { _, err := col.Update("a", wrapperspb.String("a1")); up1 <- err }()
	select {
	case <-up1:
		m.Violate("C09/Collection/backpressure/writer-did-not-wait", "with backpressure Update returned although a subscriber had not received", c, "Update parked", "returned")
		return
	case <-time.After(50 * time.Millisecond):
	}
	cancel2()
	time.Sleep(30 * time.Millisecond)
	var got collector
	s3 := col.Pull(root, resource.WithBackpressure(true))
	go func() {
		for ev := range s3 {
			got.add(showChange(ev, false))
		}
	}()
	time.Sleep(10 * time.Millisecond)
	go func() {
		for range s1 {
		}
	}()
	select {
	case err := <-up1:
		if err != nil {
			m.Violate("C09/Collection/churn/write-error", "the parked Update failed", c, "nil", err.Error())
			return
		}
	case <-time.After(churnWait):
		m.Violate("C09/Collection/churn/writer-stuck", "the parked Update did not return after the subscriber received", c, "return", "blocked")
		return
	}
	for _, val := range []string{"a2", "a3"} {
		val := val
		if ok, err := timedCall(churnWait, func() error { _, err := col.Update("a", wrapperspb.String(val)); return err }); !ok || err != nil {
			m.Violate("C09/Collection/churn/writer-stuck", "a later Update did not complete", c, "nil", fmt.Sprint(ok, err))
			return
		}
	}
	want := "a,ADD,0,-,a1,1,1;a,UPDATE,0,a1,a2,0,0;a,UPDATE,0,a2,a3,0,0"
	waitFor(churnWait, func() bool { return showChanges(got.get()) == want })
	if g := showChanges(got.get()); g != want {
		m.Violate("C09/Collection/churn/new-subscriber-starved", "a backpressured subscriber opened while a write was parked in Send (and another subscription was cancelled) does not receive later writes", c, want, g)
		return
	}
	m.Eval(c.What, true, nil)
}

// churnWait bounds every wait for something that happens within milliseconds on a correct tree, so a
// broken tree cannot stretch the run (each scenario is re-run twice to confirm a failure)
const churnWait = 1500 * time.Millisecond

const subscriberPause = 6 * time.Second

func (c latencyCase) collectionPause(m *lib.Monitor, del bool) {
	col := resource.NewCollection()
	_, _ = col.Add("a", wrapperspb.String("a0"))
	ctx, stop := context.WithCancel(context.Background())
	defer stop()
	ch := col.Pull(ctx, resource.WithBackpressure(true)) // the subscriber takes nothing for subscriberPause
	name, want := "Update", "a,UPDATE,0,a0,a1,0,0"
	if del {
		name, want = "Delete", "a,REMOVE,0,a0,-,0,0"
	}
	t0 := time.Now()
	done := make(chan error, 1)
	go func() {
		var err error
		if del {
			_, err = col.Delete("a")
		} else {
			_, err = col.Update("a", wrapperspb.String("a1"))
		}
		done <- err
	}()
	returnedEarly := false
	select {
	case <-done:
		returnedEarly = true
		m.Violate("C09/Collection/backpressure/writer-did-not-wait", "with backpressure "+name+" returned before the subscriber received its event", c, name+" waits for delivery (subscriber resumes after "+subscriberPause.String()+")", "returned after "+time.Since(t0).String())
	case <-time.After(subscriberPause):
	}
	// the subscriber resumes: seed, then the event of the write
	var got []string
	timeout := time.After(churnWait)
loop:
	for len(got) < 2 {
		select {
		case ev, ok := <-ch:
			if !ok {
				break loop
			}
			got = append(got, showChange(ev, false))
		case <-timeout:
			break loop
		}
	}
	if len(got) < 2 || got[1] != want {
		m.Violate("C09/Collection/backpressure/dropped", "with backpressure the event of a write was not delivered to a subscriber that resumed receiving", c, "seed;"+want, showChanges(got))
	}
	if !returnedEarly {
		select {
		case err := <-done:
			if err != nil {
				m.Violate("C09/Collection/backpressure/write-error", name+" failed", c, "nil", err.Error())
			}
		case <-time.After(churnWait):
			m.Violate("C09/Collection/backpressure/writer-stuck", name+" did not return after the subscriber received", c, "return", "blocked")
		}
	}
	m.Eval(c.What, true, nil)
}
