package main

import (
	"context"
	"errors"
	"fmt"
	"strings"
	"sync"
	"time"

	"google.golang.org/grpc/status"
	"google.golang.org/protobuf/proto"
	"google.golang.org/protobuf/types/known/wrapperspb"

	"github.com/smart-core-os/sc-golang/internal/verifhook"
	"github.com/smart-core-os/sc-golang/pkg/resource"
	"github.com/smart-core-os/sc-golang/verifharness/lib"
)

// ---------------------------------------------------------------------------------------------------
// odel: a Delete that is OVERTAKEN between its optimistic read and its write lock, any number of times
// ---------------------------------------------------------------------------------------------------
//
// Collection.Delete reads the item under the read lock, releases it, runs the caller's WithExpectedCheck
// callback and the WithExpectedValue comparison on the body it holds, takes the write lock, reads again and,
// when the stored item is no longer the one it holds, goes round again (at most five attempts).  The rival
// writers are placed in the call's own WithExpectedCheck callback, which the code runs in exactly that window,
// once per attempt: no hooks, no timing.  World[k] is what the rival of attempt k leaves stored: a body
// ("_" = the empty message; writing the body already stored still stores a fresh item), "-" = deleted, or
// several steps joined by "+" ("-+2" = deleted and added again within one window).  Five subscribers: with
// backpressure unfiltered / include odd, lossy keeping up unfiltered / include even, and a lossy include-odd
// one that is BEHIND from before the delete until the end.

type odelCase struct {
	Kind   string   `json:"kind"` // "odel"
	AM     bool     `json:"allow_missing"`
	Expect string   `json:"expect"`  // "n" | the WithExpectedValue body
	AtRead string   `json:"at_read"` // "-" | body
	World  []string `json:"world"`
	Via    string   `json:"via"` // where the rivals run: "check" = the call's WithExpectedCheck callback, "hook" = the yield point at the top of every attempt (a Delete without that option)
}

// odelWindows: goroutine id of a Delete under test -> what runs at its coll.delete.afterRead yield point
var odelWindows sync.Map

func odelHook(point string) {
	if point != "coll.delete.afterRead" {
		return
	}
	if w, ok := odelWindows.Load(verifhook.GoID()); ok {
		w.(func())()
	}
}

func (c odelCase) key() string {
	return fmt.Sprintf("%s am=%s expect=%s %s>%s", c.Via, flag(c.AM), c.Expect, c.AtRead, strings.Join(c.World, ">"))
}

func (c odelCase) rivalActs() bool { return len(c.World) > 0 && c.AtRead != "-" }

// modelLine: items with their identity (a counter of the writes that stored a body)
func (c odelCase) modelLine() string {
	ptr := 0
	slot := func(body string) string {
		if body == "-" {
			return "-"
		}
		return fmt.Sprintf("%s#%d", body, ptr)
	}
	parts := []string{"dcommit", flag(c.AM), c.Expect, slot(c.AtRead)}
	for _, w := range c.World {
		steps := strings.Split(w, "+")
		for _, s := range steps {
			if s != "-" {
				ptr++
			}
		}
		parts = append(parts, slot(steps[len(steps)-1]))
	}
	return strings.Join(parts, " ")
}

type odelObs struct {
	Outcome  string // NotFound | nil | FailedPrecondition,<body> | Unavailable | <code> | ok
	Event    string // the delete's event as the unfiltered backpressured subscriber got it: KIND,old,new
	Returned string
	Calls    int    // how often the code ran the WithExpectedCheck callback
	Stored   string // what the harness knows to be stored for the item when the call returned (the rivals' last word)
	Changed  []bool // per window the callback ran in: did the rival store / remove something
	Streams  map[string][]string
	Held     string
	Stuck    string
}

func (o odelObs) answer() string {
	if o.Stuck != "" {
		return "!" + o.Stuck
	}
	if o.Outcome != "ok" {
		return o.Outcome
	}
	f := fields(o.Event)
	if len(f) != 3 {
		return "?" + o.Event
	}
	return fmt.Sprintf("%s,%s,ret=%s,attempt=%d", f[0], f[1], o.Returned, o.Calls-1)
}

var odelSubs = []struct {
	name, include string
	bp, slow      bool
}{
	{"bp", "all", true, false},
	{"bp~odd", "odd", true, false},
	{"fast", "all", false, false},
	{"fast~even", "even", false, false},
	{"slow~odd", "odd", false, true},
}

func inclVal(tok string) string {
	if tok == "_" {
		return ""
	}
	return tok
}

func (c odelCase) runCode() (obs odelObs) {
	const id = "a"
	var copts []resource.Option
	if c.AtRead != "-" {
		copts = append(copts, resource.WithInitialRecord(id, storedMsg(c.AtRead)))
	}
	col := resource.NewCollection(copts...)
	ctx, cancel := context.WithCancel(context.Background())
	defer cancel()
	obs.Streams = map[string][]string{}
	var mu sync.Mutex
	var wg sync.WaitGroup
	show := func(ev *resource.CollectionChange) string {
		return strings.Join([]string{ev.Id, kindName(ev.ChangeType), storedTok2(ev.OldValue), storedTok2(ev.NewValue)}, ",")
	}
	var slowCh <-chan *resource.CollectionChange
	for _, s := range odelSubs {
		ropts := []resource.ReadOption{resource.WithBackpressure(s.bp)}
		if s.include != "all" {
			inc := s.include
			ropts = append(ropts, resource.WithInclude(func(id string, item proto.Message) bool { return includeTok(inc, id, tokOf(item)) }))
		}
		ch := col.Pull(ctx, ropts...)
		if s.slow {
			slowCh = ch
			continue
		}
		name := s.name
		wg.Add(1)
		go func() {
			defer wg.Done()
			for ev := range ch {
				mu.Lock()
				obs.Streams[name] = append(obs.Streams[name], show(ev))
				mu.Unlock()
			}
		}()
	}
	count := func(name string) int { mu.Lock(); defer mu.Unlock(); return len(obs.Streams[name]) }
	slowRecv := func(wait time.Duration) bool {
		select {
		case ev, ok := <-slowCh:
			if !ok {
				return false
			}
			mu.Lock()
			obs.Streams["slow~odd"] = append(obs.Streams["slow~odd"], show(ev))
			mu.Unlock()
			return true
		case <-time.After(wait):
			return false
		}
	}
	seeds := 0
	if c.AtRead != "-" {
		seeds = 1
		if includeTok("odd", id, inclVal(c.AtRead)) && !slowRecv(pipeWait) {
			obs.Stuck = "the slow reader's seed"
			return obs
		}
	}
	// the slow reader falls behind: an unrelated change (admitted by its filter) goes into its forwarder's hand
	if ok, err := timedCall(pipeWait, func() error { _, err := col.Add("pad", wrapperspb.String("1")); return err }); !ok || err != nil {
		obs.Stuck = "the unrelated write"
		return obs
	}
	stored := c.AtRead
	rivalEvents := 0
	rival := func(w string) (changed bool) {
		for _, s := range strings.Split(w, "+") {
			var err error
			switch {
			case s == "-" && stored == "-":
				continue
			case s == "-":
				_, err = col.Delete(id)
			case stored == "-":
				_, err = col.Add(id, storedMsg(s))
			case s == "_": // the empty message cannot be written over a body by an Update (it merges): remove, add
				if _, err = col.Delete(id); err == nil {
					rivalEvents++
					_, err = col.Add(id, storedMsg(s))
				}
			default:
				_, err = col.Update(id, storedMsg(s))
			}
			if err == nil {
				rivalEvents++
				stored = s
				changed = true
			}
		}
		return changed
	}
	tookOne, inWindow := false, false
	window := func() {
		if inWindow { // the rivals' own Deletes pass the yield point on this goroutine too
			return
		}
		inWindow = true
		defer func() { inWindow = false }()
		k := obs.Calls
		obs.Calls++
		if k < len(c.World) {
			obs.Changed = append(obs.Changed, rival(c.World[k]))
			if rivalEvents > 0 && !tookOne {
				// the slow reader takes ONE event now (the unrelated one): its forwarder goes on to the rivals'
				// changes, and from here on the reader is behind again
				tookOne = true
				slowRecv(pipeWait)
			}
		} else {
			obs.Changed = append(obs.Changed, false)
		}
	}
	var wopts []resource.WriteOption
	if c.Via != "hook" {
		wopts = append(wopts, resource.WithExpectedCheck(func(body proto.Message) error { window(); return nil }))
	}
	if c.AM {
		wopts = append(wopts, resource.WithAllowMissing(true))
	}
	if c.Expect != "n" {
		wopts = append(wopts, resource.WithExpectedValue(storedMsg(c.Expect)))
	}
	var ret proto.Message
	ok, err := timedCall(pipeWait, func() error {
		if c.Via == "hook" {
			gid := verifhook.GoID()
			odelWindows.Store(gid, window)
			defer odelWindows.Delete(gid)
		}
		var err error
		ret, err = col.Delete(id, wopts...)
		return err
	})
	if !ok {
		obs.Stuck = "the overtaken delete did not return"
		return obs
	}
	obs.Stored = stored
	obs.Returned = storedTok2(ret)
	switch {
	case err == nil && ret == nil:
		obs.Outcome = "nil"
	case err == nil:
		obs.Outcome = "ok"
	case errors.Is(err, resource.ExpectedValuePreconditionFailed) || status.Code(err).String() == "FailedPrecondition":
		obs.Outcome = "FailedPrecondition," + obs.Returned
	default:
		obs.Outcome = status.Code(err).String()
	}
	want := seeds + 1 + rivalEvents // seed, pad, the rivals' events
	if obs.Outcome == "ok" {
		want++
	}
	if !waitFor(pipeWait, func() bool { return count("bp") >= want }) {
		obs.Stuck = fmt.Sprintf("the backpressured subscriber got %d of %d events", count("bp"), want)
		return obs
	}
	if obs.Outcome == "ok" {
		mu.Lock()
		f := fields(obs.Streams["bp"][want-1])
		mu.Unlock()
		obs.Event = strings.Join(f[1:], ",")
	}
	// two fences, the first admitted by the odd filters, the second by the even one and the unfiltered ones
	for _, fence := range [][2]string{{"~o", "1"}, {"~p", "2"}} {
		fence := fence
		if ok, err := timedCall(pipeWait, func() error { _, err := col.Add(fence[0], wrapperspb.String(fence[1])); return err }); !ok || err != nil {
			obs.Stuck = "a fence write"
			return obs
		}
	}
	fenced := func(name, include string) bool {
		fence := "~p,"
		if include == "odd" {
			fence = "~o,"
		}
		mu.Lock()
		defer mu.Unlock()
		s := obs.Streams[name]
		return len(s) > 0 && strings.HasPrefix(s[len(s)-1], fence)
	}
	for i := 0; i < 40 && !fenced("slow~odd", "odd"); i++ {
		if !slowRecv(pipeWait) {
			break
		}
	}
	allFenced := func() bool {
		for _, s := range odelSubs {
			if !fenced(s.name, s.include) {
				return false
			}
		}
		return true
	}
	if !waitFor(pipeWait, allFenced) {
		obs.Stuck = "a subscriber did not get its fence"
	}
	obs.Held = "-"
	if msg, ok := col.Get(id); ok {
		obs.Held = storedTok(msg)
	}
	cancel()
	wg.Wait()
	return obs
}

func (c odelCase) monitor(m *lib.Monitor, obs odelObs) {
	const sig = "C09/Collection/overtaken-delete/"
	if obs.Stuck != "" {
		m.Violate(sig+"stuck", "a write or a delivery did not complete", c, "completes", obs.Stuck)
		return
	}
	// independent oracle: a Delete that went through removed what was stored when it committed, which is what
	// the rivals of the windows it went through left there
	switch {
	case obs.Outcome == "ok":
		if want := "REMOVE," + obs.Stored + ",-"; obs.Event != want {
			m.Violate(sig+"event-not-of-the-commit", "a Delete that was overtaken between its read and its write lock and still went through must announce the removal of the body that was stored when it committed (old values chain per id; include decides from the old value whether the subscriber had the item)", c, want, obs.Event)
		}
		if obs.Returned != obs.Stored {
			m.Violate(sig+"returned-not-the-removed", "a Delete returns the body it removed", c, obs.Stored, obs.Returned)
		}
		if c.Expect != "n" && c.Expect != obs.Stored {
			m.Violate(sig+"precondition-not-of-the-removed", "a Delete with WithExpectedValue went through although the body it removed is not the expected one", c, "FailedPrecondition", "removed "+obs.Stored)
		}
	case obs.Outcome == "Unavailable":
		n := 0
		for _, ch := range obs.Changed {
			if ch {
				n++
			}
		}
		if n < 5 {
			m.Violate(sig+"spurious-unavailable", "a Delete gave up with Unavailable although it was overtaken fewer than five times", c, "five windows with a rival write", fmt.Sprintf("%d of %d", n, len(obs.Changed)))
		}
	}
	if !c.rivalActs() {
		want := "ok"
		switch {
		case c.AtRead == "-" && c.AM:
			want = "nil"
		case c.AtRead == "-":
			want = "NotFound"
		case c.Expect != "n" && c.Expect != c.AtRead:
			want = "FailedPrecondition," + c.AtRead
		}
		if obs.Outcome != want {
			m.Violate(sig+"undisturbed-outcome", "nobody interfered: the Delete is decided by the item as it is", c, want, obs.Outcome)
		}
	}
	for _, s := range odelSubs {
		view := map[string]string{}
		got := obs.Streams[s.name]
		chained, admitted := true, true
		for _, ev := range got {
			f := fields(ev)
			cur, present := view[f[0]]
			if !present {
				cur = "-"
			}
			if !wfAt(cur, f[1], f[2], f[3]) && chained {
				chained = false
				m.Violate(sig+s.name+"/old-value-chain", "a Delete was overtaken between its read and its write lock: a change delivered afterwards is not well formed at the subscriber's own (filtered) view", c, "well-formed at "+showView(view), ev+" (stream "+strings.Join(got, ";")+")")
			}
			if f[1] != "REMOVE" && !includeTok(s.include, f[0], inclVal(f[3])) && admitted {
				admitted = false
				m.Violate(sig+s.name+"/excluded-value-delivered", "a subscriber with an include filter was handed a value its filter excludes", c, "only admitted values", ev)
			}
			if f[1] == "REMOVE" {
				delete(view, f[0])
			} else {
				view[f[0]] = f[3]
			}
		}
		want := map[string]string{}
		all := map[string]string{"pad": "1", "~o": "1", "~p": "2"}
		if obs.Held != "-" {
			all["a"] = obs.Held
		}
		for id, v := range all {
			if includeTok(s.include, id, inclVal(v)) {
				want[id] = v
			}
		}
		if a, w := showView(view), showView(want); a != w {
			m.Violate(sig+s.name+"/fold-differs", "a Delete was overtaken between its read and its write lock: the subscriber's received changes fold to a different view than the collection holds (as its include filter admits it)", c, w, a+" (stream "+strings.Join(got, ";")+")")
		}
	}
	m.Eval(c.key(), c.rivalActs(), nil)
	m.Count("outcome=" + strings.Split(obs.Outcome, ",")[0])
}

func genOdelCases() []odelCase {
	var cases []odelCase
	add := func(am bool, expect, atRead string, world ...string) {
		for _, via := range []string{"check", "hook"} {
			cases = append(cases, odelCase{Kind: "odel", AM: am, Expect: expect, AtRead: atRead, World: append([]string{}, world...), Via: via})
		}
	}
	for _, am := range []bool{false, true} {
		add(am, "n", "-")
		add(am, "1", "-")
		add(am, "n", "-", "1") // through the yield point a rival creates the item the call has already found absent
	}
	var worlds [][]string
	worlds = append(worlds, nil)
	for _, w := range []string{"-", "_", "1", "2", "-+1", "-+2", "3+-+2"} {
		worlds = append(worlds, []string{w})
	}
	for _, w0 := range []string{"1", "2", "-+1", "_"} {
		for _, w1 := range []string{"-", "1", "2", "_", "-+2"} {
			worlds = append(worlds, []string{w0, w1})
		}
	}
	worlds = append(worlds, []string{"2", "1", "4", "3"}, []string{"1", "2", "1", "2", "1"}, []string{"1", "1", "1", "1", "1", "1"},
		[]string{"2", "3", "-+2", "1"}, []string{"2", "1", "2", "-"})
	for _, atRead := range []string{"1", "2", "_"} {
		for _, w := range worlds {
			last := atRead
			if len(w) > 0 {
				steps := strings.Split(w[len(w)-1], "+")
				last = steps[len(steps)-1]
			}
			expects := []string{"n", atRead}
			if last != atRead && last != "-" {
				expects = append(expects, last)
			}
			for _, e := range expects {
				add(last == "-", e, atRead, w...)
			}
		}
	}
	return cases
}

func runOvertakenDelete(f lib.Flags, res *lib.Result, drv *lib.Driver) {
	tie := res.Tie("overtaken-delete-event", "K2",
		"the model's deleteCall (DeleteRetry.lean, driver op dcommit) vs the REAL resource.Collection.Delete with the rival writers placed in the call's own WithExpectedCheck callback (run by the code between its read and its write lock, once per attempt; no timing) and, for a Delete WITHOUT that option, at the yield point at the top of every attempt (same window; run on the deleting goroutine): the item at the optimistic read over the empty message and two values x what the rivals of attempt 0, 1, … leave stored (nothing at all; every single step over removed / the empty message / two values / the SAME body rewritten / removed-and-added-again; every pair of such steps; up to six windows in a row) x no / the first / the last body as WithExpectedValue x WithAllowMissing; compared: NotFound / nil / FailedPrecondition with the returned body / Unavailable, or the REMOVE a subscriber with backpressure gets (old value), the returned body and the number of attempts; non-trivial = a rival acted; distinct = the case")
	tie.Exhaustive = true
	mon := res.Monitor("overtaken-delete", "on the same runs, independent of the model: an overtaken Delete that goes through announces and returns the body stored when it committed (= what the rivals left), passes a WithExpectedValue only for that body, gives up with Unavailable only after five overtaken attempts, and an undisturbed one is decided by the item as it is; five subscribers (backpressure unfiltered / include odd, lossy keeping up unfiltered / include even, lossy include odd that is BEHIND from before the delete on): every stream chains per id at the subscriber's own filtered view, carries admitted values only and, after a fence, folds to what the collection holds as the filter admits it; distinct = the case; non-trivial = a rival acted")
	verifhook.Set(odelHook)
	defer verifhook.Set(nil)
	cases := genOdelCases()
	lines := make([]string, len(cases))
	for i, c := range cases {
		lines[i] = c.modelLine()
	}
	ans, err := drv.Batch(lines)
	if err != nil {
		tie.Fail(err)
		return
	}
	obss := make([]odelObs, len(cases))
	parallelDo(len(cases), func(i int) { obss[i] = cases[i].runCode() })
	for i, c := range cases {
		obs := obss[i]
		if obs.Stuck != "" { // a stall of a loaded machine does not repeat
			obs = c.runCode()
		}
		c.monitor(mon, obs)
		tie.Record(c.key(), c.rivalActs(), c, ans[i], obs.answer())
		tie.Count("outcome=" + strings.Split(obs.Outcome, ",")[0])
	}
	res.Extra["overtaken_delete_cases"] = len(cases)
}
