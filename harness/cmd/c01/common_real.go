package main

import (
	"context"
	"fmt"
	"math/big"
	"strings"
	"sync"
	"sync/atomic"
	"time"

	"google.golang.org/protobuf/proto"

	"github.com/smart-core-os/sc-api/go/types"
	"github.com/smart-core-os/sc-golang/internal/verifhook"
	"github.com/smart-core-os/sc-golang/pkg/resource"
	"github.com/smart-core-os/sc-golang/verifharness/lib"
)

// Everything here drives the REAL code (pkg/resource) and renders what it observes in the answer
// format of the Lean drivers.

// Instants are rendered as an integer: nanoseconds relative to the test clock's origin
// time.Unix(clockBase, 0). The clock ticks in nanoseconds, so clock readings are small numbers, and
// any time.Time (the zero value, before the epoch, far future, sub-second) has an exact rendering
// that can never be mistaken for an absent time.
const clockBase = 1_000_000

var nsPerSec = big.NewInt(1_000_000_000)

// instant converts a rendered instant back to a time.Time.
func instant(off string) time.Time {
	n, ok := new(big.Int).SetString(off, 10)
	if !ok {
		panic("bad instant " + off)
	}
	sec, ns := new(big.Int).DivMod(n, nsPerSec, new(big.Int)) // Euclidean: 0 <= ns < 1e9
	t := time.Unix(sec.Int64()+clockBase, ns.Int64()).UTC()
	if t.IsZero() {
		return time.Time{} // the zero value itself
	}
	return t
}

// zeroInstant is the rendering of time.Time{}.
var zeroInstant = showTime(time.Time{})

// testClock: Now() returns tick n and advances by step; frozen during construction.
type testClock struct {
	n, step int
	frozen  bool
}

func (c *testClock) Now() time.Time {
	t := time.Unix(clockBase, int64(c.n)).UTC()
	if !c.frozen {
		c.n += c.step
	}
	return t
}

func showTime(t time.Time) string {
	n := new(big.Int).Mul(big.NewInt(t.Unix()-clockBase), nsPerSec)
	return n.Add(n, big.NewInt(int64(t.Nanosecond()))).String()
}

// scriptRNG yields the scripted bytes, then nothing (the destination keeps its zero bytes).
type scriptRNG struct{ b []byte }

func (r *scriptRNG) Read(p []byte) (int, error) {
	n := copy(p, r.b)
	r.b = r.b[n:]
	return n, nil
}

// busSends counts bus.Send calls (yield point bus.send.afterSnapshot, build tag verif): the number
// of events a call put on the bus. The harness is single threaded with respect to writes.
var busSends atomic.Int64

// armedPoint: the next goroutine that reaches this yield point parks (once) until released.
var (
	armedPoint atomic.Value // string
	parkedCh   = make(chan struct{}, 1)
	releaseCh  = make(chan struct{})
)

func installHook() {
	armedPoint.Store("")
	verifhook.Set(func(point string) {
		if point == "bus.send.afterSnapshot" {
			busSends.Add(1)
		}
		if p, _ := armedPoint.Load().(string); p != "" && p == point && armedPoint.CompareAndSwap(p, "") {
			parkedCh <- struct{}{}
			<-releaseCh
		}
	})
}

const waitBound = 8 * time.Second

// cmpLog records the decisions of the resource's equivalence (called once per bus event per live
// subscriber, in that subscriber's goroutine).
type cmpLog struct{ ch chan bool }

type real struct {
	cfg  Cfg
	clk  *testClock
	coll *resource.Collection
	val  *resource.Value
	cmp  *cmpLog
	// the always-on backpressured, updates-only probe (nil when the resource has an equivalence)
	probeC      <-chan *resource.CollectionChange
	probeV      <-chan *resource.ValueChange
	probeCancel context.CancelFunc
	subs        map[string]*realSub
	subOrder    []string
	pids        map[string]*pidInfo // PullID subscriptions, by name
	panicked    string              // construction panicked (Cfg.Res with an initial record id given twice)
	arena                           // how option slices are handed to the calls (common_arena.go)
	nestedOut   []string            // results of the calls made from a callback of the write in progress (nested.go)
}

// pidInfo: a PullID subscription is observed together with a hidden plain Pull with the same options
// (the shadow): what the shadow receives tells how many of the bus events concern the id and whether
// the item was removed, i.e. how many deliveries to wait for and whether the channel must close.
type pidInfo struct {
	id     string
	shadow *realSub
	ended  bool
}

// realSub is an open backpressured subscription: a collector goroutine receives continuously (so
// writers are never held up by the harness) into got; take hands out what arrived.
type realSub struct {
	name   string
	cancel context.CancelFunc
	mu     sync.Mutex
	got    []string
	taken  int
	notify chan struct{}
	done   chan struct{}
}

func (s *realSub) push(e string) {
	s.mu.Lock()
	s.got = append(s.got, e)
	s.mu.Unlock()
	select {
	case s.notify <- struct{}{}:
	default:
	}
}

// takeBound bounds the wait for an expected delivery. It never matters on a tree where every expected
// delivery arrives; once several have not (the run is failing anyway) it is shortened so the run ends soon.
var (
	takeBound    = waitBound
	takeTimeouts int
)

// take waits (bounded) until n more events have arrived and returns them.
func (s *realSub) take(n int) []string {
	deadline := time.After(takeBound)
	for {
		s.mu.Lock()
		if len(s.got)-s.taken >= n {
			out := append([]string(nil), s.got[s.taken:s.taken+n]...)
			s.taken += n
			s.mu.Unlock()
			return out
		}
		s.mu.Unlock()
		select {
		case <-s.notify:
		case <-s.done:
			s.mu.Lock()
			out := append([]string(nil), s.got[s.taken:]...)
			s.taken = len(s.got)
			s.mu.Unlock()
			return append(out, "!closed")
		case <-deadline:
			if takeTimeouts++; takeTimeouts >= 4 {
				takeBound = 50 * time.Millisecond
			}
			s.mu.Lock()
			out := append([]string(nil), s.got[s.taken:]...)
			s.taken = len(s.got)
			s.mu.Unlock()
			return append(out, "!timeout")
		}
	}
}

// subscribe opens a backpressured Pull and returns the seed events (their number is known from the
// contents: one per stored item / one for a present value, none for updates-only).
func (r *real) subscribe(o Op) string {
	name, _ := o.opt("name")
	ctx, cancel := context.WithCancel(context.Background())
	sb := &realSub{name: name, cancel: cancel, notify: make(chan struct{}, 1), done: make(chan struct{})}
	rs := append(readOptions(o), resource.WithBackpressure(true))
	nSeed := 0
	if r.val != nil {
		if !o.has("uo") && r.val.Get() != nil {
			nSeed = 1
		}
		ch := r.val.Pull(ctx, rs...)
		go func() {
			defer close(sb.done)
			for e := range ch {
				sb.push(showVEventFlags(e))
			}
		}()
	} else {
		if !o.has("uo") {
			nSeed = len(r.coll.List())
		}
		ch := r.coll.Pull(ctx, rs...)
		go func() {
			defer close(sb.done)
			for e := range ch {
				sb.push(showCEvent(e))
			}
		}()
	}
	r.subs[name] = sb
	r.subOrder = append(r.subOrder, name)
	return "seed=" + showList(sb.take(nSeed))
}

func (r *real) unsubscribe(o Op) string {
	name, _ := o.opt("name")
	sb, ok := r.subs[name]
	if !ok {
		return "ok"
	}
	sb.cancel()
	select {
	case <-sb.done: // the Pull goroutine has ended: no later equivalence calls from it
	case <-time.After(waitBound):
		return "!unsub-timeout"
	}
	if pi := r.pids[name]; pi != nil {
		pi.shadow.cancel()
		select {
		case <-pi.shadow.done:
		case <-time.After(waitBound):
		}
		delete(r.pids, name)
	}
	delete(r.subs, name)
	for i, n := range r.subOrder {
		if n == name {
			r.subOrder = append(r.subOrder[:i], r.subOrder[i+1:]...)
			break
		}
	}
	return "ok"
}

// deliveries collects, after a write that put `sends` events on the bus, what each open subscription
// received. Without an equivalence every bus event is delivered; with one (at most one subscription is
// open then) the recorded decisions of the equivalence say how many are.
func (r *real) deliveries(sends int) string {
	var parts []string
	for _, name := range r.subOrder {
		sb := r.subs[name]
		if pi := r.pids[name]; pi != nil {
			parts = append(parts, name+"="+r.pidDeliveries(sb, pi, sends))
			continue
		}
		n := sends
		if r.cmp != nil {
			n = 0
			for i := 0; i < sends; i++ {
				select {
				case suppressed := <-r.cmp.ch:
					if !suppressed {
						n++
					}
				case <-time.After(waitBound):
					parts = append(parts, name+"=[!no-equivalence-call]")
					continue
				}
			}
		}
		parts = append(parts, name+"="+showList(sb.take(n)))
	}
	return strings.Join(parts, " ")
}

// eqvOption: the resource-level equivalence under its name. It is consulted by Pull only; C01 runs no
// subscriber next to a resource that has one (except the always-false "never"), so its decisions are
// logged only as long as there is room (C04 reads them).
func (r *real) eqvOption(name string) resource.Option {
	if name == "nodup" {
		return resource.WithNoDuplicates()
	}
	if r.cmp == nil {
		r.cmp = &cmpLog{ch: make(chan bool, 1024)}
	}
	f := namedEqv(name)
	return resource.WithEquivalence(resource.ComparerFunc(func(x, y proto.Message) bool {
		b := f(x, y)
		select {
		case r.cmp.ch <- b:
		default:
		}
		return b
	}))
}

// zeroFor: the zero message of the type whose paths the mask letters name
func zeroFor(mask string) proto.Message {
	for _, l := range maskLetters(mask) {
		if l == "p" || l == "t" || l == "tp" {
			return &P{}
		}
	}
	return &T{}
}

// resOption translates one token of an ordered resource option list (Cfg.Res).
func (r *real) resOption(t string, rng []byte) resource.Option {
	k, v := t, ""
	if i := strings.IndexByte(t, ':'); i >= 0 {
		k, v = t[:i], t[i+1:]
	}
	switch k {
	case "W":
		if v == "nil" {
			return resource.WithWritableFields(nil)
		}
		return resource.WithWritableFields(parseMask(v))
	case "Wp":
		return resource.WithWritablePaths(zeroFor(v), parseMask(v).Paths...)
	case "icpt":
		if v == "nil" {
			return resource.WithIDInterceptor(nil)
		}
		return resource.WithIDInterceptor(namedIcpt(v))
	case "init":
		if v == "nil" {
			return resource.WithInitialValue(nil)
		}
		return resource.WithInitialValue(parseMsg(v))
	case "rec":
		p := strings.SplitN(v, "~", 2)
		return resource.WithInitialRecord(p[0], parseMsg(p[1]))
	case "eqv":
		return r.eqvOption(v)
	case "nop":
		return resource.EmptyOption{}
	case "clk":
		return resource.WithClock(r.clk)
	case "rng":
		return resource.WithRNG(&scriptRNG{b: rng})
	}
	panic("unknown resource option " + t)
}

// probed: can the always-on probe see every bus event (no equivalence that could suppress one)
func probed(cfg Cfg) bool { return cfg.Eqv == "" || cfg.Eqv == "never" }

func newReal(cfg Cfg, probe bool) *real {
	r := &real{cfg: cfg, clk: &testClock{step: cfg.Tick, frozen: true}, subs: map[string]*realSub{}}
	rng := make([]byte, len(cfg.Rng))
	for i, x := range cfg.Rng {
		rng[i] = byte(x)
	}
	var opts []resource.Option
	if p, msg := lib.Catch(func() {
		if len(cfg.Res) > 0 {
			// the options exactly as listed; the clock and the rng go where the list says, else in front
			hasClk, hasRng := false, false
			for _, t := range cfg.Res {
				hasClk, hasRng = hasClk || t == "clk", hasRng || t == "rng"
			}
			if !hasClk {
				opts = append(opts, resource.WithClock(r.clk))
			}
			if !hasRng {
				opts = append(opts, resource.WithRNG(&scriptRNG{b: rng}))
			}
			for _, t := range cfg.Res {
				opts = append(opts, r.resOption(t, rng))
			}
		} else {
			opts = append(opts, resource.WithClock(r.clk), resource.WithRNG(&scriptRNG{b: rng}))
			if cfg.W != nil {
				opts = append(opts, resource.WithWritableFields(parseMask(*cfg.W)))
			}
			if cfg.Icpt != "" {
				opts = append(opts, resource.WithIDInterceptor(namedIcpt(cfg.Icpt)))
			}
			if cfg.Eqv != "" {
				opts = append(opts, r.eqvOption(cfg.Eqv))
			}
			if cfg.Kind == "val" {
				if len(cfg.Init) > 0 && cfg.Init[0] != "nil" {
					opts = append(opts, resource.WithInitialValue(parseMsg(cfg.Init[0])))
				}
			} else {
				for _, rec := range cfg.Init {
					p := strings.SplitN(rec, "~", 2)
					opts = append(opts, resource.WithInitialRecord(p[0], parseMsg(p[1])))
				}
			}
		}
		if cfg.Kind == "val" {
			r.val = resource.NewValue(opts...)
		} else {
			r.coll = resource.NewCollection(opts...)
		}
	}); p {
		// WithInitialRecord panics on an id given twice, NewCollection on two ids the interceptor maps to one
		r.panicked = msg
		if r.panicked == "" {
			r.panicked = "panic"
		}
		return r
	}
	// construction read the (frozen) clock at tick 0; the model starts its counter at `tick`
	r.clk.frozen = false
	r.clk.n = cfg.Tick
	if probe && probed(cfg) {
		ctx, cancel := context.WithCancel(context.Background())
		r.probeCancel = cancel
		if r.val != nil {
			r.probeV = r.val.Pull(ctx, resource.WithBackpressure(true), resource.WithUpdatesOnly(true))
		} else {
			r.probeC = r.coll.Pull(ctx, resource.WithBackpressure(true), resource.WithUpdatesOnly(true))
		}
	}
	return r
}

func (r *real) close() {
	if r.probeCancel != nil {
		r.probeCancel()
	}
	for _, s := range r.subs {
		s.cancel()
	}
	for _, p := range r.pids {
		p.shadow.cancel()
	}
}

func kindName(t types.ChangeType) string {
	switch t {
	case types.ChangeType_ADD:
		return "ADD"
	case types.ChangeType_UPDATE:
		return "UPDATE"
	case types.ChangeType_REMOVE:
		return "REMOVE"
	}
	return t.String()
}

func flags(seed, last bool) string {
	s := ""
	if seed {
		s += "S"
	}
	if last {
		s += "L"
	}
	return s
}

func showCEvent(e *resource.CollectionChange) string {
	if e == nil {
		return "!nil-event"
	}
	return fmt.Sprintf("%s|%s|%s|%s|%s|%s", e.Id, showTime(e.ChangeTime), kindName(e.ChangeType),
		showMsg(e.OldValue), showMsg(e.NewValue), flags(e.SeedValue, e.LastSeedValue))
}

func showVEventFlags(e *resource.ValueChange) string {
	if e == nil {
		return "!nil-event"
	}
	return fmt.Sprintf("%s|%s|%s", showMsg(e.Value), showTime(e.ChangeTime), flags(e.SeedValue, e.LastSeedValue))
}

func showVEvent(e *resource.ValueChange) string {
	if e == nil {
		return "!nil-event"
	}
	return fmt.Sprintf("%s|%s", showMsg(e.Value), showTime(e.ChangeTime))
}

// recvC / recvV receive one event with a bound; ok=false on timeout or closed channel.
func recvC(ch <-chan *resource.CollectionChange) (string, bool) {
	select {
	case e, ok := <-ch:
		if !ok {
			return "!closed", false
		}
		return showCEvent(e), true
	case <-time.After(waitBound):
		return "!timeout", false
	}
}

func recvV(ch <-chan *resource.ValueChange, withFlags bool) (string, bool) {
	select {
	case e, ok := <-ch:
		if !ok {
			return "!closed", false
		}
		if withFlags {
			return showVEventFlags(e), true
		}
		return showVEvent(e), true
	case <-time.After(waitBound):
		return "!timeout", false
	}
}

// writeOptions translates the option tokens into resource.WriteOption values; cb records callbacks.
type callbacks struct {
	ids     []string
	created int
}

// writeOption translates one option token; callbacks report to whatever record cur() returns at the
// time they fire (an option value kept in a shared slice outlives the call it was first made for).
func writeOption(t string, cur func() *callbacks) resource.WriteOption {
	k, v := t, ""
	if i := strings.IndexByte(t, '='); i >= 0 {
		k, v = t[:i], t[i+1:]
	}
	switch k {
	case "wt":
		return resource.WithWriteTime(instant(v))
	case "um":
		if v == "nil" {
			return resource.WithUpdateMask(nil)
		}
		return resource.WithUpdateMask(parseMask(v))
	case "mum":
		return resource.WithMoreUpdateMask(parseMask(v))
	case "rs":
		if v == "nil" {
			return resource.WithResetMask(nil)
		}
		return resource.WithResetMask(parseMask(v))
	case "ev":
		if v == "nil" {
			return resource.WithExpectedValue(nil)
		}
		return resource.WithExpectedValue(parseMsg(v))
	case "xa":
		return resource.WithExpectAbsent()
	case "chk":
		if v == "nil" {
			return resource.WithExpectedCheck(nil)
		}
		return resource.WithExpectedCheck(namedCheck(v))
	case "am":
		return resource.WithAllowMissing(true)
	case "am0":
		return resource.WithAllowMissing(false)
	case "bf":
		if v == "nil" {
			return resource.InterceptBefore(nil)
		}
		return resource.InterceptBefore(namedBefore(v))
	case "af":
		if v == "nil" {
			return resource.InterceptAfter(nil)
		}
		return resource.InterceptAfter(namedAfter(v))
	case "nw":
		return resource.WithAllFieldsWritable()
	case "mw":
		return resource.WithMoreWritableFields(parseMask(v))
	case "cia":
		return resource.WithCreateIfAbsent()
	case "ccb":
		return resource.WithCreatedCallback(func() { cur().created++ })
	case "ccb0":
		return resource.WithCreatedCallback(nil)
	case "icb0":
		return resource.WithIDCallback(nil)
	case "gid":
		return resource.WithGenIDIfAbsent()
	case "icb":
		return resource.WithIDCallback(func(id string) { c := cur(); c.ids = append(c.ids, id) })
	// the With…Paths spellings and the empty option
	case "ump":
		return resource.WithUpdatePaths(parseMask(v).Paths...)
	case "mump":
		return resource.WithMoreUpdatePaths(parseMask(v).Paths...)
	case "rsp":
		return resource.WithResetPaths(parseMask(v).Paths...)
	case "mwp":
		return resource.WithMoreWritablePaths(parseMask(v).Paths...)
	case "nop":
		return resource.EmptyWriteOption{}
	}
	panic("unknown write option " + t)
}

// writeOptions: a fresh slice holding exactly the options (len == cap), as a call with the options
// written inline passes.
func writeOptions(o Op, cb *callbacks) []resource.WriteOption {
	ws := make([]resource.WriteOption, 0, len(o.Opts))
	for _, t := range o.Opts {
		ws = append(ws, writeOption(t, func() *callbacks { return cb }))
	}
	return ws
}

func readOption(t string) (resource.ReadOption, bool) {
	k, v := t, ""
	if i := strings.IndexByte(t, '='); i >= 0 {
		k, v = t[:i], t[i+1:]
	}
	switch k {
	case "rm":
		if v == "nil" {
			return resource.WithReadMask(nil), true
		}
		return resource.WithReadMask(parseMask(v)), true
	case "inc":
		if v == "nil" {
			return resource.WithInclude(nil), true
		}
		return resource.WithInclude(namedInclude(v)), true
	case "uo":
		return resource.WithUpdatesOnly(true), true
	case "uo0":
		return resource.WithUpdatesOnly(false), true
	case "bp":
		return resource.WithBackpressure(true), true
	case "bp0":
		return resource.WithBackpressure(false), true
	case "rmp":
		return resource.WithReadPaths(zeroFor(v), parseMask(v).Paths...), true
	case "nop":
		return resource.EmptyReadOption{}, true
	case "name", "id":
		return nil, false
	}
	panic("unknown read option " + t)
}

func readOptions(o Op) []resource.ReadOption {
	rs := make([]resource.ReadOption, 0, len(o.Opts))
	for _, t := range o.Opts {
		if ro, ok := readOption(t); ok {
			rs = append(rs, ro)
		}
	}
	return rs
}

// runWrite executes a write while draining the probe, then collects exactly the events the call
// put on the bus. Returns the call's answer (without the state dump) and the number of bus sends.
func (r *real) runWrite(o Op) (answer string, sends int) {
	cb := &callbacks{}
	var val proto.Message
	var err error
	var pmsg string
	k0 := busSends.Load()
	done := make(chan struct{})
	go func() {
		defer close(done)
		_, pmsg = lib.Catch(func() {
			ws := r.viewW(o, cb)
			defer r.checkW(o)
			if o.Site != "" {
				ws = r.nestedOptions(o, cb)
			}
			switch o.Op {
			case "upd":
				val, err = r.coll.Update(o.ID, parseMsg(o.Msg), ws...)
			case "add":
				val, err = r.coll.Add(o.ID, parseMsg(o.Msg), ws...)
			case "del":
				val, err = r.coll.Delete(o.ID, ws...)
			case "vset":
				val, err = r.val.Set(parseMsg(o.Msg), ws...)
			default:
				panic("not a write: " + o.Op)
			}
		})
	}()
	var evs []string
	alive := true
	wait := time.After(4 * waitBound)
loop:
	for {
		select {
		case e, ok := <-r.probeC: // nil channel when there is no collection probe: never ready
			if !ok {
				r.probeC = nil
				alive = false
				continue
			}
			evs = append(evs, showCEvent(e))
		case e, ok := <-r.probeV:
			if !ok {
				r.probeV = nil
				alive = false
				continue
			}
			evs = append(evs, showVEvent(e))
		case <-done:
			break loop
		case <-wait:
			return "!write-timeout", int(busSends.Load() - k0)
		}
	}
	sends = int(busSends.Load() - k0)
	if pmsg != "" {
		return "panic:" + pmsg, sends
	}
	if r.probeC != nil || r.probeV != nil {
		for len(evs) < sends && alive {
			var s string
			var ok bool
			if r.probeC != nil {
				s, ok = recvC(r.probeC)
			} else {
				s, ok = recvV(r.probeV, false)
			}
			evs = append(evs, s)
			if !ok {
				break
			}
		}
	}
	evText := showList(evs)
	if !probed(r.cfg) {
		// an equivalence stands between the bus and every subscriber: only the NUMBER of bus events the call
		// caused is observable (yield point bus.send.afterSnapshot)
		evText = fmt.Sprintf("#%d", sends)
	}
	in := ""
	if o.Site != "" {
		in = " in=" + showList(r.nestedOut)
	}
	if r.val != nil {
		return fmt.Sprintf("val=%s err=%s ev=%s%s", showMsg(val), codeName(err), evText, in), sends
	}
	return fmt.Sprintf("val=%s err=%s ev=%s ids=%s created=%d%s", showMsg(val), codeName(err), evText,
		showList(cb.ids), cb.created, in), sends
}

// dump renders the contents with ids and stored change times, read through the seed of a fresh
// backpressured Pull, and the clock counter.
func (r *real) dump() string {
	if r.val != nil {
		cur := r.val.Get()
		if cur == nil {
			// no seed is sent for an absent value; its change time is not observable
			return fmt.Sprintf("st=nil@? clk=%d", r.clk.n)
		}
		ctx, cancel := context.WithCancel(context.Background())
		ch := r.val.Pull(ctx, resource.WithBackpressure(true))
		var st string
		select {
		case e, ok := <-ch:
			if !ok || e == nil {
				st = "!closed"
			} else {
				st = showMsg(e.Value) + "@" + showTime(e.ChangeTime)
			}
		case <-time.After(waitBound):
			st = "!timeout"
		}
		cancel()
		waitClosedV(ch)
		return fmt.Sprintf("st=%s clk=%d", st, r.clk.n)
	}
	n := len(r.coll.List())
	var items []string
	if n > 0 {
		ctx, cancel := context.WithCancel(context.Background())
		ch := r.coll.Pull(ctx, resource.WithBackpressure(true))
		for i := 0; i < n+1; i++ {
			var e *resource.CollectionChange
			var ok bool
			select {
			case e, ok = <-ch:
			case <-time.After(waitBound):
			}
			if !ok || e == nil {
				items = append(items, "!timeout")
				break
			}
			items = append(items, fmt.Sprintf("%s~%s@%s", e.Id, showMsg(e.NewValue), showTime(e.ChangeTime)))
			if e.LastSeedValue {
				break
			}
		}
		cancel()
		waitClosedC(ch)
	}
	return fmt.Sprintf("st=%s clk=%d", showList(items), r.clk.n)
}

func waitClosedC(ch <-chan *resource.CollectionChange) {
	t := time.After(waitBound)
	for {
		select {
		case _, ok := <-ch:
			if !ok {
				return
			}
		case <-t:
			return
		}
	}
}

func waitClosedV(ch <-chan *resource.ValueChange) {
	t := time.After(waitBound)
	for {
		select {
		case _, ok := <-ch:
			if !ok {
				return
			}
		case <-t:
			return
		}
	}
}

// runRead executes get / list / vget.
func (r *real) runRead(o Op) string {
	var out string
	p, msg := lib.Catch(func() {
		rs := r.viewR(o)
		defer r.checkR(o)
		switch o.Op {
		case "get":
			m, ok := r.coll.Get(o.ID, rs...)
			if !ok {
				out = "nil"
				if m != nil {
					out = "!value-with-not-found"
				}
				return
			}
			out = showMsg(m)
		case "list":
			var xs []string
			for _, m := range r.coll.List(rs...) {
				xs = append(xs, showMsg(m))
			}
			out = showList(xs)
		case "vget":
			out = showMsg(r.val.Get(rs...))
		default:
			panic("not a read: " + o.Op)
		}
	})
	if p {
		return "panic:" + msg
	}
	return out
}

// collect starts the collector goroutine of a subscription.
func collectC(sb *realSub, ch <-chan *resource.CollectionChange) {
	go func() {
		defer close(sb.done)
		for e := range ch {
			sb.push(showCEvent(e))
		}
	}()
}

func collectV(sb *realSub, ch <-chan *resource.ValueChange) {
	go func() {
		defer close(sb.done)
		for e := range ch {
			sb.push(showVEventFlags(e))
		}
	}()
}

func newRealSub(name string, cancel context.CancelFunc) *realSub {
	return &realSub{name: name, cancel: cancel, notify: make(chan struct{}, 1), done: make(chan struct{})}
}

// concerns: does a delivered collection change (rendered) concern the id, and does it end a PullID stream
func concerns(ev, id string) (match, ends bool) {
	f := strings.Split(ev, "|")
	if len(f) < 5 || f[0] != id {
		return false, false
	}
	return true, f[2] == "REMOVE" || f[4] == "nil"
}

// subscribeID opens a backpressured PullID (and its shadow Pull) and returns the seed.
func (r *real) subscribeID(o Op) string {
	name, _ := o.opt("name")
	raw, _ := o.opt("id")
	id := raw // PullID applies the id interceptor itself; the changes carry the intercepted id
	if r.cfg.Icpt != "" {
		id = namedIcpt(r.cfg.Icpt)(raw)
	}
	rs := append(readOptions(o), resource.WithBackpressure(true))
	nSeed := 0
	if !o.has("uo") {
		nSeed = len(r.coll.List())
	}
	ctxS, cancelS := context.WithCancel(context.Background())
	shadow := newRealSub(name+"~shadow", cancelS)
	collectC(shadow, r.coll.Pull(ctxS, rs...))
	ctx, cancel := context.WithCancel(context.Background())
	sb := newRealSub(name, cancel)
	collectV(sb, r.coll.PullID(ctx, raw, rs...))
	pi := &pidInfo{id: id, shadow: shadow}
	n := 0
	for _, ev := range shadow.take(nSeed) {
		if m, ends := concerns(ev, id); m && !ends {
			n++
		}
	}
	if r.pids == nil {
		r.pids = map[string]*pidInfo{}
	}
	r.pids[name] = pi
	r.subs[name] = sb
	r.subOrder = append(r.subOrder, name)
	return "seed=" + showList(sb.take(n))
}

func (r *real) pidDeliveries(sb *realSub, pi *pidInfo, sends int) string {
	if pi.ended {
		return "[]$"
	}
	n := 0
	for _, ev := range pi.shadow.take(sends) {
		if pi.ended {
			break
		}
		m, ends := concerns(ev, pi.id)
		switch {
		case m && ends:
			pi.ended = true
		case m:
			n++
		}
	}
	out := showList(sb.take(n))
	if pi.ended {
		select {
		case <-sb.done: // the PullID channel was closed
		case <-time.After(takeBound):
			out += "!not-closed"
		}
		pi.shadow.cancel()
		select {
		case <-pi.shadow.done:
		case <-time.After(waitBound):
		}
		out += "$"
	}
	return out
}
