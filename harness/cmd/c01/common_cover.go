package main

import (
	"fmt"
	"sort"
)

// Pairwise option coverage: for every pair of options that apply to a call kind, which of the four
// on/off combinations the generated calls contained. Reported in the evidence so gaps are visible.

var applicableOpts = map[string][]string{
	"upd":  {"wt", "um", "mum", "rs", "ev", "xa", "chk", "bf", "af", "nw", "mw", "cia", "ccb", "gid", "icb"},
	"add":  {"wt", "um", "mum", "rs", "ev", "chk", "bf", "af", "nw", "mw", "ccb", "gid", "icb"},
	"del":  {"wt", "ev", "chk", "am", "am0"},
	"vset": {"wt", "um", "mum", "rs", "ev", "chk", "bf", "af", "nw", "mw"},
	"get":  {"rm"},
	"list": {"rm", "inc"},
	"vget": {"rm"},
}

type pairCover struct{ seen map[string]bool }

func newPairCover() *pairCover { return &pairCover{seen: map[string]bool{}} }

func onOff(b bool) string {
	if b {
		return "1"
	}
	return "0"
}

// call records one call of the given kind with the given option tokens.
func (c *pairCover) call(kind string, o Op) {
	app := applicableOpts[kind]
	for i := 0; i < len(app); i++ {
		for j := i + 1; j < len(app); j++ {
			c.seen[fmt.Sprintf("%s:%s=%s,%s=%s", kind, app[i], onOff(o.has(app[i])), app[j], onOff(o.has(app[j])))] = true
		}
	}
}

// cross records a write option set against the options of a reader that observes the write.
func (c *pairCover) cross(kind string, w Op, readerOpts []string, reader Op) {
	for _, a := range applicableOpts[kind] {
		for _, b := range readersFor(kind, readerOpts) {
			c.seen[fmt.Sprintf("%s x reader:%s=%s,%s=%s", kind, a, onOff(w.has(a)), b, onOff(reader.has(b)))] = true
		}
	}
}

func isWriterKind(kind string) bool {
	return kind == "upd" || kind == "add" || kind == "del" || kind == "vset"
}

// readersFor: a Value has no include predicate
func readersFor(kind string, readerOpts []string) []string {
	if kind != "vset" {
		return readerOpts
	}
	var out []string
	for _, o := range readerOpts {
		if o != "inc" {
			out = append(out, o)
		}
	}
	return out
}

// report returns covered/total over the given universe and the missing combinations.
func (c *pairCover) report(kinds []string, readerOpts []string) map[string]any {
	var missing []string
	total := 0
	for _, kind := range kinds {
		app := applicableOpts[kind]
		for i := 0; i < len(app); i++ {
			for j := i + 1; j < len(app); j++ {
				for _, x := range []string{"0", "1"} {
					for _, y := range []string{"0", "1"} {
						total++
						k := fmt.Sprintf("%s:%s=%s,%s=%s", kind, app[i], x, app[j], y)
						if !c.seen[k] {
							missing = append(missing, k)
						}
					}
				}
			}
		}
		if isWriterKind(kind) {
			for _, a := range app {
				for _, b := range readersFor(kind, readerOpts) {
					for _, x := range []string{"0", "1"} {
						for _, y := range []string{"0", "1"} {
							total++
							k := fmt.Sprintf("%s x reader:%s=%s,%s=%s", kind, a, x, b, y)
							if !c.seen[k] {
								missing = append(missing, k)
							}
						}
					}
				}
			}
		}
	}
	sort.Strings(missing)
	if len(missing) > 60 {
		missing = append(missing[:60], fmt.Sprintf("... %d more", len(missing)-60))
	}
	if missing == nil {
		missing = []string{}
	}
	return map[string]any{"combinations": total, "covered": total - len(missingAll(c, kinds, readerOpts)), "missing": missing}
}

func missingAll(c *pairCover, kinds []string, readerOpts []string) []string {
	var missing []string
	for _, kind := range kinds {
		app := applicableOpts[kind]
		for i := 0; i < len(app); i++ {
			for j := i + 1; j < len(app); j++ {
				for _, x := range []string{"0", "1"} {
					for _, y := range []string{"0", "1"} {
						if k := fmt.Sprintf("%s:%s=%s,%s=%s", kind, app[i], x, app[j], y); !c.seen[k] {
							missing = append(missing, k)
						}
					}
				}
			}
		}
		if isWriterKind(kind) {
			for _, a := range app {
				for _, b := range readersFor(kind, readerOpts) {
					for _, x := range []string{"0", "1"} {
						for _, y := range []string{"0", "1"} {
							if k := fmt.Sprintf("%s x reader:%s=%s,%s=%s", kind, a, x, b, y); !c.seen[k] {
								missing = append(missing, k)
							}
						}
					}
				}
			}
		}
	}
	return missing
}
