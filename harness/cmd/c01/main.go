// Harness for C01 (Value/Collection conform to a sequential register/map specification).
//
//	tie  K1 "coll-seq" / "value-seq": random structured call sequences, every write/read option,
//	     model (driverC01) vs pkg/resource: answers, bus events, callbacks, contents + stored times.
//	tie  K2 "small-scope": ALL call sequences up to a length over a 2-id / 2-value alphabet.
//	monitor "reference-map": the same runs against a plain Go register/map oracle + the property's
//	     own clauses (failed call changes nothing and emits nothing, List sorted, generated ids).
package main

import (
	"encoding/json"
	"fmt"
	"math/rand"
	"os"
	"strings"
	"time"

	"github.com/smart-core-os/sc-golang/verifharness/lib"
)

func main() {
	f := lib.ParseFlags()
	installHook()
	if f.Replay != "" {
		os.Exit(replay(f))
	}
	res := lib.NewResult("C01", f)
	drv, err := lib.StartDriver(f.Driver)
	if err != nil {
		lib.Fatal(err)
	}
	defer drv.Close()
	h := &harness{
		cover: newPairCover(),
		drv:   drv,
		tieC:  res.Tie("coll-seq", "K1", "random call sequences on a Collection (ids from {'',a,b,c,A,B}+generated, every subset of the write/read options, id interceptors, fixed/ticking clock, scripted rng incl. forced collisions/exhaustion); compared per call: result, code, bus events, callbacks, contents with stored times, clock. distinct = distinct (config, call, contents-before)"),
		tieV:  res.Tie("value-seq", "K1", "random call sequences on a Value (with/without initial value, writable fields, all write options); compared per call as above"),
		tieS:  res.Tie("small-scope", "K2", "ALL call sequences up to the stated length over ids {a,b}, values {1//-,2/x/-}, ops add/upd/upd+create/del/del+allow-missing/get/list; and (length <=3) ALL sequences under the lower-casing id interceptor over ids {a,A,''} with id generation from a colliding rng, ALL sequences under a prefixing id interceptor ('' -> '-') over ids {'','-'} with and without id generation, and ALL sequences of writes on one Value / one item with restricted writable fields, each write widening them its own way (none, all-writable, more-writable, update mask, reset mask), also on OpenClosePosition with only open_percent writable next to open_percent_tween; distinct = distinct sequences"),
		tieO:  res.Tie("shared-options", "K2", "ALL call sequences up to the stated length over add/upd/del/get/list on one id where every call takes a view opts[:k] (every k; for two of the lists also opts[1:k]) of ONE option slice with spare capacity (a caller re-using its option list): compared per call as above; distinct = distinct sequences"),
		tieM:  res.Tie("mask-shapes", "K2", "ALL combinations of writable fields x update mask x reset mask x stored message x written message over masks naming the nested message field, its sub-fields, both, and other fields (parents/children), one Update (create-if-absent) followed by Gets under nested read masks; compared per call as above; distinct = distinct combinations"),
		tieR:  res.Tie("resource-options", "K2", "ALL ordered lists up to the stated length of resource options (WithWritableFields mask/nil, WithWritablePaths, WithIDInterceptor f/nil, WithInitialValue v/nil, WithInitialRecord incl. the same id twice and two spellings of one id, WithEquivalence, EmptyOption) given to NewCollection / NewValue, followed by a fixed probe sequence (List, Get by both spellings, masked Update, Add, Delete / Get, Set, Get): model (fold of the list as computeConfig does) vs code, per call as above, and whether construction panics; distinct = distinct (option list, call)"),
		tieP:  res.Tie("mask-paths", "K2", "ALL lists of path strings up to the stated length over an alphabet of real paths of OpenClosePosition (incl. the siblings open_percent / open_percent_tween, whose names are related by textual prefix, and paths one and two levels inside the latter) and of TestAllTypes (three levels), handed to a Value as read mask, update mask, reset mask and writable fields: the leaf fields acted on, code vs the string-level model of withoutNestedPaths/nestedMask; and every path of the alphabet as update path against every writable list up to length 2 (Validate), code vs isWritablePath of the model; distinct = distinct (type, site, list)"),
		tieN:  res.Tie("nested-calls", "K2", "ALL combinations of a Value never written / constructed with an initial value / written once x a write whose expected check, before or after interceptor (11 option lists: masks, expected value, failing and passing checks, the callback switched off again) calls the same Value again x every list of up to 2 nested calls over 6 (writes of a new / the stored / the zero message, a failing write, a masked write, a read), followed by a Get; the same on a Collection (item absent / stored / stored as the empty message x 8 Update/Add and 5 Delete option lists - Delete's expected check makes the calls - x every list of up to 2 nested calls over 8); compared per call as above plus what the nested calls returned; distinct = distinct scripts"),
		mon:   res.Monitor("reference-map", "every call of every tie run is checked against a plain Go register/map oracle (fieldwise merge) and the property's clauses: failed call => contents and clock-free state unchanged and no bus event; List = sorted filtered contents; generated id non-empty, unused, reported once, usable; plus ALL (Value | Collection item, first message, second call: Get / Set / masked Set / Set or Delete with an expected value / Delete with a check) over OpenClosePosition messages whose float32 fields hold NaN, -0, +Inf, -Inf, 0, 1.5, against a register / map reference on the floats' bits (no write of the only caller is Aborted; proto.Equal reflexive on every such message)"),
	}
	r := lib.NewRand(f.Seed)
	h.smallScope(f.N(3, 4))
	h.sharedScope(f.N(2, 3))
	h.maskScope(f.Tier == "thorough")
	h.pathScope(f.N(3, 4))
	h.resScope(f.N(3, 4))
	h.nestedScope()
	h.floatScope()
	// the defect witnesses first (small, fixed), then random
	for _, s := range fixedScripts() {
		h.runScript(s, h.tieFor(s))
	}
	nScripts := f.N(1500, 40000)
	for i := 0; i < nScripts; i++ {
		maxLen := 4 + i/8
		if maxLen > 40 {
			maxLen = 40
		}
		s := genScript(r, 1+r.Intn(maxLen))
		h.runScript(s, h.tieFor(s))
	}
	h.tieS.Exhaustive = true
	h.tieO.Exhaustive = true
	h.tieM.Exhaustive = true
	h.tieP.Exhaustive = true
	h.tieR.Exhaustive = true
	h.tieN.Exhaustive = true
	res.Extra["ops_total"] = h.ops
	pw := h.cover.report([]string{"upd", "add", "del", "vset", "get", "list", "vget"}, []string{"rm", "inc"})
	res.Extra["pairwise_option_coverage"] = pw
	h.tieC.Count(fmt.Sprintf("pairwise option combinations covered: %v of %v", pw["covered"], pw["combinations"]))
	if err := res.Write(f.Out); err != nil {
		lib.Fatal(err)
	}
}

type harness struct {
	cover            *pairCover
	drv              *lib.Driver
	tieC, tieV, tieS *lib.Tie
	tieO, tieM, tieP *lib.Tie
	tieR, tieN       *lib.Tie
	mon              *lib.Monitor
	ops              int
}

func (h *harness) tieFor(s Script) *lib.Tie {
	if s.Cfg.Kind == "val" {
		return h.tieV
	}
	return h.tieC
}

// runCode executes the script on the real code: one answer per op.
func runCode(s Script) (out []string, init string, notes []string) {
	r := newReal(s.Cfg, true)
	out = make([]string, len(s.Ops))
	notes = make([]string, len(s.Ops))
	if r.panicked != "" {
		for i := range out {
			out[i] = constructPanic
		}
		return out, constructPanic, notes
	}
	r.share = s.Share
	r.prepare(s.Ops)
	defer r.close()
	init = r.dump()
	for i, op := range s.Ops {
		if op.isWrite() {
			a, _ := r.runWrite(op)
			notes[i] = r.note
			out[i] = a + " | " + r.dump()
		} else {
			out[i] = r.runRead(op)
			notes[i] = r.note
		}
	}
	return out, init, notes
}

// constructPanic: the answer of every call of a script whose resource could not be constructed
// (WithInitialRecord panics when the id was already given)
const constructPanic = "panic:construct"

func runOracle(s Script) []string {
	out := make([]string, len(s.Ops))
	if s.Cfg.Panics || (len(s.Cfg.Res) == 0 && resolveRes(asRes(s.Cfg)).Panics) {
		for i := range out {
			out[i] = constructPanic
		}
		return out
	}
	o := newOracle(s.Cfg)
	for i, op := range s.Ops {
		out[i] = evCount(s.Cfg, o.step(op))
	}
	return out
}

// asRes: the option list a configuration given as a record stands for
func asRes(c Cfg) Cfg {
	out := c
	if c.W != nil {
		out.Res = append(out.Res, "W:"+*c.W)
	}
	if c.Icpt != "" {
		out.Res = append(out.Res, "icpt:"+c.Icpt)
	}
	for _, rec := range c.Init {
		if c.Kind == "val" {
			out.Res = append(out.Res, "init:"+rec)
		} else {
			out.Res = append(out.Res, "rec:"+rec)
		}
	}
	return out
}

// evCount: next to a resource whose equivalence may suppress deliveries the code's bus events are
// observed by their number only; the reference's and the model's answers are brought to the same form.
func evCount(cfg Cfg, ans string) string {
	if probed(cfg) {
		return ans
	}
	ev := part(ans, "ev")
	if ev == "" || strings.HasPrefix(ev, "#") {
		return ans
	}
	n := 0
	if inner := strings.Trim(ev, "[]"); inner != "" {
		n = len(strings.Split(inner, ";"))
	}
	return strings.Replace(ans, " ev="+ev, fmt.Sprintf(" ev=#%d", n), 1)
}

func (h *harness) runModel(s Script) ([]string, error) {
	lines := make([]string, 0, len(s.Ops)+1)
	lines = append(lines, s.Cfg.line())
	last := make([]int, len(s.Ops)) // the line whose answer is the call's answer (a write with nested calls takes several lines)
	for i, op := range s.Ops {
		lines = append(lines, modelLines(op)...)
		last[i] = len(lines) - 1
	}
	ans, err := h.drv.Batch(lines)
	if err != nil {
		return nil, err
	}
	if ans[0] == "panic" {
		out := make([]string, len(s.Ops))
		for i := range out {
			out[i] = constructPanic
		}
		return out, nil
	}
	if ans[0] != "ok" {
		return nil, fmt.Errorf("driver rejected config %q: %s", lines[0], ans[0])
	}
	out := make([]string, len(s.Ops))
	for i := range out {
		out[i] = evCount(s.Cfg, ans[last[i]])
	}
	return out, nil
}

func prefix(s Script, n int) Script {
	return Script{Cfg: s.Cfg, Ops: append([]Op(nil), s.Ops[:n]...), Share: s.Share}
}

func (h *harness) runScript(s Script, tie *lib.Tie) {
	code, pre, notes := runCode(s)
	model, err := h.runModel(s)
	if err != nil {
		tie.Fail(err)
		return
	}
	want := runOracle(s)
	if s.Cfg.Eqv != "" {
		tie.Count("cfg:equivalence=" + s.Cfg.Eqv)
	}
	if len(s.Cfg.Res) > 0 {
		tie.Count("cfg:constructed-from-option-list")
	}
	if s.Cfg.Panics {
		tie.Count("cfg:construction-panics")
	}
	for i, op := range s.Ops {
		h.ops++
		key := s.Cfg.line() + "#" + op.key() + "#" + pre
		small := tie == h.tieS || tie == h.tieO || tie == h.tieM || tie == h.tieR || tie == h.tieN
		if small {
			key = scriptKey(s)
			if tie == h.tieR || tie == h.tieN {
				key = s.Cfg.line() + "#" + key
			}
		}
		tie.Record(key, !small || i == len(s.Ops)-1, map[string]any{"script": prefix(s, i+1)}, model[i], code[i])
		tie.Count("op:" + op.Op)
		if op.Site != "" {
			tie.Count(fmt.Sprintf("nested:%s site=%s calls=%d err=%s", op.Op, op.Site, len(op.In), part(code[i], "err")))
		}
		h.cover.call(op.Op, unspell(op))
		if op.isWrite() {
			// the reader of a write in this tie: the next read call of the script, if any
			for _, rd := range s.Ops[i+1:] {
				if !rd.isWrite() {
					h.cover.cross(op.Op, unspell(op), []string{"rm", "inc"}, unspell(rd))
					break
				}
			}
		}
		tie.Count("err:" + part(code[i], "err"))
		for _, t := range op.Opts {
			tie.Count("opt:" + strings.SplitN(t, "=", 2)[0])
		}
		h.mon.Eval(key, true, nil)
		monitorOp(h.mon, s, i, want[i], code[i], pre, notes[i])
		if op.isWrite() && code[i] != constructPanic {
			pre = afterBar(code[i])
		}
	}
}

func scriptKey(s Script) string {
	var b strings.Builder
	for _, op := range s.Ops {
		b.WriteString(op.key() + ";")
		if op.Off > 0 {
			fmt.Fprintf(&b, "@%d;", op.Off)
		}
	}
	return b.String()
}

// part extracts `key=value` from an answer (value up to the next space).
func part(ans, key string) string {
	for _, t := range strings.Split(ans, " ") {
		if strings.HasPrefix(t, key+"=") {
			return t[len(key)+1:]
		}
	}
	return ""
}

func afterBar(ans string) string {
	if i := strings.Index(ans, " | "); i >= 0 {
		return ans[i+3:]
	}
	return ans
}

func stOf(dump string) string { return part(dump, "st") }

var callName = map[string]string{"upd": "Collection.Update", "add": "Collection.Add", "del": "Collection.Delete",
	"get": "Collection.Get", "list": "Collection.List", "vset": "Value.Set", "vget": "Value.Get"}

// monitorOp evaluates the property on one call of the real code: want is the oracle's answer,
// got the code's, pre the contents dump before the call.
func monitorOp(m *lib.Monitor, s Script, i int, want, got, pre, note string) {
	op := s.Ops[i]
	in := map[string]any{"script": prefix(s, i+1)}
	name := "C01/" + callName[op.Op]
	if want == constructPanic || got == constructPanic {
		// the resource is constructed from an option list: it panics exactly when the reference says so
		if want != got {
			m.Violate("C01/New/construction", "constructing the resource from its option list panics although the reference does not, or the other way round (WithInitialRecord panics exactly when the id was already given)", in, want, got)
		}
		return
	}
	if i == 0 && s.Cfg.Kind == "coll" && s.Cfg.Icpt != "" && len(s.Cfg.Init) > 0 {
		monitorInitialRecords(m, s)
	}
	if strings.HasPrefix(got, "panic:") || strings.HasPrefix(got, "!") {
		m.Violate(name+"/panic-or-stall", "the call panicked or did not return", in, want, got)
		return
	}
	if note != "" {
		m.Violate(name+"/caller-options-overwritten", "the call wrote to the option slice of its caller: later calls given a longer view of the same slice run with other options than the caller put there", in, "the caller's option array unchanged", note)
	}
	if !op.isWrite() {
		if want != got {
			m.Violate(name+"/wrong-result", "read returns something else than the reference map", in, want, got)
		}
		return
	}
	failed := part(got, "err") != "-"
	if op.Site != "" {
		monitorNested(m, s, i, want, got, pre)
	} else if failed {
		// the property's frame clause, stated directly on the code's own observations
		if stOf(afterBar(got)) != stOf(pre) {
			m.Violate("C01/failed-call/contents-changed", "a failing call changed the contents", in, stOf(pre), stOf(afterBar(got)))
		}
		if e := part(got, "ev"); e != "[]" && e != "#0" {
			m.Violate("C01/failed-call/event-emitted", "a failing call emitted a bus event", in, "[]", part(got, "ev"))
		}
	}
	// a write generates its id when the caller gave none (the id as given is empty, whatever the id
	// interceptor makes of the empty id) or gave one the interceptor maps to the empty key
	if op.has("gid") && (op.Op == "add" || op.Op == "upd") && s.Cfg.Kind == "coll" && probed(s.Cfg) && (op.ID == "" || newOracle(s.Cfg).icpt(op.ID) == "") {
		if !failed {
			monitorGenID(m, s, i, got, pre)
		} else if rop := resolve(op); part(got, "err") == "AlreadyExists" && !rop.has("chk") && op.Site == "" {
			// "a generated id is unused": such a write cannot find an item under its id (theorem
			// C01_generated_id_never_exists), unless AlreadyExists is what the caller's own check answered
			m.Violate("C01/genid/generated-id-already-exists", "a write that was given no id and generates one (WithGenIDIfAbsent) answered AlreadyExists: no id was generated, the empty id's image under the id interceptor was used as the key", in, "a fresh generated id (or Aborted when ten candidates are in use)", got)
		}
	}
	if s.Cfg.Kind == "coll" {
		for _, id := range outputIDs(got) {
			if !inIcptImage(s.Cfg.Icpt, id) {
				m.Violate(name+"/raw-id-in-output", "an id in a bus event or handed to the id callback is not an id the interceptor produces (every entry point works on intercepted ids)", in, "an id in the image of interceptor '"+s.Cfg.Icpt+"'", id)
			}
		}
	}
	for _, p := range []struct{ key, sig, what string }{
		{"err", "/wrong-code", "error code differs from the reference"},
		{"val", "/wrong-result", "returned message differs from the reference"},
		{"ev", "/wrong-events", "bus events differ from the reference"},
		{"in", "/nested-results", "what the calls made from the write's own callback returned differs from the reference"},
		{"ids", "/id-callback", "id callback invocations differ from the reference"},
		{"created", "/created-callback", "created callback invocations differ from the reference"},
		{"st", "/wrong-contents", "contents (ids, messages, stored times) after the call differ from the reference"},
		{"clk", "/clock-reads", "number of clock reads differs from the reference"},
	} {
		if w, g := part(want, p.key), part(got, p.key); w != g {
			m.Violate(name+p.sig, p.what, in, p.key+"="+w, p.key+"="+g)
			return
		}
	}
}

// monitorInitialRecords: a Collection is a map keyed by the ids its entry points are handed - an initial
// record given as id is what Get(id) returns on the fresh collection, whatever the id interceptor does
// to ids (stated directly on the real code, independently of oracle and model).
func monitorInitialRecords(m *lib.Monitor, s Script) {
	r := newReal(s.Cfg, false)
	if r.panicked != "" {
		return
	}
	defer r.close()
	for _, rec := range s.Cfg.Init {
		p := strings.SplitN(rec, "~", 2)
		want := rparse(p[1]).String()
		m.Count("initial-record:get-checked")
		if g := r.runRead(Op{Op: "get", ID: p[0]}); g != want {
			m.Violate("C01/NewCollection/initial-record-not-under-intercepted-id", "Get(id) on a fresh collection does not return the initial record given as id: the record is not kept under the id interceptor's image of its id, the key every entry point looks up",
				map[string]any{"script": Script{Cfg: s.Cfg, Ops: []Op{{Op: "list"}, {Op: "get", ID: p[0]}}}}, want, g)
			return
		}
	}
}

// outputIDs: the ids in the events and id-callback invocations of an answer.
func outputIDs(ans string) []string {
	var ids []string
	if ev := strings.Trim(part(ans, "ev"), "[]"); ev != "" && !strings.HasPrefix(ev, "#") {
		for _, e := range strings.Split(ev, ";") {
			ids = append(ids, strings.SplitN(e, "|", 2)[0])
		}
	}
	if cb := strings.Trim(part(ans, "ids"), "[]"); cb != "" {
		ids = append(ids, strings.Split(cb, ";")...)
	}
	return ids
}

// inIcptImage: is id = icpt(x) for some x (decided per named interceptor, independently of any run)
func inIcptImage(icpt, id string) bool {
	switch icpt {
	case "lower":
		return lowerASCII(id) == id
	case "first":
		return len(id) <= 1
	case "dash":
		return strings.HasPrefix(id, "-")
	case "dup":
		return len(id)%2 == 0 && id[:len(id)/2] == id[len(id)/2:]
	}
	return true
}

// monitorGenID: a generated id is non-empty, was unused, is reported exactly once, and is usable
// for a later Get (checked on the real code by re-running the prefix and issuing the Get).
func monitorGenID(m *lib.Monitor, s Script, i int, got, pre string) {
	in := map[string]any{"script": prefix(s, i+1)}
	id := ""
	if evs := listItems(part(got, "ev")); len(evs) > 0 {
		id = strings.SplitN(evs[len(evs)-1], "|", 2)[0] // the call's own event (after those of calls made from its callbacks)
	}
	if id == "" {
		m.Violate("C01/genid/empty-id", "generated id is empty", in, "non-empty id", got)
		return
	}
	if strings.Contains(stOf(pre), "["+id+"~") || strings.Contains(stOf(pre), ";"+id+"~") {
		m.Violate("C01/genid/id-in-use", "generated id was already a key", in, "unused id", id)
	}
	if resolve(s.Ops[i]).has("icb") && part(got, "ids") != "["+id+"]" {
		m.Violate("C01/genid/callback", "generated id not reported exactly once through the id callback", in, "["+id+"]", part(got, "ids"))
	}
	// usable: Get(id) on the real code returns the value just written. Every entry point applies the id
	// interceptor to the id it is given, so this is claimed for ids
	// on which the interceptor is idempotent (`dash` is not).
	if ic := newOracle(s.Cfg).icpt; ic(ic(id)) != ic(id) {
		m.Count("genid:interceptor-not-idempotent-on-id")
		return
	}
	m.Count("genid:usable-checked")
	r := newReal(s.Cfg, false)
	r.share = s.Share
	r.prepare(s.Ops[:i+1])
	defer r.close()
	for _, op := range s.Ops[:i+1] {
		if op.isWrite() {
			r.runWrite(op)
		}
	}
	if g := r.runRead(Op{Op: "get", ID: id}); g != part(got, "val") {
		m.Violate("C01/genid/Get-misses-generated-id", "Get(generated id) does not return the item just created", in, part(got, "val"), g)
	}
	if a, _ := r.runWrite(Op{Op: "del", ID: id}); part(a, "err") != "-" || part(a, "val") != part(got, "val") {
		m.Violate("C01/genid/Delete-misses-generated-id", "Delete(generated id) does not remove the item just created", in, "val="+part(got, "val")+" err=-", a)
	}
}

// ---------------------------------------------------------------------------------------------
// generators

func fixedScripts() []Script {
	zeros := Cfg{Kind: "coll", Tick: 1, Icpt: "lower"}
	return []Script{
		// boundary write times (zero time.Time, Unix epoch): stored and announced as given
		{Cfg: Cfg{Kind: "coll", Tick: 1}, Ops: []Op{{Op: "add", ID: "a", Msg: "1//-", Opts: []string{"wt=" + zeroInstant}},
			{Op: "upd", ID: "a", Msg: "2//-", Opts: []string{"wt=" + showTime(time.Unix(0, 0))}}, {Op: "upd", ID: "a", Msg: "3//-", Opts: []string{"wt=" + zeroInstant}}}},
		{Cfg: Cfg{Kind: "val", Tick: 1}, Ops: []Op{{Op: "vset", Msg: "1//-", Opts: []string{"wt=" + zeroInstant}}}},
		// generated id under a lower-casing id interceptor (all-zero rng -> "AAAAAAAA")
		{Cfg: zeros, Ops: []Op{{Op: "add", ID: "", Msg: "1//-", Opts: []string{"gid", "icb"}}, {Op: "list"}}},
		// no id given behind a prefixing id interceptor ("" -> "-"): every such Add gets a generated id (fix 929e9c0)
		{Cfg: Cfg{Kind: "coll", Tick: 1, Icpt: "dash"}, Ops: []Op{{Op: "add", ID: "", Msg: "1//-", Opts: []string{"gid", "icb"}},
			{Op: "add", ID: "", Msg: "2//-", Opts: []string{"gid"}}, {Op: "upd", ID: "", Msg: "3//-", Opts: []string{"gid", "cia", "icb"}}, {Op: "list"}}},
		// forced collisions and exhaustion: 11 generated ids from an all-zero rng
		{Cfg: Cfg{Kind: "coll", Tick: 1}, Ops: repeatOp(Op{Op: "add", ID: "", Msg: "1//-", Opts: []string{"gid", "icb", "ccb"}}, 11)},
		// failing Add still fires the created callback
		{Cfg: Cfg{Kind: "coll", Tick: 1}, Ops: []Op{{Op: "add", ID: "a", Msg: "1//-", Opts: []string{"ccb", "chk=fail:FailedPrecondition"}}, {Op: "list"}}},
		// an update mask widened by WithMoreUpdateMask keeps its paths as given (fix 5cc1d68): a path inside
		// another one is not dropped, so an unknown nested path is still rejected
		{Cfg: Cfg{Kind: "coll", Tick: 1, Init: []string{"a~1/x/-/5:6/-"}}, Ops: []Op{
			{Op: "upd", ID: "a", Msg: "2//-/7:0/-", Opts: []string{"um=f", "mum=fx"}},
			{Op: "upd", ID: "a", Msg: "2//-/7:0/-", Opts: []string{"um=f,fx"}},
			{Op: "upd", ID: "a", Msg: "2//-/7:0/-", Opts: []string{"mum=fx", "um=f", "mum=fc"}}, {Op: "get", ID: "a", Opts: []string{"rm=fx"}}}},
		{Cfg: Cfg{Kind: "val", Tick: 1}, Ops: []Op{{Op: "vget"}, {Op: "vset", Msg: "1/x/-"}, {Op: "vset", Msg: "2//-", Opts: []string{"ev=1/x/-", "um=a"}}, {Op: "vget", Opts: []string{"rm=s"}}}},
		// masks naming two fields of one level of which one name is a textual prefix of the other
		// (open_percent, open_percent_tween): both are named, in either order, in every kind of mask
		{Cfg: Cfg{Kind: "val", Tick: 1, Init: []string{"0//-/-/-/10/-"}}, Ops: []Op{
			{Op: "vset", Msg: "0//-/-/-/50/25", Opts: []string{"um=p,t"}}, {Op: "vget", Opts: []string{"rm=t,p"}},
			{Op: "vset", Msg: "0//-/-/-/7/-", Opts: []string{"um=p", "rs=tp,p,t"}}, {Op: "vget"}}},
		{Cfg: Cfg{Kind: "coll", Tick: 1, W: strPtr("p")}, Ops: []Op{
			{Op: "upd", ID: "a", Msg: "0//-/-/-/50/25", Opts: []string{"cia", "um=t"}},
			{Op: "upd", ID: "a", Msg: "0//-/-/-/50/25", Opts: []string{"cia", "mw=t", "um=t,p"}}, {Op: "list", Opts: []string{"rm=p,tp"}}}},
	}
}

func strPtr(s string) *string { return &s }

func repeatOp(o Op, n int) []Op {
	out := make([]Op, n)
	for i := range out {
		out[i] = o
	}
	return out
}

// genScript generates a call sequence while stepping the oracle, so that ids and preconditions can
// be chosen relative to the current contents.
func genScript(r *rand.Rand, n int) Script {
	genPos = r.Intn(5) == 0 // one script in five works on OpenClosePosition messages
	defer func() { genPos = false }()
	s := Script{Cfg: genCfg(r), Share: r.Intn(3) == 0}
	o := newOracle(s.Cfg)
	genHeavy := r.Intn(6) == 0
	// a caller that keeps one option list for the whole run and passes prefixes of it
	var master, masterR []string
	if s.Share {
		for len(master) < 3 {
			master = append(master, genWriteOpts(r, "upd", nil)...)
		}
		masterR = append(genReadOpts(r, true), genReadOpts(r, true)...)
	}
	for i := 0; i < n; i++ {
		var op Op
		if s.Cfg.Kind == "val" {
			if r.Intn(4) == 0 {
				op = Op{Op: "vget", Opts: genReadOpts(r, false)}
			} else {
				op = Op{Op: "vset", Msg: genMsg(r), Opts: genWriteOpts(r, "vset", o.val)}
			}
		} else {
			id := pick(r, idPool)
			if len(o.items) > 0 && r.Intn(3) == 0 {
				ids := make([]string, 0, len(o.items))
				for k := range o.items {
					ids = append(ids, k)
				}
				id = pick(r, sortedCopy(ids))
				if s.Cfg.Icpt == "lower" && r.Intn(2) == 0 {
					id = strings.ToUpper(id)
				}
			}
			var cur *rmsg
			if it, ok := o.items[o.icpt(id)]; ok {
				cur = &it.m
			}
			k := r.Intn(100)
			switch {
			case genHeavy && k < 50:
				op = Op{Op: "add", ID: "", Msg: genMsg(r), Opts: []string{"gid", "icb"}}
			case k < 30:
				op = Op{Op: "upd", ID: id, Msg: genMsg(r), Opts: genWriteOpts(r, "upd", cur)}
			case k < 50:
				op = Op{Op: "add", ID: id, Msg: genMsg(r), Opts: genWriteOpts(r, "add", cur)}
			case k < 65:
				op = Op{Op: "del", ID: id, Opts: genWriteOpts(r, "del", cur)}
			case k < 85:
				op = Op{Op: "get", ID: id, Opts: genReadOpts(r, false)}
			default:
				op = Op{Op: "list", Opts: genReadOpts(r, true)}
			}
		}
		op.Opts = respell(r, withRepeats(r, op.Opts, op.Op))
		if s.Share && r.Intn(5) < 3 {
			if op.isWrite() {
				k := r.Intn(len(master) + 1)
				j := 0
				if r.Intn(3) == 0 {
					j = r.Intn(k + 1) // a view that does not start at the beginning of the caller's list
				}
				op.Opts, op.Off = master[j:k:k], j
			} else if len(masterR) > 0 {
				k := r.Intn(len(masterR) + 1)
				op.Opts = nil
				if r.Intn(3) == 0 {
					op.Off = r.Intn(k + 1)
				}
				for _, t := range masterR[op.Off:k] {
					if op.Op == "list" || !strings.HasPrefix(t, "inc=") {
						op.Opts = append(op.Opts, t)
					}
				}
			}
		}
		// one write in six makes calls on the same resource from one of its own callbacks (nested.go)
		if !s.Share && op.Off == 0 && (op.Op == "vset" || op.Op == "upd" || op.Op == "add" || op.Op == "del") && r.Intn(6) == 0 {
			var cur *rmsg
			if s.Cfg.Kind == "val" {
				cur = o.val
			} else if it, ok := o.items[o.icpt(op.ID)]; ok {
				cur = &it.m
			}
			op = withNested(r, op, cur)
		}
		o.step(op)
		s.Ops = append(s.Ops, op)
	}
	return s
}

// smallScope runs ALL sequences of length <= maxLen over a small alphabet.
func (h *harness) smallScope(maxLen int) {
	var alpha []Op
	for _, id := range []string{"a", "b"} {
		for _, m := range []string{"1//-", "2/x/-"} {
			alpha = append(alpha, Op{Op: "add", ID: id, Msg: m}, Op{Op: "upd", ID: id, Msg: m},
				Op{Op: "upd", ID: id, Msg: m, Opts: []string{"cia", "um=a"}})
		}
		alpha = append(alpha, Op{Op: "del", ID: id}, Op{Op: "del", ID: id, Opts: []string{"am", "chk=aEq:1"}}, Op{Op: "get", ID: id})
	}
	alpha = append(alpha, Op{Op: "list"})
	cfg := Cfg{Kind: "coll", Tick: 1}
	var rec func(ops []Op)
	rec = func(ops []Op) {
		if len(ops) > 0 {
			h.runScript(Script{Cfg: cfg, Ops: ops}, h.tieS)
		}
		if len(ops) == maxLen {
			return
		}
		for _, a := range alpha {
			rec(append(append([]Op(nil), ops...), a))
		}
	}
	rec(nil)
	h.tieS.Count(fmt.Sprintf("alphabet=%d maxLen=%d", len(alpha), maxLen))
	if maxLen > 3 {
		maxLen = 3 // the further families stay at length 3 in the thorough tier too
	}
	// the same under the lower-casing id interceptor: two spellings of one id, and the empty id with id
	// generation from an all-zero rng (every candidate of a length is the same string: collisions)
	alpha = nil
	for _, id := range []string{"a", "A", ""} {
		alpha = append(alpha, Op{Op: "add", ID: id, Msg: "1//-", Opts: []string{"gid", "icb"}},
			Op{Op: "upd", ID: id, Msg: "2/x/-", Opts: []string{"cia", "gid", "icb", "ccb"}},
			Op{Op: "del", ID: id}, Op{Op: "get", ID: id})
	}
	alpha = append(alpha, Op{Op: "list"}, Op{Op: "get", ID: "aaaaaaaa"}, Op{Op: "del", ID: "AAAAAAAA"})
	cfg = Cfg{Kind: "coll", Tick: 1, Icpt: "lower"}
	rec(nil)
	h.tieS.Count(fmt.Sprintf("interceptor: alphabet=%d maxLen=%d", len(alpha), maxLen))
	// under the prefixing interceptor `dash` ("" -> "-": the empty id gets a key of its own, which is not an
	// id the caller provided): the empty id with and without id generation next to the id "-" itself and the
	// id the first generation yields, from the same colliding rng
	alpha = nil
	for _, id := range []string{"", "-"} {
		alpha = append(alpha, Op{Op: "add", ID: id, Msg: "1//-", Opts: []string{"gid", "icb"}},
			Op{Op: "upd", ID: id, Msg: "2/x/-", Opts: []string{"cia", "gid", "icb", "ccb"}},
			Op{Op: "del", ID: id}, Op{Op: "get", ID: id})
	}
	alpha = append(alpha, Op{Op: "list"}, Op{Op: "add", ID: "", Msg: "1//-"}, Op{Op: "upd", ID: "", Msg: "2/x/-", Opts: []string{"gid"}},
		Op{Op: "get", ID: "AAAAAAAA"}, Op{Op: "del", ID: "AAAAAAAA"})
	cfg = Cfg{Kind: "coll", Tick: 1, Icpt: "dash"}
	rec(nil)
	h.tieS.Count(fmt.Sprintf("prefixing interceptor: alphabet=%d maxLen=%d", len(alpha), maxLen))
	// several writes on ONE resource with restricted writable fields, each with its own way of widening
	// them (or none): what a write may touch depends on its own options only, never on an earlier write
	for _, kind := range []string{"val", "coll"} {
		alpha = nil
		for _, m := range []string{"1/x/-", "2//4"} {
			os := [][]string{nil, {"nw"}, {"mw=s"}, {"um=a"}, {"rs=c", "nw"}}
			// the same options in their With…Paths spelling (and an EmptyWriteOption between them)
			if kind == "val" {
				os = append(os, []string{"ump=a", "nop", "rsp=c"})
			} else {
				os = append(os, []string{"ump=a", "mwp=s", "mump=s"})
			}
			for _, o := range os {
				if kind == "val" {
					alpha = append(alpha, Op{Op: "vset", Msg: m, Opts: o})
				} else {
					alpha = append(alpha, Op{Op: "upd", ID: "a", Msg: m, Opts: append([]string{"cia"}, o...)})
				}
			}
		}
		w := "a"
		cfg = Cfg{Kind: kind, Tick: 1, W: &w}
		if kind == "val" {
			cfg.Init = []string{"3/yy/0"}
			alpha = append(alpha, Op{Op: "vget"})
		} else {
			alpha = append(alpha, Op{Op: "get", ID: "a"})
		}
		rec(nil)
		h.tieS.Count(fmt.Sprintf("writable-fields %s: alphabet=%d maxLen=%d", kind, len(alpha), maxLen))
	}
	// the same on the second message type: only open_percent is writable; its sibling open_percent_tween
	// (whose name starts with open_percent) becomes writable / written / reset only by the options of the
	// write at hand
	alpha = nil
	for _, m := range []string{"0//-/-/-/50/25", "0//-/-/-/7/-"} {
		for _, o := range [][]string{nil, {"nw"}, {"mw=t"}, {"um=p"}, {"mw=t", "um=t,p"}, {"rs=t", "nw", "um=p"}} {
			alpha = append(alpha, Op{Op: "vset", Msg: m, Opts: o})
		}
	}
	alpha = append(alpha, Op{Op: "vget", Opts: []string{"rm=p,t"}})
	cfg = Cfg{Kind: "val", Tick: 1, W: strPtr("p"), Init: []string{"0//-/-/-/3/9"}}
	rec(nil)
	h.tieS.Count(fmt.Sprintf("writable-fields, prefix-related names: alphabet=%d maxLen=%d", len(alpha), maxLen))
}

// maskScope: the full product of mask shapes around the nested message field (parent, children, both).
func (h *harness) maskScope(thorough bool) {
	ws := []string{"", "f", "fc", "fc,fd", "a,fd", "0"}
	ums := []string{"", "0", "f", "fc", "fd", "fc,fd", "f,fc", "a,fc", "fd,x"}
	rss := []string{"", "fc"}
	stored := []string{"", "1/x/-", "1/x/-/5:6/-", "1//-/0:0/-"}
	written := []string{"2//-", "2//-/0:9/-", "2//-/3:0/-", "0//-/0:0/-"}
	if thorough {
		ws = append(ws, "f,fc", "a,s,c,r", "fd")
		ums = append(ums, "fd,f", "fc,fc", "a", "fc,fd,s")
		rss = append(rss, "f", "fd,fc", "a,fd")
		written = append(written, "2/y/4/7:7/1")
	}
	n := 0
	for _, w := range ws {
		for _, um := range ums {
			for _, rs := range rss {
				for _, st := range stored {
					for _, wr := range written {
						cfg := Cfg{Kind: "coll", Tick: 1}
						if w != "" {
							w := w
							cfg.W = &w
						}
						if st != "" {
							cfg.Init = []string{"a~" + st}
						}
						opts := []string{"cia"}
						if um != "" {
							opts = append(opts, "um="+um)
						}
						if rs != "" {
							opts = append(opts, "rs="+rs)
						}
						ops := []Op{{Op: "upd", ID: "a", Msg: wr, Opts: opts}, {Op: "get", ID: "a", Opts: []string{"rm=fc"}},
							{Op: "get", ID: "a", Opts: []string{"rm=fd,f"}}, {Op: "list", Opts: []string{"rm=a,fd"}}}
						h.runScript(Script{Cfg: cfg, Ops: ops}, h.tieM)
						n++
					}
				}
			}
		}
	}
	h.tieM.Count(fmt.Sprintf("combinations=%d", n))
	// the same product on the second message type: a scalar field and a nested message field of one level
	// whose names are related by textual prefix (open_percent / open_percent_tween), and a path inside the latter
	ws = []string{"", "p", "t", "p,t", "tp,p", "0"}
	ums = []string{"", "0", "p", "t", "p,t", "t,p", "tp", "tp,p", "p,t,tp"}
	rss = []string{"", "t", "t,p", "p,tp"}
	stored = []string{"", "0//-/-/-/10/-", "0//-/-/-/10/30"}
	written = []string{"0//-/-/-/50/25", "0//-/-/-/50/-", "0//-/-/-/0/25", "0//-/-/-/0/0"}
	if thorough {
		ws = append(ws, "t,p", "tp")
		ums = append(ums, "tp,t", "p,p", "t,x")
		rss = append(rss, "p", "tp", "p,t,tp")
		stored = append(stored, "0//-/-/-/0/0")
	}
	n = 0
	for _, w := range ws {
		for _, um := range ums {
			for _, rs := range rss {
				for _, st := range stored {
					for _, wr := range written {
						cfg := Cfg{Kind: "coll", Tick: 1}
						if w != "" {
							cfg.W = strPtr(w)
						}
						if st != "" {
							cfg.Init = []string{"a~" + st}
						}
						opts := []string{"cia"}
						if um != "" {
							opts = append(opts, "um="+um)
						}
						if rs != "" {
							opts = append(opts, "rs="+rs)
						}
						ops := []Op{{Op: "upd", ID: "a", Msg: wr, Opts: opts}, {Op: "get", ID: "a", Opts: []string{"rm=p,t"}},
							{Op: "get", ID: "a", Opts: []string{"rm=t,p"}}, {Op: "list", Opts: []string{"rm=tp,p"}}, {Op: "get", ID: "a", Opts: []string{"rm=t"}}}
						h.runScript(Script{Cfg: cfg, Ops: ops}, h.tieM)
						n++
					}
				}
			}
		}
	}
	h.tieM.Count(fmt.Sprintf("prefix-related names: combinations=%d", n))
}

// sharedScope runs ALL sequences of length <= maxLen in which
// every call is given a view opts[:k] of one option slice the caller keeps for the whole run.
func (h *harness) sharedScope(maxLen int) {
	lists := []struct {
		w, r   []string
		maxLen int
	}{
		{[]string{"um=a", "chk=aEq:1", "af=stampC", "cia"}, []string{"rm=a", "inc=aPos", "rm=s"}, maxLen},
		{[]string{"ev=1//-", "am", "bf=bumpA", "xa", "wt=5"}, []string{"inc=sEmpty", "rm=c"}, maxLen},
		{[]string{"gid", "icb", "ccb", "rs=s", "nw"}, []string{"rm=0"}, maxLen},
		// callbacks, a check and an interceptor given and then replaced by nil: each view ends at another point
		{[]string{"gid", "icb", "ccb", "chk=fail:Aborted", "icb0", "bf=bumpA", "chk=nil", "ccb0", "bf=nil"}, []string{"rm=a"}, 2},
	}
	for li, l := range lists {
		var alpha []Op
		for k := 0; k <= len(l.w); k++ {
			v := l.w[:k:k]
			alpha = append(alpha, Op{Op: "add", ID: "a", Msg: "1/x/-", Opts: v}, Op{Op: "upd", ID: "a", Msg: "2//4", Opts: v},
				Op{Op: "del", ID: "a", Opts: v})
			if li >= 2 {
				alpha = append(alpha, Op{Op: "add", ID: "", Msg: "3//-", Opts: v})
			}
			// the views opts[1:k] as well (the first two lists): a view need not start where the array starts
			if li < 2 && k >= 2 {
				v := l.w[1:k:k]
				alpha = append(alpha, Op{Op: "add", ID: "a", Msg: "1/x/-", Opts: v, Off: 1}, Op{Op: "upd", ID: "a", Msg: "2//4", Opts: v, Off: 1})
			}
		}
		for k := 0; k <= len(l.r); k++ {
			alpha = append(alpha, Op{Op: "list", Opts: l.r[:k:k]})
			if k >= 2 {
				alpha = append(alpha, Op{Op: "list", Opts: l.r[1:k:k], Off: 1})
			}
		}
		cfg := Cfg{Kind: "coll", Tick: 1}
		if li >= 2 {
			w := "a,s"
			cfg.W = &w
		}
		var rec func(ops []Op)
		rec = func(ops []Op) {
			if len(ops) > 0 {
				h.runScript(Script{Cfg: cfg, Ops: ops, Share: true}, h.tieO)
			}
			if len(ops) == l.maxLen {
				return
			}
			for _, a := range alpha {
				rec(append(append([]Op(nil), ops...), a))
			}
		}
		rec(nil)
		h.tieO.Count(fmt.Sprintf("list %d: alphabet=%d maxLen=%d", li, len(alpha), l.maxLen))
	}
}

// resScope runs, for ALL ordered lists of resource options up to maxLen over a small alphabet, a fixed
// probe sequence on the resource constructed from the list.
func (h *harness) resScope(maxLen int) {
	fams := []struct {
		kind  string
		alpha []string
		probe []Op
	}{
		{"coll", []string{"W:a", "W:nil", "Wp:s", "icpt:lower", "icpt:nil", "rec:a~1/x/-", "rec:A~2//-", "rec:a~3//4", "nop", "eqv:sameA", "init:5//-"},
			[]Op{{Op: "list"}, {Op: "get", ID: "A"}, {Op: "upd", ID: "a", Msg: "9/z/4", Opts: []string{"um=a"}},
				{Op: "add", ID: "A", Msg: "8/y/-"}, {Op: "del", ID: "a"}, {Op: "list", Opts: []string{"rm=s"}}}},
		{"val", []string{"W:a", "W:nil", "Wp:s", "init:1/x/-", "init:nil", "init:2//4", "rec:a~1/x/-", "eqv:always", "nop", "icpt:lower"},
			[]Op{{Op: "vget"}, {Op: "vset", Msg: "9/z/4"}, {Op: "vset", Msg: "7//-", Opts: []string{"um=s"}}, {Op: "vget", Opts: []string{"rm=a,s"}}}},
	}
	for _, fam := range fams {
		n := 0
		var rec func(res []string)
		rec = func(res []string) {
			if len(res) > 0 {
				cfg := resolveRes(Cfg{Kind: fam.kind, Tick: 1, Res: res})
				h.runScript(Script{Cfg: cfg, Ops: fam.probe}, h.tieR)
				n++
			}
			if len(res) == maxLen {
				return
			}
			for _, a := range fam.alpha {
				rec(append(append([]string(nil), res...), a))
			}
		}
		rec(nil)
		h.tieR.Count(fmt.Sprintf("%s: alphabet=%d maxLen=%d lists=%d", fam.kind, len(fam.alpha), maxLen, n))
	}
}

// ---------------------------------------------------------------------------------------------

func replay(f lib.Flags) int {
	rp, err := lib.ReadReplay(f.Replay)
	if err != nil {
		lib.Fatal(err)
	}
	in, ok := rp.Input.(map[string]any)
	if ok && in["paths"] != nil {
		b, _ := json.Marshal(in["paths"])
		var c PathCase
		if err := json.Unmarshal(b, &c); err != nil {
			lib.Fatal(err)
		}
		return replayPaths(c)
	}
	if ok && in["floats"] != nil {
		b, _ := json.Marshal(in["floats"])
		var c FloatCase
		if err := json.Unmarshal(b, &c); err != nil {
			lib.Fatal(err)
		}
		return replayFloats(c)
	}
	if !ok || in["script"] == nil {
		fmt.Println("replay: no concrete input in file (", rp.Kind, rp.Broken, ")")
		return 2
	}
	b, _ := json.Marshal(in["script"])
	var s Script
	if err := json.Unmarshal(b, &s); err != nil {
		lib.Fatal(err)
	}
	if len(s.Cfg.Res) > 0 {
		s.Cfg = resolveRes(s.Cfg)
	}
	m := lib.NewMonitor("replay", "")
	code, pre, notes := runCode(s)
	want := runOracle(s)
	for i, op := range s.Ops {
		fmt.Printf("%-60s -> %s\n", op.line(), code[i])
		monitorOp(m, s, i, want[i], code[i], pre, notes[i])
		if op.isWrite() {
			pre = afterBar(code[i])
		}
	}
	if len(m.Violations) > 0 {
		for _, v := range m.Violations {
			fmt.Printf("STILL FAILS %s: %s (expected %s, observed %s)\n", v.Signature, v.What, v.Expected, v.Observed)
		}
		return 1
	}
	fmt.Println("replay: property holds on this input now")
	return 0
}
