package main

import (
	"fmt"
	"sort"
	"strings"

	"google.golang.org/grpc/codes"
	"google.golang.org/grpc/status"
	"google.golang.org/protobuf/proto"
	"google.golang.org/protobuf/reflect/protoreflect"
	"google.golang.org/protobuf/types/known/durationpb"
	"google.golang.org/protobuf/types/known/fieldmaskpb"

	"github.com/smart-core-os/sc-api/go/traits"
	scTypes "github.com/smart-core-os/sc-api/go/types"
	"github.com/smart-core-os/sc-golang/internal/testproto"
	"github.com/smart-core-os/sc-golang/pkg/resource"
	"github.com/smart-core-os/sc-golang/verifharness/lib"
)

// tie K2 "mask-paths": which leaf fields a LIST OF PATH STRINGS names, at every place a Value hands a mask
// to pkg/masks (read mask, update mask, reset mask, writable fields, and Validate's writable test), for
// ALL short lists over an alphabet of real paths of a real message type - parents, children,
// grand-children, and siblings whose names are related by textual prefix. The model side is
// ScVerif/C01/Paths.lean (withoutNestedPaths / selects / isWritablePath on strings), the monitor's oracle
// splits the paths at the dots and compares segments.

type pathFamily struct {
	name   string
	full   func() proto.Message // every leaf populated
	empty  func() proto.Message
	leaves []string
	alpha  []string
}

var pathFamilies = []pathFamily{
	{
		name: "OpenClosePosition",
		full: func() proto.Message {
			return &traits.OpenClosePosition{OpenPercent: 50, TargetOpenPercent: 60,
				OpenPercentTween: &scTypes.Tween{Progress: 25, TotalDuration: &durationpb.Duration{Seconds: 4, Nanos: 5}},
				Direction:        traits.OpenClosePosition_UP, Resistance: traits.OpenClosePosition_HELD}
		},
		empty: func() proto.Message { return &traits.OpenClosePosition{} },
		leaves: []string{"open_percent", "open_percent_tween.progress", "open_percent_tween.total_duration.seconds",
			"open_percent_tween.total_duration.nanos", "target_open_percent", "direction", "resistance"},
		alpha: []string{"open_percent", "open_percent_tween", "open_percent_tween.progress", "open_percent_tween.total_duration",
			"open_percent_tween.total_duration.seconds", "target_open_percent", "direction"},
	},
	{
		name: "TestAllTypes",
		full: func() proto.Message {
			return &testproto.TestAllTypes{DefaultInt32: 1, DefaultInt64: 2,
				DefaultNestedMessage: &testproto.TestAllTypes_NestedMessage{A: 3,
					Corecursive: &testproto.TestAllTypes{DefaultInt32: 4, DefaultInt64: 5}},
				DefaultForeignMessage: &testproto.ForeignMessage{C: 6, D: 7}}
		},
		empty: func() proto.Message { return &testproto.TestAllTypes{} },
		leaves: []string{"default_int32", "default_int64", "default_nested_message.a", "default_nested_message.corecursive.default_int32",
			"default_nested_message.corecursive.default_int64", "default_foreign_message.c", "default_foreign_message.d"},
		alpha: []string{"default_int32", "default_nested_message", "default_nested_message.a", "default_nested_message.corecursive",
			"default_nested_message.corecursive.default_int32", "default_foreign_message", "default_foreign_message.c"},
	},
}

func familyByName(n string) *pathFamily {
	for i := range pathFamilies {
		if pathFamilies[i].name == n {
			return &pathFamilies[i]
		}
	}
	return nil
}

// PathCase is the replayable input of a mask-paths case.
type PathCase struct {
	Family string   `json:"family"`
	Site   string   `json:"site"` // read | update | reset | writable | validate
	Paths  []string `json:"paths"`
	Path   string   `json:"path,omitempty"` // validate: the update path tested against the writable Paths
}

var pathSites = []string{"read", "update", "reset", "writable"}

// hasLeaf: is the leaf field at the dotted path populated
func hasLeaf(m proto.Message, path string) bool {
	cur := m.ProtoReflect()
	segs := strings.Split(path, ".")
	for i, s := range segs {
		fd := cur.Descriptor().Fields().ByName(protoreflect.Name(s))
		if fd == nil || !cur.Has(fd) {
			return false
		}
		if i == len(segs)-1 {
			return true
		}
		cur = cur.Get(fd).Message()
	}
	return false
}

// codeSelected: the leaves the real code treats as named by the paths at the site, one bit per leaf.
func codeSelected(fam *pathFamily, c PathCase) string {
	var out string
	panicked, msg := lib.Catch(func() {
		fm := &fieldmaskpb.FieldMask{Paths: append([]string{}, c.Paths...)}
		var got proto.Message
		var err error
		invert := false
		switch c.Site {
		case "read": // ResponseFilter.FilterClone: the named leaves are kept
			got = resource.NewValue(resource.WithInitialValue(fam.full())).Get(resource.WithReadMask(fm))
		case "update": // FieldUpdater.Merge: the named leaves are written
			got, err = resource.NewValue(resource.WithInitialValue(fam.empty())).Set(fam.full(), resource.WithUpdateMask(fm))
		case "reset": // the named leaves are cleared after the write
			got, err = resource.NewValue(resource.WithInitialValue(fam.full())).Set(fam.full(), resource.WithResetMask(fm))
			invert = true
		case "writable": // only the named leaves can be written
			got, err = resource.NewValue(resource.WithInitialValue(fam.empty()), resource.WithWritableFields(fm)).Set(fam.full())
		}
		if err != nil {
			out = "err:" + status.Code(err).String()
			return
		}
		var b strings.Builder
		for _, l := range fam.leaves {
			if hasLeaf(got, l) != invert {
				b.WriteByte('1')
			} else {
				b.WriteByte('0')
			}
		}
		out = b.String()
	})
	if panicked {
		return "panic:" + msg
	}
	return out
}

// codeWritable: does Validate accept the update path under the writable paths
func codeWritable(fam *pathFamily, c PathCase) string {
	var out string
	panicked, msg := lib.Catch(func() {
		v := resource.NewValue(resource.WithInitialValue(fam.empty()), resource.WithWritableFields(&fieldmaskpb.FieldMask{Paths: append([]string{}, c.Paths...)}))
		_, err := v.Set(fam.full(), resource.WithUpdateMask(&fieldmaskpb.FieldMask{Paths: []string{c.Path}}))
		switch status.Code(err) {
		case codes.OK:
			out = "true"
		case codes.InvalidArgument:
			out = "false"
		default:
			out = "err:" + status.Code(err).String()
		}
	})
	if panicked {
		return "panic:" + msg
	}
	return out
}

// segPrefix: the oracle's reading of "path names leaf": the path's segments are a prefix of the leaf's
func segPrefix(path, leaf string) bool {
	p, l := strings.Split(path, "."), strings.Split(leaf, ".")
	if len(p) > len(l) {
		return false
	}
	for i := range p {
		if p[i] != l[i] {
			return false
		}
	}
	return true
}

func oracleSelected(fam *pathFamily, c PathCase) string {
	var b strings.Builder
	for _, l := range fam.leaves {
		bit := byte('0')
		for _, p := range c.Paths {
			if segPrefix(p, l) {
				bit = '1'
			}
		}
		b.WriteByte(bit)
	}
	return b.String()
}

func oracleWritable(c PathCase) string {
	for _, w := range c.Paths {
		if segPrefix(w, c.Path) {
			return "true"
		}
	}
	return "false"
}

// monitorPathCase evaluates one case on the real code against the segment oracle.
func monitorPathCase(m *lib.Monitor, c PathCase, code string) {
	fam := familyByName(c.Family)
	in := map[string]any{"paths": c}
	if strings.HasPrefix(code, "panic:") {
		m.Violate("C01/masks/"+c.Site+"/panic", "handing the mask to the resource panicked", in, "no panic", code)
		return
	}
	if c.Site == "validate" {
		if want := oracleWritable(c); want != code {
			m.Violate("C01/masks/validate/wrong-writable-verdict", "an update path is accepted although no writable path is (a segment-prefix of) it, or rejected although one is", in, want, code)
		}
		return
	}
	if want := oracleSelected(fam, c); want != code {
		m.Violate("C01/masks/"+c.Site+"/wrong-fields-selected", "the mask does not act on exactly the leaf fields its paths name (leaves: "+strings.Join(fam.leaves, ",")+")", in, want, code)
	}
}

// pathScope runs ALL path lists up to maxLen over each family's alphabet at every site.
func (h *harness) pathScope(maxLen int) {
	for fi := range pathFamilies {
		fam := &pathFamilies[fi]
		var lists [][]string
		var rec func(cur []string)
		rec = func(cur []string) {
			if len(cur) > 0 {
				lists = append(lists, append([]string(nil), cur...))
			}
			if len(cur) == maxLen {
				return
			}
			for _, a := range fam.alpha {
				rec(append(cur, a))
			}
		}
		rec(nil)
		sort.SliceStable(lists, func(i, j int) bool { return len(lists[i]) < len(lists[j]) }) // short lists first: the first failing input per signature is kept
		// model: one line per (list, leaf)
		var lines []string
		for _, l := range lists {
			for _, leaf := range fam.leaves {
				lines = append(lines, "sel paths="+strings.Join(l, ",")+" leaf="+leaf)
			}
		}
		ans, err := h.drv.Batch(lines)
		if err != nil {
			h.tieP.Fail(err)
			return
		}
		for li, l := range lists {
			var b strings.Builder
			for k := range fam.leaves {
				switch ans[li*len(fam.leaves)+k] {
				case "true":
					b.WriteByte('1')
				case "false":
					b.WriteByte('0')
				default:
					b.WriteString("?" + ans[li*len(fam.leaves)+k])
				}
			}
			model := b.String()
			for _, site := range pathSites {
				c := PathCase{Family: fam.name, Site: site, Paths: l}
				code := codeSelected(fam, c)
				key := fam.name + "/" + site + "/" + strings.Join(l, ",")
				h.tieP.Record(key, true, map[string]any{"paths": c}, model, code)
				h.tieP.Count("site:" + site)
				h.mon.Eval(key, true, nil)
				monitorPathCase(h.mon, c, code)
			}
		}
		// Validate's writable test: every path of the alphabet against every writable list up to length 2
		lines = lines[:0]
		var cases []PathCase
		for _, l := range lists {
			if len(l) > 2 {
				continue
			}
			for _, p := range fam.alpha {
				cases = append(cases, PathCase{Family: fam.name, Site: "validate", Paths: l, Path: p})
				lines = append(lines, "iwp path="+p+" w="+strings.Join(l, ","))
			}
		}
		ans, err = h.drv.Batch(lines)
		if err != nil {
			h.tieP.Fail(err)
			return
		}
		for i, c := range cases {
			code := codeWritable(fam, c)
			key := fam.name + "/validate/" + c.Path + "/" + strings.Join(c.Paths, ",")
			h.tieP.Record(key, true, map[string]any{"paths": c}, ans[i], code)
			h.tieP.Count("site:validate")
			h.mon.Eval(key, true, nil)
			monitorPathCase(h.mon, c, code)
		}
		h.tieP.Count(fmt.Sprintf("%s: alphabet=%d maxLen=%d lists=%d", fam.name, len(fam.alpha), maxLen, len(lists)))
	}
}

// replayPaths re-runs the monitor on a mask-paths case.
func replayPaths(c PathCase) int {
	fam := familyByName(c.Family)
	if fam == nil {
		fmt.Println("replay: unknown message family", c.Family)
		return 2
	}
	var code string
	if c.Site == "validate" {
		code = codeWritable(fam, c)
	} else {
		code = codeSelected(fam, c)
	}
	fmt.Printf("%s %s paths=%v path=%q -> %s\n", c.Family, c.Site, c.Paths, c.Path, code)
	m := lib.NewMonitor("replay", "")
	monitorPathCase(m, c, code)
	for _, v := range m.Violations {
		fmt.Printf("STILL FAILS %s: %s (expected %s, observed %s)\n", v.Signature, v.What, v.Expected, v.Observed)
	}
	if len(m.Violations) > 0 {
		return 1
	}
	fmt.Println("replay: property holds on this input now")
	return 0
}
