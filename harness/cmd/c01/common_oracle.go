package main

import (
	"encoding/base64"
	"fmt"
	"sort"
	"strconv"
	"strings"
)

// The monitor's oracle: a plain reference register / map written directly in Go, independent of
// the Lean model.  One step per call: resolve the id, decide the error in the documented priority,
// otherwise new = after(old, reset(merge(old, before(old, msg)))) with a FIELDWISE description of
// the masked merge (not the phase-by-phase one the code and the model use).

type rmsg struct {
	a int
	s string
	c *int
	f *[2]int // nested message ForeignMessage{c, d}
	r []int   // repeated field
	// the second message type (OpenClosePosition): open_percent and open_percent_tween{progress}
	p int
	t *int
}

var allFields = []string{"a", "s", "c", "f", "r", "p", "t"}

func rparse(s string) rmsg {
	p := strings.Split(s, "/")
	a, _ := strconv.Atoi(p[0])
	m := rmsg{a: a, s: p[1]}
	if p[2] != "-" {
		c, _ := strconv.Atoi(p[2])
		m.c = &c
	}
	if len(p) == 7 {
		m.p, _ = strconv.Atoi(p[5])
		if p[6] != "-" {
			g, _ := strconv.Atoi(p[6])
			m.t = &g
		}
	}
	if len(p) >= 5 {
		if p[3] != "-" {
			cd := strings.Split(p[3], ":")
			c, _ := strconv.Atoi(cd[0])
			d, _ := strconv.Atoi(cd[1])
			m.f = &[2]int{c, d}
		}
		if p[4] != "-" {
			for _, x := range strings.Split(p[4], ".") {
				n, _ := strconv.Atoi(x)
				m.r = append(m.r, n)
			}
		}
	}
	return m
}

func (m rmsg) String() string { return m.text(false) }

// posString: the seven-part text even when the position fields are at their defaults (the text of a
// message the harness hands to the code decides which real message type is built)
func (m rmsg) posString() string { return m.text(true) }

func (m rmsg) text(pos bool) string {
	c := "-"
	if m.c != nil {
		c = strconv.Itoa(*m.c)
	}
	s := fmt.Sprintf("%d/%s/%s", m.a, m.s, c)
	tail := ""
	if m.p != 0 || m.t != nil || pos {
		t := "-"
		if m.t != nil {
			t = strconv.Itoa(*m.t)
		}
		tail = "/" + strconv.Itoa(m.p) + "/" + t
	}
	if m.f != nil || len(m.r) > 0 || tail != "" {
		f, r := "-", "-"
		if m.f != nil {
			f = fmt.Sprintf("%d:%d", m.f[0], m.f[1])
		}
		if len(m.r) > 0 {
			xs := make([]string, len(m.r))
			for i, x := range m.r {
				xs[i] = strconv.Itoa(x)
			}
			r = strings.Join(xs, ".")
		}
		s += "/" + f + "/" + r
	}
	return s + tail
}

func (m rmsg) equal(o rmsg) bool { return m.String() == o.String() }

func (m rmsg) get(f string) any {
	switch f {
	case "a":
		return m.a
	case "s":
		return m.s
	case "f":
		return m.f
	case "r":
		return m.r
	case "p":
		return m.p
	case "t":
		return m.t
	}
	return m.c
}

// populated: does the message have the field (proto Has)
func (m rmsg) populated(f string) bool {
	switch f {
	case "a":
		return m.a != 0
	case "s":
		return m.s != ""
	case "c":
		return m.c != nil
	case "f":
		return m.f != nil
	case "p":
		return m.p != 0
	case "t":
		return m.t != nil
	}
	return len(m.r) > 0
}

func (m *rmsg) set(f string, v any) {
	switch f {
	case "a":
		m.a = v.(int)
	case "s":
		m.s = v.(string)
	case "c":
		m.c = v.(*int)
	case "f":
		m.f = nil
		if p := v.(*[2]int); p != nil {
			cp := *p
			m.f = &cp
		}
	case "r":
		m.r = append([]int(nil), v.([]int)...)
	case "p":
		m.p = v.(int)
	case "t":
		m.t = nil
		if g := v.(*int); g != nil {
			cp := *g
			m.t = &cp
		}
	}
}

func (m *rmsg) clear(f string) {
	switch f {
	case "a":
		m.a = 0
	case "s":
		m.s = ""
	case "c":
		m.c = nil
	case "f":
		m.f = nil
	case "r":
		m.r = nil
	case "p":
		m.p = 0
	case "t":
		m.t = nil
	}
}

type set map[string]bool

func toSet(mask string) set {
	s := set{}
	for _, l := range maskLetters(mask) {
		s[l] = true
	}
	return s
}

type ritem struct {
	m rmsg
	t string
}

type oracle struct {
	cfg   Cfg
	clk   int
	rng   []int
	items map[string]ritem // collection
	val   *rmsg            // value
	valT  string
}

func newOracle(cfg Cfg) *oracle {
	o := &oracle{cfg: cfg, clk: cfg.Tick, rng: append([]int(nil), cfg.Rng...), items: map[string]ritem{}}
	if cfg.Kind == "val" {
		if len(cfg.Init) > 0 && cfg.Init[0] != "nil" {
			m := rparse(cfg.Init[0])
			o.val, o.valT = &m, "0"
		}
	} else {
		// a map keyed by the ids its entry points work on: an initial record given as id is the entry
		// Get(id) / Update(id) / Delete(id) address, i.e. it is kept under icpt(id)
		for _, rec := range cfg.Init {
			p := strings.SplitN(rec, "~", 2)
			if _, dup := o.items[o.icpt(p[0])]; !dup {
				o.items[o.icpt(p[0])] = ritem{m: rparse(p[1]), t: "0"}
			}
		}
	}
	return o
}

func (o *oracle) icpt(id string) string {
	if o.cfg.Icpt == "" {
		return id
	}
	return namedIcpt(o.cfg.Icpt)(id)
}

func (o *oracle) now() string { t := o.clk; o.clk += o.cfg.Tick; return strconv.Itoa(t) }

// writeTime: a given write time is used whatever its value; otherwise one clock reading.
func (o *oracle) writeTime(op Op) string {
	if v, ok := op.opt("wt"); ok {
		return v
	}
	return o.now()
}

// effective writable set: nil = everything
func (o *oracle) writable(op Op) (set, bool) {
	if op.has("nw") || o.cfg.W == nil {
		return nil, false
	}
	w := toSet(*o.cfg.W)
	if v, ok := op.opt("mw"); ok {
		for l := range toSet(v) {
			w[l] = true
		}
	}
	return w, true
}

// validate: InvalidArgument for an update mask that names an unknown field, or (when writable fields
// are restricted) names a field that is not writable (naming a writable field twice is accepted since
// repo 4d3ae38); Internal for a reset mask
// naming an unknown field.
func (o *oracle) validate(op Op) string {
	if um, ok := op.opt("um"); ok {
		ls := maskLetters(um)
		for _, l := range ls {
			if l == "x" || l == "fx" { // not a field of the message (fx: not a field of the nested message)
				return "InvalidArgument"
			}
		}
		if w, restricted := o.writable(op); restricted {
			for _, l := range ls {
				// a path is writable when it is a writable path or lies inside one (f.c inside f)
				if !w[l] && !((l == "fc" || l == "fd" || l == "fx") && w["f"]) && !(l == "tp" && w["t"]) {
					return "InvalidArgument"
				}
			}
		}
	}
	if rs, ok := op.opt("rs"); ok {
		for _, l := range maskLetters(rs) {
			if l == "x" || l == "fx" {
				return "Internal"
			}
		}
	}
	return ""
}

// write computes the new message (fieldwise), or the error code of a failed precondition.
func (o *oracle) write(op Op, old *rmsg) (rmsg, string) {
	if ev, ok := op.opt("ev"); ok {
		if old == nil || !old.equal(rparse(ev)) {
			return rmsg{}, "FailedPrecondition"
		}
	}
	oldA := 0
	if old != nil {
		oldA = old.a
	}
	if chk, ok := op.opt("chk"); ok {
		p := strings.Split(chk, ":")
		switch p[0] {
		case "aEq":
			k, _ := strconv.Atoi(p[1])
			if oldA != k {
				return rmsg{}, "FailedPrecondition"
			}
		case "fail":
			return rmsg{}, p[1]
		case "nonNil":
			if old == nil {
				return rmsg{}, "NotFound"
			}
		case "sEmpty":
			if old != nil && old.s != "" {
				return rmsg{}, "FailedPrecondition"
			}
		}
	}
	src := rparse(op.Msg)
	if bf, ok := op.opt("bf"); ok {
		switch bf {
		case "addA":
			src.a += oldA
		case "bumpA":
			src.a++
		case "copyC":
			if old != nil {
				src.c = old.c
			}
		}
	}
	dst := rmsg{}
	if old != nil {
		dst = *old
	}
	w, restricted := o.writable(op)
	um, hasUM := op.opt("um")
	// an empty update mask changes nothing; with nothing writable only the reset mask applies (repo 70b9b73)
	noop := hasUM && len(maskLetters(um)) == 0
	if !noop {
		m := toSet(um)
		// the nested message: selected as a whole (its path is writable / named), or some of its sub-fields
		// are (f.c, f.d) - then each selected sub-field takes the written message's value (zero when that
		// lacks the nested message) and the nested message is present if it was or the written one has it
		wholeF, leafC, leafD := !restricted || w["f"], false, false
		if !wholeF {
			leafC, leafD = w["fc"], w["fd"]
		}
		if hasUM {
			if m["f"] {
				// validated: f itself is writable
			} else {
				wholeF, leafC, leafD = false, m["fc"], m["fd"]
			}
		}
		if !wholeF && (leafC || leafD) && (dst.f != nil || src.f != nil) {
			cur, from := [2]int{}, [2]int{}
			if dst.f != nil {
				cur = *dst.f
			}
			if src.f != nil {
				from = *src.f
			}
			if leafC {
				cur[0] = from[0]
			}
			if leafD {
				cur[1] = from[1]
			}
			dst.f = &cur
		}
		// the same for the second nested message, open_percent_tween with its one modelled sub-field. Its
		// name starts with the name of its sibling open_percent: naming (or allowing) one of the two says
		// nothing about the other
		wholeT, leafTP := !restricted || w["t"], false
		if !wholeT {
			leafTP = w["tp"]
		}
		if hasUM && !m["t"] {
			wholeT, leafTP = false, m["tp"]
		}
		if !wholeT && leafTP && (dst.t != nil || src.t != nil) {
			g := 0
			if src.t != nil {
				g = *src.t
			}
			dst.t = &g
		}
		for _, f := range allFields {
			selected := (!restricted || w[f]) && (!hasUM || m[f])
			if f == "f" {
				selected = wholeF && (!hasUM || m["f"])
			}
			if f == "t" {
				selected = wholeT && (!hasUM || m["t"])
			}
			if !selected {
				continue
			}
			switch {
			case !hasUM || !src.populated(f) || (f != "f" && f != "r" && f != "t"):
				// no update mask: the written message replaces; under a mask: a scalar is replaced, and
				// any field the written message does not populate is cleared
				dst.set(f, src.get(f))
			case f == "f":
				// under a mask a nested message is merged: populated sub-fields overwrite, the rest stays
				cur := [2]int{}
				if dst.f != nil {
					cur = *dst.f
				}
				for i := 0; i < 2; i++ {
					if src.f[i] != 0 {
						cur[i] = src.f[i]
					}
				}
				dst.f = &cur
			case f == "t":
				g := 0
				if dst.t != nil {
					g = *dst.t
				}
				if *src.t != 0 {
					g = *src.t
				}
				dst.t = &g
			default:
				// under a mask a repeated field is appended to
				dst.r = append(append([]int(nil), dst.r...), src.r...)
			}
		}
		if rs, ok := op.opt("rs"); ok {
			rset := toSet(rs)
			for f := range rset {
				dst.clear(f)
			}
			if !rset["f"] && dst.f != nil {
				cur := *dst.f
				if rset["fc"] {
					cur[0] = 0
				}
				if rset["fd"] {
					cur[1] = 0
				}
				dst.f = &cur
			}
			if !rset["t"] && rset["tp"] && dst.t != nil {
				z := 0
				dst.t = &z
			}
		}
	}
	if af, ok := op.opt("af"); ok {
		switch af {
		case "stampC":
			c := oldA + dst.a
			dst.c = &c
		case "markS":
			if oldA != dst.a {
				dst.s = "chg"
			}
		case "clearC":
			dst.c = nil
		}
	}
	return dst, ""
}

func b64(bytes []byte) string { return base64.RawURLEncoding.EncodeToString(bytes) }

func (o *oracle) read(n int) []byte {
	b := make([]byte, n)
	for i := 0; i < n && len(o.rng) > 0; i++ {
		b[i] = byte(o.rng[0])
		o.rng = o.rng[1:]
	}
	return b
}

func (o *oracle) dump() string {
	if o.cfg.Kind == "val" {
		if o.val == nil {
			return fmt.Sprintf("st=nil@? clk=%d", o.clk)
		}
		return fmt.Sprintf("st=%s@%s clk=%d", *o.val, o.valT, o.clk)
	}
	ids := make([]string, 0, len(o.items))
	for id := range o.items {
		ids = append(ids, id)
	}
	sort.Strings(ids)
	xs := make([]string, len(ids))
	for i, id := range ids {
		xs[i] = fmt.Sprintf("%s~%s@%s", id, o.items[id].m, o.items[id].t)
	}
	return fmt.Sprintf("st=%s clk=%d", showList(xs), o.clk)
}

func cout(val, err string, evs []string, ids []string, created int) string {
	return fmt.Sprintf("val=%s err=%s ev=%s ids=%s created=%d", val, err, showList(evs), showList(ids), created)
}

// step answers one request in the driver's format.
func (o *oracle) step(op Op) string {
	if op.Site != "" {
		return o.stepNested(op)
	}
	op = resolve(op) // options are applied in order; the one-step description works on the resolved list
	switch op.Op {
	case "get":
		it, ok := o.items[o.icpt(op.ID)]
		if !ok {
			return "nil"
		}
		return project(op, it.m).String()
	case "list":
		ids := make([]string, 0, len(o.items))
		for id, it := range o.items {
			if inc, ok := op.opt("inc"); ok && !refInclude(inc, id, it.m) {
				continue
			}
			ids = append(ids, id)
		}
		sort.Strings(ids)
		xs := make([]string, len(ids))
		for i, id := range ids {
			xs[i] = project(op, o.items[id].m).String()
		}
		return showList(xs)
	case "vget":
		if o.val == nil {
			return "nil"
		}
		return project(op, *o.val).String()
	case "vset":
		if e := o.validate(op); e != "" {
			return fmt.Sprintf("val=nil err=%s ev=[] | %s", e, o.dump())
		}
		nm, e := o.write(op, o.val)
		if e != "" {
			return fmt.Sprintf("val=nil err=%s ev=[] | %s", e, o.dump())
		}
		o.val, o.valT = &nm, o.writeTime(op)
		et := o.writeTime(op)
		return fmt.Sprintf("val=%s err=- ev=[%s|%s] | %s", nm, nm, et, o.dump())
	case "add", "upd":
		xa, cia := op.has("xa") || op.Op == "add", op.has("cia") || op.Op == "add"
		id := o.icpt(op.ID)
		if e := o.validate(op); e != "" {
			return cout("nil", e, nil, nil, 0) + " | " + o.dump()
		}
		var ids []string
		// an id is absent when the caller gave none (decided BEFORE the id interceptor, which may turn the
		// empty id into a key of its own: fix 929e9c0) or when the interceptor maps it to the empty key
		if (op.ID == "" || id == "") && op.has("gid") {
			found := false
			for i := 0; i < 10 && !found; i++ {
				cand := b64(o.read(6 + i))
				key := o.icpt(cand)
				if _, used := o.items[key]; cand != "" && !used {
					id, found = key, true
				}
			}
			if !found {
				return cout("nil", "Aborted", nil, nil, 0) + " | " + o.dump()
			}
			if op.has("icb") {
				ids = []string{id}
			}
		}
		it, exists := o.items[id]
		created := 0
		var old *rmsg
		switch {
		case exists && xa:
			return cout("nil", "AlreadyExists", nil, ids, 0) + " | " + o.dump()
		case exists:
			old = &it.m
		case !cia:
			return cout("nil", "NotFound", nil, ids, 0) + " | " + o.dump()
		default:
			if op.has("ccb") {
				created = 1
			}
		}
		base := old
		if base == nil {
			base = &rmsg{} // interceptors and checks see a zero message on the create path
		}
		nm, e := o.write(op, base)
		if e != "" {
			return cout("nil", e, nil, ids, created) + " | " + o.dump()
		}
		o.items[id] = ritem{m: nm, t: o.writeTime(op)}
		et := o.writeTime(op)
		kind, oldS := "ADD", "nil"
		if old != nil {
			kind, oldS = "UPDATE", old.String()
		}
		ev := fmt.Sprintf("%s|%s|%s|%s|%s|", id, et, kind, oldS, nm)
		return cout(nm.String(), "-", []string{ev}, ids, created) + " | " + o.dump()
	case "del":
		id := o.icpt(op.ID)
		it, exists := o.items[id]
		if !exists {
			if op.has("am") {
				return cout("nil", "-", nil, nil, 0) + " | " + o.dump()
			}
			return cout("nil", "NotFound", nil, nil, 0) + " | " + o.dump()
		}
		// Delete evaluates the check before the expected value, and returns the current value with the error
		if chk, ok := op.opt("chk"); ok {
			probe := Op{Msg: "0//-", Opts: []string{"chk=" + chk}}
			if _, e := o.write(probe, &it.m); e != "" {
				return cout(it.m.String(), e, nil, nil, 0) + " | " + o.dump()
			}
		}
		if ev, ok := op.opt("ev"); ok && !it.m.equal(rparse(ev)) {
			return cout(it.m.String(), "FailedPrecondition", nil, nil, 0) + " | " + o.dump()
		}
		delete(o.items, id)
		ev := fmt.Sprintf("%s|%s|REMOVE|%s|nil|", id, o.now(), it.m)
		return cout(it.m.String(), "-", []string{ev}, nil, 0) + " | " + o.dump()
	}
	return "!bad-op"
}

func project(op Op, m rmsg) rmsg {
	rm, ok := op.opt("rm")
	if !ok {
		return m
	}
	keep := toSet(rm)
	out := rmsg{}
	for _, f := range allFields {
		if keep[f] {
			out.set(f, m.get(f))
		}
	}
	if !keep["f"] && (keep["fc"] || keep["fd"] || keep["fx"]) && m.f != nil {
		// only sub-fields of the nested message are selected: it stays present, with those
		sub := [2]int{}
		if keep["fc"] {
			sub[0] = m.f[0]
		}
		if keep["fd"] {
			sub[1] = m.f[1]
		}
		out.f = &sub
	}
	if !keep["t"] && keep["tp"] && m.t != nil {
		g := *m.t
		out.t = &g
	}
	return out
}

func refInclude(name, id string, m rmsg) bool {
	switch name {
	case "aPos":
		return m.a > 0
	case "idLtB":
		return id < "b"
	case "sEmpty":
		return m.s == ""
	}
	return true
}
