package main

import (
	"fmt"
	"math/rand"
	"strings"

	"google.golang.org/protobuf/proto"

	"github.com/smart-core-os/sc-golang/pkg/resource"
	"github.com/smart-core-os/sc-golang/verifharness/lib"
)

// Nested calls: a write whose own callback (expected check, before / after interceptor - they run with
// no lock held) calls the SAME resource again, on the calling goroutine, while the write is between its
// read and its save. Still one caller at a time: the nested calls are complete calls, in a definite
// order, before the outer call goes on. What the outer call read may no longer be what is stored when
// it comes to save (also: "nothing" may have become "something" - a Value that had never been written,
// an item that did not exist); then it has to fail with Aborted and leave what the nested calls left.
//
// Op.Site names the callback ("chk" | "bf" | "af"), Op.In the calls it makes the first time the write
// invokes it. Model side: driver lines `nest site= k=`, the k nested calls, then the write
// (ScVerif/C01/Nested.lean); oracle side: stepNested below.

// key: the call with its nested calls (tie / monitor keys)
func (o Op) key() string {
	if o.Site == "" {
		return o.line()
	}
	var b strings.Builder
	b.WriteString(o.line() + " @" + o.Site + "{")
	for _, n := range o.In {
		b.WriteString(n.line() + ";")
	}
	b.WriteString("}")
	return b.String()
}

// modelLines: the driver lines of one call
func modelLines(op Op) []string {
	if op.Site == "" {
		return []string{op.line()}
	}
	ls := []string{fmt.Sprintf("nest site=%s k=%d", op.Site, len(op.In))}
	for _, n := range op.In {
		ls = append(ls, n.line())
	}
	return append(ls, op.line())
}

func splitTok(t string) (k, v string) {
	if i := strings.IndexByte(t, '='); i >= 0 {
		return t[:i], t[i+1:]
	}
	return t, ""
}

// nestedOptions: the option list of a write whose callbacks of kind o.Site run the nested calls (once
// per write: the first invocation) before doing their own work. Results go to r.nestedOut.
func (r *real) nestedOptions(o Op, cb *callbacks) []resource.WriteOption {
	ran := false
	r.nestedOut = nil
	run := func() {
		if ran {
			return
		}
		ran = true
		for _, n := range o.In {
			r.nestedOut = append(r.nestedOut, r.nestedCall(n))
		}
	}
	ws := make([]resource.WriteOption, 0, len(o.Opts))
	for _, t := range o.Opts {
		k, v := splitTok(t)
		switch {
		case k == o.Site && v != "nil" && k == "bf":
			inner := namedBefore(v)
			ws = append(ws, resource.InterceptBefore(func(old, x proto.Message) { run(); inner(old, x) }))
		case k == o.Site && v != "nil" && k == "af":
			inner := namedAfter(v)
			ws = append(ws, resource.InterceptAfter(func(old, x proto.Message) { run(); inner(old, x) }))
		case k == o.Site && v != "nil" && k == "chk":
			inner := namedCheck(v)
			ws = append(ws, resource.WithExpectedCheck(func(old proto.Message) error { run(); return inner(old) }))
		default:
			ws = append(ws, writeOption(t, func() *callbacks { return cb }))
		}
	}
	return ws
}

// nestedCall: one complete call made from inside a callback; rendered `<val>,<code>` (writes) / as a read.
func (r *real) nestedCall(n Op) string {
	var out string
	p, msg := lib.Catch(func() {
		cb := &callbacks{}
		var v proto.Message
		var err error
		switch n.Op {
		case "vset":
			v, err = r.val.Set(parseMsg(n.Msg), writeOptions(n, cb)...)
		case "upd":
			v, err = r.coll.Update(n.ID, parseMsg(n.Msg), writeOptions(n, cb)...)
		case "add":
			v, err = r.coll.Add(n.ID, parseMsg(n.Msg), writeOptions(n, cb)...)
		case "del":
			v, err = r.coll.Delete(n.ID, writeOptions(n, cb)...)
		default:
			out = strings.ReplaceAll(r.runRead(n), ";", "+") // a List result inside the `;`-separated list of results
			return
		}
		out = showMsg(v) + "," + codeName(err)
	})
	if p {
		return "panic:" + msg
	}
	return out
}

func listItems(l string) []string {
	if inner := strings.TrimSuffix(strings.TrimPrefix(l, "["), "]"); inner != "" {
		return strings.Split(inner, ";")
	}
	return nil
}

// stepNested: the reference for a write with nested calls, in one step: the write works from what it
// read; the nested calls are ordinary calls in order; if what is stored then is not what the write read
// (absent vs present included) the write fails with Aborted and changes nothing, otherwise it is saved.
func (o *oracle) stepNested(op Op) string {
	rop := resolve(op)
	ans := func(val, err string, evs, ins []string) string {
		return fmt.Sprintf("val=%s err=%s ev=%s in=%s | %s", val, err, showList(evs), showList(ins), o.dump())
	}
	if op.Op == "upd" || op.Op == "add" {
		return o.stepNestedColl(op, rop)
	}
	if op.Op == "del" {
		return o.stepNestedDel(op, rop)
	}
	if op.Op != "vset" {
		return "!bad-op"
	}
	if e := o.validate(rop); e != "" {
		return ans("nil", e, nil, nil)
	}
	old := o.val
	nm, e := o.write(rop, old)
	evOK := true
	if ev, ok := rop.opt("ev"); ok {
		evOK = old != nil && old.equal(rparse(ev))
	}
	_, present := rop.opt(op.Site)
	// the callback is invoked when the write gets that far: the expected value is tested first, then the
	// check, then the interceptors
	reached := present && evOK && (op.Site == "chk" || e == "")
	var ins, evs []string
	if reached {
		ins, evs = o.nestedCalls(op)
	}
	if e != "" {
		return ans("nil", e, evs, ins)
	}
	same := (old == nil && o.val == nil) || (old != nil && o.val != nil && old.equal(*o.val))
	if !same {
		return ans("nil", "Aborted", evs, ins)
	}
	o.val, o.valT = &nm, o.writeTime(rop)
	et := o.writeTime(rop)
	evs = append(evs, fmt.Sprintf("%s|%s", nm, et))
	return ans(nm.String(), "-", evs, ins)
}

// nestedCalls runs the calls a callback makes, as ordinary calls in order.
func (o *oracle) nestedCalls(op Op) (ins, evs []string) {
	for _, n := range op.In {
		a := o.step(n)
		if n.isWrite() {
			ins = append(ins, part(a, "val")+","+part(a, "err"))
			evs = append(evs, listItems(part(a, "ev"))...)
		} else {
			ins = append(ins, strings.ReplaceAll(a, ";", "+"))
		}
	}
	return ins, evs
}

// stepNestedColl: Collection.Update / Add with nested calls. The write works from the item it read (for an
// item being created: from a provisional empty message); after the nested calls it goes through only if
// the item then is what it read - an absent item counting as the provisional empty message when the write
// may create - and is then the write of an ordinary sequence "nested calls, then the write" (an item
// created meanwhile is updated, an item deleted meanwhile is added again).
func (o *oracle) stepNestedColl(op, rop Op) string {
	ans := func(val, err string, evs, ids []string, created int, ins []string) string {
		return fmt.Sprintf("%s in=%s | %s", cout(val, err, evs, ids, created), showList(ins), o.dump())
	}
	xa, cia := rop.has("xa") || op.Op == "add", rop.has("cia") || op.Op == "add"
	id := o.icpt(op.ID)
	if e := o.validate(rop); e != "" {
		return ans("nil", e, nil, nil, 0, nil)
	}
	var ids []string
	if (op.ID == "" || id == "") && rop.has("gid") {
		found := false
		for i := 0; i < 10 && !found; i++ {
			cand := b64(o.read(6 + i))
			key := o.icpt(cand)
			if _, used := o.items[key]; cand != "" && !used {
				id, found = key, true
			}
		}
		if !found {
			return ans("nil", "Aborted", nil, nil, 0, nil)
		}
		if rop.has("icb") {
			ids = []string{id}
		}
	}
	it, exists := o.items[id]
	created := 0
	var old *rmsg
	switch {
	case exists && xa:
		return ans("nil", "AlreadyExists", nil, ids, 0, nil)
	case exists:
		m := it.m
		old = &m
	case !cia:
		return ans("nil", "NotFound", nil, ids, 0, nil)
	default:
		if rop.has("ccb") {
			created = 1
		}
	}
	base := old
	if base == nil {
		base = &rmsg{}
	}
	nm, e := o.write(rop, base)
	evOK := true
	if ev, ok := rop.opt("ev"); ok {
		evOK = base.equal(rparse(ev))
	}
	_, present := rop.opt(op.Site)
	var ins, evs []string
	if present && evOK && (op.Site == "chk" || e == "") {
		ins, evs = o.nestedCalls(op)
	}
	if e != "" {
		return ans("nil", e, evs, ids, created, ins)
	}
	// the item when the write comes to save
	it2, exists2 := o.items[id]
	var again *rmsg
	add := old == nil
	switch {
	case exists2 && xa:
	case exists2:
		again, add = &it2.m, false
	case old == nil:
		again = &rmsg{}
	case cia:
		// read as existing, deleted meanwhile: it is being created now (the created callback fires)
		again, add = &rmsg{}, true
		if rop.has("ccb") {
			created++
		}
	}
	if again == nil || !base.equal(*again) {
		return ans("nil", "Aborted", evs, ids, created, ins)
	}
	o.items[id] = ritem{m: nm, t: o.writeTime(rop)}
	et := o.writeTime(rop)
	kind, oldS := "ADD", "nil"
	if !add {
		kind, oldS = "UPDATE", base.String()
	}
	evs = append(evs, fmt.Sprintf("%s|%s|%s|%s|%s|", id, et, kind, oldS, nm))
	return ans(nm.String(), "-", evs, ids, created, ins)
}

// stepNestedDel: Collection.Delete whose expected check makes nested calls (Delete has no other callback:
// at another site, without a check, or when there is no item to show to the check, nothing is called). The
// check and the expected value are judged on the item Delete READ; the nested calls are ordinary calls; if
// the item passes, what Delete does next is the Delete of an ordinary sequence "nested calls, then the
// Delete": it removes and returns what is stored THEN (never the stale item it showed to the check), answers
// NotFound / nothing when a nested call removed the item, and judges an item written meanwhile anew (by
// its check, which makes no further calls).
func (o *oracle) stepNestedDel(op, rop Op) string {
	plain := Op{Op: "del", ID: op.ID, Opts: op.Opts}
	id := o.icpt(op.ID)
	seen, exists := o.items[id]
	chk, has := rop.opt("chk")
	if op.Site != "chk" || !has || !exists {
		return strings.Replace(o.step(plain), " | ", " in=[] | ", 1)
	}
	ins, evs := o.nestedCalls(op)
	fail := func(e string) string {
		return fmt.Sprintf("%s in=%s | %s", cout(seen.m.String(), e, evs, nil, 0), showList(ins), o.dump())
	}
	if _, e := o.write(Op{Msg: "0//-", Opts: []string{"chk=" + chk}}, &seen.m); e != "" {
		return fail(e)
	}
	if ev, ok := rop.opt("ev"); ok && !seen.m.equal(rparse(ev)) {
		return fail("FailedPrecondition")
	}
	a := o.step(plain)
	evs = append(evs, listItems(part(a, "ev"))...)
	return fmt.Sprintf("%s in=%s | %s", cout(part(a, "val"), part(a, "err"), evs, nil, 0), showList(ins), afterBar(a))
}

// monitorNested: the property's clauses for a write with nested calls, on the code's own observations:
// a failing write leaves what its nested calls left and emits nothing of its own (compared with the
// reference, which runs the nested calls as ordinary calls); a write that succeeds has not overwritten
// a nested write it had not seen.
func monitorNested(m *lib.Monitor, s Script, i int, want, got, pre string) {
	op := s.Ops[i]
	in := map[string]any{"script": prefix(s, i+1)}
	failed := part(got, "err") != "-"
	if failed {
		if stOf(afterBar(got)) != stOf(afterBar(want)) {
			m.Violate("C01/failed-call/contents-changed", "a failing call changed the contents (beyond what the calls made from its own callback did)", in, stOf(afterBar(want)), stOf(afterBar(got)))
		}
		if part(got, "ev") != part(want, "ev") {
			m.Violate("C01/failed-call/event-emitted", "a failing call emitted a bus event of its own (the events of the calls made from its callback are expected)", in, part(want, "ev"), part(got, "ev"))
		}
		return
	}
	m.Count("nested:succeeded-after-nested-calls")
	if op.Op != "vset" {
		// the item the write read, and the item as the last successful nested write to the same id left it
		// (an absent item is read as an empty message by a write that may create it)
		ic := newOracle(s.Cfg).icpt
		id := ic(op.ID)
		// a write that generates its id (no id given, or one the interceptor maps to the empty key) does not
		// write to the id it names
		generates := func(o Op) bool {
			return (o.Op == "upd" || o.Op == "add") && (o.ID == "" || ic(o.ID) == "") && resolve(o).has("gid")
		}
		if generates(op) {
			return // a generated id: no nested call can name it
		}
		before := "absent"
		for _, it := range listItems(stOf(pre)) {
			if strings.HasPrefix(it, id+"~") {
				before = it[len(id)+1 : strings.LastIndexByte(it, '@')]
			}
		}
		stored := before
		for k, r := range listItems(part(got, "in")) {
			if k >= len(op.In) || !op.In[k].isWrite() || ic(op.In[k].ID) != id || !strings.HasSuffix(r, ",-") || generates(op.In[k]) {
				continue
			}
			if stored = strings.TrimSuffix(r, ",-"); op.In[k].Op == "del" {
				stored = "absent"
			}
		}
		if op.Op == "del" {
			// Delete returns (and removes) the item as stored when it deletes, not the item it showed to its
			// check before the calls the check made
			m.Count("nested:delete-succeeded-after-nested-calls")
			if want := strings.Replace(stored, "absent", "nil", 1); part(got, "val") != want {
				m.Violate("C01/Collection.Delete/stale-item-returned", "Delete succeeded and returned something else than the item stored under the id when it deleted (a write made from its own check had changed or removed the item it read)",
					in, "val="+want, "val="+part(got, "val"))
			}
			if strings.Contains(stOf(afterBar(got)), "["+id+"~") || strings.Contains(stOf(afterBar(got)), ";"+id+"~") {
				m.Violate("C01/Collection.Delete/item-still-stored", "Delete succeeded and the id is still a key", in, "no item "+id, stOf(afterBar(got)))
			}
			return
		}
		norm := func(x string) string {
			if x == "absent" {
				return "0//-"
			}
			return x
		}
		if norm(stored) != norm(before) {
			m.Violate("C01/"+callName[op.Op]+"/nested-write-overwritten", "the write succeeded although a write made from its own callback had changed the item since it was read: that write is lost, the call had to fail with Aborted and change nothing",
				in, "err=Aborted, item "+stored+" kept", "err=- val="+part(got, "val"))
		}
		return
	}
	// the value the write read, and the value the last successful nested write stored
	before := stOf(pre)
	if j := strings.LastIndexByte(before, '@'); j >= 0 {
		before = before[:j]
	}
	stored := before
	for k, r := range listItems(part(got, "in")) {
		if k < len(op.In) && op.In[k].Op == "vset" && strings.HasSuffix(r, ",-") {
			stored = strings.TrimSuffix(r, ",-")
		}
	}
	if stored != before {
		m.Violate("C01/Value.Set/nested-write-overwritten", "the write succeeded although a write made from its own callback had changed the value since it was read (a never-written value counts as a value): that write is lost, the call had to fail with Aborted and change nothing",
			in, "err=Aborted, value "+stored+" kept", "err=- val="+part(got, "val"))
	}
}

// nestedOps: the calls a callback makes (plain calls, no nesting of their own)
func genNestedOps(r *rand.Rand, cur *rmsg) []Op {
	var ops []Op
	for n := 1 + r.Intn(2); n > 0; n-- {
		switch k := r.Intn(10); {
		case k < 2:
			ops = append(ops, Op{Op: "vget", Opts: genReadOpts(r, false)})
		case k < 4 && cur != nil:
			ops = append(ops, Op{Op: "vset", Msg: msgText(*cur)}) // writes what is stored already
		default:
			ops = append(ops, Op{Op: "vset", Msg: genMsg(r), Opts: genWriteOpts(r, "vset", cur)})
		}
	}
	return ops
}

// genNestedOpsColl: the calls a callback of a Collection write makes: mostly on the item being written
func genNestedOpsColl(r *rand.Rand, id string, cur *rmsg) []Op {
	var ops []Op
	for n := 1 + r.Intn(2); n > 0; n-- {
		nid := id
		if r.Intn(4) == 0 {
			nid = pick(r, idPool)
		}
		var c *rmsg
		if nid == id {
			c = cur
		}
		switch k := r.Intn(10); {
		case k < 1:
			ops = append(ops, Op{Op: "get", ID: nid, Opts: genReadOpts(r, false)})
		case k < 2:
			ops = append(ops, Op{Op: "list", Opts: genReadOpts(r, true)})
		case k < 4:
			ops = append(ops, Op{Op: "del", ID: nid, Opts: genWriteOpts(r, "del", c)})
		case k < 5 && c != nil:
			ops = append(ops, Op{Op: "upd", ID: nid, Msg: msgText(*c)}) // writes what is stored already
		case k < 7:
			ops = append(ops, Op{Op: "add", ID: nid, Msg: genMsg(r), Opts: genWriteOpts(r, "add", c)})
		default:
			ops = append(ops, Op{Op: "upd", ID: nid, Msg: genMsg(r), Opts: genWriteOpts(r, "upd", c)})
		}
	}
	return ops
}

// withNested: gives a write a callback that makes nested calls (adding the callback when the write
// has none of the kind)
func withNested(r *rand.Rand, op Op, cur *rmsg) Op {
	site := pick(r, []string{"bf", "af", "chk"})
	if op.Op == "del" && r.Intn(8) != 0 {
		site = "chk" // Delete's only callback (one in eight names a site Delete never calls)
	}
	if genPos && site != "chk" {
		site = "chk" // the named interceptors are written for the first message type
	}
	if !resolve(op).has(site) {
		switch site {
		case "bf":
			op.Opts = append(op.Opts, "bf="+pick(r, bfPool))
		case "af":
			op.Opts = append(op.Opts, "af="+pick(r, afPool))
		default:
			op.Opts = append(op.Opts, pick(r, []string{"chk=sEmpty", "chk=aEq:0", "chk=nonNil"}))
		}
	}
	if op.Op == "vset" {
		op.Site, op.In = site, genNestedOps(r, cur)
	} else {
		op.Site, op.In = site, genNestedOpsColl(r, op.ID, cur)
	}
	return op
}

// nestedScope: ALL combinations of (never written | initial value | written once) x outer write (callback
// site and options) x nested call lists up to length 2 over a small alphabet, on a Value.
func (h *harness) nestedScope() {
	outers := []struct {
		site string
		opts []string
	}{
		{"bf", []string{"bf=bumpA"}},
		{"bf", []string{"bf=addA", "um=a"}},
		{"bf", []string{"chk=aEq:0", "bf=bumpA"}},
		{"bf", []string{"ev=1/x/-", "bf=copyC"}},
		{"bf", []string{"bf=bumpA", "bf=nil"}},
		{"af", []string{"af=stampC"}},
		{"af", []string{"af=markS", "um=a,s"}},
		{"chk", []string{"chk=aEq:0"}},
		{"chk", []string{"chk=nonNil"}},
		{"chk", []string{"chk=fail:Aborted"}},
		{"chk", []string{"chk=sEmpty", "um=s", "wt=7"}},
	}
	nested := []Op{
		{Op: "vset", Msg: "5/y/-"},
		{Op: "vset", Msg: "1/x/-"},
		{Op: "vset", Msg: "0//-"},
		{Op: "vset", Msg: "7//-", Opts: []string{"ev=9//-"}},
		{Op: "vset", Msg: "4//-", Opts: []string{"um=a"}},
		{Op: "vget"},
	}
	var lists [][]Op
	for _, a := range nested {
		lists = append(lists, []Op{a})
		for _, b := range nested {
			lists = append(lists, []Op{a, b})
		}
	}
	starts := []struct {
		cfg Cfg
		pre []Op
	}{
		{Cfg{Kind: "val", Tick: 1}, nil},
		{Cfg{Kind: "val", Tick: 1, Init: []string{"1/x/-"}}, nil},
		{Cfg{Kind: "val", Tick: 1}, []Op{{Op: "vset", Msg: "0//-"}}},
	}
	n := 0
	for _, st := range starts {
		for _, o := range outers {
			for _, l := range lists {
				ops := append(append([]Op(nil), st.pre...), Op{Op: "vset", Msg: "2//4", Opts: o.opts, Site: o.site, In: l}, Op{Op: "vget"})
				h.runScript(Script{Cfg: st.cfg, Ops: ops}, h.tieN)
				n++
			}
		}
	}
	h.tieN.Count(fmt.Sprintf("scripts=%d outer-writes=%d nested-lists=%d", n, len(outers), len(lists)))
	h.nestedScopeColl()
}

// nestedScopeColl: the same on a Collection: (empty | item a stored | item a stored as the empty message) x
// Update / Add of item a (or of a generated id) with a callback making nested calls x every list of up to 2
// nested calls over 8 (create / update / delete of the same item, of another one, reads).
func (h *harness) nestedScopeColl() {
	outers := []Op{
		{Op: "upd", ID: "a", Msg: "2//4", Opts: []string{"cia", "bf=bumpA"}, Site: "bf"},
		{Op: "upd", ID: "a", Msg: "2//4", Opts: []string{"bf=addA", "um=a"}, Site: "bf"},
		{Op: "upd", ID: "a", Msg: "2//4", Opts: []string{"cia", "ccb", "chk=aEq:0"}, Site: "chk"},
		{Op: "upd", ID: "a", Msg: "2//4", Opts: []string{"cia", "af=stampC", "wt=9"}, Site: "af"},
		{Op: "upd", ID: "a", Msg: "2//4", Opts: []string{"cia", "xa", "ccb", "af=markS"}, Site: "af"},
		{Op: "add", ID: "a", Msg: "2//4", Opts: []string{"bf=bumpA"}, Site: "bf"},
		{Op: "add", ID: "", Msg: "2//4", Opts: []string{"gid", "icb", "ccb", "chk=sEmpty"}, Site: "chk"},
		{Op: "upd", ID: "a", Msg: "2//4", Opts: []string{"cia", "ev=1/x/-", "chk=nonNil", "chk=nil", "bf=copyC"}, Site: "bf"},
	}
	nested := []Op{
		{Op: "add", ID: "a", Msg: "5/y/-"},
		{Op: "upd", ID: "a", Msg: "1/x/-", Opts: []string{"cia"}},
		{Op: "upd", ID: "a", Msg: "0//-", Opts: []string{"cia"}},
		{Op: "del", ID: "a"},
		{Op: "del", ID: "a", Opts: []string{"am"}},
		{Op: "upd", ID: "b", Msg: "7//-", Opts: []string{"cia"}},
		{Op: "get", ID: "a"},
		{Op: "list"},
	}
	var lists [][]Op
	for _, a := range nested {
		lists = append(lists, []Op{a})
		for _, b := range nested {
			lists = append(lists, []Op{a, b})
		}
	}
	cfgs := []Cfg{
		{Kind: "coll", Tick: 1},
		{Kind: "coll", Tick: 1, Init: []string{"a~1/x/-"}},
		{Kind: "coll", Tick: 1, Init: []string{"a~0//-"}},
	}
	// Delete with an expected check that makes the calls (passing / failing on the stored item / on the item a
	// nested call leaves; with an expected value; tolerating a missing item; a site Delete never calls)
	outers = append(outers,
		Op{Op: "del", ID: "a", Opts: []string{"chk=aEq:1"}, Site: "chk"},
		Op{Op: "del", ID: "a", Opts: []string{"chk=sEmpty", "am"}, Site: "chk"},
		Op{Op: "del", ID: "a", Opts: []string{"chk=nonNil", "ev=1/x/-"}, Site: "chk"},
		Op{Op: "del", ID: "a", Opts: []string{"chk=fail:Aborted"}, Site: "chk"},
		Op{Op: "del", ID: "a", Opts: []string{"chk=nonNil", "bf=bumpA"}, Site: "bf"},
	)
	n := 0
	for _, cfg := range cfgs {
		for _, o := range outers {
			for _, l := range lists {
				o.In = l
				h.runScript(Script{Cfg: cfg, Ops: []Op{o, {Op: "list"}}}, h.tieN)
				n++
			}
		}
	}
	h.tieN.Count(fmt.Sprintf("collection: scripts=%d outer-writes=%d nested-lists=%d", n, len(outers), len(lists)))
}
