package main

import (
	"fmt"
	"math"
	"strconv"

	scTypes "github.com/smart-core-os/sc-api/go/types"
	"google.golang.org/protobuf/proto"

	"github.com/smart-core-os/sc-golang/pkg/resource"
	"github.com/smart-core-os/sc-golang/verifharness/lib"
)

// Special float payloads. The call-sequence model keeps numbers integral; here the float32 fields of
// OpenClosePosition (open_percent, open_percent_tween.progress) carry NaN, -0, +Inf, -Inf next to ordinary
// values, on a Value and on a Collection item, against a register / map reference that works on the BITS of
// the floats: every write of one caller is accepted (the re-validation of GetAndUpdate compares what it read
// with what it reads again by proto.Equal, which has to be reflexive on such messages: the hypothesis
// EqRefl of the theorems), a write after a stored NaN is not Aborted, an expected value matches when it is
// the stored message (NaN included: proto.Equal compares NaNs as equal; -0 and 0 differ, -0 is a populated
// implicit-presence field for Equal, while a WRITTEN -0 is stored as +0: see `written`), a failing call
// changes nothing.

// FloatCase: one resource, a first write and a second call.
type FloatCase struct {
	Kind  string    `json:"kind"` // val | coll
	First [2]string `json:"first"`
	Op    string    `json:"op"` // set | setp (update mask open_percent) | setev | del | delev | get
	Msg   [2]string `json:"msg,omitempty"`
	EV    [2]string `json:"ev,omitempty"`
}

var floatToks = []string{"nan", "+inf", "-inf", "-0", "0", "1.5"}
var tweenToks = []string{"-", "nan", "-0", "2"}

func floatOf(t string) float32 {
	switch t {
	case "nan":
		return float32(math.NaN())
	case "+inf":
		return float32(math.Inf(1))
	case "-inf":
		return float32(math.Inf(-1))
	case "-0":
		return float32(math.Copysign(0, -1))
	}
	f, err := strconv.ParseFloat(t, 32)
	if err != nil {
		panic("bad float token " + t)
	}
	return float32(f)
}

func floatTok(f float32) string {
	switch {
	case f != f:
		return "nan"
	case math.IsInf(float64(f), 1):
		return "+inf"
	case math.IsInf(float64(f), -1):
		return "-inf"
	case f == 0 && math.Signbit(float64(f)):
		return "-0"
	}
	return strconv.FormatFloat(float64(f), 'g', -1, 32)
}

func floatMsg(pt [2]string) *P {
	m := &P{OpenPercent: floatOf(pt[0])}
	if pt[1] != "-" {
		m.OpenPercentTween = &scTypes.Tween{Progress: floatOf(pt[1])}
	}
	return m
}

func showFloatMsg(pm proto.Message) string {
	m, ok := pm.(*P)
	if !ok || m == nil {
		return "nil"
	}
	t := "-"
	if m.OpenPercentTween != nil {
		t = floatTok(m.OpenPercentTween.Progress)
	}
	return floatTok(m.OpenPercent) + "/" + t
}

// the reference: a message is its two tokens; equality is equality of tokens (every NaN is "nan")
func refText(pt [2]string) string { return pt[0] + "/" + pt[1] }

// written: what a message becomes on its way into a resource. Every write merges the caller's message into
// a fresh one (proto.Merge / proto.Clone), and protobuf-go's merge copies an implicit-presence float only
// when it is `!= 0`: a negative zero is not copied, the stored field is the default +0. (proto.Equal, on the
// other hand, tells -0 from 0, so Equal(m, Clone(m)) is false for such an m; it is true for the same pointer.)
func written(pt [2]string) [2]string {
	for i := range pt {
		if pt[i] == "-0" {
			pt[i] = "0"
		}
	}
	return pt
}

func floatRef(c FloatCase) string {
	rawP := c.Msg[0]
	c.First, c.Msg = written(c.First), written(c.Msg)
	st := c.First
	ans := func(err, val string) string { return fmt.Sprintf("err=%s val=%s st=%s", err, val, refTextOrNil(st)) }
	switch c.Op {
	case "get":
		return ans("-", refText(st))
	case "set":
		st = c.Msg
		return ans("-", refText(st))
	case "setp":
		if rawP == "-0" {
			// AS THE CODE BEHAVES (side finding, pkg/masks FieldUpdater.Merge on protobuf-go v1.34: reported, not
			// this property's to repair): under an update mask naming the field a written -0 neither replaces the
			// stored value (proto.Merge copies a float only when it is != 0) nor clears it (pruneEmpty clears what
			// the source does not Have, and reflection's Has counts -0 as populated): the old value stays
			return ans("-", refText(st))
		}
		st = [2]string{c.Msg[0], st[1]}
		return ans("-", refText(st))
	case "setev":
		if c.EV != st {
			return ans("FailedPrecondition", "nil")
		}
		st = c.Msg
		return ans("-", refText(st))
	case "del":
		old := st
		st = [2]string{"", ""}
		return ans("-", refText(old))
	case "delev":
		if c.EV != st {
			return ans("FailedPrecondition", refText(st))
		}
		old := st
		st = [2]string{"", ""}
		return ans("-", refText(old))
	}
	return "!bad-op"
}

func refTextOrNil(pt [2]string) string {
	if pt[0] == "" {
		return "nil"
	}
	return refText(pt)
}

func floatReal(c FloatCase) string {
	var out string
	p, msg := lib.Catch(func() {
		pass := resource.WithExpectedCheck(func(proto.Message) error { return nil })
		var val proto.Message
		var err error
		var get func() proto.Message
		if c.Kind == "val" {
			v := resource.NewValue(resource.WithInitialValue(&P{}))
			if _, e := v.Set(floatMsg(c.First)); e != nil {
				out = "first write: " + codeName(e)
				return
			}
			get = func() proto.Message { return v.Get() }
			switch c.Op {
			case "get":
				val = v.Get()
			case "set":
				val, err = v.Set(floatMsg(c.Msg))
			case "setp":
				val, err = v.Set(floatMsg(c.Msg), resource.WithUpdatePaths(fieldP))
			case "setev":
				val, err = v.Set(floatMsg(c.Msg), resource.WithExpectedValue(floatMsg(c.EV)), pass)
			default:
				out = "!bad-op"
				return
			}
		} else {
			cl := resource.NewCollection()
			if _, e := cl.Add("a", floatMsg(c.First)); e != nil {
				out = "first write: " + codeName(e)
				return
			}
			get = func() proto.Message {
				if m, ok := cl.Get("a"); ok {
					return m
				}
				return nil
			}
			switch c.Op {
			case "get":
				val = get()
			case "set":
				val, err = cl.Update("a", floatMsg(c.Msg))
			case "setp":
				val, err = cl.Update("a", floatMsg(c.Msg), resource.WithUpdatePaths(fieldP))
			case "setev":
				val, err = cl.Update("a", floatMsg(c.Msg), resource.WithExpectedValue(floatMsg(c.EV)), pass)
			case "del":
				val, err = cl.Delete("a", pass)
			case "delev":
				val, err = cl.Delete("a", resource.WithExpectedValue(floatMsg(c.EV)))
			default:
				out = "!bad-op"
				return
			}
		}
		out = fmt.Sprintf("err=%s val=%s st=%s", codeName(err), showFloatMsg(val), showFloatMsg(get()))
	})
	if p {
		return "panic:" + msg
	}
	return out
}

// monitorFloat: one case on the real code against the reference; proto.Equal's reflexivity on the messages
// of the case is evaluated on the way (the theorems' hypothesis EqRefl, as a fact about the real Equal).
func monitorFloat(m *lib.Monitor, c FloatCase) {
	in := map[string]any{"floats": c}
	for _, pt := range [][2]string{c.First, c.Msg, c.EV} {
		if pt[0] == "" {
			continue
		}
		x := floatMsg(pt)
		if pt[0] == "-0" || pt[1] == "-0" {
			// a fact about protobuf-go recorded, not judged: Clone drops the sign of a zero
			m.Count(fmt.Sprintf("special-floats: Equal(m, Clone(m)) for a message holding -0 = %v", proto.Equal(x, proto.Clone(x))))
			x = floatMsg(written(pt))
		}
		if !proto.Equal(x, x) || !proto.Equal(x, proto.Clone(x)) {
			m.Violate("C01/special-floats/equal-not-reflexive", "proto.Equal is not reflexive on a message holding this float (hypothesis EqRefl of the C01 theorems; GetAndUpdate's re-validation relies on it)", in, "Equal(m, m) and Equal(m, Clone(m))", refText(pt))
		}
	}
	want, got := floatRef(c), floatReal(c)
	m.Eval(fmt.Sprintf("floats %v", c), c.Op != "get", nil)
	m.Count("special-floats:" + c.Kind + ":" + c.Op)
	if c.Op == "setp" && c.Msg[0] == "-0" && c.First[0] != "0" && c.First[0] != "-0" {
		m.Count("special-floats: masked write of -0 left the stored value (side finding, pkg/masks)")
	}
	if want == got {
		return
	}
	sig, what := "C01/special-floats/"+c.Kind+"/wrong-answer", "a call on a resource holding a special float value (NaN, -0, +-Inf) answers or leaves something else than the register / map reference on the floats' bits"
	if part(got, "err") == "Aborted" {
		sig, what = "C01/special-floats/"+c.Kind+"/aborted-after-special-value", "a write of the only caller is Aborted: the re-validation of GetAndUpdate does not recognise the message it read a moment ago"
	}
	m.Violate(sig, what, in, want, got)
}

// floatScope: ALL (resource kind, first message, second call) over the special-float alphabet.
func (h *harness) floatScope() {
	var msgs [][2]string
	for _, p := range floatToks {
		for _, t := range tweenToks {
			msgs = append(msgs, [2]string{p, t})
		}
	}
	n := 0
	for _, kind := range []string{"val", "coll"} {
		for _, first := range msgs {
			cases := []FloatCase{{Kind: kind, First: first, Op: "get"}}
			for _, m2 := range msgs {
				cases = append(cases, FloatCase{Kind: kind, First: first, Op: "set", Msg: m2},
					FloatCase{Kind: kind, First: first, Op: "setp", Msg: m2},
					FloatCase{Kind: kind, First: first, Op: "setev", Msg: [2]string{"7", "-"}, EV: m2})
				if kind == "coll" {
					cases = append(cases, FloatCase{Kind: kind, First: first, Op: "delev", EV: m2})
				}
			}
			if kind == "coll" {
				cases = append(cases, FloatCase{Kind: kind, First: first, Op: "del"})
			}
			for _, c := range cases {
				monitorFloat(h.mon, c)
				n++
			}
		}
	}
	h.mon.Count(fmt.Sprintf("special-floats: cases=%d messages=%d", n, len(msgs)))
}

func replayFloats(c FloatCase) int {
	m := lib.NewMonitor("replay", "")
	fmt.Printf("%+v\n  reference: %s\n  code:      %s\n", c, floatRef(c), floatReal(c))
	monitorFloat(m, c)
	if len(m.Violations) > 0 {
		for _, v := range m.Violations {
			fmt.Printf("STILL FAILS %s: %s (expected %s, observed %s)\n", v.Signature, v.What, v.Expected, v.Observed)
		}
		return 1
	}
	fmt.Println("replay: property holds on this input now")
	return 0
}
