package main

import (
	"sort"
	"strings"
)

// resolve: the reference reading of an ORDERED option list with repeats (options are applied in the
// order given). It returns the call with an equivalent list in which every key occurs at most once,
// which is what the oracle's one-step description works on. Written as a plain table, independently
// of the Lean model's fold:
//
//	setters (wt um rs ev chk bf af rm inc): the last one wins; "=nil" switches the setting off again
//	flags (xa cia gid nw): once given they stay
//	ccb / ccb0, icb / icb0: the last one wins (a callback, or nil: no callback)
//	am / am0: the last one wins (WithAllowMissing(true/false))
//	mum=<mask>: adds the paths to the update mask in force at that point; nothing if there is none
//	mw=<mask>: the masks of all mw options are united
func resolve(op Op) Op {
	val := map[string]string{}
	on := map[string]bool{}
	var more []string
	moreSeen := false
	var rest []string
	for _, t := range op.Opts {
		k, v := t, ""
		if i := strings.IndexByte(t, '='); i >= 0 {
			k, v = t[:i], t[i+1:]
		}
		switch k {
		case "wt", "um", "rs", "ev", "chk", "bf", "af", "rm", "inc":
			if v == "nil" {
				delete(val, k)
			} else {
				val[k] = v
			}
		case "mum":
			if cur, ok := val["um"]; ok {
				val["um"] = unionLetters(maskLetters(cur), maskLetters(v))
			}
		case "mw":
			moreSeen = true
			more = append(more, maskLetters(v)...)
		case "am":
			on["am"] = true
		case "am0":
			delete(on, "am")
		case "ccb0":
			delete(on, "ccb")
		case "icb0":
			delete(on, "icb")
		case "xa", "cia", "gid", "nw", "ccb", "icb", "uo":
			on[k] = true
		case "uo0":
			delete(on, "uo")
		case "bp", "bp0":
			// backpressure has no effect on Get/List
		default:
			rest = append(rest, t) // name=, id= of the subscription ops
		}
	}
	out := Op{Op: op.Op, ID: op.ID, Msg: op.Msg}
	for _, k := range []string{"wt", "um", "rs", "ev", "chk", "bf", "af", "rm", "inc"} {
		if v, ok := val[k]; ok {
			out.Opts = append(out.Opts, k+"="+v)
		}
	}
	if moreSeen {
		out.Opts = append(out.Opts, "mw="+unionLetters(more, nil))
	}
	for _, k := range []string{"am", "xa", "cia", "gid", "nw", "ccb", "icb", "uo"} {
		if on[k] {
			out.Opts = append(out.Opts, k)
		}
	}
	out.Opts = append(out.Opts, rest...)
	return out
}

// unionLetters: the set union of two path lists ("0" when there is no path).
func unionLetters(a, b []string) string {
	seen := map[string]bool{}
	var out []string
	for _, l := range append(append([]string(nil), a...), b...) {
		if !seen[l] {
			seen[l] = true
			out = append(out, l)
		}
	}
	sort.Strings(out)
	if len(out) == 0 {
		return "0"
	}
	return strings.Join(out, ",")
}
