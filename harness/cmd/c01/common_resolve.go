package main

import (
	"sort"
	"strings"
)

// resolve: the reference reading of an ORDERED option list with repeats (options are applied in the
// order given). It returns the call with an equivalent list in which every key occurs at most once,
// which is what the oracle's one-step description works on. Written as a plain table, independently
// of the Lean model's fold:
//
//	setters (wt um rs ev chk bf af rm inc): the last one wins; "=nil" switches the setting off again
//	flags (xa cia gid nw): once given they stay
//	ccb / ccb0, icb / icb0: the last one wins (a callback, or nil: no callback)
//	am / am0: the last one wins (WithAllowMissing(true/false))
//	mum=<mask>: adds the paths to the update mask in force at that point; nothing if there is none
//	mw=<mask>: the masks of all mw options are united
func resolve(op Op) Op {
	op = unspell(op)
	val := map[string]string{}
	on := map[string]bool{}
	var more []string
	moreSeen := false
	var rest []string
	for _, t := range op.Opts {
		k, v := t, ""
		if i := strings.IndexByte(t, '='); i >= 0 {
			k, v = t[:i], t[i+1:]
		}
		switch k {
		case "wt", "um", "rs", "ev", "chk", "bf", "af", "rm", "inc":
			if v == "nil" {
				delete(val, k)
			} else {
				val[k] = v
			}
		case "mum":
			if cur, ok := val["um"]; ok {
				val["um"] = unionLetters(maskLetters(cur), maskLetters(v))
			}
		case "mw":
			moreSeen = true
			more = append(more, maskLetters(v)...)
		case "am":
			on["am"] = true
		case "am0":
			delete(on, "am")
		case "ccb0":
			delete(on, "ccb")
		case "icb0":
			delete(on, "icb")
		case "xa", "cia", "gid", "nw", "ccb", "icb", "uo":
			on[k] = true
		case "uo0":
			delete(on, "uo")
		case "bp", "bp0":
			// backpressure has no effect on Get/List
		default:
			rest = append(rest, t) // name=, id= of the subscription ops
		}
	}
	out := Op{Op: op.Op, ID: op.ID, Msg: op.Msg}
	for _, k := range []string{"wt", "um", "rs", "ev", "chk", "bf", "af", "rm", "inc"} {
		if v, ok := val[k]; ok {
			out.Opts = append(out.Opts, k+"="+v)
		}
	}
	if moreSeen {
		out.Opts = append(out.Opts, "mw="+unionLetters(more, nil))
	}
	for _, k := range []string{"am", "xa", "cia", "gid", "nw", "ccb", "icb", "uo"} {
		if on[k] {
			out.Opts = append(out.Opts, k)
		}
	}
	out.Opts = append(out.Opts, rest...)
	return out
}

// unionLetters: the set union of two path lists ("0" when there is no path).
func unionLetters(a, b []string) string {
	seen := map[string]bool{}
	var out []string
	for _, l := range append(append([]string(nil), a...), b...) {
		if !seen[l] {
			seen[l] = true
			out = append(out, l)
		}
	}
	sort.Strings(out)
	if len(out) == 0 {
		return "0"
	}
	return strings.Join(out, ",")
}

// unspell: the reference reading of the options that exist in two spellings. WithUpdatePaths(p...),
// WithMoreUpdatePaths, WithResetPaths, WithMoreWritablePaths and WithReadPaths(m, p...) mean what
// WithUpdateMask / ... mean for the mask that holds those paths; EmptyWriteOption / EmptyReadOption (nop)
// mean nothing.
func unspell(op Op) Op {
	var spelled = map[string]string{"ump": "um", "mump": "mum", "rsp": "rs", "mwp": "mw", "rmp": "rm"}
	out := op
	out.Opts = nil
	for _, t := range op.Opts {
		if t == "nop" {
			continue
		}
		if i := strings.IndexByte(t, '='); i >= 0 {
			if k, ok := spelled[t[:i]]; ok {
				t = k + t[i:]
			}
		}
		out.Opts = append(out.Opts, t)
	}
	return out
}

// resolveRes: the reference reading of an ORDERED list of resource options (tokens k:v), as a plain
// table, independently of the Lean model's fold:
//
//	W:<mask|nil>, Wp:<mask> (WithWritablePaths)  writable fields: the last one wins, nil = unrestricted
//	icpt:<name|nil>                              id interceptor: the last one wins (a Value ignores it)
//	init:<msg|nil>                               initial value: the last one wins (a Collection ignores it)
//	rec:<id>~<msg>                               initial records accumulate; the same id twice panics, on
//	                                             a Value too (the option itself panics); a Collection keeps a
//	                                             record under icpt(id) for the interceptor the list resolves
//	                                             to, and panics when two records get the same key
//	eqv:<name>                                   equivalence: the last one wins; no effect on Get/List/Set/Add/
//	                                             Update/Delete
//	nop clk rng                                  EmptyOption / where WithClock, WithRNG stand: no effect
func resolveRes(c Cfg) Cfg {
	out := c
	out.W, out.Icpt, out.Init, out.Eqv, out.Panics = nil, "", nil, "", false
	var initV string
	seen := map[string]bool{}
	for _, t := range c.Res {
		k, v := t, ""
		if i := strings.IndexByte(t, ':'); i >= 0 {
			k, v = t[:i], t[i+1:]
		}
		switch k {
		case "W", "Wp":
			out.W = nil
			if v != "nil" {
				w := v
				out.W = &w
			}
		case "icpt":
			out.Icpt = ""
			if v != "nil" {
				out.Icpt = v
			}
		case "init":
			initV = ""
			if v != "nil" {
				initV = v
			}
		case "rec":
			id := strings.SplitN(v, "~", 2)[0]
			if seen[id] {
				out.Panics = true
			}
			seen[id] = true
			if c.Kind != "val" {
				out.Init = append(out.Init, v)
			}
		case "eqv":
			out.Eqv = v
		}
	}
	if c.Kind == "val" {
		out.Icpt = ""
		if initV != "" {
			out.Init = []string{initV}
		}
	} else if out.Icpt != "" {
		// two records whose ids the interceptor maps to one key: the second cannot be added either
		keys := map[string]bool{}
		for _, rec := range out.Init {
			k := namedIcpt(out.Icpt)(strings.SplitN(rec, "~", 2)[0])
			if keys[k] {
				out.Panics = true
			}
			keys[k] = true
		}
	}
	return out
}
