package main

import (
	"fmt"
	"math/rand"
	"strconv"
	"strings"
	"time"
)

// Generators shared by cmd/c01 and cmd/c04: pools, configuration and option generators.

var (
	idPool   = []string{"", "a", "b", "c", "A", "B"}
	maskPool = []string{"0", "a", "s", "c", "a,s", "a,c", "s,c", "a,s,c", "x", "a,x", "a,a", "s,a", "f", "r", "f,r", "a,r", "a,s,c,f,r", "r,r", "f,s",
		"fc", "fd", "fc,fd", "f,fc", "fd,a", "s,fc", "fc,fc", "fd,f,r", "fc,x", "fx", "f,fx", "fd,fx"}
	wPool    = []string{"0", "a", "s", "c", "a,s", "a,c", "s,c", "a,s,c", "f", "r", "f,r", "a,f,r", "a,s,c,f,r", "fc", "fd,a", "fc,fd", "f,fd", "s,fc,r"}
	fPool    = []string{"-", "0:0", "2:0", "0:3", "5:6", "1:9"}
	rPool    = []string{"-", "7", "8.9", "-"}
	aPool    = []int{0, 1, 2, 3, 7}
	sPool    = []string{"", "x", "yy", "Zed"}
	cPool    = []string{"-", "-", "0", "4"}
	codePool = []string{"FailedPrecondition", "Aborted", "Unknown", "PermissionDenied", "NotFound"}
	incPool  = []string{"aPos", "idLtB", "sEmpty"}
	bfPool   = []string{"addA", "bumpA", "copyC"}
	afPool   = []string{"stampC", "markS", "clearC"}
	icptPool = []string{"", "", "", "lower", "lower", "dash", "first", "dup"}
	tickPool = []int{1, 1, 1, 0, 2}
	// the second message type (OpenClosePosition): masks over open_percent (p), open_percent_tween (t) and
	// open_percent_tween.progress (tp) - sibling names of which one is a textual prefix of the other
	posMaskPool = []string{"0", "p", "t", "tp", "p,t", "t,p", "p,tp", "tp,p", "t,tp", "p,t,tp", "tp,t,p", "x", "p,x", "t,x", "p,p", "tp,tp", "t,p,t"}
	posWPool    = []string{"0", "p", "t", "tp", "p,t", "t,p", "p,tp", "tp,p", "p,t,tp"}
	pPool       = []int{0, 0, 1, 7, 50}
	tPool       = []string{"-", "-", "0", "3", "25"}
)

// genPos: the script being generated works on the second message type (set by genScript for the whole
// script: a resource holds messages of one type)
var genPos bool

func masks() []string {
	if genPos {
		return posMaskPool
	}
	return maskPool
}

func wMasks() []string {
	if genPos {
		return posWPool
	}
	return wPool
}

// msgText: the text under which a message of the oracle is handed to the code and the model
func msgText(m rmsg) string {
	if genPos {
		return m.posString()
	}
	return m.String()
}

func pick[X any](r *rand.Rand, xs []X) X { return xs[r.Intn(len(xs))] }

func genMsg(r *rand.Rand) string {
	if genPos {
		return fmt.Sprintf("0//-/-/-/%d/%s", pick(r, pPool), pick(r, tPool))
	}
	base := fmt.Sprintf("%d/%s/%s", pick(r, aPool), pick(r, sPool), pick(r, cPool))
	if r.Intn(3) > 0 {
		return base
	}
	return rparse(base + "/" + pick(r, fPool) + "/" + pick(r, rPool)).String()
}

func genRng(r *rand.Rand) []int {
	switch r.Intn(4) {
	case 0:
		return nil // all zeros: every generated id collides with the previous ones
	case 1:
		return []int{1, 2, 3}
	default:
		n := 6 + r.Intn(60)
		b := make([]int, n)
		for i := range b {
			b[i] = r.Intn(256)
		}
		return b
	}
}

// eqvPool: resource-level equivalences (consulted by Pull only): never / always equivalent, proto.Equal
// (as a comparer and as WithNoDuplicates), and one coarser than equality (same default_int32)
var eqvPool = []string{"never", "equal", "sameA", "always", "nodup"}

// genCfg draws a configuration; one in four is then re-written as an ORDERED resource option list with
// repeats, of which the drawn configuration is what the list resolves to.
func genCfg(r *rand.Rand) Cfg {
	c := genCfgRecord(r)
	if r.Intn(5) == 0 {
		c.Eqv = pick(r, eqvPool)
	}
	if r.Intn(4) == 0 {
		c = asOptionList(r, c)
	}
	return c
}

// validPaths: every letter names a field of the message type (the With…Paths constructors that take a
// message panic otherwise, before any call is made)
func validPaths(mask string) bool {
	for _, l := range maskLetters(mask) {
		if l == "x" || l == "fx" {
			return false
		}
	}
	return true
}

// asOptionList: the options that produce c, in a random order, each possibly preceded by options of the
// same kind that a later one overrides (another mask, nil, another interceptor, ...), with EmptyOption and
// the clock / rng options at random places. Initial records keep distinct ids (the exhaustive
// resource-options tie covers the panic).
func asOptionList(r *rand.Rand, c Cfg) Cfg {
	var kinds [][]string
	wTok := func(m string) string {
		if validPaths(m) && r.Intn(2) == 0 {
			return "Wp:" + m
		}
		return "W:" + m
	}
	{
		var k []string
		for n := r.Intn(3); n > 0; n-- {
			k = append(k, pick(r, []string{"W:nil", wTok(pick(r, wMasks()))}))
		}
		if c.W != nil {
			k = append(k, wTok(*c.W))
		} else if len(k) > 0 {
			k = append(k, "W:nil")
		}
		kinds = append(kinds, k)
	}
	{
		var k []string
		for n := r.Intn(3); n > 0; n-- {
			k = append(k, pick(r, []string{"icpt:nil", "icpt:lower", "icpt:dash", "icpt:first"}))
		}
		if c.Kind == "val" {
			// a Value ignores the interceptor, whatever it is
		} else if c.Icpt != "" {
			k = append(k, "icpt:"+c.Icpt)
		} else if len(k) > 0 {
			k = append(k, "icpt:nil")
		}
		kinds = append(kinds, k)
	}
	{
		var k []string
		if c.Kind == "val" {
			for n := r.Intn(3); n > 0; n-- {
				k = append(k, pick(r, []string{"init:nil", "init:" + genMsg(r)}))
			}
			if len(c.Init) > 0 {
				k = append(k, "init:"+c.Init[0])
			} else if len(k) > 0 {
				k = append(k, "init:nil")
			}
			if r.Intn(4) == 0 {
				k = append(k, "rec:a~"+genMsg(r)) // ignored by a Value
			}
		} else {
			for _, rec := range c.Init {
				k = append(k, "rec:"+rec)
			}
			if r.Intn(4) == 0 {
				k = append(k, "init:"+genMsg(r)) // ignored by a Collection
			}
		}
		kinds = append(kinds, k)
	}
	{
		var k []string
		for n := r.Intn(2); n > 0; n-- {
			k = append(k, "eqv:"+pick(r, eqvPool))
		}
		if c.Eqv != "" {
			k = append(k, "eqv:"+c.Eqv)
		} else {
			k = nil // an equivalence cannot be taken away again by a nil one without losing "no equivalence"
		}
		kinds = append(kinds, k)
	}
	kinds = append(kinds, []string{"clk"}, []string{"rng"})
	for n := r.Intn(3); n > 0; n-- {
		kinds = append(kinds, []string{"nop"})
	}
	// interleave the kinds, keeping the order within each kind
	var res []string
	for {
		var live []int
		for i, k := range kinds {
			if len(k) > 0 {
				live = append(live, i)
			}
		}
		if len(live) == 0 {
			break
		}
		i := pick(r, live)
		res = append(res, kinds[i][0])
		kinds[i] = kinds[i][1:]
	}
	out := resolveRes(Cfg{Kind: c.Kind, Tick: c.Tick, Rng: c.Rng, Res: res})
	return out
}

// respell re-writes some options in their other spelling (WithUpdatePaths for WithUpdateMask, ...) and
// drops an EmptyWriteOption / EmptyReadOption in now and then.
func respell(r *rand.Rand, opts []string) []string {
	if r.Intn(3) > 0 {
		return opts
	}
	spell := map[string]string{"um": "ump", "mum": "mump", "rs": "rsp", "mw": "mwp", "rm": "rmp"}
	var out []string
	for _, t := range opts {
		if i := strings.IndexByte(t, '='); i >= 0 && r.Intn(2) == 0 {
			if k, ok := spell[t[:i]]; ok && t[i+1:] != "nil" && (k != "rmp" || validPaths(t[i+1:])) {
				t = k + t[i:]
			}
		}
		if r.Intn(8) == 0 {
			out = append(out, "nop")
		}
		out = append(out, t)
	}
	return out
}

func genCfgRecord(r *rand.Rand) Cfg {
	c := Cfg{Kind: "coll", Tick: pick(r, tickPool)}
	if r.Intn(4) == 0 {
		c.Kind = "val"
	}
	if r.Intn(5) < 2 {
		w := pick(r, wMasks())
		c.W = &w
	}
	if c.Kind == "val" {
		if r.Intn(3) > 0 {
			c.Init = []string{genMsg(r)}
		}
		return c
	}
	c.Icpt = pick(r, icptPool)
	c.Rng = genRng(r)
	seen := map[string]bool{}
	for n := r.Intn(4); n > 0; n-- {
		id := pick(r, idPool[1:])
		if c.Icpt == "lower" {
			id = lowerASCII(id) // initial records are stored as given; keep them reachable
		}
		if !seen[id] {
			seen[id] = true
			c.Init = append(c.Init, id+"~"+genMsg(r))
		}
	}
	return c
}

// genWriteOpts draws every write option independently, biased by the current contents (`cur` is the
// message stored under the target, if any) so that preconditions both hold and fail.
func genWriteOpts(r *rand.Rand, op string, cur *rmsg) []string {
	var o []string
	p := func(pct int) bool { return r.Intn(100) < pct }
	if p(20) {
		o = append(o, "wt="+genInstant(r))
	}
	if op != "del" {
		if p(35) {
			o = append(o, "um="+pick(r, masks()))
		}
		if p(15) {
			o = append(o, "rs="+pick(r, masks()))
		}
		// the named interceptors are written for the first message type
		if p(15) && !genPos {
			o = append(o, "bf="+pick(r, bfPool))
		}
		if p(15) && !genPos {
			o = append(o, "af="+pick(r, afPool))
		}
		if p(10) {
			o = append(o, "nw")
		}
		if p(15) {
			o = append(o, "mw="+pick(r, wMasks()))
		}
	}
	if p(18) {
		if cur != nil && p(65) {
			o = append(o, "ev="+msgText(*cur))
		} else {
			o = append(o, "ev="+genMsg(r))
		}
	}
	if p(18) {
		switch r.Intn(5) {
		case 0:
			o = append(o, "chk=fail:"+pick(r, codePool))
		case 1:
			o = append(o, "chk=nonNil")
		case 2:
			o = append(o, "chk=sEmpty")
		default:
			a := pick(r, aPool)
			if cur != nil && p(65) {
				a = cur.a
			}
			o = append(o, fmt.Sprintf("chk=aEq:%d", a))
		}
	}
	if op == "del" && p(35) {
		o = append(o, "am")
	}
	if op == "upd" {
		if p(10) {
			o = append(o, "xa")
		}
		if p(45) {
			o = append(o, "cia")
		}
	}
	if op == "upd" || op == "add" {
		if p(30) {
			o = append(o, "ccb")
		}
		if p(30) {
			o = append(o, "gid")
			if p(70) {
				o = append(o, "icb")
			}
		} else if p(5) {
			o = append(o, "icb")
		}
	}
	r.Shuffle(len(o), func(i, j int) { o[i], o[j] = o[j], o[i] })
	return o
}

func genReadOpts(r *rand.Rand, list bool) []string {
	var o []string
	if r.Intn(100) < 35 {
		o = append(o, "rm="+pick(r, masks()))
	}
	if list && r.Intn(100) < 40 {
		o = append(o, "inc="+pick(r, incPool))
	}
	return o
}

// genInstant draws a write time: mostly small instants around the clock's readings (so they collide
// with readings and go backwards between writes), and the boundary instants of time.Time: the zero
// value, the Unix epoch, before the epoch, far future, whole seconds and sub-second nanos.
func genInstant(r *rand.Rand) string {
	switch r.Intn(12) {
	case 0, 1:
		return zeroInstant // time.Time{}
	case 2:
		return showTime(time.Unix(0, 0))
	case 3:
		return showTime(time.Unix(-5, 7)) // before the epoch, with nanos
	case 4:
		return showTime(time.Unix(1<<40, 0)) // far future
	case 5:
		return showTime(time.Unix(clockBase+int64(r.Intn(3)), int64(r.Intn(2))*999_999_999))
	case 6:
		return strconv.Itoa(-1 - r.Intn(5)) // just before the clock's origin
	default:
		return strconv.Itoa(r.Intn(50)) // nanoseconds after the origin: equal to / earlier than / later than readings
	}
}
