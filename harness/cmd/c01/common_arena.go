package main

import (
	"fmt"
	"unsafe"

	"github.com/smart-core-os/sc-golang/pkg/resource"
)

// How the option slices reach the calls.
//
// A Go caller may write its options inline (`c.Add(id, m, A, B)`: a fresh slice, len == cap) or keep
// them in ONE slice and hand views of it to several calls (`opts := []WriteOption{A, B, C}`,
// `c.Add(id, m, opts[:1]...)`, later `c.Update(id, m, opts...)`): a variadic call `f(s...)` passes `s`
// itself, with its spare capacity, so all those calls share one backing array. The property quantifies
// over call sequences with any combination of options: what a call does must depend on the options it
// is given only, and a call must leave the caller's options as they are for the calls that follow.
//
// Scripts with `share` set are run in the second style: every write call of the run takes a view
// `arena[off:off+n]` of one backing array of capacity arenaCap (read calls likewise, from their own array;
// off is the call's Off, 0 unless the script says otherwise).
// The caller writes its list down once (prepare); after that position i of the array is rewritten by
// the "caller" only when the option token at position i of
// the current call differs from the one materialised there - exactly what a caller that re-uses a
// prefix of, or extends, its previous option list does. Whatever a callee wrote into the array is
// therefore seen by later calls through longer views, and the ordinary reference-map monitor reports
// the call that misbehaves. In addition every call is checked directly: the array (within and beyond
// the view) must hold the very same option values after the call as before.
const arenaCap = 24

type arena struct {
	share bool
	wArr  []resource.WriteOption
	wTok  []string
	rArr  []resource.ReadOption
	rTok  []string
	wSnap []resource.WriteOption
	rSnap []resource.ReadOption
	cur   *callbacks
	// note: set by checkW/checkR when a call wrote to its caller's option array
	note string
}

// ifaceWords: the two words of an interface value (dynamic type, data pointer). Option values are
// closures (not comparable with ==); identity of the two words is identity of the option value.
func ifaceWords(p unsafe.Pointer) [2]uintptr { return *(*[2]uintptr)(p) }

func sameWriteOption(a, b resource.WriteOption) bool {
	return ifaceWords(unsafe.Pointer(&a)) == ifaceWords(unsafe.Pointer(&b))
}

func sameReadOption(a, b resource.ReadOption) bool {
	return ifaceWords(unsafe.Pointer(&a)) == ifaceWords(unsafe.Pointer(&b))
}

// prepare: the caller writes its option list down once, before the first call: position i holds the
// option of the first call of the run whose list reaches position i.
func (r *real) prepare(ops []Op) {
	if !r.share {
		return
	}
	r.wArr, r.wTok = make([]resource.WriteOption, arenaCap), make([]string, arenaCap)
	r.rArr, r.rTok = make([]resource.ReadOption, arenaCap), make([]string, arenaCap)
	for _, o := range ops {
		if o.Off+len(o.Opts) > arenaCap {
			continue
		}
		if o.isWrite() {
			for i, t := range o.Opts {
				if i += o.Off; r.wArr[i] == nil {
					r.wArr[i], r.wTok[i] = writeOption(t, func() *callbacks { return r.cur }), t
				}
			}
			continue
		}
		n := o.Off
		for _, t := range o.Opts {
			ro, ok := readOption(t)
			if !ok {
				continue
			}
			if r.rArr[n] == nil {
				r.rArr[n], r.rTok[n] = ro, t
			}
			n++
		}
	}
}

// viewW returns the option slice for a write call.
func (r *real) viewW(o Op, cb *callbacks) []resource.WriteOption {
	r.cur, r.note = cb, ""
	if !r.share || o.Off+len(o.Opts) > arenaCap {
		r.wSnap = nil
		return writeOptions(o, cb)
	}
	if r.wArr == nil {
		r.wArr = make([]resource.WriteOption, arenaCap)
		r.wTok = make([]string, arenaCap)
	}
	for i, t := range o.Opts {
		if i += o.Off; r.wArr[i] == nil || r.wTok[i] != t {
			r.wArr[i], r.wTok[i] = writeOption(t, func() *callbacks { return r.cur }), t
		}
	}
	r.wSnap = append(r.wSnap[:0], r.wArr...)
	return r.wArr[o.Off : o.Off+len(o.Opts)] // cap == arenaCap-Off: the spare capacity holds the caller's other options
}

// checkW: the call must not have written to the caller's option array.
func (r *real) checkW(o Op) {
	if r.wSnap == nil {
		return
	}
	for i := range r.wArr {
		if !sameWriteOption(r.wArr[i], r.wSnap[i]) {
			r.note = fmt.Sprintf("position %d of the caller's option array (the call was given positions %d..%d) holds another option after the call", i, o.Off, o.Off+len(o.Opts)-1)
			return
		}
	}
}

func (r *real) viewR(o Op) []resource.ReadOption {
	r.note = ""
	if !r.share || o.Off+len(o.Opts) > arenaCap {
		r.rSnap = nil
		return readOptions(o)
	}
	if r.rArr == nil {
		r.rArr = make([]resource.ReadOption, arenaCap)
		r.rTok = make([]string, arenaCap)
	}
	n := o.Off
	for _, t := range o.Opts {
		if r.rArr[n] == nil || r.rTok[n] != t {
			ro, ok := readOption(t)
			if !ok {
				continue
			}
			r.rArr[n], r.rTok[n] = ro, t
		}
		n++
	}
	r.rSnap = append(r.rSnap[:0], r.rArr...)
	return r.rArr[o.Off:n]
}

func (r *real) checkR(o Op) {
	if r.rSnap == nil {
		return
	}
	for i := range r.rArr {
		if !sameReadOption(r.rArr[i], r.rSnap[i]) {
			r.note = fmt.Sprintf("position %d of the caller's read-option array holds another option after the call", i)
			return
		}
	}
}
