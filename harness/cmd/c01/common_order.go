package main

import "math/rand"

// withRepeats makes an option list ORDER-sensitive: it inserts, at random positions, further options
// whose keys may already occur (a second mask, a nil mask switching an earlier one off, more-update /
// more-writable masks before and after the mask they extend, allow-missing switched off again, callbacks,
// checks and interceptors replaced by nil, flags given twice). Options are applied in the order given, so the reference resolves the list first.
func withRepeats(r *rand.Rand, opts []string, kind string) []string {
	if r.Intn(100) >= 30 {
		return opts
	}
	out := append([]string(nil), opts...)
	for n := 1 + r.Intn(3); n > 0; n-- {
		var t string
		switch kind {
		case "get", "list", "vget":
			t = pick(r, []string{"rm=nil", "rm=" + pick(r, masks()), "rm=" + pick(r, masks()), "inc=nil",
				"inc=" + pick(r, incPool), "uo", "bp0", "bp"})
			if kind != "list" && (t == "uo" || t == "bp" || t == "bp0") {
				t = "rm=nil"
			}
		default:
			t = pick(r, []string{"um=nil", "um=" + pick(r, masks()), "mum=" + pick(r, masks()), "mum=" + pick(r, masks()),
				"rs=nil", "rs=" + pick(r, masks()), "ev=nil", "am0", "am", "mw=" + pick(r, wMasks()), "mw=" + pick(r, wMasks()),
				"wt=" + genInstant(r), "chk=aEq:" + []string{"0", "1", "2"}[r.Intn(3)], "bf=" + pick(r, bfPool),
				"af=" + pick(r, afPool), "cia", "nw", "ccb", "icb", "chk=nil", "bf=nil", "af=nil", "ccb0", "icb0"})
		}
		if genPos && (len(t) > 3 && (t[:3] == "bf=" || t[:3] == "af=")) {
			t = "nw" // the named interceptors are written for the first message type
		}
		i := r.Intn(len(out) + 1)
		out = append(out[:i], append([]string{t}, out[i:]...)...)
	}
	return out
}
