package main

// Forced overlaps of CreateEnterLeaveEvent / ResetTotals (tie kind K4) on the controller of
// meterconc.go. These calls do not read the clock in their change function: a call is three atomic steps
// (read the stored event | compute the totals from it | compare-and-commit).

import (
	"context"
	"fmt"
	"math"
	"math/rand"
	"strconv"
	"strings"
	"sync"
	"time"

	"google.golang.org/grpc/status"

	"github.com/smart-core-os/sc-api/go/traits"
	"github.com/smart-core-os/sc-golang/pkg/resource"
	"github.com/smart-core-os/sc-golang/pkg/trait/enterleavesensorpb"
	"github.com/smart-core-os/sc-golang/verifharness/lib"
)

// runConc executes a schedule on logical threads: thread i makes progLens[i] calls, call(i, k) runs the
// k-th and returns its canonical result. After the schedule every thread finishes in index order.
func runConc(ctl *cctl, progLens []int, call func(i, k int) string, sched []string) (calls [][]concCallOut, stuck bool) {
	calls = make([][]concCallOut, len(progLens))
	ths := make([]*cthread, len(progLens))
	inCall := make([]bool, len(progLens))
	callIdx := make([]int, len(progLens))
	for i, n := range progLens {
		i := i
		calls[i] = make([]concCallOut, n)
		var th *cthread
		th = ctl.spawn(i, n, func(k int) {
			out := &calls[i][k]
			out.ret = call(i, k)
			out.trace = strings.Join(th.trace, "")
			out.times = append([]int64(nil), th.times...)
		})
		ths[i] = th
	}
	stepThread := func(i int) {
		th := ths[i]
		if th.done {
			return
		}
		for j := range ths {
			if j != i && inCall[j] {
				calls[j][callIdx[j]].overlapped = true
				calls[i][callIdx[i]].overlapped = true
			}
		}
		inCall[i] = true
		switch ctl.step(th) {
		case "s", "done":
			inCall[i] = false
			callIdx[i]++
		case "stuck":
			stuck = true
		}
	}
	for _, s := range sched {
		if stuck {
			break
		}
		if strings.HasPrefix(s, "+") {
			d, _ := strconv.ParseInt(s[1:], 10, 64)
			ctl.tick(d)
			continue
		}
		if i, err := strconv.Atoi(s); err == nil && i >= 0 && i < len(ths) {
			stepThread(i)
		}
	}
	for i := range ths {
		for n := 0; !ths[i].done && !stuck && n < 1000; n++ {
			stepThread(i)
		}
	}
	return calls, stuck
}

// eventLog collects a Pull stream; waitSeed returns once the subscription is in place (its seed arrived),
// settle waits for `want` events or until the stream has been quiet for a while.
type eventLog[T any] struct {
	mu   sync.Mutex
	evs  []T
	done chan struct{}
}

func (l *eventLog[T]) add(v T) { l.mu.Lock(); l.evs = append(l.evs, v); l.mu.Unlock() }
func (l *eventLog[T]) len() int {
	l.mu.Lock()
	defer l.mu.Unlock()
	return len(l.evs)
}
func (l *eventLog[T]) waitSeed() {
	for dl := time.Now().Add(2 * time.Second); time.Now().Before(dl) && l.len() < 1; time.Sleep(20 * time.Microsecond) {
	}
}
func (l *eventLog[T]) settle(want int) {
	quiet, last := 0, -1
	for dl := time.Now().Add(2 * time.Second); time.Now().Before(dl); time.Sleep(100 * time.Microsecond) {
		n := l.len()
		if n >= want {
			return
		}
		if n == last {
			if quiet++; quiet >= 30 {
				return
			}
		} else {
			quiet, last = 0, n
		}
	}
}
func (l *eventLog[T]) snapshot() []T {
	l.mu.Lock()
	defer l.mu.Unlock()
	return append([]T(nil), l.evs...)
}

type elConc struct {
	Model string   `json:"model"`
	Kind  string   `json:"kind"`
	Init  *elInit  `json:"init"`
	Progs [][]elOp `json:"progs"`
	Sched []string `json:"sched"`
	Note  string   `json:"note,omitempty"`
}

func encElOp(o elOp) string {
	if o.Op == "reset" {
		return "reset"
	}
	occ := o.Occ
	if occ == "" {
		occ = "-"
	}
	return fmt.Sprintf("ev:%d:%s:%s:%s", o.Dir, occ, encOptInt(o.Enter), encOptInt(o.Leave))
}

func (c *elConc) Line() string {
	var sb strings.Builder
	sb.WriteString("el.conc ")
	if c.Init == nil {
		sb.WriteString("0/0")
	} else {
		sb.WriteString(encOptInt(c.Init.Enter) + "/" + encOptInt(c.Init.Leave))
	}
	sb.WriteString(" " + encList(c.Sched))
	for _, p := range c.Progs {
		var cs []string
		for _, o := range p {
			cs = append(cs, encElOp(o))
		}
		if len(cs) == 0 {
			sb.WriteString(" -")
		} else {
			sb.WriteString(" " + strings.Join(cs, ";"))
		}
	}
	return sb.String()
}
func (c *elConc) Key() string { return fmt.Sprint(c.Init == nil) + c.Line() }
func (c *elConc) NonTrivial() bool {
	seen := map[string]bool{}
	for _, s := range c.Sched {
		if !strings.HasPrefix(s, "+") {
			seen[s] = true
		}
	}
	return len(seen) >= 2
}
func (c *elConc) Buckets() []string {
	b := []string{fmt.Sprintf("threads=%d", len(c.Progs))}
	for _, p := range c.Progs {
		for _, o := range p {
			if o.Op == "reset" {
				b = append(b, "call=reset")
			} else {
				b = append(b, fmt.Sprintf("call=ev,dir=%d,explicit=%v", o.Dir, o.Enter != nil || o.Leave != nil))
			}
		}
	}
	return b
}

type elTotals struct {
	enter, leave *int32
}

type elConcRun struct {
	final  string
	totals elTotals
	calls  [][]concCallOut
	events []elTotals
	stuck  bool
}

func (c *elConc) exec() (run elConcRun, failure string) {
	ctl := newCtl(1000)
	defer ctl.close()
	var m *enterleavesensorpb.Model
	r := catch(func() string {
		opts := []resource.Option{resource.WithClock(ctl)}
		if c.Init != nil {
			opts = append(opts, enterleavesensorpb.WithInitialEnterLeaveEvent(&traits.EnterLeaveEvent{EnterTotal: cp32(c.Init.Enter), LeaveTotal: cp32(c.Init.Leave)}))
		}
		m = enterleavesensorpb.NewModel(opts...)
		return "ok"
	})
	if r != "ok" {
		return run, "new:" + r
	}
	ctx, cancel := context.WithCancel(context.Background())
	log := &eventLog[elTotals]{done: make(chan struct{})}
	pull := m.PullEnterLeaveEvents(ctx, resource.WithBackpressure(true))
	go func() {
		defer close(log.done)
		for ch := range pull {
			log.add(elTotals{cp32(ch.Value.EnterTotal), cp32(ch.Value.LeaveTotal)})
		}
	}()
	log.waitSeed()
	lens := make([]int, len(c.Progs))
	for i, p := range c.Progs {
		lens[i] = len(p)
	}
	run.calls, run.stuck = runConc(ctl, lens, func(i, k int) string {
		o := c.Progs[i][k]
		return catch(func() string {
			var err error
			if o.Op == "reset" {
				err = m.ResetTotals()
			} else {
				ev := &traits.EnterLeaveEvent{Direction: traits.EnterLeaveEvent_Direction(o.Dir), EnterTotal: cp32(o.Enter), LeaveTotal: cp32(o.Leave)}
				if o.Occ != "" {
					ev.Occupant = &traits.EnterLeaveEvent_Occupant{Name: o.Occ}
				}
				err = m.CreateEnterLeaveEvent(ev)
			}
			if err != nil {
				return status.Code(err).String()
			}
			return "ok"
		})
	}, c.Sched)
	if !run.stuck {
		want := 1
		for _, cs := range run.calls {
			for _, k := range cs {
				if k.ret == "ok" {
					want++
				}
			}
		}
		log.settle(want)
		run.final = catch(func() string {
			v, _ := m.GetEnterLeaveEvent()
			run.totals = elTotals{cp32(v.EnterTotal), cp32(v.LeaveTotal)}
			return elState(m)
		})
	}
	cancel()
	select {
	case <-log.done:
	case <-time.After(2 * time.Second):
	}
	run.events = log.snapshot()
	return run, ""
}

var lastElConc = map[*elConc]*elConcRun{}

func (c *elConc) RunCode() string {
	run, fail := c.exec()
	if fail != "" {
		return fail
	}
	lastElConc[c] = &run
	if run.stuck {
		return "stuck"
	}
	var ths []string
	for _, cs := range run.calls {
		var rets, traces []string
		for _, k := range cs {
			rets = append(rets, k.ret)
			traces = append(traces, strings.TrimPrefix(k.trace, "s"))
		}
		ths = append(ths, encAmpGo(rets)+":"+encAmpGo(traces))
	}
	return run.final + "#" + strings.Join(ths, ";")
}

// Check: totals are counters, under overlap: calls answer ok or Aborted; a call nobody overlapped is not
// refused; when the programs only count (ENTER/LEAVE/other events without explicit totals, no reset) the
// stored enter_total is exactly the initial total plus the number of SUCCESSFUL ENTER events (saturating at
// the int32 maximum), likewise leave_total — no increment lost, none counted twice, a refused call counts
// nothing; with resets in the mix each total lies between 0 and that sum; the same bounds hold on
// every Pull event; nothing hangs or panics.
func (c *elConc) Check(m *lib.Monitor, code string) {
	const sig = "C20/enterleave/concurrent/"
	run := lastElConc[c]
	delete(lastElConc, c)
	if strings.HasPrefix(code, "new:") || run == nil {
		m.Violate(sig+"NewModel/panic", "NewModel panicked: "+lastPanic, c, "no panic", code)
		return
	}
	if run.stuck {
		m.Violate(sig+"stuck", "a released call neither reached its next step nor returned within 20 s", c, "progress", "stuck")
		return
	}
	pure, explicit := true, false
	var okEnter, okLeave int64
	for i, cs := range run.calls {
		for k, out := range cs {
			o := c.Progs[i][k]
			method := "CreateEnterLeaveEvent"
			if o.Op == "reset" {
				method = "ResetTotals"
				pure = false
			}
			if o.Enter != nil || o.Leave != nil {
				explicit = true
			}
			switch out.ret {
			case "ok":
				if o.Op == "ev" && o.Dir == 1 {
					okEnter++
				}
				if o.Op == "ev" && o.Dir == 2 {
					okLeave++
				}
			case "Aborted":
				if !out.overlapped {
					m.Violate(sig+method+"/aborted-without-overlap", "a call that no other call overlapped was refused as a concurrent update", c, "ok", out.ret)
				}
			case "panic":
				m.Violate(sig+method+"/panic", method+" panicked: "+lastPanic, c, "no panic", out.ret)
			default:
				m.Violate(sig+method+"/error", method+" failed with something other than Aborted", c, "ok or Aborted", out.ret)
			}
		}
	}
	if explicit {
		return // explicit totals override the counters: covered by the tie only
	}
	init := func(p *int32) int64 {
		if p == nil {
			return 0
		}
		return int64(*p)
	}
	var i0, l0 int64
	if c.Init != nil {
		i0, l0 = init(c.Init.Enter), init(c.Init.Leave)
	}
	sat := func(v int64) int64 {
		if v > math.MaxInt32 {
			return math.MaxInt32
		}
		return v
	}
	maxE, maxL := sat(i0+okEnter), sat(l0+okLeave)
	val := func(p *int32) int64 {
		if p == nil {
			return 0
		}
		return int64(*p)
	}
	check := func(where string, t elTotals) {
		e, l := val(t.enter), val(t.leave)
		if e < 0 || l < 0 || e > maxE || l > maxL {
			m.Violate(sig+where+"/total-out-of-range", "a total is negative or larger than the initial total plus the number of successful events", c,
				fmt.Sprintf("0<=enter<=%d, 0<=leave<=%d", maxE, maxL), fmt.Sprintf("enter=%d leave=%d", e, l))
		}
	}
	check("stored", run.totals)
	for _, e := range run.events {
		check("pull-event", e)
	}
	if pure && (val(run.totals.enter) != maxE || val(run.totals.leave) != maxL) {
		m.Violate(sig+"stored/lost-or-double-count", "the totals are not the initial totals plus the number of successful ENTER / LEAVE events", c,
			fmt.Sprintf("enter=%d leave=%d", maxE, maxL), fmt.Sprintf("enter=%d leave=%d", val(run.totals.enter), val(run.totals.leave)))
	}
}

func init() {
	decoders["enterleave/conc"] = decoder[elConc]()
	builders = append(builders, func(f lib.Flags, res *lib.Result, rng *rand.Rand) []*section {
		s := &section{name: "enterleave/conc",
			tie: res.Tie("enterleave.Model overlapping CreateEnterLeaveEvent/ResetTotals (forced schedules)", "K4", "logical threads park at gau.afterRead and gau.beforeLock (these calls read no clock before the commit); a schedule of thread steps is executed, then every thread finishes in index order; compared with the Lean interleaving model: final event, every call's result (ok / Aborted) and park order; systematic: caller A (ENTER) advanced 0..3 steps, rival B (ENTER, LEAVE, reset, explicit total, two ENTERs) runs completely, A finishes, from default / configured / near-maximum totals; random: 2..3 threads x 1..3 calls (ENTER 45% / LEAVE 25% / other direction 10% / reset 10% / explicit total 10%), random schedules; non-trivial = at least two threads step inside the schedule; distinct by request line"),
			mon: res.Monitor("enterleave.totals are counters of the successful calls under overlap", "results ok or Aborted, no Aborted without overlap; counting-only programs: stored enter/leave totals = initial + number of successful ENTER/LEAVE events (saturating); with resets: 0 <= total <= that sum, on the stored event and on every Pull event (backpressure); no hang, no panic")}
		p32 := func(v int32) *int32 { return &v }
		mkEv := func(dir int32) elOp { return elOp{Op: "ev", Dir: dir, Occ: pick(rng, []string{"", "ann", "bob"})} }
		inits := []*elInit{nil, {Enter: p32(5), Leave: p32(2)}, {Enter: p32(math.MaxInt32 - 1), Leave: nil}}
		for _, init := range inits {
			for _, b := range []string{"enter", "leave", "reset", "explicit", "enter2"} {
				for k := 0; k <= 3; k++ {
					c := &elConc{Model: "enterleave", Kind: "conc", Init: init, Note: "systematic"}
					var pb []elOp
					switch b {
					case "enter":
						pb = []elOp{mkEv(1)}
					case "leave":
						pb = []elOp{mkEv(2)}
					case "reset":
						pb = []elOp{{Op: "reset"}}
					case "explicit":
						e := mkEv(1)
						e.Enter = p32(40)
						pb = []elOp{e}
					case "enter2":
						pb = []elOp{mkEv(1), mkEv(1)}
					}
					c.Progs = [][]elOp{{mkEv(1)}, pb}
					for i := 0; i < k; i++ {
						c.Sched = append(c.Sched, "0")
					}
					for i := 0; i < 3*len(pb); i++ {
						c.Sched = append(c.Sched, "1")
					}
					s.add(c)
				}
			}
		}
		n := f.N(400, 6000)
		for i := 0; i < n; i++ {
			c := &elConc{Model: "enterleave", Kind: "conc", Init: inits[rng.Intn(len(inits))]}
			if rng.Intn(4) == 0 {
				c.Init = &elInit{Enter: p32(int32(rng.Intn(50))), Leave: p32(int32(rng.Intn(50)))}
			}
			nt := 2 + rng.Intn(2)
			total := 0
			for t := 0; t < nt; t++ {
				var p []elOp
				for k := 1 + rng.Intn(1+i*3/n); k > 0; k-- {
					switch r := rng.Intn(100); {
					case r < 45:
						p = append(p, mkEv(1))
					case r < 70:
						p = append(p, mkEv(2))
					case r < 80:
						p = append(p, mkEv(0))
					case r < 90:
						p = append(p, elOp{Op: "reset"})
					default:
						e := mkEv(int32(rng.Intn(3)))
						if rng.Intn(2) == 0 {
							e.Enter = p32(int32(rng.Intn(60)))
						} else {
							e.Leave = p32(int32(rng.Intn(60)))
						}
						p = append(p, e)
					}
				}
				total += len(p)
				c.Progs = append(c.Progs, p)
			}
			for k := rng.Intn(3*total + 2); k > 0; k-- {
				c.Sched = append(c.Sched, strconv.Itoa(rng.Intn(nt)))
			}
			s.add(c)
		}
		return []*section{s}
	})
}
