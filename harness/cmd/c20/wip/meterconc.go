package main

// Forced overlaps of meter calls (tie kind K4: a model schedule executed on the real code).
//
// Logical threads are goroutines that park (a) at the verif yield points of resource.GetAndUpdate
// ("gau.afterRead": the stored value was read; "gau.beforeLock": the change function is done, the
// write lock is next), (a') after a plain Value.Get / Collection.Get ("value.get", "coll.get": reached with the
// read lock released) and (b) inside the injected resource.Clock: a call of Now() by a logical thread
// that is not yet in its commit section takes the current instant and then parks — exactly a goroutine
// that is descheduled right after reading the wall clock. No lock is held at any park point. The
// controller releases one thread at a time, so a schedule (list of thread ids and clock advances) is
// executed deterministically; no sleeps, no timing.

import (
	"context"
	"fmt"
	"math/rand"
	"os"
	"strconv"
	"strings"
	"sync"
	"time"

	"google.golang.org/grpc/status"
	"google.golang.org/protobuf/types/known/timestamppb"

	"github.com/smart-core-os/sc-api/go/traits"
	"github.com/smart-core-os/sc-golang/internal/verifhook"
	"github.com/smart-core-os/sc-golang/pkg/resource"
	"github.com/smart-core-os/sc-golang/pkg/trait/meterpb"
	"github.com/smart-core-os/sc-golang/verifharness/lib"
)

// ---- generic controller (also used by the other clock-dependent overlap families) -----------------

type cthread struct {
	id          int
	ev          chan string // a park point, or "done"
	release     chan struct{}
	inCommit    bool
	clockParked bool // the clock was read since the last yield point
	done        bool
	trace       []string // park points of the current call
	times       []int64  // instants the clock handed to this thread during the current call
}

func (th *cthread) park(p string) {
	th.trace = append(th.trace, p)
	th.ev <- p
	<-th.release
}

type cctl struct {
	mu   sync.Mutex
	byGo map[int64]*cthread
	now  int64
	max  int64 // largest instant handed out
}

func newCtl(t0 int64) *cctl {
	c := &cctl{byGo: map[int64]*cthread{}, now: t0, max: t0}
	verifhook.Set(c.hook)
	return c
}
func (c *cctl) close() { verifhook.Set(nil) }

func (c *cctl) self() *cthread {
	id := verifhook.GoID()
	c.mu.Lock()
	defer c.mu.Unlock()
	return c.byGo[id]
}

func (c *cctl) hook(point string) {
	if point == "value.get" || point == "coll.get" {
		// a read of the stored value by the model outside any transaction (a getter): the thread may be descheduled
		// right after it, before whatever write it goes on to make. The models as they are never do this inside a
		// writing call, so no call's trace has a "g"; a variant that computes from such a snapshot has, and the
		// schedules then run other threads' calls between its read and its write.
		if th := c.self(); th != nil && !th.inCommit {
			th.clockParked = false
			th.park("g")
		}
		return
	}
	if point != "gau.afterRead" && point != "gau.beforeLock" {
		return
	}
	th := c.self()
	if th == nil {
		return
	}
	th.clockParked = false
	if point == "gau.afterRead" {
		th.inCommit = false // a call that makes its write again after a lost race starts a new transaction
		th.park("r")
	} else {
		th.inCommit = true
		th.park("l")
	}
}

// Now implements resource.Clock.
func (c *cctl) Now() time.Time {
	c.mu.Lock()
	t := c.now
	if t > c.max {
		c.max = t
	}
	c.mu.Unlock()
	if th := c.self(); th != nil && !th.inCommit {
		th.times = append(th.times, t)
		if !th.clockParked {
			// several readings in a row (no yield point in between) are one atomic step: nobody can run between them
			th.clockParked = true
			th.park("c")
		}
	}
	return time.Unix(t, 0).UTC()
}

func (c *cctl) tick(d int64) {
	c.mu.Lock()
	c.now += d
	c.mu.Unlock()
}

// spawn starts a logical thread that runs the calls one after the other, parking at "s" before each.
func (c *cctl) spawn(id, calls int, call func(i int)) *cthread {
	th := &cthread{id: id, ev: make(chan string, 1), release: make(chan struct{})}
	ready := make(chan struct{})
	go func() {
		g := verifhook.GoID()
		c.mu.Lock()
		c.byGo[g] = th
		c.mu.Unlock()
		close(ready)
		defer func() {
			c.mu.Lock()
			delete(c.byGo, g)
			c.mu.Unlock()
			th.ev <- "done"
		}()
		for i := 0; i < calls; i++ {
			th.inCommit, th.clockParked = false, false
			th.trace, th.times = nil, nil
			th.ev <- "s"
			<-th.release
			call(i)
		}
	}()
	<-ready
	c.await(th)
	return th
}

// await: the thread's next park point, "done", or "stuck" after a generous bound.
func (c *cctl) await(th *cthread) string {
	select {
	case p := <-th.ev:
		if p == "done" {
			th.done = true
		}
		return p
	case <-time.After(20 * time.Second):
		th.done = true
		return "stuck"
	}
}

// step releases a parked thread and waits for its next park; no-op on a finished thread.
func (c *cctl) step(th *cthread) string {
	if th.done {
		return "done"
	}
	th.release <- struct{}{}
	return c.await(th)
}

// ---- the meter family -------------------------------------------------------------------------------

type meterCall struct {
	Op    string  `json:"op"` // rec | reset
	Usage float32 `json:"usage"`
}

type meterConc struct {
	Model string        `json:"model"`
	Kind  string        `json:"kind"`
	T0    int64         `json:"t0"`
	Init  *meterInit    `json:"init"`
	Progs [][]meterCall `json:"progs"` // one program per thread
	Sched []string      `json:"sched"` // "<n>": thread n takes one step; "+<d>": the clock advances d seconds
	Note  string        `json:"note,omitempty"`
}

func (c *meterConc) Line() string {
	var sb strings.Builder
	sb.WriteString(fmt.Sprintf("meter.conc %d ", c.T0))
	if c.Init == nil {
		sb.WriteString("-")
	} else {
		sb.WriteString(f32s(c.Init.Usage) + "," + encOptI64(c.Init.Start) + "," + encOptI64(c.Init.End))
	}
	var ps []string
	for _, p := range c.Progs {
		var cs []string
		for _, k := range p {
			if k.Op == "reset" {
				cs = append(cs, "z")
			} else {
				cs = append(cs, "r"+f32s(k.Usage))
			}
		}
		ps = append(ps, encList(cs))
	}
	sb.WriteString(" " + strings.Join(ps, "|") + " " + encList(c.Sched))
	return sb.String()
}
func (c *meterConc) Key() string { return c.Line() }

// NonTrivial: at least two threads take steps in the schedule (a genuine interleaving is forced).
func (c *meterConc) NonTrivial() bool {
	seen := map[string]bool{}
	for _, s := range c.Sched {
		if !strings.HasPrefix(s, "+") {
			seen[s] = true
		}
	}
	return len(seen) >= 2
}
func (c *meterConc) Buckets() []string {
	b := []string{fmt.Sprintf("threads=%d", len(c.Progs))}
	for _, p := range c.Progs {
		for _, k := range p {
			b = append(b, "call="+k.Op)
		}
	}
	return b
}

type concCallOut struct {
	ret        string // ok=<reading> | <code name> | panic
	trace      string // park points of the call, e.g. rcl
	times      []int64
	overlapped bool
}

type meterConcRun struct {
	final  string
	calls  [][]concCallOut
	events []string // every Pull event (reading)
	max    int64
	stuck  bool
}

func readingStr(v *traits.MeterReading) string {
	if v == nil {
		return "nil"
	}
	return f32s(v.Usage) + "," + encTs(v.StartTime) + "," + encTs(v.EndTime)
}

func (c *meterConc) exec() (run meterConcRun, failure string) {
	ctl := newCtl(c.T0)
	defer ctl.close()
	var m *meterpb.Model
	r := catch(func() string {
		opts := []resource.Option{resource.WithClock(ctl)}
		if c.Init != nil {
			iv := &traits.MeterReading{Usage: c.Init.Usage}
			if c.Init.Start != nil {
				iv.StartTime = tsOf(*c.Init.Start)
			}
			if c.Init.End != nil {
				iv.EndTime = tsOf(*c.Init.End)
			}
			opts = append(opts, resource.WithInitialValue(iv))
		}
		m = meterpb.NewModel(opts...)
		return "ok"
	})
	if r != "ok" {
		return run, "new:" + r
	}
	// every Pull event is observed (backpressure: none is dropped)
	ctx, cancel := context.WithCancel(context.Background())
	var evMu sync.Mutex
	pullDone := make(chan struct{})
	pull := m.PullMeterReadings(ctx, resource.WithBackpressure(true)) // subscribed before any call starts
	go func() {
		defer close(pullDone)
		for ch := range pull {
			evMu.Lock()
			run.events = append(run.events, readingStr(ch.Value))
			evMu.Unlock()
		}
	}()

	// the model may register its subscription asynchronously (PullPublication does): the seed event tells
	// that it is in place, so that every later commit is seen as an event
	for dl := time.Now().Add(2 * time.Second); time.Now().Before(dl); time.Sleep(20 * time.Microsecond) {
		evMu.Lock()
		n := len(run.events)
		evMu.Unlock()
		if n >= 1 {
			break
		}
	}
	run.calls = make([][]concCallOut, len(c.Progs))
	ths := make([]*cthread, len(c.Progs))
	inCall := make([]bool, len(c.Progs))
	for i, prog := range c.Progs {
		i, prog := i, prog
		run.calls[i] = make([]concCallOut, len(prog))
		var th *cthread
		th = ctl.spawn(i, len(prog), func(k int) {
			out := &run.calls[i][k]
			out.ret = catch(func() string {
				var v *traits.MeterReading
				var err error
				if prog[k].Op == "reset" {
					v, err = m.Reset()
				} else {
					v, err = m.RecordReading(prog[k].Usage)
				}
				if err != nil {
					return status.Code(err).String()
				}
				return "ok=" + readingStr(v)
			})
			out.trace = strings.Join(th.trace, "")
			out.times = append([]int64(nil), th.times...)
		})
		ths[i] = th
	}
	callIdx := make([]int, len(c.Progs))
	stepThread := func(i int) {
		th := ths[i]
		if th.done {
			return
		}
		// any call in progress on another thread is overlapped by this step
		for j := range ths {
			if j != i && inCall[j] {
				run.calls[j][callIdx[j]].overlapped = true
				run.calls[i][callIdx[i]].overlapped = true
			}
		}
		inCall[i] = true
		switch ctl.step(th) {
		case "s", "done":
			inCall[i] = false
			callIdx[i]++
		case "stuck":
			run.stuck = true
		}
	}
	for _, s := range c.Sched {
		if run.stuck {
			break
		}
		if strings.HasPrefix(s, "+") {
			d, _ := strconv.ParseInt(s[1:], 10, 64)
			ctl.tick(d)
			continue
		}
		if i, err := strconv.Atoi(s); err == nil && i >= 0 && i < len(ths) {
			stepThread(i)
		}
	}
	for i := range ths {
		for n := 0; !ths[i].done && !run.stuck && n < 1000; n++ {
			stepThread(i)
		}
	}
	if !run.stuck {
		// let the subscriber drain: seed + one event per committed call
		want := 1
		for _, cs := range run.calls {
			for _, k := range cs {
				if strings.HasPrefix(k.ret, "ok=") {
					want++
				}
			}
		}
		// at most `want` events are in flight (a write that changes nothing publishes none): wait for them,
		// or until the stream has been quiet for a while
		quiet, last := 0, -1
		for dl := time.Now().Add(2 * time.Second); time.Now().Before(dl); time.Sleep(100 * time.Microsecond) {
			evMu.Lock()
			n := len(run.events)
			evMu.Unlock()
			if n >= want {
				break
			}
			if n == last {
				if quiet++; quiet >= 30 {
					break
				}
			} else {
				quiet, last = 0, n
			}
		}
		run.final = catch(func() string { v, _ := m.GetMeterReading(); return readingStr(v) })
	}
	cancel()
	select {
	case <-pullDone:
	case <-time.After(2 * time.Second):
	}
	evMu.Lock()
	run.events = append([]string(nil), run.events...)
	evMu.Unlock()
	ctl.mu.Lock()
	run.max = ctl.max
	ctl.mu.Unlock()
	return run, ""
}

var lastMeterConc = map[*meterConc]*meterConcRun{}

func (c *meterConc) RunCode() string {
	t0 := time.Now()
	defer func() {
		if d := time.Since(t0); d > 200*time.Millisecond && os.Getenv("C20_DEBUG") != "" {
			fmt.Fprintln(os.Stderr, "slow", d, c.Line())
		}
	}()
	run, fail := c.exec()
	if fail != "" {
		return fail
	}
	lastMeterConc[c] = &run
	if run.stuck {
		return "stuck"
	}
	var ths []string
	for _, cs := range run.calls {
		var rets, traces []string
		for _, k := range cs {
			rets = append(rets, k.ret)
			traces = append(traces, strings.TrimPrefix(k.trace, "s"))
		}
		ths = append(ths, encAmpGo(rets)+":"+encAmpGo(traces))
	}
	return run.final + "#" + strings.Join(ths, ";")
}

func encAmpGo(xs []string) string {
	if len(xs) == 0 {
		return "-"
	}
	return strings.Join(xs, "&")
}

// orderedReading: "usage,start,end" with both times recorded, start <= end <= max.
func orderedReading(s string, max int64) (ok bool, why string) {
	p := strings.Split(s, ",")
	if len(p) != 3 {
		return false, "malformed"
	}
	st, e1 := strconv.ParseInt(p[1], 10, 64)
	en, e2 := strconv.ParseInt(p[2], 10, 64)
	if e1 != nil || e2 != nil {
		return false, "time-missing"
	}
	if st > en {
		return false, "start-after-end"
	}
	if en > max {
		return false, "end-in-future"
	}
	return true, ""
}

// Check: the rule itself, on everything observable, with no reference to the model: the stored
// reading, every reading a call returned and every Pull event has both times with start <= end <= the
// latest instant the clock handed out; a call returns ok or Aborted; an ok RecordReading(v) returns
// usage v with end = an instant the clock handed to that very call, an ok Reset returns (0,t,t) for
// such an instant; a call no other thread overlapped is not Aborted; the final reading is one that a
// committed call returned (or the initial one); nothing hangs, nothing panics.
func (c *meterConc) Check(m *lib.Monitor, code string) {
	const sig = "C20/meter/concurrent/"
	run := lastMeterConc[c]
	delete(lastMeterConc, c)
	if strings.HasPrefix(code, "new:") || run == nil {
		m.Violate(sig+"NewModel/panic", "NewModel panicked: "+lastPanic, c, "no panic", code)
		return
	}
	if run.stuck {
		m.Violate(sig+"stuck", "a released call neither reached its next step nor returned within 20 s", c, "progress", "stuck")
		return
	}
	if ok, why := orderedReading(run.final, run.max); !ok {
		m.Violate(sig+"stored/"+why, "after the overlapping calls the stored reading is not a period [start,end] with start <= end <= now", c, "start<=end<=now", run.final)
	}
	for _, e := range run.events {
		if ok, why := orderedReading(e, run.max); !ok {
			m.Violate(sig+"pull-event/"+why, "a Pull event carries a reading that is not a period [start,end] with start <= end <= now", c, "start<=end<=now", e)
			break
		}
	}
	committed := map[string]bool{}
	anyOK := false
	for i, cs := range run.calls {
		for k, out := range cs {
			call := c.Progs[i][k]
			method := map[string]string{"rec": "RecordReading", "reset": "Reset"}[call.Op]
			switch {
			case out.ret == "panic":
				m.Violate(sig+method+"/panic", method+" panicked: "+lastPanic, c, "no panic", out.ret)
			case strings.HasPrefix(out.ret, "ok="):
				anyOK = true
				rd := strings.TrimPrefix(out.ret, "ok=")
				committed[rd] = true
				if ok, why := orderedReading(rd, run.max); !ok {
					m.Violate(sig+method+"/returned/"+why, "a call returned a reading that is not a period [start,end] with start <= end <= now", c, "start<=end<=now", rd)
					continue
				}
				p := strings.Split(rd, ",")
				en, _ := strconv.ParseInt(p[2], 10, 64)
				mine := false
				for _, t := range out.times {
					mine = mine || t == en
				}
				wantUsage := "0"
				if call.Op == "rec" {
					wantUsage = f32s(call.Usage)
				}
				if !mine || p[0] != wantUsage || (call.Op == "reset" && p[1] != p[2]) {
					m.Violate(sig+method+"/returned/wrong-reading", "the returned reading does not carry the call's usage and a time the clock gave to this call", c,
						fmt.Sprintf("usage %s, end in %v", wantUsage, out.times), rd)
				}
			case out.ret == "Aborted":
				if !out.overlapped {
					m.Violate(sig+method+"/aborted-without-overlap", "a call that no other call overlapped was refused as a concurrent update", c, "ok", out.ret)
				}
			default:
				m.Violate(sig+method+"/error", method+" failed with something other than Aborted", c, "ok or Aborted", out.ret)
			}
		}
	}
	if anyOK && !committed[run.final] {
		m.Violate(sig+"stored/not-a-committed-reading", "the stored reading is not one that a successful call returned", c, fmt.Sprint(sortedKeys(committed)), run.final)
	}
}

func tsOf(s int64) *timestamppb.Timestamp { return &timestamppb.Timestamp{Seconds: s} }

func init() {
	decoders["meter/conc"] = decoder[meterConc]()
	builders = append(builders, func(f lib.Flags, res *lib.Result, rng *rand.Rand) []*section {
		s := &section{name: "meter/conc",
			tie: res.Tie("meter.Model overlapping RecordReading/Reset (forced schedules)", "K4", "logical threads park at gau.afterRead, gau.beforeLock and inside the injected clock's Now (outside the commit section); the controller executes a schedule of thread steps and clock advances, then lets every thread finish in index order; compared with the Lean interleaving model: final reading, every call's result (ok reading / Aborted) and every call's park order (where the clock is read relative to the read of the stored value); systematic: caller A advanced 0..4 steps, clock +0/+3, rival B runs one or two calls completely, clock +0/+2, A finishes, for all call kinds of A and B (fresh and configured models); random: 2..3 threads x 1..3 calls, random schedules with clock advances; non-trivial = at least two threads step inside the schedule; distinct by request line"),
			mon: res.Monitor("meter.period stays ordered under overlapping calls", "stored reading, every returned reading and every Pull event (backpressure, none dropped): both times, start <= end <= latest clock instant; results are ok or Aborted; ok readings carry the call's usage and a clock instant given to that call; no Aborted without overlap; final reading is a committed one; no hang, no panic")}
		mk := func(op string) meterCall {
			if op == "reset" {
				return meterCall{Op: "reset"}
			}
			return meterCall{Op: "rec", Usage: float32(1+rng.Intn(40)) / 4}
		}
		// systematic forced overlaps
		for _, a := range []string{"rec", "reset"} {
			for _, bs := range [][]string{{"reset"}, {"rec"}, {"reset", "rec"}, {"rec", "reset"}} {
				for k := 0; k <= 4; k++ {
					for _, d1 := range []int{0, 3} {
						for _, d2 := range []int{0, 2} {
							for _, pre := range []int{0, 1} {
								c := &meterConc{Model: "meter", Kind: "conc", T0: 1000 + int64(rng.Intn(1000)), Note: "systematic"}
								pa := []meterCall{}
								if pre == 1 {
									pa = append(pa, mk("rec"))
									c.Sched = append(c.Sched, "0", "0", "0", "0", "+1")
								}
								pa = append(pa, mk(a))
								var pb []meterCall
								for _, b := range bs {
									pb = append(pb, mk(b))
								}
								c.Progs = [][]meterCall{pa, pb}
								for i := 0; i < k; i++ {
									c.Sched = append(c.Sched, "0")
								}
								if d1 > 0 {
									c.Sched = append(c.Sched, fmt.Sprintf("+%d", d1))
								}
								for i := 0; i < 4*len(pb); i++ {
									c.Sched = append(c.Sched, "1")
								}
								if d2 > 0 {
									c.Sched = append(c.Sched, fmt.Sprintf("+%d", d2))
								}
								s.add(c)
							}
						}
					}
				}
			}
		}
		// random programs and schedules
		n := f.N(400, 6000)
		for i := 0; i < n; i++ {
			c := &meterConc{Model: "meter", Kind: "conc", T0: 1000 + int64(rng.Intn(1000))}
			if rng.Intn(100) < 25 {
				c.Init = &meterInit{Usage: float32(rng.Intn(40)) / 4}
				st := c.T0 - int64(rng.Intn(500))
				en := st + int64(rng.Intn(int(c.T0-st)+1))
				c.Init.Start = &st
				if rng.Intn(3) > 0 {
					c.Init.End = &en
				}
			}
			nt := 2 + rng.Intn(2)
			total := 0
			for t := 0; t < nt; t++ {
				var p []meterCall
				for k := 1 + rng.Intn(1+i*3/n); k > 0; k-- {
					if rng.Intn(3) == 0 {
						p = append(p, mk("reset"))
					} else {
						p = append(p, mk("rec"))
					}
				}
				total += len(p)
				c.Progs = append(c.Progs, p)
			}
			for k := rng.Intn(4*total + 2); k > 0; k-- {
				if rng.Intn(5) == 0 {
					c.Sched = append(c.Sched, fmt.Sprintf("+%d", rng.Intn(4)))
				} else {
					c.Sched = append(c.Sched, strconv.Itoa(rng.Intn(nt)))
				}
			}
			s.add(c)
		}
		return []*section{s}
	})
}
