package main

// "Models constructed with explicit configuration use it": the option plumbing of every trait model that takes
// resource options (vending: two collections; parent, publication: one collection; fan speed, enter/leave, meter: one
// value). Option LISTS of varying length mix plain resource options (shared by all resources of the model), options
// targeted at one resource (WithXOption(...) and the WithInitialX sugar) and non-resource arguments (WithPresets), on
// top of the package defaults (DefaultModelOptions, also replaced by generated ones for the collection models).
// What each resource ended up with is observed through the model's own API only: its records / initial value, which of
// the numbered spy clocks a write on that resource reads, which of the numbered spy random sources an id generation
// on that resource reads, which of the numbered spy comparers a subscription to that resource consults, which preset
// table validates.

import (
	"context"
	"fmt"
	"math/rand"
	"sort"
	"strconv"
	"strings"
	"sync"
	"time"

	"google.golang.org/protobuf/proto"

	"github.com/smart-core-os/sc-api/go/traits"
	"github.com/smart-core-os/sc-golang/pkg/resource"
	"github.com/smart-core-os/sc-golang/pkg/trait/enterleavesensorpb"
	"github.com/smart-core-os/sc-golang/pkg/trait/fanspeedpb"
	"github.com/smart-core-os/sc-golang/pkg/trait/meterpb"
	"github.com/smart-core-os/sc-golang/pkg/trait/parentpb"
	"github.com/smart-core-os/sc-golang/pkg/trait/publicationpb"
	"github.com/smart-core-os/sc-golang/pkg/trait/vendingpb"
	"github.com/smart-core-os/sc-golang/verifharness/lib"
)

// cfgROpt is a resource option: clock|rng|eq (numbered N), val (initial value tagged N), rec (initial record ID tagged N).
type cfgROpt struct {
	K  string `json:"k"`
	N  int    `json:"n"`
	ID string `json:"id,omitempty"`
}

func (o cfgROpt) enc() string {
	switch o.K {
	case "clock":
		return "c" + strconv.Itoa(o.N)
	case "rng":
		return "g" + strconv.Itoa(o.N)
	case "eq":
		return "e" + strconv.Itoa(o.N)
	case "val":
		return "v" + strconv.Itoa(o.N)
	default:
		return "i" + o.ID + "=" + strconv.Itoa(o.N)
	}
}

// cfgMOpt is one argument of NewModel: shared (a plain resource option Os[0]), target (WithXOption(Os...) of resource
// R), initial (the WithInitialX sugar of resource R: Os are recs, or one val), extra (WithPresets(table N)).
type cfgMOpt struct {
	K  string    `json:"k"`
	R  int       `json:"r"`
	Os []cfgROpt `json:"os,omitempty"`
	N  int       `json:"n,omitempty"`
}

func (o cfgMOpt) enc() string {
	switch o.K {
	case "shared":
		return "s." + o.Os[0].enc()
	case "extra":
		return "x" + strconv.Itoa(o.N)
	default:
		var ps []string
		for _, r := range o.Os {
			ps = append(ps, r.enc())
		}
		return "t" + strconv.Itoa(o.R) + "." + strings.Join(ps, "+")
	}
}

func encMOpts(os []cfgMOpt) string {
	if len(os) == 0 {
		return "-"
	}
	var ps []string
	for _, o := range os {
		ps = append(ps, o.enc())
	}
	return strings.Join(ps, ",")
}

type cfgCase struct {
	Model    string    `json:"model"`
	Kind     string    `json:"kind"`
	Trait    string    `json:"trait"`
	Defaults []cfgMOpt `json:"defaults"` // used when CustomDefaults: replaces the package's DefaultModelOptions
	Custom   bool      `json:"custom_defaults"`
	Opts     []cfgMOpt `json:"opts"`
}

// ---- spies ---------------------------------------------------------------------------------------------

type cfgSpies struct {
	mu    sync.Mutex // the comparer is called from the Pull goroutine
	clock [4]int
	rng   [4]int
	eq    [4]int
}

func (sp *cfgSpies) eqSnapshot() [4]int {
	sp.mu.Lock()
	defer sp.mu.Unlock()
	return sp.eq
}

// ticks turns a model's typed Pull channel into a stream of "an event arrived".
func ticks[T any](ch <-chan T) <-chan struct{} {
	out := make(chan struct{}, 256)
	go func() {
		defer close(out)
		for range ch {
			out <- struct{}{}
		}
	}()
	return out
}

func waitTicks(ch <-chan struct{}, n int) bool {
	dl := time.After(10 * time.Second)
	for ; n > 0; n-- {
		select {
		case _, ok := <-ch:
			if !ok {
				return false
			}
		case <-dl:
			return false
		}
	}
	return true
}

type spyClock struct {
	k  int
	sp *cfgSpies
}

func (c spyClock) Now() time.Time { c.sp.clock[c.k]++; return time.Unix(int64(1000*c.k), 0) }

type spyRng struct {
	k  int
	sp *cfgSpies
}

func (r spyRng) Read(p []byte) (int, error) {
	r.sp.rng[r.k]++
	for i := range p {
		p[i] = byte(16*r.k + i)
	}
	return len(p), nil
}

// used: which numbered spy was called between two snapshots ("0" = none of them: the resource package's default)
func usedSpy(before, after [4]int) string {
	var ks []string
	for k := 1; k < 4; k++ {
		if after[k] > before[k] {
			ks = append(ks, strconv.Itoa(k))
		}
	}
	if len(ks) == 0 {
		return "0"
	}
	return strings.Join(ks, "&")
}

// ---- per trait adapters ------------------------------------------------------------------------------

type cfgAdapter struct {
	kinds       string   // one letter per resource: c collection, v value
	resNames    []string // for signatures
	pkgDefaults string   // the package's own defaults in the model's encoding
	setDefaults func(opts []resource.Option) (restore func())
	target      func(r int, ros []resource.Option) resource.Option
	initialRecs func(r int, recs []cfgROpt) resource.Option
	initialVal  func(n int) resource.Option
	extra       func(n int) resource.Option
	rec         func(r int, id string, n int) proto.Message
	val         func(n int) proto.Message
	build       func(opts []resource.Option) any
	// observe: records or value tag of resource r, then (after one write on that resource) the clock and rng it used
	content func(m any, r int) string
	write   func(m any, r int, k int) (rngObservable bool) // k-th write (each one changes the resource)
	extraOf func(m any) string
	// pull subscribes to resource r through the model; seeds says how many seed events it starts with
	pull  func(ctx context.Context, m any, r int) <-chan struct{}
	seeds func(m any, r int) int
}

func tagOf(s string) string { return strings.TrimPrefix(s, "t") }

func fanPresetTable(n int) []fanspeedpb.Preset {
	return []fanspeedpb.Preset{{Name: fmt.Sprintf("p%d", n), Percentage: float32(10 * n)}, {Name: "q", Percentage: 55}}
}

var cfgAdapters = map[string]*cfgAdapter{
	"vending": {
		kinds: "cc", resNames: []string{"consumables", "inventory"}, pkgDefaults: "-",
		setDefaults: func(opts []resource.Option) func() {
			old := vendingpb.DefaultModelOptions
			vendingpb.DefaultModelOptions = opts
			return func() { vendingpb.DefaultModelOptions = old }
		},
		target: func(r int, ros []resource.Option) resource.Option {
			if r == 0 {
				return vendingpb.WithConsumablesOption(ros...)
			}
			return vendingpb.WithInventoryOption(ros...)
		},
		initialRecs: func(r int, recs []cfgROpt) resource.Option {
			if r == 0 {
				var cs []*traits.Consumable
				for _, x := range recs {
					cs = append(cs, &traits.Consumable{Name: x.ID, Title: "t" + strconv.Itoa(x.N)})
				}
				return vendingpb.WithInitialConsumable(cs...)
			}
			var ss []*traits.Consumable_Stock
			for _, x := range recs {
				ss = append(ss, &traits.Consumable_Stock{Consumable: x.ID, Used: &traits.Consumable_Quantity{Unit: traits.Consumable_LITER, Amount: float32(x.N)}})
			}
			return vendingpb.WithInitialStock(ss...)
		},
		rec: func(r int, id string, n int) proto.Message {
			if r == 0 {
				return &traits.Consumable{Name: id, Title: "t" + strconv.Itoa(n)}
			}
			return &traits.Consumable_Stock{Consumable: id, Used: &traits.Consumable_Quantity{Unit: traits.Consumable_LITER, Amount: float32(n)}}
		},
		build: func(opts []resource.Option) any { return vendingpb.NewModel(opts...) },
		content: func(mm any, r int) string {
			m := mm.(*vendingpb.Model)
			var ps []string
			if r == 0 {
				for _, c := range m.ListConsumables() {
					ps = append(ps, c.Name+"="+tagOf(c.Title))
				}
			} else {
				for _, s := range m.ListInventory() {
					ps = append(ps, s.Consumable+"="+strconv.Itoa(int(s.GetUsed().GetAmount())))
				}
			}
			return "recs=" + cfgRecs(ps)
		},
		write: func(mm any, r int, k int) bool {
			m := mm.(*vendingpb.Model)
			if r == 0 {
				_, _ = m.CreateConsumable(&traits.Consumable{Title: "w"})
			} else {
				_, _ = m.CreateStock(&traits.Consumable_Stock{})
			}
			return true
		},
		pull: func(ctx context.Context, mm any, r int) <-chan struct{} {
			if r == 0 {
				return ticks(mm.(*vendingpb.Model).PullConsumables(ctx))
			}
			return ticks(mm.(*vendingpb.Model).PullInventory(ctx))
		},
		seeds: func(mm any, r int) int {
			if r == 0 {
				return len(mm.(*vendingpb.Model).ListConsumables())
			}
			return len(mm.(*vendingpb.Model).ListInventory())
		},
	},
	"parent": {
		kinds: "c", resNames: []string{"children"}, pkgDefaults: "s.c0",
		setDefaults: func(opts []resource.Option) func() {
			old := parentpb.DefaultModelOptions
			parentpb.DefaultModelOptions = opts
			return func() { parentpb.DefaultModelOptions = old }
		},
		target: func(r int, ros []resource.Option) resource.Option { return parentpb.WithChildrenOption(ros...) },
		initialRecs: func(r int, recs []cfgROpt) resource.Option {
			var cs []*traits.Child
			for _, x := range recs {
				cs = append(cs, &traits.Child{Name: x.ID, Traits: []*traits.Trait{{Name: "t" + strconv.Itoa(x.N)}}})
			}
			return parentpb.WithInitialChildren(cs...)
		},
		rec: func(r int, id string, n int) proto.Message {
			return &traits.Child{Name: id, Traits: []*traits.Trait{{Name: "t" + strconv.Itoa(n)}}}
		},
		build: func(opts []resource.Option) any { return parentpb.NewModel(opts...) },
		content: func(mm any, r int) string {
			var ps []string
			for _, c := range mm.(*parentpb.Model).ListChildren() {
				t := "-"
				if len(c.Traits) > 0 {
					t = tagOf(c.Traits[0].Name)
				}
				ps = append(ps, c.Name+"="+t)
			}
			return "recs=" + cfgRecs(ps)
		},
		write: func(mm any, r int, k int) bool {
			mm.(*parentpb.Model).AddChild(&traits.Child{Name: "zz-written" + strconv.Itoa(k)})
			return false
		},
		pull: func(ctx context.Context, mm any, r int) <-chan struct{} {
			return ticks(mm.(*parentpb.Model).PullChildren(ctx))
		},
		seeds: func(mm any, r int) int { return len(mm.(*parentpb.Model).ListChildren()) },
	},
	"publication": {
		kinds: "c", resNames: []string{"publications"}, pkgDefaults: "-",
		setDefaults: func(opts []resource.Option) func() {
			old := publicationpb.DefaultModelOptions
			publicationpb.DefaultModelOptions = opts
			return func() { publicationpb.DefaultModelOptions = old }
		},
		target: func(r int, ros []resource.Option) resource.Option { return publicationpb.WithPublicationOption(ros...) },
		initialRecs: func(r int, recs []cfgROpt) resource.Option {
			var ps []*traits.Publication
			for _, x := range recs {
				ps = append(ps, &traits.Publication{Id: x.ID, Body: []byte("t" + strconv.Itoa(x.N))})
			}
			return publicationpb.WithInitialPublication(ps...)
		},
		rec: func(r int, id string, n int) proto.Message {
			return &traits.Publication{Id: id, Body: []byte("t" + strconv.Itoa(n))}
		},
		build: func(opts []resource.Option) any { return publicationpb.NewModel(opts...) },
		content: func(mm any, r int) string {
			var ps []string
			for _, p := range mm.(*publicationpb.Model).ListPublications() {
				ps = append(ps, p.Id+"="+tagOf(string(p.Body)))
			}
			return "recs=" + cfgRecs(ps)
		},
		write: func(mm any, r int, k int) bool {
			_, _ = mm.(*publicationpb.Model).CreatePublication(&traits.Publication{Body: []byte("w")})
			return true
		},
		pull: func(ctx context.Context, mm any, r int) <-chan struct{} {
			return ticks(mm.(*publicationpb.Model).PullPublications(ctx))
		},
		seeds: func(mm any, r int) int { return len(mm.(*publicationpb.Model).ListPublications()) },
	},
	"fanspeed": {
		kinds: "v", resNames: []string{"fanSpeed"}, pkgDefaults: "t0.v0,t0.e9,x0",
		target: func(r int, ros []resource.Option) resource.Option { return fanspeedpb.WithFanSpeedOption(ros...) },
		initialVal: func(n int) resource.Option {
			return fanspeedpb.WithInitialFanSpeed(&traits.FanSpeed{Percentage: float32(n), PresetIndex: -1})
		},
		extra: func(n int) resource.Option { return fanspeedpb.WithPresets(fanPresetTable(n)...) },
		val:   func(n int) proto.Message { return &traits.FanSpeed{Percentage: float32(n), PresetIndex: -1} },
		build: func(opts []resource.Option) any { return fanspeedpb.NewModel(opts...) },
		content: func(mm any, r int) string {
			v := mm.(*fanspeedpb.Model).FanSpeed()
			def := &traits.FanSpeed{Percentage: fanspeedpb.DefaultPresets[0].Percentage, Preset: fanspeedpb.DefaultPresets[0].Name, Direction: traits.FanSpeed_FORWARD}
			if proto.Equal(v, def) {
				return "val=0"
			}
			return "val=" + strconv.Itoa(int(v.Percentage))
		},
		write: func(mm any, r int, k int) bool {
			_, _ = mm.(*fanspeedpb.Model).UpdateFanSpeed(&traits.FanSpeed{Percentage: float32(77 + 3*k)})
			return false
		},
		pull: func(ctx context.Context, mm any, r int) <-chan struct{} {
			return ticks(mm.(*fanspeedpb.Model).PullFanSpeed(ctx))
		},
		seeds: func(mm any, r int) int { return 1 },
		extraOf: func(mm any) string {
			m := mm.(*fanspeedpb.Model)
			var ks []string
			for n := 1; n <= 3; n++ {
				if _, err := m.UpdateFanSpeed(&traits.FanSpeed{Preset: fmt.Sprintf("p%d", n)}); err == nil {
					ks = append(ks, strconv.Itoa(n))
				}
			}
			if _, err := m.UpdateFanSpeed(&traits.FanSpeed{Preset: fanspeedpb.DefaultPresets[1].Name}); err == nil {
				ks = append(ks, "0")
			}
			if len(ks) == 0 {
				return "-"
			}
			return strings.Join(ks, "&")
		},
	},
	"enterleave": {
		kinds: "v", resNames: []string{"enterLeaveEvent"}, pkgDefaults: "t0.v0",
		target: func(r int, ros []resource.Option) resource.Option {
			return enterleavesensorpb.WithEnterLeaveEventOption(ros...)
		},
		initialVal: func(n int) resource.Option {
			t := int32(n)
			return enterleavesensorpb.WithInitialEnterLeaveEvent(&traits.EnterLeaveEvent{EnterTotal: &t})
		},
		val:   func(n int) proto.Message { t := int32(n); return &traits.EnterLeaveEvent{EnterTotal: &t} },
		build: func(opts []resource.Option) any { return enterleavesensorpb.NewModel(opts...) },
		content: func(mm any, r int) string {
			v, err := mm.(*enterleavesensorpb.Model).GetEnterLeaveEvent()
			if err != nil || v.EnterTotal == nil {
				return "val=-"
			}
			return "val=" + strconv.Itoa(int(*v.EnterTotal))
		},
		write: func(mm any, r int, k int) bool {
			_ = mm.(*enterleavesensorpb.Model).CreateEnterLeaveEvent(&traits.EnterLeaveEvent{Direction: traits.EnterLeaveEvent_ENTER})
			return false
		},
		pull: func(ctx context.Context, mm any, r int) <-chan struct{} {
			return ticks(mm.(*enterleavesensorpb.Model).PullEnterLeaveEvents(ctx))
		},
		seeds: func(mm any, r int) int { return 1 },
	},
	"meter": { // no model options: every option is a plain one, after the constructor's own initial value
		kinds: "v", resNames: []string{"meterReading"}, pkgDefaults: "s.v0",
		val:   func(n int) proto.Message { return &traits.MeterReading{Usage: float32(n)} },
		build: func(opts []resource.Option) any { return meterpb.NewModel(opts...) },
		content: func(mm any, r int) string {
			v, err := mm.(*meterpb.Model).GetMeterReading()
			if err != nil {
				return "val=-"
			}
			return "val=" + strconv.Itoa(int(v.Usage))
		},
		write: func(mm any, r int, k int) bool {
			_, _ = mm.(*meterpb.Model).RecordReading(float32(5 + k))
			return false
		},
		pull: func(ctx context.Context, mm any, r int) <-chan struct{} {
			return ticks(mm.(*meterpb.Model).PullMeterReadings(ctx))
		},
		seeds: func(mm any, r int) int { return 1 },
	},
}

func cfgRecs(ps []string) string {
	sort.Strings(ps)
	if len(ps) == 0 {
		return "-"
	}
	return strings.Join(ps, ",")
}

var cfgTraits = []string{"vending", "parent", "publication", "fanspeed", "enterleave", "meter"}

func (c *cfgCase) adapter() *cfgAdapter { return cfgAdapters[c.Trait] }

func (c *cfgCase) Line() string {
	a := c.adapter()
	if a == nil {
		return "cfg.new ? - -"
	}
	d := a.pkgDefaults
	if c.Custom {
		d = encMOpts(c.Defaults)
	}
	return "cfg.new " + a.kinds + " " + d + " " + encMOpts(c.Opts)
}
func (c *cfgCase) Key() string { return c.Trait + " " + c.Line() }

// NonTrivial: at least one plain option and one targeted option in the same list.
func (c *cfgCase) NonTrivial() bool {
	var s, t bool
	for _, o := range c.Opts {
		s = s || o.K == "shared"
		t = t || o.K == "target" || o.K == "initial"
	}
	return s && t
}
func (c *cfgCase) Buckets() []string {
	ns := 0
	for _, o := range c.Opts {
		if o.K == "shared" {
			ns++
		}
	}
	b := []string{"trait=" + c.Trait, fmt.Sprintf("opts=%d", len(c.Opts)), fmt.Sprintf("shared=%d", ns)}
	if c.Custom {
		b = append(b, "custom-defaults")
	}
	return b
}

func (c *cfgCase) ropt(a *cfgAdapter, sp *cfgSpies, r int, o cfgROpt) resource.Option {
	switch o.K {
	case "clock":
		return resource.WithClock(spyClock{o.N, sp})
	case "rng":
		return resource.WithRNG(spyRng{o.N, sp})
	case "eq":
		if o.N == 4 {
			return resource.WithNoDuplicates()
		}
		k := o.N
		return resource.WithEquivalence(resource.ComparerFunc(func(x, y proto.Message) bool {
			sp.mu.Lock()
			sp.eq[k]++
			sp.mu.Unlock()
			return false // never equivalent: every change is delivered
		}))
	case "val":
		return resource.WithInitialValue(a.val(o.N))
	default:
		return resource.WithInitialRecord(o.ID, a.rec(r, o.ID, o.N))
	}
}

func (c *cfgCase) mopts(a *cfgAdapter, sp *cfgSpies, os []cfgMOpt) []resource.Option {
	var out []resource.Option
	for _, o := range os {
		switch o.K {
		case "shared":
			out = append(out, c.ropt(a, sp, 0, o.Os[0]))
		case "extra":
			out = append(out, a.extra(o.N))
		case "initial":
			if len(o.Os) == 1 && o.Os[0].K == "val" {
				out = append(out, a.initialVal(o.Os[0].N))
			} else {
				out = append(out, a.initialRecs(o.R, o.Os))
			}
		default:
			var ros []resource.Option
			for _, x := range o.Os {
				ros = append(ros, c.ropt(a, sp, o.R, x))
			}
			out = append(out, a.target(o.R, ros))
		}
	}
	return out
}

func (c *cfgCase) RunCode() string {
	a := c.adapter()
	if a == nil {
		return "!unknown-trait"
	}
	sp := &cfgSpies{}
	return catch(func() string {
		if c.Custom && a.setDefaults != nil {
			defer a.setDefaults(c.mopts(a, sp, c.Defaults))()
		}
		m := a.build(c.mopts(a, sp, c.Opts))
		parts := make([]string, len(a.kinds))
		for r := range a.kinds {
			parts[r] = a.content(m, r)
		}
		x := "-"
		if a.extraOf != nil {
			x = a.extraOf(m)
		}
		for r := range a.kinds {
			bc, br := sp.clock, sp.rng
			rngSeen := a.write(m, r, 0)
			rng := "?"
			if rngSeen {
				rng = usedSpy(br, sp.rng)
			}
			clock := usedSpy(bc, sp.clock)
			// the comparer is consulted by the Pull goroutine for every change after the seeds: subscribe, wait for the
			// seeds (the subscription is then in place), write once more, wait for that change's event
			eq := "timeout"
			ctx, cancel := context.WithCancel(context.Background())
			ev := a.pull(ctx, m, r)
			if waitTicks(ev, a.seeds(m, r)) {
				be := sp.eqSnapshot()
				a.write(m, r, 1)
				if waitTicks(ev, 1) {
					eq = usedSpy(be, sp.eqSnapshot())
				}
			}
			cancel()
			parts[r] = "clock=" + clock + " rng=" + rng + " eq=" + eq + " " + parts[r]
		}
		return "x=" + x + " | " + strings.Join(parts, " | ")
	})
}

// cfgEqual: token-wise equality; a code token `key=?` (not observable through the model's API) matches any value.
func cfgEqual(model, code string) bool {
	mt, ct := strings.Fields(model), strings.Fields(code)
	if len(mt) != len(ct) {
		return false
	}
	for i := range mt {
		if mt[i] == ct[i] {
			continue
		}
		if strings.HasSuffix(ct[i], "=?") && strings.HasPrefix(mt[i], strings.TrimSuffix(ct[i], "?")) {
			continue
		}
		// comparers 4 (WithNoDuplicates) and 9 (the fan-speed package default) are not spies: observed as "no spy"
		if ct[i] == "eq=0" && (mt[i] == "eq=4" || mt[i] == "eq=9") {
			continue
		}
		return false
	}
	return true
}

// Check: an oracle written independently of the Lean model, and independent of the ORDER of the options wherever
// the order could matter: each resource must hold exactly the records meant for it (plain options and options
// targeted at it; defaults included), a repeated id within one resource is the documented panic and nothing else
// panics; a clock / random source / initial value / preset table is checked when the caller's options name exactly
// one candidate for that resource (then it must be the one in use, over any default), or none (then the default's).
func (c *cfgCase) Check(m *lib.Monitor, code string) {
	a := c.adapter()
	if a == nil {
		return
	}
	sig := "C20/config/" + c.Trait + "/"
	n := len(a.kinds)
	type meant struct {
		recs          map[string][]int
		clock, rng    map[int]bool
		val, eq       map[int]bool
		dclock, drng  map[int]bool // from the defaults
		dval, deq     map[int]bool
		order         []string
		dup           bool
		fromCaller    int
		fromCallerVal int
	}
	ms := make([]*meant, n)
	for r := range ms {
		ms[r] = &meant{recs: map[string][]int{}, clock: map[int]bool{}, rng: map[int]bool{}, val: map[int]bool{}, eq: map[int]bool{}, dclock: map[int]bool{}, drng: map[int]bool{}, dval: map[int]bool{}, deq: map[int]bool{}}
	}
	extras, dextras := map[int]bool{}, map[int]bool{}
	note := func(r int, o cfgROpt, isDefault bool) {
		t := ms[r]
		switch o.K {
		case "clock":
			if isDefault {
				t.dclock[o.N] = true
			} else {
				t.clock[o.N] = true
			}
		case "rng":
			if isDefault {
				t.drng[o.N] = true
			} else {
				t.rng[o.N] = true
			}
		case "val":
			if isDefault {
				t.dval[o.N] = true
			} else {
				t.val[o.N] = true
			}
		case "eq":
			if isDefault {
				t.deq[o.N] = true
			} else {
				t.eq[o.N] = true
			}
		case "rec":
			if len(t.recs[o.ID]) > 0 {
				t.dup = true
			}
			t.recs[o.ID] = append(t.recs[o.ID], o.N)
		}
	}
	walk := func(os []cfgMOpt, isDefault bool) {
		for _, o := range os {
			switch o.K {
			case "shared":
				for r := 0; r < n; r++ {
					note(r, o.Os[0], isDefault)
				}
			case "extra":
				if isDefault {
					dextras[o.N] = true
				} else {
					extras[o.N] = true
				}
			default:
				if o.R >= 0 && o.R < n {
					for _, x := range o.Os {
						note(o.R, x, isDefault)
					}
				}
			}
		}
	}
	if c.Custom {
		walk(c.Defaults, true)
	} else {
		switch c.Trait { // the documented defaults of each package
		case "fanspeed":
			ms[0].dval[0] = true
			ms[0].deq[9] = true
			dextras[0] = true
		case "enterleave", "meter":
			ms[0].dval[0] = true
		}
	}
	walk(c.Opts, false)
	anyDup := false
	for _, t := range ms {
		anyDup = anyDup || t.dup
	}
	if code == "panic" {
		if !anyDup {
			m.Violate(sig+"panic", "constructing/reading a model configured with distinct record ids per resource panicked: "+lastPanic, c, "no panic", code)
		}
		return
	}
	if anyDup {
		m.Violate(sig+"duplicate-record-accepted", "two initial records with the same id for the same resource are documented to panic", c, "panic", code)
		return
	}
	parts := strings.Split(code, " | ")
	if len(parts) != n+1 {
		m.Violate(sig+"observation", "malformed observation", c, fmt.Sprint(n+1, " parts"), code)
		return
	}
	one := func(caller, def map[int]bool, fallback int) (int, bool) {
		pickOne := func(s map[int]bool) (int, bool) {
			for k := range s {
				return k, len(s) == 1
			}
			return 0, false
		}
		if len(caller) > 0 {
			return pickOne(caller)
		}
		if len(def) > 0 {
			return pickOne(def)
		}
		return fallback, true
	}
	field := func(part, key string) string {
		for _, t := range strings.Fields(part) {
			if strings.HasPrefix(t, key+"=") {
				return strings.TrimPrefix(t, key+"=")
			}
		}
		return ""
	}
	if a.extraOf != nil {
		if want, ok := one(extras, dextras, -1); ok && want >= 0 {
			if got := strings.TrimPrefix(parts[0], "x="); got != strconv.Itoa(want) {
				m.Violate(sig+"presets-not-used", "the preset table given with WithPresets (else the default one) must be the one in use", c, strconv.Itoa(want), got)
			}
		}
	}
	for r, t := range ms {
		part := parts[r+1]
		rs := sig + a.resNames[r] + "/"
		if a.kinds[r] == 'c' {
			var want []string
			for id, ns := range t.recs {
				want = append(want, id+"="+strconv.Itoa(ns[0]))
			}
			if got := field(part, "recs"); got != cfgRecs(want) {
				m.Violate(rs+"initial-records", "a collection must start with exactly the initial records configured for it (plain options and options targeted at it), each under its id with its content", c, cfgRecs(want), got)
			}
		} else {
			if want, ok := one(t.val, t.dval, -1); ok && want >= 0 {
				if got := field(part, "val"); got != strconv.Itoa(want) {
					m.Violate(rs+"initial-value", "a value must start with the initial value configured for it (a caller's over the default)", c, strconv.Itoa(want), got)
				}
			}
		}
		if want, ok := one(t.clock, t.dclock, 0); ok {
			if got := field(part, "clock"); got != strconv.Itoa(want) {
				m.Violate(rs+"clock-not-used", "a write must read the clock configured for the resource (plain or targeted option; the only candidate)", c, strconv.Itoa(want), got)
			}
		}
		if want, ok := one(t.eq, t.deq, 0); ok {
			if want == 4 || want == 9 { // WithNoDuplicates / the fan-speed default: not spies
				want = 0
			}
			if got := field(part, "eq"); got != strconv.Itoa(want) {
				m.Violate(rs+"comparer-not-used", "a subscription must consult the comparer configured for the resource (the only candidate)", c, strconv.Itoa(want), got)
			}
		}
		if want, ok := one(t.rng, t.drng, 0); ok {
			if got := field(part, "rng"); got != "?" && got != strconv.Itoa(want) {
				m.Violate(rs+"rng-not-used", "id generation must read the random source configured for the resource (the only candidate)", c, strconv.Itoa(want), got)
			}
		}
	}
}

// ---- generation ----------------------------------------------------------------------------------------

type cfgGen struct {
	rng    *rand.Rand
	a      *cfgAdapter
	trait  string
	nextID int
	used   [][]string // ids used per resource
}

func (g *cfgGen) freshID(r int) string {
	// the normal vending configuration: a stock record under the name of a configured consumable
	if len(g.used) == 2 && g.rng.Intn(2) == 0 {
		other := g.used[1-r]
		for try := 0; try < 3 && len(other) > 0; try++ {
			id := other[g.rng.Intn(len(other))]
			if !contains(g.used[r], id) {
				g.used[r] = append(g.used[r], id)
				return id
			}
		}
	}
	if g.rng.Intn(30) == 0 && len(g.used[r]) > 0 { // a repeated id for the same resource: the documented panic
		return g.used[r][g.rng.Intn(len(g.used[r]))]
	}
	id := string(rune('a'+g.nextID%26)) + strconv.Itoa(g.nextID/26)
	g.nextID++
	g.used[r] = append(g.used[r], id)
	return id
}

func contains(xs []string, x string) bool {
	for _, y := range xs {
		if x == y {
			return true
		}
	}
	return false
}

func (g *cfgGen) plain() cfgROpt {
	switch g.rng.Intn(3) {
	case 0:
		return cfgROpt{K: "clock", N: 1 + g.rng.Intn(3)}
	case 1:
		return cfgROpt{K: "rng", N: 1 + g.rng.Intn(3)}
	default:
		return cfgROpt{K: "eq", N: 1 + g.rng.Intn(4)}
	}
}

func (g *cfgGen) content(r int) cfgROpt {
	if g.a.kinds[r] == 'v' {
		return cfgROpt{K: "val", N: 1 + g.rng.Intn(9)}
	}
	return cfgROpt{K: "rec", ID: g.freshID(r), N: 1 + g.rng.Intn(9)}
}

func (g *cfgGen) list(n int) []cfgMOpt {
	var out []cfgMOpt
	nres := len(g.a.kinds)
	for i := 0; i < n; i++ {
		x := g.rng.Intn(100)
		switch {
		case g.a.extra != nil && x < 12:
			out = append(out, cfgMOpt{K: "extra", N: 1 + g.rng.Intn(3)})
		case x < 50 || g.a.target == nil:
			o := g.plain()
			if nres == 1 && g.rng.Intn(5) == 0 { // with one resource a plain content option is meaningful too
				o = g.content(0)
			}
			out = append(out, cfgMOpt{K: "shared", Os: []cfgROpt{o}})
		case x < 80:
			r := g.rng.Intn(nres)
			if g.a.kinds[r] == 'v' {
				out = append(out, cfgMOpt{K: "initial", R: r, Os: []cfgROpt{g.content(r)}})
				break
			}
			var os []cfgROpt
			for k := pick(g.rng, []int{1, 1, 1, 2, 3}); k > 0; k-- {
				os = append(os, g.content(r))
			}
			out = append(out, cfgMOpt{K: "initial", R: r, Os: os})
		default:
			r := g.rng.Intn(nres)
			var os []cfgROpt
			for k := g.rng.Intn(4); k > 0; k-- {
				if g.rng.Intn(2) == 0 {
					os = append(os, g.plain())
				} else {
					os = append(os, g.content(r))
				}
			}
			out = append(out, cfgMOpt{K: "target", R: r, Os: os})
		}
	}
	return out
}

func init() {
	decoders["config/new"] = decoder[cfgCase]()
	builders = append(builders, func(f lib.Flags, res *lib.Result, rng *rand.Rand) []*section {
		s := &section{name: "config/new",
			tie: res.Tie("NewModel option plumbing (vending, parent, publication, fan speed, enter/leave, meter)", "K1",
				"random option LISTS of length 0..10 (short first) per model: plain resource options shared by all resources (WithClock / WithRNG with numbered spies, WithEquivalence / WithNoDuplicates, for one-resource models also WithInitialRecord / WithInitialValue), options targeted at one resource (the WithInitialX sugar with 1..3 records or one value; WithXOption with 0..3 resource options), WithPresets for fan speed; vending stock ids reuse consumable ids half of the time, 3% repeated ids within a resource (documented panic); the collection models also run with generated DefaultModelOptions (15%); observed per resource through the model's API: records / initial value, which spy clock a write reads, which spy random source an id generation reads (not observable: rng of parent and of the value models), which spy comparer a subscription consults for a change after its seeds (WithNoDuplicates and the fan-speed default comparer count as 'no spy'), preset table; the Lean model computes the same from calcModelArgs + computeConfig; non-trivial = a plain and a targeted option in the same list; distinct by model + request line"),
			mon: res.Monitor("models constructed with explicit configuration use it (option lists)",
				"order-independent oracle: each collection starts with exactly the records configured for it, a repeated id within one resource panics and nothing else does, the single candidate clock / random source / comparer / initial value / preset table (caller's over default) is the one in use"),
			compare: cfgEqual}
		n := f.N(260, 3000)
		for _, tr := range cfgTraits {
			a := cfgAdapters[tr]
			for i := 0; i < n; i++ {
				g := &cfgGen{rng: rng, a: a, trait: tr, used: make([][]string, len(a.kinds))}
				c := &cfgCase{Model: "config", Kind: "new", Trait: tr}
				if a.setDefaults != nil && rng.Intn(100) < 15 {
					c.Custom = true
					c.Defaults = g.list(1 + rng.Intn(4))
				}
				c.Opts = g.list(i * 11 / n)
				s.add(c)
			}
		}
		return []*section{s}
	})
}
