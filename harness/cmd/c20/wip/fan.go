package main

import (
	"context"
	"fmt"
	"math"
	"math/rand"
	"strconv"
	"strings"

	"google.golang.org/grpc/status"
	"google.golang.org/protobuf/types/known/fieldmaskpb"

	"github.com/smart-core-os/sc-api/go/traits"
	"github.com/smart-core-os/sc-golang/pkg/resource"
	"github.com/smart-core-os/sc-golang/pkg/trait/fanspeedpb"
	"github.com/smart-core-os/sc-golang/verifharness/lib"
)

// Percentages are arbitrary finite float32 values; they travel to the model as their IEEE-754 bit
// pattern and the model adds them with float32 addition, so the tie is exact including rounding.
func pctBits(f float32) string { return strconv.FormatUint(uint64(math.Float32bits(f)), 10) }

// randPct: quarter steps 55%, thousandths 25%, arbitrary 20% (never NaN, infinite or negative zero).
func randPct(rng *rand.Rand) float32 {
	switch r := rng.Intn(100); {
	case r < 55:
		return float32(rng.Intn(401)) / 4
	case r < 80:
		return float32(rng.Intn(100001)) / 1000
	}
	return float32(rng.Float64() * 100)
}

func randDelta(rng *rand.Rand) float32 {
	if rng.Intn(2) == 0 {
		return float32(rng.Intn(81)-40) / 4
	}
	d := float32(rng.Float64()*80 - 40)
	if d == 0 {
		return 0
	}
	return d
}

type fanPreset struct {
	Name string  `json:"name"`
	Pct  float32 `json:"pct"`
}

type fanState struct {
	Pct    float32 `json:"pct"`
	Preset string  `json:"preset"`
	Index  int32   `json:"index"`
	Dir    int32   `json:"dir"`
}

type fanOp struct {
	fanState
	Relative bool     `json:"relative"`
	Mask     []string `json:"mask"` // nil: no update mask
}

type fanSeq struct {
	Model   string      `json:"model"`
	Kind    string      `json:"kind"`
	Presets []fanPreset `json:"presets"` // nil: DefaultPresets
	Init    *fanState   `json:"init"`    // nil: default initial fan speed
	Ops     []fanOp     `json:"ops"`
	states  []fanState  // observed: states[0] initial, states[i+1] after op i
	rets    []string
}

func encStr(s string) string {
	if s == "" {
		return "~"
	}
	return esc(s)
}
func (s fanState) enc() string {
	return fmt.Sprintf("%s,%s,%d,%d", pctBits(s.Pct), encStr(s.Preset), s.Index, s.Dir)
}

func (c *fanSeq) presets() []fanPreset {
	if c.Presets != nil {
		return c.Presets
	}
	var out []fanPreset
	for _, p := range fanspeedpb.DefaultPresets {
		out = append(out, fanPreset{p.Name, p.Percentage})
	}
	return out
}

func (c *fanSeq) init0() fanState {
	if c.Init != nil {
		return *c.Init
	}
	return fanState{Pct: fanspeedpb.DefaultPresets[0].Percentage, Preset: fanspeedpb.DefaultPresets[0].Name, Dir: int32(traits.FanSpeed_FORWARD)}
}

func (c *fanSeq) Line() string {
	var sb strings.Builder
	sb.WriteString("fan.seq ")
	var ps []string
	for _, p := range c.presets() {
		ps = append(ps, encStr(p.Name)+":"+pctBits(p.Pct))
	}
	sb.WriteString(encList(ps) + " " + c.init0().enc())
	for _, o := range c.Ops {
		rel := "abs"
		if o.Relative {
			rel = "rel"
		}
		mask := "none"
		if o.Mask != nil {
			mask = "m:" + strings.Join(o.Mask, "+")
		}
		sb.WriteString(" " + rel + "|" + mask + "|" + o.fanState.enc())
	}
	return sb.String()
}
func (c *fanSeq) Key() string      { return c.Line() }
func (c *fanSeq) NonTrivial() bool { return len(c.Ops) > 0 }
func (c *fanSeq) Buckets() []string {
	var b []string
	for i := range c.Ops {
		if i < len(c.rets) {
			b = append(b, "ret="+strings.SplitN(c.rets[i], "#", 2)[0])
		}
	}
	return b
}

func fanOf(v *traits.FanSpeed) fanState {
	return fanState{Pct: v.Percentage, Preset: v.Preset, Index: v.PresetIndex, Dir: int32(v.Direction)}
}

func (c *fanSeq) RunCode() string {
	c.states, c.rets = nil, nil
	var m *fanspeedpb.Model
	r := catch(func() string {
		var opts []resource.Option
		if c.Presets != nil {
			var ps []fanspeedpb.Preset
			for _, p := range c.Presets {
				ps = append(ps, fanspeedpb.Preset{Name: p.Name, Percentage: p.Pct})
			}
			opts = append(opts, fanspeedpb.WithPresets(ps...))
		}
		if c.Init != nil {
			opts = append(opts, fanspeedpb.WithInitialFanSpeed(&traits.FanSpeed{Percentage: c.Init.Pct, Preset: c.Init.Preset, PresetIndex: c.Init.Index, Direction: traits.FanSpeed_Direction(c.Init.Dir)}))
		}
		m = fanspeedpb.NewModel(opts...)
		return "ok"
	})
	if r != "ok" {
		return "new:" + r
	}
	srv := fanspeedpb.NewModelServer(m)
	c.states = append(c.states, fanOf(m.FanSpeed()))
	outs := []string{"init#" + c.states[0].enc()}
	for _, o := range c.Ops {
		o := o
		ret := catch(func() string {
			req := &traits.UpdateFanSpeedRequest{Relative: o.Relative,
				FanSpeed: &traits.FanSpeed{Percentage: o.Pct, Preset: o.Preset, PresetIndex: o.Index, Direction: traits.FanSpeed_Direction(o.Dir)}}
			if o.Mask != nil {
				req.UpdateMask = &fieldmaskpb.FieldMask{Paths: append([]string(nil), o.Mask...)}
			}
			_, err := srv.UpdateFanSpeed(context.Background(), req)
			if err != nil {
				return "err:" + status.Code(err).String()
			}
			return "ok"
		})
		c.rets = append(c.rets, ret)
		c.states = append(c.states, fanOf(m.FanSpeed()))
		outs = append(outs, ret+"#"+c.states[len(c.states)-1].enc())
	}
	return strings.Join(outs, ";")
}

func fanConsistent(ps []fanPreset, s fanState) bool {
	if s.Preset != "" {
		return s.Index >= 0 && int(s.Index) < len(ps) && ps[s.Index].Name == s.Preset && ps[s.Index].Pct == s.Pct
	}
	if s.Index != -1 {
		return false
	}
	for _, p := range ps {
		if p.Pct == s.Pct {
			return false
		}
	}
	return true
}

func inMask(mask []string, f string) bool {
	if mask == nil {
		return true
	}
	for _, m := range mask {
		if m == f {
			return true
		}
	}
	return false
}

// fanSpec is the documented rule as table lookups: the written fields (those in the mask, all
// without one; relative adds to percentage and index) are merged over the old state; then preset wins
// over index wins over percentage; the index is clamped to the preset list.
func fanSpec(ps []fanPreset, old fanState, o fanOp) (want fanState, ok bool) {
	w := old
	if inMask(o.Mask, "percentage") {
		w.Pct = o.Pct
		if o.Relative {
			w.Pct += old.Pct
		}
	}
	if inMask(o.Mask, "preset") {
		w.Preset = o.Preset
	}
	if inMask(o.Mask, "preset_index") {
		w.Index = o.Index
		if o.Relative {
			// the true integer sum, kept inside int32 (a step of +MaxInt32 means "to the last preset",
			// it must not wrap around to the first)
			sum := int64(o.Index) + int64(old.Index)
			if sum > math.MaxInt32 {
				sum = math.MaxInt32
			}
			if sum < math.MinInt32 {
				sum = math.MinInt32
			}
			w.Index = int32(sum)
		}
	}
	if inMask(o.Mask, "direction") {
		w.Dir = o.Dir
	}
	switch {
	case w.Preset != old.Preset:
		if w.Preset == "" {
			return w, false // excluded point: the write clears the preset of a fan that has one
		}
		for i, p := range ps {
			if p.Name == w.Preset {
				w.Index, w.Pct = int32(i), p.Pct
				return w, true
			}
		}
		return w, false
	case w.Index != old.Index:
		i := int64(w.Index)
		if i >= int64(len(ps)) {
			i = int64(len(ps)) - 1
		}
		if i < 0 {
			i = 0
		}
		w.Index, w.Preset, w.Pct = int32(i), ps[i].Name, ps[i].Pct
		return w, true
	case w.Pct != old.Pct:
		w.Index, w.Preset = -1, ""
		for i, p := range ps {
			if p.Pct == w.Pct {
				w.Index, w.Preset = int32(i), p.Name
				break
			}
		}
		return w, true
	}
	return w, true
}

func (c *fanSeq) Check(m *lib.Monitor, code string) {
	ps := c.presets()
	wf := len(ps) > 0
	for _, p := range ps {
		if p.Name == "" {
			wf = false
		}
	}
	if strings.HasPrefix(code, "new:") {
		m.Violate("C20/fanspeed/NewModel/panic", "NewModel panicked: "+lastPanic, c, "no panic", code)
		return
	}
	for i, o := range c.Ops {
		if i >= len(c.rets) {
			break
		}
		old, got := c.states[i], c.states[i+1]
		known := o.Preset == ""
		for _, p := range ps {
			if p.Name == o.Preset {
				known = true
			}
		}
		if c.rets[i] == "panic" {
			if wf {
				m.Violate("C20/fanspeed/UpdateFanSpeed/panic", "UpdateFanSpeed panicked with a non-empty preset list: "+lastPanic, c, "no panic", fmt.Sprintf("panic at op %d", i))
			}
			return
		}
		if !known {
			if c.rets[i] != "err:InvalidArgument" || got != old {
				m.Violate("C20/fanspeed/UpdateFanSpeed/unknown-preset", "an unknown preset must be rejected with InvalidArgument and change nothing", c, "err:InvalidArgument#"+old.enc(), c.rets[i]+"#"+got.enc())
			}
			continue
		}
		if c.rets[i] != "ok" {
			m.Violate("C20/fanspeed/UpdateFanSpeed/error", "a well-formed update failed", c, "ok", c.rets[i])
			continue
		}
		if !wf {
			continue
		}
		want, ok := fanSpec(ps, old, o)
		if !ok {
			m.Count("excluded-point")
			continue // excluded point (explicit hypothesis of C20_fan_consistent): not judged
		}
		if got != want {
			cls := "precedence"
			switch {
			case o.Relative && (o.Index > 1<<30 || o.Index < -(1<<30)):
				cls = "relative-index-overflow"
			case got.Dir != want.Dir || (o.Mask != nil && got == fanSpecIgnoringMask(ps, old, o)):
				cls = "update-mask-ignored"
			case fanConsistent(ps, old) && !fanConsistent(ps, got):
				cls = "inconsistent"
			}
			m.Violate("C20/fanspeed/UpdateFanSpeed/"+cls, fmt.Sprintf("after op %d preset/index/percentage are not what the precedence rule (preset > index > percentage, index clamped) gives", i), c, want.enc(), got.enc())
			return
		}
		if fanConsistent(ps, old) && !fanConsistent(ps, got) {
			m.Violate("C20/fanspeed/UpdateFanSpeed/inconsistent", "preset, index and percentage are no longer mutually consistent", c, "consistent", got.enc())
			return
		}
	}
}

func fanSpecIgnoringMask(ps []fanPreset, old fanState, o fanOp) fanState {
	o.Mask = nil
	w, _ := fanSpec(ps, old, o)
	return w
}

func init() {
	decoders["fan/seq"] = decoder[fanSeq]()
	builders = append(builders, func(f lib.Flags, res *lib.Result, rng *rand.Rand) []*section {
		s := &section{name: "fan/seq",
			tie: res.Tie("fanspeed.ModelServer.UpdateFanSpeed sequences", "K1", "random: DefaultPresets 40% / WithPresets 1..5 presets with float32 percentages (quarter steps 55%, thousandths 25%, arbitrary 20%; 10% duplicate percentage, 5% duplicate name, 3% empty name, 2% empty list) 60%; default initial fan speed 70% / random initial 30%; 1..8 updates: written fields chosen among percentage/preset/preset_index/direction, absolute 65% / relative 35%, update mask = exactly the written fields 55% / none 35% / other subset 10%; preset names: configured 77%, near-miss of a configured name (case variant, leading/trailing space or no-break space, prefix, extension, unicode look-alike) 13%, unrelated 10%; indices in -3..len+2, relative index steps in -2..2 (8% at the int32 limits); excluded points (a write that clears the preset of a fan that has one) are generated on purpose (about 25% of ops); non-trivial = has an op; distinct by request line"),
			mon: res.Monitor("fanspeed.precedence and consistency vs table lookup", "preset > index > percentage by table lookup, index clamped, fields outside the update mask unchanged, consistency (preset != '' => presets[index] = (preset, percentage); preset == '' => index = -1 and no preset has that percentage) preserved at every non-excluded write; unknown preset => InvalidArgument and no change; no panic with a non-empty preset list")}
		n := f.N(2000, 25000)
		for i := 0; i < n; i++ {
			c := &fanSeq{Model: "fan", Kind: "seq"}
			if rng.Intn(100) < 60 {
				k := 1 + rng.Intn(5)
				if rng.Intn(50) == 0 {
					k = 0
				}
				c.Presets = []fanPreset{}
				for j := 0; j < k; j++ {
					p := fanPreset{Name: fmt.Sprintf("p%d", j), Pct: randPct(rng)}
					if j > 0 && rng.Intn(10) == 0 {
						p.Pct = c.Presets[0].Pct
					}
					if j > 0 && rng.Intn(20) == 0 {
						p.Name = c.Presets[0].Name
					}
					if rng.Intn(33) == 0 {
						p.Name = ""
					}
					c.Presets = append(c.Presets, p)
				}
			}
			ps := c.presets()
			if rng.Intn(100) < 30 {
				st := fanState{Pct: randPct(rng), Index: -1, Dir: int32(rng.Intn(3))}
				if len(ps) > 0 && rng.Intn(3) > 0 {
					j := rng.Intn(len(ps))
					st = fanState{Pct: ps[j].Pct, Preset: ps[j].Name, Index: int32(j), Dir: int32(rng.Intn(3))}
				}
				c.Init = &st
			}
			k := 1 + i*8/n
			for j := 0; j < k; j++ {
				var o fanOp
				o.Relative = rng.Intn(100) < 35
				var written []string
				for _, fld := range []string{"percentage", "preset", "preset_index", "direction"} {
					if rng.Intn(100) < 35 {
						written = append(written, fld)
					}
				}
				if len(written) == 0 {
					written = []string{pick(rng, []string{"percentage", "preset", "preset_index"})}
				}
				for _, fld := range written {
					switch fld {
					case "percentage":
						o.Pct = randPct(rng)
						if o.Relative {
							o.Pct = randDelta(rng)
						}
						if len(ps) > 0 && rng.Intn(3) == 0 && !o.Relative {
							o.Pct = pick(rng, ps).Pct
						}
					case "preset":
						if len(ps) > 0 {
							o.Preset = pick(rng, ps).Name
							if rng.Intn(100) < 15 {
								o.Preset = nearMiss(rng, o.Preset) // must be rejected exactly like an unknown name
							}
						}
						if rng.Intn(10) == 0 {
							o.Preset = "nopreset"
						}
					case "preset_index":
						o.Index = int32(rng.Intn(len(ps)+6) - 3)
						if o.Relative {
							o.Index = int32(rng.Intn(5) - 2)
							if rng.Intn(12) == 0 {
								o.Index = pick(rng, []int32{math.MaxInt32, math.MaxInt32 - 1, math.MinInt32, math.MinInt32 + 1})
							}
						}
					case "direction":
						o.Dir = int32(rng.Intn(3))
					}
				}
				switch r := rng.Intn(100); {
				case r < 55:
					o.Mask = written
				case r < 90:
					o.Mask = nil
				default:
					o.Mask = []string{pick(rng, []string{"percentage", "preset", "preset_index", "direction"})}
				}
				c.Ops = append(c.Ops, o)
			}
			s.add(c)
		}
		// K2: DeriveValues branch selection, exhaustive over a small single-write domain
		x := &section{name: "fan/derive-exhaustive",
			tie: res.Tie("fanspeed.DeriveValues branch selection", "K2", "exhaustive: presets off/0 low/15 med/40; old state in {off, low, med, none@50}; one write with percentage in {0,15,50}, preset in {'', low, med, and the near-misses LOW, ' low', lo}, preset_index in {-1,0,1,5}, absolute/relative, update mask in {none, percentage, preset, preset_index, preset+preset_index, percentage+preset_index}; non-trivial = all; distinct by request line"),
			mon: res.Monitor("fanspeed.branch selection vs table lookup", "same spec as fanspeed.precedence, on the exhaustive small domain")}
		x.tie.Exhaustive = true
		ps3 := []fanPreset{{"off", 0}, {"low", 15}, {"med", 40}}
		olds := []fanState{{0, "off", 0, 1}, {15, "low", 1, 1}, {40, "med", 2, 1}, {50, "", -1, 1}}
		masks := [][]string{nil, {"percentage"}, {"preset"}, {"preset_index"}, {"preset", "preset_index"}, {"percentage", "preset_index"}}
		for _, old := range olds {
			old := old
			for _, pct := range []float32{0, 15, 50} {
				for _, pre := range []string{"", "low", "med", "LOW", " low", "lo"} {
					for _, idx := range []int32{-1, 0, 1, 5} {
						for _, rel := range []bool{false, true} {
							for _, mk := range masks {
								x.add(&fanSeq{Model: "fan", Kind: "seq", Presets: ps3, Init: &old,
									Ops: []fanOp{{fanState: fanState{Pct: pct, Preset: pre, Index: idx, Dir: 1}, Relative: rel, Mask: mk}}})
							}
						}
					}
				}
			}
		}
		return []*section{x, s}
	})
}
