package main

import (
	"fmt"
	"math"
	"math/rand"
	"strconv"
	"strings"

	"github.com/smart-core-os/sc-api/go/traits"
	"github.com/smart-core-os/sc-golang/pkg/resource"
	"github.com/smart-core-os/sc-golang/pkg/trait/enterleavesensorpb"
	"github.com/smart-core-os/sc-golang/verifharness/lib"
)

type elOp struct {
	Op    string `json:"op"` // ev | reset
	Dir   int32  `json:"dir"`
	Occ   string `json:"occ"`
	Enter *int32 `json:"enter"`
	Leave *int32 `json:"leave"`
}

type elInit struct {
	Enter *int32 `json:"enter"`
	Leave *int32 `json:"leave"`
}

type elSeq struct {
	Model string  `json:"model"`
	Kind  string  `json:"kind"`
	Init  *elInit `json:"init"` // nil: default options (both totals 0)
	Ops   []elOp  `json:"ops"`
}

func encOptInt(p *int32) string {
	if p == nil {
		return "-"
	}
	return strconv.Itoa(int(*p))
}

func (c *elSeq) Line() string {
	var sb strings.Builder
	sb.WriteString("el.seq ")
	if c.Init == nil {
		sb.WriteString("0/0")
	} else {
		sb.WriteString(encOptInt(c.Init.Enter) + "/" + encOptInt(c.Init.Leave))
	}
	for _, o := range c.Ops {
		if o.Op == "reset" {
			sb.WriteString(" reset")
		} else {
			occ := o.Occ
			if occ == "" {
				occ = "-"
			}
			sb.WriteString(fmt.Sprintf(" ev:%d:%s:%s:%s", o.Dir, occ, encOptInt(o.Enter), encOptInt(o.Leave)))
		}
	}
	return sb.String()
}
func (c *elSeq) Key() string { return fmt.Sprint(c.Init == nil) + c.Line() }
func (c *elSeq) NonTrivial() bool {
	for _, o := range c.Ops {
		if o.Op == "ev" && (o.Dir == 1 || o.Dir == 2) {
			return true
		}
	}
	return false
}
func (c *elSeq) Buckets() []string {
	var b []string
	for _, o := range c.Ops {
		if o.Op == "reset" {
			b = append(b, "op=reset")
		} else {
			b = append(b, fmt.Sprintf("op=ev,dir=%d,explicit=%v/%v", o.Dir, o.Enter != nil, o.Leave != nil))
		}
	}
	return b
}

func elState(m *enterleavesensorpb.Model) string {
	v, _ := m.GetEnterLeaveEvent()
	occ := "-"
	if v.Occupant != nil {
		occ = v.Occupant.Name
		if occ == "" {
			occ = "~"
		}
	}
	return fmt.Sprintf("%d,%s,%s,%s", int32(v.Direction), occ, encOptInt(v.EnterTotal), encOptInt(v.LeaveTotal))
}

func cp32(p *int32) *int32 {
	if p == nil {
		return nil
	}
	v := *p
	return &v
}

func (c *elSeq) RunCode() string {
	var m *enterleavesensorpb.Model
	r := catch(func() string {
		var opts []resource.Option
		if c.Init != nil {
			opts = append(opts, enterleavesensorpb.WithInitialEnterLeaveEvent(&traits.EnterLeaveEvent{EnterTotal: cp32(c.Init.Enter), LeaveTotal: cp32(c.Init.Leave)}))
		}
		m = enterleavesensorpb.NewModel(opts...)
		return "ok"
	})
	if r != "ok" {
		return "new:" + r
	}
	outs := []string{"init#" + elState(m)}
	for _, o := range c.Ops {
		o := o
		ret := catch(func() string {
			var err error
			if o.Op == "reset" {
				err = m.ResetTotals()
			} else {
				ev := &traits.EnterLeaveEvent{Direction: traits.EnterLeaveEvent_Direction(o.Dir), EnterTotal: cp32(o.Enter), LeaveTotal: cp32(o.Leave)}
				if o.Occ != "" {
					ev.Occupant = &traits.EnterLeaveEvent_Occupant{Name: o.Occ}
				}
				err = m.CreateEnterLeaveEvent(ev)
			}
			if err != nil {
				return "err"
			}
			return "ok"
		})
		outs = append(outs, ret+"#"+catch(func() string { return elState(m) }))
	}
	return strings.Join(outs, ";")
}

// Check: the totals are counters (plain Go integers): ENTER adds one to enter_total, LEAVE to
// leave_total, a supplied total different from the current one replaces it, ResetTotals zeroes both
// and leaves direction/occupant alone; an event replaces direction and occupant. A total at the int32
// maximum stays there (it must not wrap to a negative count).
func (c *elSeq) Check(m *lib.Monitor, code string) {
	if strings.HasPrefix(code, "new:") {
		m.Violate("C20/enterleave/NewModel/panic", "NewModel panicked: "+lastPanic, c, "no panic", code)
		return
	}
	steps := strings.Split(code, ";")
	var enter, leave *int64
	set := func(p *int32) *int64 {
		if p == nil {
			return nil
		}
		v := int64(*p)
		return &v
	}
	if c.Init == nil {
		z1, z2 := int64(0), int64(0)
		enter, leave = &z1, &z2
	} else {
		enter, leave = set(c.Init.Enter), set(c.Init.Leave)
	}
	dir, occ := int32(0), "-"
	enc := func(p *int64) string {
		if p == nil {
			return "-"
		}
		return strconv.FormatInt(*p, 10)
	}
	want := func() string { return fmt.Sprintf("%d,%s,%s,%s", dir, occ, enc(enter), enc(leave)) }
	if got := strings.SplitN(steps[0], "#", 2)[1]; got != want() {
		m.Violate("C20/enterleave/NewModel/initial-event-ignored", "the model must start from the configured event", c, want(), got)
		return
	}
	for i, o := range c.Ops {
		if i+1 >= len(steps) {
			break
		}
		p := strings.SplitN(steps[i+1], "#", 2)
		method := map[string]string{"ev": "CreateEnterLeaveEvent", "reset": "ResetTotals"}[o.Op]
		if p[0] == "panic" || p[1] == "panic" {
			m.Violate("C20/enterleave/"+method+"/panic", method+" panicked: "+lastPanic, c, "no panic", steps[i+1])
			return
		}
		if p[0] != "ok" {
			m.Violate("C20/enterleave/"+method+"/error", method+" failed", c, "ok", p[0])
			return
		}
		overflow := false
		if o.Op == "reset" {
			z1, z2 := int64(0), int64(0)
			enter, leave = &z1, &z2
		} else {
			adj := func(val *int32, cur *int64, inc bool) *int64 {
				cv := int64(0)
				if cur != nil {
					cv = *cur
				}
				if val != nil && int64(*val) != cv {
					v := int64(*val)
					return &v
				}
				if inc {
					if cv == math.MaxInt32 {
						overflow = true // the counter saturates: a total never wraps to a negative number
					} else {
						cv++
					}
				}
				return &cv
			}
			enter = adj(o.Enter, enter, o.Dir == 1)
			leave = adj(o.Leave, leave, o.Dir == 2)
			dir, occ = o.Dir, "-"
			if o.Occ != "" {
				occ = o.Occ
			}
		}
		if p[1] != want() {
			cls := "totals"
			if overflow {
				cls = "total-wraps-negative"
			}
			g, w := strings.Split(p[1], ","), strings.Split(want(), ",")
			if len(g) == 4 && g[2] == w[2] && g[3] == w[3] {
				cls = "other-fields"
			}
			m.Violate("C20/enterleave/"+method+"/"+cls, fmt.Sprintf("after op %d the event is not what the counter spec gives", i), c, want(), p[1])
			return
		}
	}
}

func init() {
	decoders["enterleave/seq"] = decoder[elSeq]()
	builders = append(builders, func(f lib.Flags, res *lib.Result, rng *rand.Rand) []*section {
		s := &section{name: "enterleave/seq",
			tie: res.Tie("enterleave.Model event sequences", "K1", "random: default options 60% / WithInitialEnterLeaveEvent with any subset of totals present 40% (values 0..5, 5% at or within 2 of the int32 maximum); 1..10 ops: CreateEnterLeaveEvent 85% (direction UNSPECIFIED/ENTER/LEAVE, occupant present 50%, explicit enter/leave total each 25%: equal to current-ish small value or new) / ResetTotals 15%; short first; non-trivial = has an ENTER or LEAVE event; distinct by request line"),
			mon: res.Monitor("enterleave.totals are counters", "plain integer counters: ENTER/LEAVE increment their total, explicit different total overrides, ResetTotals zeroes both and changes nothing else; no panic")}
		n := f.N(1500, 20000)
		small := func() *int32 {
			v := int32(rng.Intn(6))
			if rng.Intn(20) == 0 {
				v = math.MaxInt32 - int32(rng.Intn(3)) // at and just below the saturation point
			}
			return &v
		}
		opt := func(pct int) *int32 {
			if rng.Intn(100) < pct {
				return small()
			}
			return nil
		}
		for i := 0; i < n; i++ {
			c := &elSeq{Model: "enterleave", Kind: "seq"}
			if rng.Intn(100) < 40 {
				c.Init = &elInit{Enter: opt(60), Leave: opt(60)}
			}
			k := 1 + i*10/n
			for j := 0; j < k; j++ {
				if rng.Intn(100) < 15 {
					c.Ops = append(c.Ops, elOp{Op: "reset"})
					continue
				}
				o := elOp{Op: "ev", Dir: int32(rng.Intn(3)), Enter: opt(25), Leave: opt(25)}
				if rng.Intn(2) == 0 {
					o.Occ = pick(rng, []string{"alice", "bob"})
				}
				c.Ops = append(c.Ops, o)
			}
			s.add(c)
		}
		return []*section{s}
	})
}
