package main

import (
	"context"
	"fmt"
	"math"
	"math/big"
	"math/rand"
	"strconv"
	"strings"

	"google.golang.org/grpc/status"

	"github.com/smart-core-os/sc-api/go/traits"
	"github.com/smart-core-os/sc-golang/pkg/resource"
	"github.com/smart-core-os/sc-golang/pkg/trait/vendingpb"
	"github.com/smart-core-os/sc-golang/pkg/trait/vendingpb/unitpb"
	"github.com/smart-core-os/sc-golang/verifharness/lib"
)

// ---- exact rationals <-> floats ------------------------------------------------------------------

func ratOfFloat(f float64) *big.Rat { r := new(big.Rat); r.SetFloat64(f); return r }
func ratStr(r *big.Rat) string {
	if r.IsInt() {
		return r.Num().String()
	}
	return r.Num().String() + "/" + r.Denom().String()
}
func parseRat(s string) (*big.Rat, bool) { return new(big.Rat).SetString(s) }

// closeTo: |a-b| <= tol * max(scale, |a|, |b|)
func closeTo(a, b *big.Rat, tol float64, scale *big.Rat) bool {
	d := new(big.Rat).Sub(a, b)
	d.Abs(d)
	m := new(big.Rat).Set(scale)
	for _, x := range []*big.Rat{a, b} {
		ax := new(big.Rat).Abs(x)
		if ax.Cmp(m) > 0 {
			m = ax
		}
	}
	lim := new(big.Rat).Mul(ratOfFloat(tol), m)
	return d.Cmp(lim) <= 0
}

// ---- independent spec of the unit table (math/big) -------------------------------------------

type unitSpec struct {
	cat    string
	factor *big.Rat // in SI units of the category
}

func mustRat(s string) *big.Rat {
	r, ok := new(big.Rat).SetString(s)
	if !ok {
		panic(s)
	}
	return r
}

// Physical facts, written independently of convert.go: 1 m3 = 1000 l; 1 US cup = 1/16 US gallon of
// 3.785411784 l; metre, litre and kilogram are the SI/base units of their categories.
var unitTable = map[int32]unitSpec{
	2: {"length", mustRat("1")},
	3: {"volume", mustRat("1")},
	4: {"volume", mustRat("1000")},
	5: {"volume", new(big.Rat).Quo(mustRat("3.785411784"), mustRat("16"))},
	6: {"weight", mustRat("1")},
}

func specConvert(v *big.Rat, from, to int32) (*big.Rat, bool) {
	if from == to {
		return v, true
	}
	f, ok1 := unitTable[from]
	t, ok2 := unitTable[to]
	if !ok1 || !ok2 || f.cat != t.cat {
		return nil, false
	}
	r := new(big.Rat).Mul(v, f.factor)
	return r.Quo(r, t.factor), true
}

// ---- convert: K2 over every unit pair ------------------------------------------------------------

type vendConv struct {
	Model string `json:"model"`
	Kind  string `json:"kind"`
	V     string `json:"v"` // exact rational of the float64 input
	From  int32  `json:"from"`
	To    int32  `json:"to"`
}

func (c *vendConv) Line() string      { return fmt.Sprintf("vend.conv %s %d %d", c.V, c.From, c.To) }
func (c *vendConv) Key() string       { return c.Line() }
func (c *vendConv) NonTrivial() bool  { return c.From != c.To }
func (c *vendConv) Buckets() []string { return []string{fmt.Sprintf("pair=%d>%d", c.From, c.To)} }
func (c *vendConv) RunCode() string {
	return catch(func() string {
		v, _ := parseRat(c.V)
		f, _ := v.Float64()
		r, err := unitpb.Convert(f, traits.Consumable_Unit(c.From), traits.Consumable_Unit(c.To))
		if err != nil {
			return "err"
		}
		return "ok:" + ratStr(ratOfFloat(r))
	})
}

// compareNumeric: answers are equal when every numeric field (after a ':' or '=' up to the next
// space) is within tol (relative to max(1e-30, |x|)) and the rest is identical.
func numericEqual(tol float64) func(model, code string) bool {
	return func(model, code string) bool {
		mt, ct := strings.Fields(model), strings.Fields(code)
		if len(mt) != len(ct) {
			return false
		}
		for i := range mt {
			if mt[i] == ct[i] {
				continue
			}
			mi, ci := strings.LastIndexAny(mt[i], ":="), strings.LastIndexAny(ct[i], ":=")
			if mi < 0 || ci < 0 || mt[i][:mi] != ct[i][:ci] {
				return false
			}
			a, ok1 := parseRat(mt[i][mi+1:])
			b, ok2 := parseRat(ct[i][ci+1:])
			if !ok1 || !ok2 || !closeTo(a, b, tol, ratOfFloat(1e-30)) {
				return false
			}
		}
		return true
	}
}

// numericEqualScaled is numericEqual with an absolute tolerance tol * (largest magnitude appearing in
// either answer): float32 rounding is relative to the operands, so a small difference of two large
// amounts (remaining - delta) cannot be compared relative to itself.
func numericEqualScaled(tol float64) func(model, code string) bool {
	split := func(tok string) (string, *big.Rat, bool) {
		i := strings.LastIndexAny(tok, ":=")
		if i < 0 {
			return tok, nil, false
		}
		r, ok := parseRat(tok[i+1:])
		return tok[:i], r, ok
	}
	return func(model, code string) bool {
		mt, ct := strings.Fields(model), strings.Fields(code)
		if len(mt) != len(ct) {
			return false
		}
		scale := ratOfFloat(1e-30)
		for _, toks := range [][]string{mt, ct} {
			for _, t := range toks {
				if _, r, ok := split(t); ok {
					scale = maxAbs(scale, r)
				}
			}
		}
		lim := new(big.Rat).Mul(ratOfFloat(tol), scale)
		for i := range mt {
			if mt[i] == ct[i] {
				continue
			}
			mp, a, ok1 := split(mt[i])
			cp, b, ok2 := split(ct[i])
			if !ok1 || !ok2 || mp != cp {
				return false
			}
			d := new(big.Rat).Sub(a, b)
			if d.Abs(d).Cmp(lim) > 0 {
				return false
			}
		}
		return true
	}
}

func (c *vendConv) Check(m *lib.Monitor, code string) {
	if code == "panic" {
		m.Violate("C20/vending/Convert/panic", "Convert panicked: "+lastPanic, c, "no panic", code)
		return
	}
	v, _ := parseRat(c.V)
	want, ok := specConvert(v, c.From, c.To)
	if !ok {
		if code != "err" {
			m.Violate("C20/vending/Convert/error-not-reported", "conversion between different categories / unknown units must be an error", c, "err", code)
		}
		return
	}
	if code == "err" {
		m.Violate("C20/vending/Convert/spurious-error", "conversion within a category must succeed", c, "ok:"+ratStr(want), code)
		return
	}
	got, _ := parseRat(strings.TrimPrefix(code, "ok:"))
	if !closeTo(got, want, 1e-9, ratOfFloat(1e-300)) {
		m.Violate("C20/vending/Convert/wrong-value", "conversion differs from the exact rational conversion by more than 1e-9 relative", c, ratStr(want), ratStr(got))
		return
	}
	// round trip within the category
	gf, _ := got.Float64()
	back, err := unitpb.Convert(gf, traits.Consumable_Unit(c.To), traits.Consumable_Unit(c.From))
	if err != nil || !closeTo(ratOfFloat(back), v, 1e-6, ratOfFloat(1e-300)) {
		m.Violate("C20/vending/Convert/round-trip", "convert(convert(v,a,b),b,a) must be v within 1e-6 relative", c, c.V, fmt.Sprint(back, err))
	}
}

// ---- dispense sequences ----------------------------------------------------------------------------

type qty struct {
	Unit   int32   `json:"unit"`
	Amount float32 `json:"amount"`
}

func (q *qty) enc() string {
	if q == nil {
		return "-"
	}
	return fmt.Sprintf("%d:%s", q.Unit, ratStr(ratOfFloat(float64(q.Amount))))
}
func (q *qty) pb() *traits.Consumable_Quantity {
	if q == nil {
		return nil
	}
	return &traits.Consumable_Quantity{Unit: traits.Consumable_Unit(q.Unit), Amount: q.Amount}
}
func qtyOf(p *traits.Consumable_Quantity) *qty {
	if p == nil {
		return nil
	}
	return &qty{Unit: int32(p.Unit), Amount: p.Amount}
}

type stockInit struct {
	Name      string `json:"name"`
	Used      *qty   `json:"used"`
	Remaining *qty   `json:"remaining"`
}

type vendOp struct {
	Consumable string `json:"consumable"`
	Q          qty    `json:"q"`
	NoQ        bool   `json:"no_q"` // the request carries no quantity at all
}

func (o vendOp) q() *qty {
	if o.NoQ {
		return nil
	}
	return &o.Q
}

type vendSeq struct {
	Model string      `json:"model"`
	Kind  string      `json:"kind"`
	Init  []stockInit `json:"init"`
	Ops   []vendOp    `json:"ops"`
	// filled by RunCode: state before each op (for the stepwise tie) and after it
	pre  [][]stockInit
	rets []string
}

func encStock(s stockInit) string {
	return encName(s.Name) + "=" + s.Used.enc() + ";" + s.Remaining.enc()
}
func outStock(s stockInit) string {
	return encName(s.Name) + " u=" + s.Used.enc() + " r=" + s.Remaining.enc()
}

// Line: the model replays the whole sequence from the exact rationals of the float32 inputs.
func (c *vendSeq) Line() string {
	var sb strings.Builder
	sb.WriteString("vend.seq ")
	var st []string
	for _, s := range c.Init {
		st = append(st, encStock(s))
	}
	if len(st) == 0 {
		sb.WriteString("-")
	} else {
		sb.WriteString(strings.Join(st, "|"))
	}
	for _, o := range c.Ops {
		sb.WriteString(" " + encName(o.Consumable) + "@" + o.q().enc())
	}
	return sb.String()
}
func (c *vendSeq) Key() string { return c.Line() }
func (c *vendSeq) NonTrivial() bool {
	for _, o := range c.Ops {
		for _, s := range c.Init {
			if s.Name == o.Consumable && (s.Used != nil || s.Remaining != nil) {
				return true
			}
		}
	}
	return false
}
func (c *vendSeq) Buckets() []string {
	var b []string
	for _, s := range c.Init {
		b = append(b, fmt.Sprintf("stock:used=%v,remaining=%v", s.Used != nil, s.Remaining != nil))
	}
	return b
}

func inventoryState(m *vendingpb.Model) []stockInit {
	var out []stockInit
	for _, s := range m.ListInventory() {
		out = append(out, stockInit{Name: s.Consumable, Used: qtyOf(s.Used), Remaining: qtyOf(s.Remaining)})
	}
	return out
}

func encInv(st []stockInit) string {
	var parts []string
	for _, s := range st {
		parts = append(parts, outStock(s))
	}
	if len(parts) == 0 {
		return "-"
	}
	return strings.Join(parts, " | ")
}

func (c *vendSeq) RunCode() string {
	c.pre, c.rets = nil, nil
	var outs []string
	var m *vendingpb.Model
	r := catch(func() string {
		var stocks []*traits.Consumable_Stock
		for _, s := range c.Init {
			stocks = append(stocks, &traits.Consumable_Stock{Consumable: s.Name, Used: s.Used.pb(), Remaining: s.Remaining.pb()})
		}
		m = vendingpb.NewModel(vendingpb.WithInitialStock(stocks...))
		return "ok"
	})
	if r != "ok" {
		return "new:" + r
	}
	srv := vendingpb.NewModelServer(m)
	for _, o := range c.Ops {
		o := o
		c.pre = append(c.pre, inventoryState(m))
		ret := catch(func() string {
			st, err := srv.Dispense(context.Background(), &traits.DispenseRequest{Consumable: o.Consumable, Quantity: o.q().pb()})
			if err != nil {
				return "err:" + status.Code(err).String()
			}
			if st == nil {
				return "nil"
			}
			return "ok ld=" + qtyOf(st.LastDispensed).enc() + " disp=" + strconv.FormatBool(st.Dispensing)
		})
		c.rets = append(c.rets, ret)
		outs = append(outs, ret+" # "+catch(func() string { return encInv(inventoryState(m)) }))
	}
	if st := catch(func() string { c.pre = append(c.pre, inventoryState(m)); return "" }); st != "" {
		c.pre = append(c.pre, nil)
	}
	return strings.Join(outs, " ; ")
}

func unitName(u int32) string { return traits.Consumable_Unit(u).String() }

// Check: math/big spec of Dispense, step by step from the code's own previous state (so float32
// rounding does not accumulate): used' = used + conv q, remaining' = max 0 (remaining - conv q), each
// in its own unit; absent quantities stay absent; other stocks unchanged; conversion error => an
// error is returned and nothing changes; unknown consumable => NotFound.
func (c *vendSeq) Check(m *lib.Monitor, code string) {
	if strings.HasPrefix(code, "new:") {
		m.Violate("C20/vending/NewModel/panic", "NewModel(WithInitialStock) panicked: "+lastPanic, c, "no panic", code)
		return
	}
	steps := strings.Split(code, " ; ")
	for i, o := range c.Ops {
		if i >= len(steps) || i >= len(c.pre) {
			break
		}
		ret := c.rets[i]
		pre := c.pre[i]
		var post []stockInit
		if i+1 < len(c.pre) {
			post = c.pre[i+1]
		}
		if ret == "panic" || strings.Contains(steps[i], "# panic") {
			cls := "panic"
			if o.NoQ {
				cls = "panic/missing-quantity"
			}
			for _, s := range pre {
				if s.Name == o.Consumable && s.Used == nil && s.Remaining != nil {
					cls = "panic/used-absent"
				}
			}
			m.Violate("C20/vending/Dispense/"+cls, "Dispense panicked on a well-formed request", c, "no panic", steps[i])
			return
		}
		var cur *stockInit
		for j := range pre {
			if pre[j].Name == o.Consumable {
				cur = &pre[j]
			}
		}
		if o.Consumable == "" {
			if ret != "err:InvalidArgument" {
				m.Violate("C20/vending/Dispense/empty-consumable", "empty consumable must be InvalidArgument", c, "err:InvalidArgument", ret)
			}
			continue
		}
		if o.NoQ {
			// the proto has no required fields: a request without a quantity is a request the server must
			// answer, with InvalidArgument, not a panic
			if ret != "err:InvalidArgument" {
				m.Violate("C20/vending/Dispense/missing-quantity", "a Dispense request without a quantity must be rejected with InvalidArgument", c, "err:InvalidArgument", ret)
			}
			if encInv(pre) != encInv(post) {
				m.Violate("C20/vending/Dispense/frame", "a rejected Dispense changed the inventory", c, encInv(pre), encInv(post))
			}
			continue
		}
		if cur == nil {
			if ret != "err:NotFound" {
				m.Violate("C20/vending/Dispense/unknown-consumable", "unknown consumable must be NotFound", c, "err:NotFound", ret)
			}
			if encInv(pre) != encInv(post) {
				m.Violate("C20/vending/Dispense/frame", "a failed Dispense changed the inventory", c, encInv(pre), encInv(post))
			}
			continue
		}
		q := ratOfFloat(float64(o.Q.Amount))
		convErr := false
		var du, dr *big.Rat
		if cur.Used != nil {
			var ok bool
			if du, ok = specConvert(q, o.Q.Unit, cur.Used.Unit); !ok {
				convErr = true
			}
		}
		if cur.Remaining != nil {
			var ok bool
			if dr, ok = specConvert(q, o.Q.Unit, cur.Remaining.Unit); !ok {
				convErr = true
			}
		}
		if convErr {
			if !strings.HasPrefix(ret, "err:") {
				m.Violate("C20/vending/Dispense/conversion-error-swallowed", "a conversion error must be reported to the caller", c, "err:<code>", ret)
			}
			if encInv(pre) != encInv(post) {
				m.Violate("C20/vending/Dispense/conversion-error-changes-stock", "a conversion error must leave the stock unchanged", c, encInv(pre), encInv(post))
			}
			continue
		}
		if !strings.HasPrefix(ret, "ok ") {
			m.Violate("C20/vending/Dispense/spurious-error", "a convertible Dispense on a known consumable must succeed", c, "ok", ret)
			continue
		}
		if ret != "ok ld="+o.Q.enc()+" disp=false" {
			m.Violate("C20/vending/Dispense/last-dispensed", "last_dispensed must be the dispensed quantity and dispensing false", c, "ok ld="+o.Q.enc()+" disp=false", ret)
		}
		for _, p := range post {
			var was *stockInit
			for j := range pre {
				if pre[j].Name == p.Name {
					was = &pre[j]
				}
			}
			if was == nil {
				m.Violate("C20/vending/Dispense/frame", "Dispense created a stock record", c, encInv(pre), encInv(post))
				continue
			}
			if p.Name != o.Consumable {
				if encStock(p) != encStock(*was) {
					m.Violate("C20/vending/Dispense/frame", "Dispense changed another consumable's stock", c, encStock(*was), encStock(p))
				}
				continue
			}
			scale := new(big.Rat).Abs(q)
			// used
			switch {
			case (was.Used == nil) != (p.Used == nil):
				m.Violate("C20/vending/Dispense/presence", "only quantities already present may be touched (used)", c, was.Used.enc(), p.Used.enc())
			case was.Used != nil:
				want := new(big.Rat).Add(ratOfFloat(float64(was.Used.Amount)), du)
				if p.Used.Unit != was.Used.Unit {
					m.Violate("C20/vending/Dispense/used-unit", "used must keep its own unit", c, unitName(was.Used.Unit), unitName(p.Used.Unit))
				} else if !closeTo(ratOfFloat(float64(p.Used.Amount)), want, 1e-6, maxAbs(scale, du, ratOfFloat(float64(was.Used.Amount)))) {
					m.Violate("C20/vending/Dispense/used-amount", "used' must be used + conv(q) in used's unit", c, ratStr(want), p.Used.enc())
				}
			}
			switch {
			case (was.Remaining == nil) != (p.Remaining == nil):
				m.Violate("C20/vending/Dispense/presence", "only quantities already present may be touched (remaining)", c, was.Remaining.enc(), p.Remaining.enc())
			case was.Remaining != nil:
				want := new(big.Rat).Sub(ratOfFloat(float64(was.Remaining.Amount)), dr)
				if want.Sign() < 0 {
					want.SetInt64(0)
				}
				if p.Remaining.Unit != was.Remaining.Unit {
					m.Violate("C20/vending/Dispense/remaining-unit", "remaining must keep its own unit", c, unitName(was.Remaining.Unit), unitName(p.Remaining.Unit))
				} else if !closeTo(ratOfFloat(float64(p.Remaining.Amount)), want, 1e-6, maxAbs(scale, dr, ratOfFloat(float64(was.Remaining.Amount)))) {
					m.Violate("C20/vending/Dispense/remaining-amount", "remaining' must be max 0 (remaining - conv(q)) in remaining's unit", c, ratStr(want), p.Remaining.enc())
				}
			}
		}
	}
}

func maxAbs(xs ...*big.Rat) *big.Rat {
	m := new(big.Rat)
	for _, x := range xs {
		if x == nil {
			continue
		}
		a := new(big.Rat).Abs(x)
		if a.Cmp(m) > 0 {
			m = a
		}
	}
	return m
}

// ---- option plumbing ---------------------------------------------------------------------------------

type vendOpt struct {
	K     string   `json:"k"` // stock | cons
	Names []string `json:"names"`
}

type vendOpts struct {
	Model string    `json:"model"`
	Kind  string    `json:"kind"`
	Opts  []vendOpt `json:"opts"`
}

func (c *vendOpts) Line() string {
	var sb strings.Builder
	sb.WriteString("vend.opts")
	for _, o := range c.Opts {
		sb.WriteString(" " + o.K + ":" + encNames(o.Names))
	}
	return sb.String()
}
func (c *vendOpts) Key() string { return c.Line() }
func (c *vendOpts) NonTrivial() bool {
	for _, o := range c.Opts {
		if o.K == "cons" && len(o.Names) > 0 {
			return true
		}
	}
	return false
}
func (c *vendOpts) Buckets() []string {
	var b []string
	for _, o := range c.Opts {
		b = append(b, "opt="+o.K)
	}
	return b
}
func (c *vendOpts) RunCode() string {
	return catch(func() string {
		var opts []resource.Option
		for _, o := range c.Opts {
			switch o.K {
			case "stock":
				var ss []*traits.Consumable_Stock
				for _, n := range o.Names {
					ss = append(ss, &traits.Consumable_Stock{Consumable: n})
				}
				opts = append(opts, vendingpb.WithInitialStock(ss...))
			case "cons":
				var cs []*traits.Consumable
				for _, n := range o.Names {
					cs = append(cs, &traits.Consumable{Name: n})
				}
				opts = append(opts, vendingpb.WithInitialConsumable(cs...))
			}
		}
		m := vendingpb.NewModel(opts...)
		var inv, cons []string
		for _, s := range m.ListInventory() {
			inv = append(inv, s.Consumable)
		}
		for _, s := range m.ListConsumables() {
			cons = append(cons, s.Name)
		}
		return "inv=" + encNames(inv) + " cons=" + encNames(cons)
	})
}
func (c *vendOpts) Check(m *lib.Monitor, code string) {
	var inv, cons []string
	for _, o := range c.Opts {
		if o.K == "stock" {
			inv = append(inv, o.Names...)
		} else {
			cons = append(cons, o.Names...)
		}
	}
	want := "inv=" + encNames(sortedUnique(inv)) + " cons=" + encNames(sortedUnique(cons))
	if code == "panic" {
		m.Violate("C20/vending/NewModel/options/panic", "NewModel with WithInitialStock/WithInitialConsumable (distinct names) panicked: "+lastPanic, c, want, code)
		return
	}
	if code != want {
		m.Violate("C20/vending/NewModel/options/consumables-not-populated", "WithInitialConsumable must populate the consumables collection and WithInitialStock the inventory", c, want, code)
	}
}

var vendUnits = []int32{-1, 0, 1, 2, 3, 4, 5, 6, 7} // the 7 Consumable_Unit values plus the two nearest undefined numbers

func randAmount(rng *rand.Rand) float32 {
	switch rng.Intn(4) {
	case 0:
		return float32(rng.Intn(20))
	case 1:
		return float32(rng.Intn(4000)) / 8
	case 2:
		return float32(math.Round(rng.Float64()*1e4) / 100)
	default:
		return float32(rng.Intn(50)) / 4
	}
}

// likelyUnit: mostly the convertible volume units so that most steps convert.
func likelyUnit(rng *rand.Rand) int32 {
	if rng.Intn(10) < 7 {
		return pick(rng, []int32{3, 4, 5})
	}
	return pick(rng, vendUnits)
}

func randQty(rng *rand.Rand, presentPct int) *qty {
	if rng.Intn(100) >= presentPct {
		return nil
	}
	return &qty{Unit: likelyUnit(rng), Amount: randAmount(rng)}
}

func init() {
	decoders["vending/convert"] = decoder[vendConv]()
	decoders["vending/seq"] = decoder[vendSeq]()
	decoders["vending/opts"] = decoder[vendOpts]()
	builders = append(builders, func(f lib.Flags, res *lib.Result, rng *rand.Rand) []*section {
		conv := &section{name: "vending/convert",
			tie:     res.Tie("vending.unitpb.Convert unit table", "K2", "exhaustive over every ordered pair of the 7 Consumable_Unit values and the undefined neighbours -1 and 7 x the values {0, 1, 2.5, 1000, 1/3 (as float64), 1e-3, 123456.789}; the model answers with the exact rational, the code with a float64: equal when within 1e-9 relative; non-trivial = from != to; distinct by request line"),
			mon:     res.Monitor("vending.Convert vs physical facts", "error iff categories differ or a unit is not convertible; value within 1e-9 of exact math/big conversion using independently written factors; round trip within 1e-6"),
			compare: numericEqual(1e-9)}
		conv.tie.Exhaustive = true
		for _, a := range vendUnits {
			for _, b := range vendUnits {
				for _, v := range []float64{0, 1, 2.5, 1000, 1.0 / 3, 1e-3, 123456.789} {
					conv.add(&vendConv{Model: "vending", Kind: "convert", V: ratStr(ratOfFloat(v)), From: a, To: b})
				}
			}
		}
		seq := &section{name: "vending/seq",
			tie:     res.Tie("vending.Dispense sequences", "K1", "random: 1..3 stock records with any subset of used/remaining present (each 70%), units mostly volume (70%) else any of the 9 unit numbers, then 1..6 Dispense ops (consumable known 77%, unknown 10%, empty 5%, near-miss variant of a known name 8%; 4% of requests carry no quantity); the model replays the sequence over exact rationals from the same float32 inputs, answers equal when every amount is within 1e-5 x the largest magnitude in the answer (float32 rounding is relative to the operands); non-trivial = some op hits a stock with a quantity present; distinct by request line"),
			mon:     res.Monitor("vending.Dispense vs math/big spec", "per step from the code's own previous state: used' = used + conv q, remaining' = max 0 (remaining - conv q), own units kept, absent stays absent, other stocks unchanged, conversion error reported and stock unchanged, no panic"),
			compare: numericEqualScaled(1e-5)}
		names := []string{"water", "milk", "beans"}
		n := f.N(1200, 15000)
		for i := 0; i < n; i++ {
			ns := 1 + rng.Intn(3)
			var init []stockInit
			for j := 0; j < ns; j++ {
				init = append(init, stockInit{Name: names[j], Used: randQty(rng, 70), Remaining: randQty(rng, 70)})
			}
			k := 1 + i*6/n
			var ops []vendOp
			for j := 0; j < k; j++ {
				name := init[rng.Intn(ns)].Name
				switch r := rng.Intn(100); {
				case r < 10:
					name = "nope"
				case r < 15:
					name = ""
				case r < 23:
					name = nearMiss(rng, name)
				}
				op := vendOp{Consumable: name, Q: qty{Unit: likelyUnit(rng), Amount: randAmount(rng)}}
				if rng.Intn(25) == 0 {
					op = vendOp{Consumable: name, NoQ: true}
				}
				ops = append(ops, op)
			}
			seq.add(&vendSeq{Model: "vending", Kind: "seq", Init: init, Ops: ops})
		}
		opts := &section{name: "vending/opts",
			tie: res.Tie("vending.NewModel options", "K1", "random lists of 0..4 WithInitialStock / WithInitialConsumable options, each with 0..3 names; names distinct within a kind, may coincide across kinds; non-trivial = some consumable option with a name; distinct by request line"),
			mon: res.Monitor("vending.options populate their own collection", "ListInventory == sorted stock names, ListConsumables == sorted consumable names")}
		for i := 0; i < f.N(300, 3000); i++ {
			var os []vendOpt
			usedS, usedC := 0, 0
			pool := []string{"a", "b", "c", "d", "e", "f", "g", "h"}
			for j := rng.Intn(5); j > 0; j-- {
				k := pick(rng, []string{"stock", "cons"})
				cnt := rng.Intn(4)
				var ns []string
				for ; cnt > 0; cnt-- {
					if k == "stock" && usedS < len(pool) {
						ns = append(ns, pool[usedS])
						usedS++
					} else if k == "cons" && usedC < len(pool) {
						ns = append(ns, pool[len(pool)-1-usedC])
						usedC++
					}
				}
				os = append(os, vendOpt{K: k, Names: ns})
			}
			opts.add(&vendOpts{Model: "vending", Kind: "opts", Opts: os})
		}
		return []*section{conv, seq, opts}
	})
}
