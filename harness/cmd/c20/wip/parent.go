package main

import (
	"fmt"
	"math/rand"
	"sort"
	"strings"

	"google.golang.org/grpc/status"

	"github.com/smart-core-os/sc-api/go/traits"
	"github.com/smart-core-os/sc-golang/pkg/trait"
	"github.com/smart-core-os/sc-golang/pkg/trait/parentpb"
	"github.com/smart-core-os/sc-golang/verifharness/lib"
)

// ---- direct tie of traitUnion / traitRemove (exported under the verif tag) -----------------------

type parentFn struct {
	Model string   `json:"model"`
	Kind  string   `json:"kind"`
	Fn    string   `json:"fn"` // union | remove
	Has   []string `json:"has"`
	Names []string `json:"names"`
}

func (c *parentFn) Line() string {
	return "par." + c.Fn + " " + encNames(c.Has) + " " + encNames(c.Names)
}
func (c *parentFn) Key() string { return c.Line() }
func (c *parentFn) NonTrivial() bool {
	return len(c.Has) > 0 && len(c.Names) > 0
}
func (c *parentFn) Buckets() []string {
	b := []string{"fn=" + c.Fn}
	if strictSorted(c.Has) {
		b = append(b, "has=strict-sorted")
	} else {
		b = append(b, "has=not-strict-sorted")
	}
	return b
}

func mkTraits(names []string) []*traits.Trait {
	out := make([]*traits.Trait, len(names))
	for i, n := range names {
		out[i] = &traits.Trait{Name: n}
	}
	return out
}
func traitNames(ts []*traits.Trait) []string {
	out := make([]string, len(ts))
	for i, t := range ts {
		out[i] = t.Name
	}
	return out
}
func toNames(xs []string) []trait.Name {
	out := make([]trait.Name, len(xs))
	for i, x := range xs {
		out[i] = trait.Name(x)
	}
	return out
}

func (c *parentFn) RunCode() string {
	return catch(func() string {
		var r []*traits.Trait
		switch c.Fn {
		case "union":
			r = parentpb.VerifTraitUnion(mkTraits(c.Has), toNames(c.Names)...)
		case "remove":
			r = parentpb.VerifTraitRemove(mkTraits(c.Has), toNames(c.Names)...)
		default:
			return "!bad-op"
		}
		return encNames(traitNames(r))
	})
}

func strictSorted(xs []string) bool {
	for i := 1; i < len(xs); i++ {
		if !(xs[i-1] < xs[i]) {
			return false
		}
	}
	return true
}

func decList(s string) []string {
	if s == "-" || s == "" {
		return nil
	}
	xs := strings.Split(s, ",")
	for i := range xs {
		xs[i] = unesc(xs[i])
	}
	return xs
}

func setOf(xs []string) map[string]bool {
	m := map[string]bool{}
	for _, x := range xs {
		m[x] = true
	}
	return m
}

func setStr(m map[string]bool) string {
	var ks []string
	for k, v := range m {
		if v {
			ks = append(ks, k)
		}
	}
	sort.Strings(ks)
	return encNames(ks)
}

// wantSet is the finite-set spec: has ∪ names / has \ names, as the sorted duplicate-free list.
func wantSet(fn string, has, names []string) string {
	s := setOf(has)
	for _, n := range names {
		if fn == "union" {
			s[n] = true
		} else {
			delete(s, n)
		}
	}
	return setStr(s)
}

func (c *parentFn) Check(m *lib.Monitor, code string) {
	fname := map[string]string{"union": "traitUnion", "remove": "traitRemove"}[c.Fn]
	if code == "panic" {
		if strictSorted(c.Has) {
			m.Violate("C20/parent/"+fname+"/panic", fname+" panicked on a sorted duplicate-free slice: "+lastPanic, c, "no panic", code)
		}
		return
	}
	if !strictSorted(c.Has) {
		return // outside the property's precondition (documented: has must be sorted)
	}
	want := wantSet(c.Fn, c.Has, c.Names)
	if code != want {
		cls := "wrong-set"
		if !strictSorted(decList(code)) {
			cls = "not-sorted-nodup"
		}
		m.Violate("C20/parent/"+fname+"/"+cls, fname+" on a sorted duplicate-free slice is not the sorted set "+c.Fn, c, want, code)
	}
}

// ---- op sequences on parentpb.Model -----------------------------------------------------------------

type parentOp struct {
	Op     string   `json:"op"` // addchild | add | rm | rmchild
	Name   string   `json:"name"`
	Traits []string `json:"traits"`
}

type parentSeq struct {
	Model string     `json:"model"`
	Kind  string     `json:"kind"`
	Ops   []parentOp `json:"ops"`
}

func encName(s string) string {
	if s == "" {
		return "~"
	}
	return esc(s)
}

func (c *parentSeq) Line() string {
	var sb strings.Builder
	sb.WriteString("par.seq")
	for _, o := range c.Ops {
		sb.WriteString(" " + o.Op + ":" + encName(o.Name) + ":" + encNames(o.Traits))
	}
	return sb.String()
}
func (c *parentSeq) Key() string { return c.Line() }
func (c *parentSeq) NonTrivial() bool {
	for _, o := range c.Ops {
		if o.Op == "rm" || o.Op == "add" {
			return true
		}
	}
	return false
}
func (c *parentSeq) Buckets() []string {
	var b []string
	for _, o := range c.Ops {
		b = append(b, "op="+o.Op)
	}
	return b
}

func childrenState(m *parentpb.Model) string {
	var parts []string
	for _, ch := range m.ListChildren() {
		parts = append(parts, encName(ch.Name)+"="+encNames(traitNames(ch.Traits)))
	}
	if len(parts) == 0 {
		return "-"
	}
	return strings.Join(parts, "|")
}

func (c *parentSeq) RunCode() string {
	m := parentpb.NewModel()
	var outs []string
	for _, o := range c.Ops {
		o := o
		ret := catch(func() string {
			switch o.Op {
			case "addchild":
				m.AddChild(&traits.Child{Name: o.Name, Traits: mkTraits(o.Traits)})
				return "ok"
			case "add":
				_, created := m.AddChildTrait(o.Name, toNames(o.Traits)...)
				if created {
					return "created"
				}
				return "existing"
			case "rm":
				if ch := m.RemoveChildTrait(o.Name, toNames(o.Traits)...); ch == nil {
					return "nil"
				}
				return "ok"
			case "rmchild":
				_, err := m.RemoveChildByName(o.Name)
				if err != nil {
					return status.Code(err).String()
				}
				return "ok"
			}
			return "!bad-op"
		})
		st := catch(func() string { return childrenState(m) })
		outs = append(outs, ret+"#"+st)
	}
	return strings.Join(outs, ";")
}

// Check replays the ops on a map-of-sets spec. A child added by AddChild with a trait list that is
// not strictly sorted is outside the precondition: it is tracked but not judged.
func (c *parentSeq) Check(m *lib.Monitor, code string) {
	outs := strings.Split(code, ";")
	spec := map[string]map[string]bool{}
	tainted := map[string]bool{}
	for i, o := range c.Ops {
		if i >= len(outs) {
			break
		}
		parts := strings.SplitN(outs[i], "#", 2)
		ret, st := parts[0], parts[1]
		method := map[string]string{"addchild": "AddChild", "add": "AddChildTrait", "rm": "RemoveChildTrait", "rmchild": "RemoveChildByName"}[o.Op]
		wellFormed := true
		switch o.Op {
		case "addchild":
			wellFormed = o.Name != "" && sort.StringsAreSorted(o.Traits)
			if wellFormed {
				if _, ok := spec[o.Name]; !ok {
					spec[o.Name] = setOf(o.Traits)
					tainted[o.Name] = !strictSorted(o.Traits)
				}
			}
		case "add":
			if spec[o.Name] == nil {
				spec[o.Name] = map[string]bool{}
				tainted[o.Name] = false
			}
			for _, t := range o.Traits {
				spec[o.Name][t] = true
			}
		case "rm":
			if s, ok := spec[o.Name]; ok {
				for _, t := range o.Traits {
					delete(s, t)
				}
			}
		case "rmchild":
			delete(spec, o.Name)
			delete(tainted, o.Name)
		}
		if ret == "panic" || st == "panic" {
			if wellFormed {
				m.Violate("C20/parent/"+method+"/panic", method+" panicked on a well-formed request", c, "no panic", outs[i])
				return
			}
			continue
		}
		// compare every untainted child with its spec set
		got := map[string]string{}
		if st != "-" {
			for _, kv := range strings.Split(st, "|") {
				p := strings.SplitN(kv, "=", 2)
				got[p[0]] = p[1]
			}
		}
		for name, s := range spec {
			if tainted[name] {
				continue
			}
			g, ok := got[encName(name)]
			if !ok {
				m.Violate("C20/parent/"+method+"/child-missing", "a child that was added is missing", c, name+"="+setStr(s), st)
				return
			}
			if g != setStr(s) {
				cls := "wrong-set"
				if !strictSorted(decList(g)) {
					cls = "not-sorted-nodup"
				}
				m.Violate("C20/parent/"+method+"/"+cls, fmt.Sprintf("after op %d (%s) child %q's traits are not the sorted set union/difference of what was added and removed", i, o.Op, name), c, name+"="+setStr(s), name+"="+g)
				return
			}
		}
		specEnc := map[string]bool{}
		for name := range spec {
			specEnc[encName(name)] = true
		}
		for name := range got {
			if !specEnc[name] && name != "~" {
				m.Violate("C20/parent/"+method+"/unexpected-child", "a child exists that was never added or was removed", c, "absent", name)
				return
			}
		}
	}
}

var traitAlphabet = []string{"a", "ab", "b", "ba", "c", "d", "e", "f", "g", "h", "i", "j"}

func randSubset(rng *rand.Rand, from []string, maxN int) []string {
	n := rng.Intn(maxN + 1)
	var out []string
	for i := 0; i < n; i++ {
		x := pick(rng, from)
		if rng.Intn(8) == 0 {
			x = nearMiss(rng, x) // case variant, padded, prefix, extension, look-alike, empty
		}
		out = append(out, x)
	}
	return out
}

func sortedUnique(xs []string) []string {
	s := setOf(xs)
	out := make([]string, 0, len(s))
	for k := range s {
		out = append(out, k)
	}
	sort.Strings(out)
	return out
}

func init() {
	decoders["parent/fn"] = decoder[parentFn]()
	decoders["parent/seq"] = decoder[parentSeq]()
	builders = append(builders, func(f lib.Flags, res *lib.Result, rng *rand.Rand) []*section {
		fnx := &section{name: "parent/fn-exhaustive",
			tie: res.Tie("parent.traitUnion/traitRemove small domain", "K2", "exhaustive: every strictly sorted subset `has` of the 5-name alphabet a..e x every list of <=2 names x {union, remove}; non-trivial = has and names both non-empty; distinct by request line"),
			mon: res.Monitor("parent.set-algebra small domain", "for strictly sorted has: result == sorted list of (has ∪ names) resp. (has \\ names), computed with a Go map")}
		fnx.tie.Exhaustive = true
		fn := &section{name: "parent/fn",
			tie: res.Tie("parent.traitUnion/traitRemove", "K1", "random: has of <=8 names from a 12-name alphabet (12% near-miss variants: case, padding, prefix, extension, look-alike, empty) (sorted-unique 80%, arbitrary order/duplicates 20%) x <=4 names; non-trivial = has and names both non-empty; distinct by request line"),
			mon: res.Monitor("parent.set-algebra", "for strictly sorted has: result == sorted list of (has ∪ names) resp. (has \\ names), computed with a Go map")}
		small := []string{"a", "b", "c", "d", "e"}
		for mask := 0; mask < 32; mask++ {
			var has []string
			for i, n := range small {
				if mask&(1<<i) != 0 {
					has = append(has, n)
				}
			}
			var lists [][]string
			lists = append(lists, nil)
			for _, x := range small {
				lists = append(lists, []string{x})
				for _, y := range small {
					lists = append(lists, []string{x, y})
				}
			}
			for _, l := range lists {
				for _, op := range []string{"union", "remove"} {
					fnx.add(&parentFn{Model: "parent", Kind: "fn", Fn: op, Has: has, Names: l})
				}
			}
		}
		for i := 0; i < f.N(1500, 20000); i++ {
			has := randSubset(rng, traitAlphabet, 8)
			if rng.Intn(5) != 0 {
				has = sortedUnique(has)
			}
			fn.add(&parentFn{Model: "parent", Kind: "fn", Fn: pick(rng, []string{"union", "remove"}), Has: has, Names: randSubset(rng, traitAlphabet, 4)})
		}

		seq := &section{name: "parent/seq",
			tie: res.Tie("parent.Model op sequences", "K1", "random sequences of 1..10 ops (AddChild 15% [5% with duplicate traits, 3% unsorted, 2% empty name], AddChildTrait 40%, RemoveChildTrait 35%, RemoveChildByName 10%) over 3 child names and a 12-name trait alphabet, 10% of child names and 12% of trait names replaced by a near-miss variant (case, leading/trailing space or no-break space, prefix, extension, unicode look-alike, empty); short sequences first; non-trivial = contains add or rm; distinct by request line"),
			mon: res.Monitor("parent.children-vs-map-of-sets", "after every op each child's trait list equals the sorted set kept by a Go map-of-sets spec; no panic on well-formed requests")}
		children := []string{"c1", "c2", "c3"}
		child := func() string {
			c := pick(rng, children)
			if rng.Intn(10) == 0 {
				c = nearMiss(rng, c)
				if c == "" {
					c = "C1"
				}
			}
			return c
		}
		n := f.N(1500, 20000)
		for i := 0; i < n; i++ {
			k := 1 + i*10/n
			var ops []parentOp
			for j := 0; j < k; j++ {
				r := rng.Intn(100)
				switch {
				case r < 15:
					ts := sortedUnique(randSubset(rng, traitAlphabet, 4))
					name := child()
					switch q := rng.Intn(100); {
					case q < 33 && len(ts) > 0:
						ts = append(ts, ts[len(ts)-1])
					case q < 53 && len(ts) > 1:
						ts[0], ts[len(ts)-1] = ts[len(ts)-1], ts[0]
					case q < 66:
						name = ""
					}
					ops = append(ops, parentOp{"addchild", name, ts})
				case r < 55:
					ops = append(ops, parentOp{"add", child(), randSubset(rng, traitAlphabet, 3)})
				case r < 90:
					ops = append(ops, parentOp{"rm", child(), randSubset(rng, traitAlphabet, 3)})
				default:
					ops = append(ops, parentOp{"rmchild", child(), nil})
				}
			}
			seq.add(&parentSeq{Model: "parent", Kind: "seq", Ops: ops})
		}
		return []*section{fnx, fn, seq}
	})
}
