package main

// Forced overlaps of Dispense on one stock record (tie kind K4) on the controller of meterconc.go.
// Quantities are chosen so that the code's float32 arithmetic is exact (multiples of 1/4, conversions
// only by factor 1 or x1000), so the answers are compared exactly with the model's rationals.

import (
	"context"
	"fmt"
	"math/big"
	"math/rand"
	"strconv"
	"strings"
	"time"

	"google.golang.org/grpc/status"

	"github.com/smart-core-os/sc-api/go/traits"
	"github.com/smart-core-os/sc-golang/pkg/resource"
	"github.com/smart-core-os/sc-golang/pkg/trait/vendingpb"
	"github.com/smart-core-os/sc-golang/verifharness/lib"
)

const vendConcName = "water"

type vendConc struct {
	Model string    `json:"model"`
	Kind  string    `json:"kind"`
	Init  stockInit `json:"init"`
	Progs [][]qty   `json:"progs"`
	Sched []string  `json:"sched"`
	Note  string    `json:"note,omitempty"`
}

func (c *vendConc) Line() string {
	var sb strings.Builder
	sb.WriteString("vend.conc " + c.Init.Used.enc() + ";" + c.Init.Remaining.enc() + " " + encList(c.Sched))
	for _, p := range c.Progs {
		var qs []string
		for i := range p {
			qs = append(qs, p[i].enc())
		}
		sb.WriteString(" " + encList(qs))
	}
	return sb.String()
}
func (c *vendConc) Key() string { return c.Line() }
func (c *vendConc) NonTrivial() bool {
	seen := map[string]bool{}
	for _, s := range c.Sched {
		seen[s] = true
	}
	return len(seen) >= 2 && (c.Init.Used != nil || c.Init.Remaining != nil)
}
func (c *vendConc) Buckets() []string {
	return []string{fmt.Sprintf("threads=%d", len(c.Progs)), fmt.Sprintf("used=%v,remaining=%v", c.Init.Used != nil, c.Init.Remaining != nil)}
}

type vendConcRun struct {
	final  string
	stock  stockInit
	calls  [][]concCallOut
	events []stockInit
	stuck  bool
}

func stockOf(s *traits.Consumable_Stock) stockInit {
	return stockInit{Name: s.GetConsumable(), Used: qtyOf(s.GetUsed()), Remaining: qtyOf(s.GetRemaining())}
}

func (c *vendConc) exec() (run vendConcRun, failure string) {
	ctl := newCtl(1000)
	defer ctl.close()
	var m *vendingpb.Model
	r := catch(func() string {
		m = vendingpb.NewModel(vendingpb.WithInitialStock(&traits.Consumable_Stock{Consumable: vendConcName, Used: c.Init.Used.pb(), Remaining: c.Init.Remaining.pb()}))
		return "ok"
	})
	if r != "ok" {
		return run, "new:" + r
	}
	srv := vendingpb.NewModelServer(m)
	ctx, cancel := context.WithCancel(context.Background())
	log := &eventLog[stockInit]{done: make(chan struct{})}
	pull := m.PullStock(ctx, vendConcName, resource.WithBackpressure(true))
	go func() {
		defer close(log.done)
		for ch := range pull {
			log.add(stockOf(ch.Value))
		}
	}()
	log.waitSeed()
	lens := make([]int, len(c.Progs))
	for i, p := range c.Progs {
		lens[i] = len(p)
	}
	run.calls, run.stuck = runConc(ctl, lens, func(i, k int) string {
		q := c.Progs[i][k]
		return catch(func() string {
			st, err := srv.Dispense(context.Background(), &traits.DispenseRequest{Consumable: vendConcName, Quantity: q.pb()})
			if err != nil {
				return "err:" + status.Code(err).String()
			}
			if st == nil {
				return "nil"
			}
			return "ok"
		})
	}, c.Sched)
	if !run.stuck {
		want := 1
		for _, cs := range run.calls {
			for _, k := range cs {
				if k.ret == "ok" || k.ret == "err:Unknown" {
					want++
				}
			}
		}
		log.settle(want)
		run.final = catch(func() string {
			st, ok := m.GetStock(vendConcName)
			if !ok {
				return "missing"
			}
			run.stock = stockOf(st)
			return "u=" + run.stock.Used.enc() + " r=" + run.stock.Remaining.enc() + " ld=" + qtyOf(st.LastDispensed).enc()
		})
	}
	cancel()
	select {
	case <-log.done:
	case <-time.After(2 * time.Second):
	}
	run.events = log.snapshot()
	return run, ""
}

var lastVendConc = map[*vendConc]*vendConcRun{}

func (c *vendConc) RunCode() string {
	run, fail := c.exec()
	if fail != "" {
		return fail
	}
	lastVendConc[c] = &run
	if run.stuck {
		return "stuck"
	}
	var ths []string
	for _, cs := range run.calls {
		var rets, traces []string
		for _, k := range cs {
			rets = append(rets, k.ret)
			traces = append(traces, strings.TrimPrefix(k.trace, "s"))
		}
		ths = append(ths, encAmpGo(rets)+"/"+encAmpGo(traces))
	}
	return run.final + " # " + strings.Join(ths, " ; ")
}

// Check (math/big, independent of the model): a Dispense answers ok, the conversion error (exactly when
// the quantity's unit cannot be converted to the unit of a present used/remaining — a fact of the
// units alone) or Aborted; a call nobody overlapped is not Aborted; used = initial used + the sum of the
// quantities of the SUCCESSFUL calls converted to used's unit — no dispense lost, none applied twice, a
// refused or erroring call adds nothing; when that sum never exceeds the initial remaining, remaining =
// initial remaining - the sum (in remaining's unit), else it is between 0 and that; units never
// change; on every Pull event used and remaining lie between the initial and these final values.
func (c *vendConc) Check(m *lib.Monitor, code string) {
	const sig = "C20/vending/concurrent/"
	run := lastVendConc[c]
	delete(lastVendConc, c)
	if strings.HasPrefix(code, "new:") || run == nil {
		m.Violate(sig+"NewModel/panic", "NewModel panicked: "+lastPanic, c, "no panic", code)
		return
	}
	if run.stuck {
		m.Violate(sig+"stuck", "a released call neither reached its next step nor returned within 20 s", c, "progress", "stuck")
		return
	}
	conv := func(q qty, to *qty) (*big.Rat, bool) {
		if to == nil {
			return new(big.Rat), true
		}
		return specConvert(ratOfFloat(float64(q.Amount)), q.Unit, to.Unit)
	}
	sumU, sumR := new(big.Rat), new(big.Rat)
	for i, cs := range run.calls {
		for k, out := range cs {
			q := c.Progs[i][k]
			du, okU := conv(q, c.Init.Used)
			dr, okR := conv(q, c.Init.Remaining)
			convertible := okU && okR
			switch out.ret {
			case "ok":
				if !convertible {
					m.Violate(sig+"Dispense/conversion-error-swallowed", "a quantity that cannot be converted to the record's units was accepted", c, "err:Unknown", out.ret)
					return
				}
				sumU.Add(sumU, du)
				sumR.Add(sumR, dr)
			case "err:Unknown":
				if convertible {
					m.Violate(sig+"Dispense/spurious-error", "a convertible quantity was answered with an error", c, "ok or Aborted", out.ret)
					return
				}
			case "err:Aborted":
				if !out.overlapped {
					m.Violate(sig+"Dispense/aborted-without-overlap", "a call that no other call overlapped was refused as a concurrent update", c, "ok", out.ret)
				}
			case "panic":
				m.Violate(sig+"Dispense/panic", "Dispense panicked: "+lastPanic, c, "no panic", out.ret)
				return
			default:
				m.Violate(sig+"Dispense/error", "Dispense failed with an unexpected code", c, "ok, Unknown or Aborted", out.ret)
				return
			}
		}
	}
	amount := func(q *qty) *big.Rat { return ratOfFloat(float64(q.Amount)) }
	observe := func(where string, s stockInit, final bool) {
		if (s.Used == nil) != (c.Init.Used == nil) || (s.Remaining == nil) != (c.Init.Remaining == nil) ||
			(s.Used != nil && s.Used.Unit != c.Init.Used.Unit) || (s.Remaining != nil && s.Remaining.Unit != c.Init.Remaining.Unit) {
			m.Violate(sig+where+"/shape-changed", "presence or unit of used/remaining changed", c, encStock(c.Init), encStock(s))
			return
		}
		if s.Used != nil {
			lo, hi := amount(c.Init.Used), new(big.Rat).Add(amount(c.Init.Used), sumU)
			got := amount(s.Used)
			if got.Cmp(lo) < 0 || got.Cmp(hi) > 0 || (final && got.Cmp(hi) != 0) {
				cls := "used-out-of-range"
				if final {
					cls = "used-not-sum-of-successful-dispenses"
				}
				m.Violate(sig+where+"/"+cls, "used must be the initial amount plus the successful dispenses (no dispense lost or applied twice)", c, ratStr(hi), ratStr(got))
			}
		}
		if s.Remaining != nil {
			hi := amount(c.Init.Remaining)
			lo := new(big.Rat).Sub(hi, sumR)
			exact := lo.Sign() >= 0
			if !exact {
				lo = new(big.Rat)
			}
			got := amount(s.Remaining)
			if got.Cmp(lo) < 0 || got.Cmp(hi) > 0 || (final && exact && got.Cmp(lo) != 0) {
				m.Violate(sig+where+"/remaining-wrong", "remaining must be the initial amount minus the successful dispenses, floored at zero", c, ratStr(lo), ratStr(got))
			}
		}
	}
	observe("stored", run.stock, true)
	for _, e := range run.events {
		observe("pull-event", e, false)
	}
}

func init() {
	decoders["vending/conc"] = decoder[vendConc]()
	builders = append(builders, func(f lib.Flags, res *lib.Result, rng *rand.Rand) []*section {
		s := &section{name: "vending/conc",
			tie: res.Tie("vending.ModelServer overlapping Dispense on one stock record (forced schedules)", "K4", "logical threads park at gau.afterRead and gau.beforeLock of Collection.Update; a schedule of thread steps is executed, then every thread finishes in index order; compared exactly with the Lean interleaving model (quantities are multiples of 1/4, conversions by factor 1 or x1000 only, so float32 arithmetic is exact): final used/remaining/last_dispensed, every call's result (ok / conversion error / Aborted) and park order; stock: any subset of used/remaining present, units LITER / CUBIC_METER / KILOGRAM (mixed categories give the error path, used.amount = 0 included); systematic: caller A advanced 0..3 steps, rival B (one or two dispenses, convertible or not) runs completely, A finishes; random: 2..3 threads x 1..3 dispenses, random schedules; non-trivial = at least two threads step inside the schedule and the record tracks a quantity; distinct by request line"),
			mon: res.Monitor("vending.used/remaining are the sums of the successful dispenses under overlap", "codes: ok / conversion error exactly when a present quantity's unit is in another category / Aborted only when overlapped; stored used = initial + sum of successful dispenses converted with math/big, remaining = initial - sum floored at zero; units and presence never change; every Pull event (backpressure) within those bounds; no hang, no panic")}
		// exact in float32: amounts k/4; quantity units: LITER(3) only into LITER, CUBIC_METER(4) into LITER or CUBIC_METER, KILOGRAM(6)
		mkStock := func() stockInit {
			st := stockInit{Name: vendConcName}
			if rng.Intn(5) > 0 {
				st.Used = &qty{Unit: pick(rng, []int32{3, 3, 4, 6}), Amount: float32(rng.Intn(3)*rng.Intn(40)) / 4}
			}
			if rng.Intn(4) > 0 {
				st.Remaining = &qty{Unit: pick(rng, []int32{3, 3, 4, 6}), Amount: float32(rng.Intn(400000)) / 4}
			}
			return st
		}
		mkQty := func(st stockInit) qty {
			// a unit that converts exactly into the record's units most of the time
			u := int32(4)
			for _, x := range []*qty{st.Used, st.Remaining} {
				if x != nil && x.Unit == 4 {
					u = 4
				} else if x != nil && x.Unit == 6 && rng.Intn(3) > 0 {
					u = 6
				}
			}
			if (st.Used == nil || st.Used.Unit == 3) && (st.Remaining == nil || st.Remaining.Unit == 3) && rng.Intn(2) == 0 {
				u = 3
			}
			if rng.Intn(8) == 0 {
				u = pick(rng, []int32{3, 4, 6, 1})
				if u == 3 {
					for _, x := range []*qty{st.Used, st.Remaining} {
						if x != nil && x.Unit == 4 {
							u = 4 // LITER into CUBIC_METER is not exact in float32
						}
					}
				}
			}
			return qty{Unit: u, Amount: float32(1+rng.Intn(40)) / 4}
		}
		for rep := 0; rep < 6; rep++ {
			for _, nb := range []int{1, 2} {
				for k := 0; k <= 3; k++ {
					c := &vendConc{Model: "vending", Kind: "conc", Init: mkStock(), Note: "systematic"}
					if rep == 0 {
						// the error path after a partial write: used in LITER at 0, remaining in KILOGRAM
						c.Init = stockInit{Name: vendConcName, Used: &qty{Unit: 3, Amount: 0}, Remaining: &qty{Unit: 6, Amount: 5}}
					}
					pb := []qty{}
					for i := 0; i < nb; i++ {
						pb = append(pb, mkQty(c.Init))
					}
					c.Progs = [][]qty{{mkQty(c.Init)}, pb}
					for i := 0; i < k; i++ {
						c.Sched = append(c.Sched, "0")
					}
					for i := 0; i < 3*nb; i++ {
						c.Sched = append(c.Sched, "1")
					}
					s.add(c)
				}
			}
		}
		n := f.N(350, 5000)
		for i := 0; i < n; i++ {
			c := &vendConc{Model: "vending", Kind: "conc", Init: mkStock()}
			nt := 2 + rng.Intn(2)
			total := 0
			for t := 0; t < nt; t++ {
				var p []qty
				for k := 1 + rng.Intn(1+i*3/n); k > 0; k-- {
					p = append(p, mkQty(c.Init))
				}
				total += len(p)
				c.Progs = append(c.Progs, p)
			}
			for k := rng.Intn(3*total + 2); k > 0; k-- {
				c.Sched = append(c.Sched, strconv.Itoa(rng.Intn(nt)))
			}
			s.add(c)
		}
		return []*section{s}
	})
}
