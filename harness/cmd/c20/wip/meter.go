package main

import (
	"context"
	"fmt"
	"math/rand"
	"strconv"
	"strings"
	"time"

	"google.golang.org/grpc/status"
	"google.golang.org/protobuf/types/known/fieldmaskpb"
	"google.golang.org/protobuf/types/known/timestamppb"

	"github.com/smart-core-os/sc-api/go/traits"
	"github.com/smart-core-os/sc-golang/pkg/resource"
	"github.com/smart-core-os/sc-golang/pkg/trait/meterpb"
	"github.com/smart-core-os/sc-golang/verifharness/lib"
)

// fakeClock is the injected resource.Clock: Now() is the harness-controlled second counter.
type fakeClock struct{ t int64 }

func (c *fakeClock) Now() time.Time { return time.Unix(c.t, 0).UTC() }

type meterInit struct {
	Usage float32 `json:"usage"`
	Start *int64  `json:"start"`
	End   *int64  `json:"end"`
}

type meterOp struct {
	Op    string  `json:"op"` // rec | reset
	Usage float32 `json:"usage"`
	Dt    int64   `json:"dt"` // clock advance before the op
}

type meterSeq struct {
	Model string     `json:"model"`
	Kind  string     `json:"kind"`
	T0    int64      `json:"t0"`
	Init  *meterInit `json:"init"`
	Ops   []meterOp  `json:"ops"`
}

func encOptI64(p *int64) string {
	if p == nil {
		return "-"
	}
	return strconv.FormatInt(*p, 10)
}
func f32s(f float32) string { return ratStr(ratOfFloat(float64(f))) }

func (c *meterSeq) Line() string {
	var sb strings.Builder
	sb.WriteString(fmt.Sprintf("meter.seq %d ", c.T0))
	if c.Init == nil {
		sb.WriteString("-")
	} else {
		sb.WriteString(f32s(c.Init.Usage) + "," + encOptI64(c.Init.Start) + "," + encOptI64(c.Init.End))
	}
	for _, o := range c.Ops {
		if o.Op == "reset" {
			sb.WriteString(fmt.Sprintf(" reset@%d", o.Dt))
		} else {
			sb.WriteString(fmt.Sprintf(" rec:%s@%d", f32s(o.Usage), o.Dt))
		}
	}
	return sb.String()
}
func (c *meterSeq) Key() string { return c.Line() }
func (c *meterSeq) NonTrivial() bool {
	for _, o := range c.Ops {
		if o.Op == "rec" {
			return true
		}
	}
	return false
}
func (c *meterSeq) Buckets() []string {
	b := []string{fmt.Sprintf("init=%v", c.Init != nil)}
	for _, o := range c.Ops {
		b = append(b, "op="+o.Op)
	}
	return b
}

func encTs(t *timestamppb.Timestamp) string {
	if t == nil {
		return "-"
	}
	if t.Nanos != 0 {
		return fmt.Sprintf("%d.%09d", t.Seconds, t.Nanos)
	}
	return strconv.FormatInt(t.Seconds, 10)
}

// meterState reads through the gRPC surface (MeterApi has only Get/Pull: ModelServer.GetMeterReading)
// and cross-checks it with the Model getter.
func meterState(m *meterpb.Model) string {
	v, err := meterpb.NewModelServer(m).GetMeterReading(context.Background(), &traits.GetMeterReadingRequest{})
	if err != nil {
		return "err:" + status.Code(err).String()
	}
	s := f32s(v.Usage) + "," + encTs(v.StartTime) + "," + encTs(v.EndTime)
	if d, _ := m.GetMeterReading(); f32s(d.Usage)+","+encTs(d.StartTime)+","+encTs(d.EndTime) != s {
		return "server/model-differ:" + s
	}
	// a read mask selects fields of the same reading
	if u, err := meterpb.NewModelServer(m).GetMeterReading(context.Background(), &traits.GetMeterReadingRequest{ReadMask: &fieldmaskpb.FieldMask{Paths: []string{"usage"}}}); err != nil || f32s(u.Usage) != f32s(v.Usage) || u.StartTime != nil || u.EndTime != nil {
		return "read-mask-differs:" + s
	}
	return s
}

func (c *meterSeq) RunCode() string {
	clk := &fakeClock{t: c.T0}
	var m *meterpb.Model
	r := catch(func() string {
		opts := []resource.Option{resource.WithClock(clk)}
		if c.Init != nil {
			iv := &traits.MeterReading{Usage: c.Init.Usage}
			if c.Init.Start != nil {
				iv.StartTime = &timestamppb.Timestamp{Seconds: *c.Init.Start}
			}
			if c.Init.End != nil {
				iv.EndTime = &timestamppb.Timestamp{Seconds: *c.Init.End}
			}
			opts = append(opts, resource.WithInitialValue(iv))
		}
		m = meterpb.NewModel(opts...)
		return "ok"
	})
	if r != "ok" {
		return "new:" + r
	}
	outs := []string{"init#" + meterState(m)}
	for _, o := range c.Ops {
		o := o
		clk.t += o.Dt
		ret := catch(func() string {
			var err error
			if o.Op == "reset" {
				_, err = m.Reset()
			} else {
				_, err = m.RecordReading(o.Usage)
			}
			if err != nil {
				return "err"
			}
			return "ok"
		})
		outs = append(outs, ret+"#"+catch(func() string { return meterState(m) }))
	}
	return strings.Join(outs, ";")
}

// Check: three registers. NewModel keeps a configured reading and fills absent start/end with now;
// RecordReading sets usage and end = now and keeps start; Reset sets usage 0 and start = end = now.
// With a non-decreasing clock start <= end always.
func (c *meterSeq) Check(m *lib.Monitor, code string) {
	if strings.HasPrefix(code, "new:") {
		m.Violate("C20/meter/NewModel/panic", "NewModel panicked: "+lastPanic, c, "no panic", code)
		return
	}
	steps := strings.Split(code, ";")
	now := c.T0
	usage, start, end := "0", now, now
	if c.Init != nil {
		usage = f32s(c.Init.Usage)
		if c.Init.Start != nil {
			start = *c.Init.Start
		}
		if c.Init.End != nil {
			end = *c.Init.End
		}
	}
	want := func() string { return fmt.Sprintf("%s,%d,%d", usage, start, end) }
	if got := strings.SplitN(steps[0], "#", 2)[1]; got != want() {
		m.Violate("C20/meter/NewModel/initial-reading-lost", "NewModel must keep the configured reading and only fill in absent start/end times", c, want(), got)
		return
	}
	for i, o := range c.Ops {
		if i+1 >= len(steps) {
			break
		}
		now += o.Dt
		p := strings.SplitN(steps[i+1], "#", 2)
		method := map[string]string{"rec": "RecordReading", "reset": "Reset"}[o.Op]
		if p[0] == "panic" || p[1] == "panic" {
			m.Violate("C20/meter/"+method+"/panic", method+" panicked: "+lastPanic, c, "no panic", steps[i+1])
			return
		}
		if p[0] != "ok" {
			m.Violate("C20/meter/"+method+"/error", method+" failed", c, "ok", p[0])
			return
		}
		if o.Op == "reset" {
			usage, start, end = "0", now, now
		} else {
			usage, end = f32s(o.Usage), now
		}
		if p[1] != want() {
			cls := "wrong-reading"
			if g := strings.Split(p[1], ","); len(g) == 3 && g[1] == "-" {
				cls = "start-time-cleared"
			}
			m.Violate("C20/meter/"+method+"/"+cls, fmt.Sprintf("after op %d the reading is not what the register spec gives", i), c, want(), p[1])
			return
		}
		if start > end {
			m.Violate("C20/meter/"+method+"/start-after-end", "start_time must not be after end_time", c, "start<=end", p[1])
		}
	}
}

func init() {
	decoders["meter/seq"] = decoder[meterSeq]()
	builders = append(builders, func(f lib.Flags, res *lib.Result, rng *rand.Rand) []*section {
		s := &section{name: "meter/seq",
			tie: res.Tie("meter.Model RecordReading/Reset sequences", "K1", "state read through ModelServer.GetMeterReading (cross-checked with the Model getter and a usage read mask); random: injected clock starting at t0 in 1000..2000 s; WithInitialValue 30% (usage, any subset of start<=end<=t0 present); 1..10 ops RecordReading(usage in {0, k/4}) 75% / Reset 25%, clock advance 0..5 s before each op; short first; non-trivial = has a RecordReading; distinct by request line"),
			mon: res.Monitor("meter.registers", "usage/start/end registers: NewModel keeps configured reading and fills absent times with now; RecordReading sets usage,end and keeps start; Reset sets all; start <= end; no panic")}
		n := f.N(1500, 20000)
		for i := 0; i < n; i++ {
			c := &meterSeq{Model: "meter", Kind: "seq", T0: 1000 + int64(rng.Intn(1000))}
			if rng.Intn(100) < 30 {
				c.Init = &meterInit{Usage: float32(rng.Intn(40)) / 4}
				st := c.T0 - int64(rng.Intn(500))
				en := st + int64(rng.Intn(int(c.T0-st)+1))
				if rng.Intn(3) > 0 {
					c.Init.Start = &st
				}
				if rng.Intn(3) > 0 {
					c.Init.End = &en
				}
			}
			k := 1 + i*10/n
			for j := 0; j < k; j++ {
				o := meterOp{Op: "rec", Dt: int64(rng.Intn(6))}
				if rng.Intn(4) == 0 {
					o.Op = "reset"
				} else if rng.Intn(5) > 0 {
					o.Usage = float32(rng.Intn(400)) / 4
				}
				c.Ops = append(c.Ops, o)
			}
			s.add(c)
		}
		return []*section{s}
	})
}
