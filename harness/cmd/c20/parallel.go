package main

// Several devices in one process, really in parallel (family "pub/par").
//
// Every other family of this harness runs one logical thread at a time (the forced schedules park all
// threads but one), so code that runs OUTSIDE any lock - the change phase of resource.GetAndUpdate: the
// interceptors of the trait models - never overlaps itself there.  This family lets it overlap: 2..4
// publication models, each with its own operation sequence, each on its own goroutine.  The injected
// clock of every device is a barrier: Now() (read by the interceptors inside the change phase) returns
// only when every device that is still running has called it, so the devices leave the clock together
// and run the rest of their change phase - minting the version of a large body - at the same time.
//
// The devices share nothing, so each of them must behave exactly as if it were alone: its answer is
// compared with the Lean model's answer for its own sequence (tie) and judged by the sequential
// monitor of pub.go (version = md5 of the record's content recomputed independently, receipt reset,
// times).  Bodies are padded to about a MiB on their way into the code so that hashing takes
// milliseconds (the goroutines leave the barrier within microseconds of each other); the model and the
// monitor see the short form, after the padding of the stored body has been verified byte by byte.

import (
	"bytes"
	"fmt"
	"hash/fnv"
	"math/rand"
	"strings"
	"sync"
	"time"

	"github.com/smart-core-os/sc-golang/verifharness/lib"
)

const padMark = 0x1e

// padBody: body, a separator and deterministic filler up to pad bytes (pad 0: the body itself)
func padBody(body string, pad int) []byte {
	if pad <= len(body)+1 {
		return []byte(body)
	}
	out := make([]byte, pad)
	copy(out, body)
	out[len(body)] = padMark
	h := fnv.New32a()
	h.Write([]byte(body))
	x := h.Sum32() | 1
	for i := len(body) + 1; i < pad; i++ {
		x = x*1664525 + 1013904223
		out[i] = byte(x >> 24)
	}
	return out
}

// unpad: the short form of a padded body and the bytes themselves; any other body as it is
func unpad(b []byte) (string, []byte) {
	k := bytes.IndexByte(b, padMark)
	if k < 0 || len(b) < 1024 {
		return string(b), nil
	}
	if !bytes.Equal(padBody(string(b[:k]), len(b)), b) {
		return fmt.Sprintf("!damaged-body(%d bytes)", len(b)), b
	}
	return string(b[:k]), b
}

// parBarrier: Now() of every device's clock waits until all devices still running are in Now()
type parBarrier struct {
	mu      sync.Mutex
	cond    *sync.Cond
	active  int
	waiting int
	gen     int
}

func (g *parBarrier) release() { g.waiting = 0; g.gen++; g.cond.Broadcast() }

func (g *parBarrier) arrive() {
	g.mu.Lock()
	defer g.mu.Unlock()
	g.waiting++
	if g.waiting >= g.active {
		g.release()
		return
	}
	for gen := g.gen; gen == g.gen; {
		g.cond.Wait()
	}
}

func (g *parBarrier) leave() {
	g.mu.Lock()
	defer g.mu.Unlock()
	g.active--
	if g.active > 0 && g.waiting >= g.active {
		g.release()
	}
}

type barrierClock struct {
	t int64
	g *parBarrier
}

func (c *barrierClock) tick() { c.t++ }
func (c *barrierClock) Now() time.Time {
	c.g.arrive()
	return time.Unix(c.t, 0).UTC()
}

// parRun: one execution of a group, shared by the cases of its members
type parRun struct {
	once sync.Once
	seqs []*pubSeq
}

type pubPar struct {
	Model string    `json:"model"`
	Kind  string    `json:"kind"`
	Seqs  [][]pubOp `json:"seqs"` // one sequence per device of the process
	Me    int       `json:"me"`   // the device this case is about
	Pad   int       `json:"pad"`  // bodies of device i are padded to Pad + i*65537 bytes
	run   *parRun
	mine  *pubSeq
}

func (c *pubPar) exec() {
	if c.run == nil {
		c.run = &parRun{}
	}
	c.run.once.Do(func() {
		g := &parBarrier{active: len(c.Seqs)}
		g.cond = sync.NewCond(&g.mu)
		var wg sync.WaitGroup
		for i, ops := range c.Seqs {
			s := &pubSeq{Model: "pub", Kind: "seq", Ops: ops, clk: &barrierClock{t: 1000, g: g}, pad: c.Pad + i*65537}
			c.run.seqs = append(c.run.seqs, s)
			wg.Add(1)
			go func() {
				defer wg.Done()
				defer g.leave()
				panicked, msg := lib.Catch(func() { s.RunCode() })
				if panicked {
					s.out = "harness-panic:" + msg
				}
			}()
		}
		wg.Wait()
	})
	c.mine = c.run.seqs[c.Me]
	c.mine.owner = c
}

func (c *pubPar) RunCode() string {
	c.exec()
	return c.mine.out
}

func (c *pubPar) Line() string {
	if c.mine == nil {
		c.exec()
	}
	return c.mine.Line()
}

func (c *pubPar) Key() string {
	if c.mine == nil {
		c.exec()
	}
	var ls []string
	for _, s := range c.run.seqs {
		ls = append(ls, s.Line())
	}
	return fmt.Sprintf("par me=%d pad=%d %s", c.Me, c.Pad, strings.Join(ls, " || "))
}

// non-trivial: at least two devices and this one asks for a version to be minted
func (c *pubPar) NonTrivial() bool {
	if len(c.Seqs) < 2 {
		return false
	}
	for _, o := range c.Seqs[c.Me] {
		if o.Op == "create" || o.Op == "update" {
			return true
		}
	}
	return false
}

func (c *pubPar) Buckets() []string {
	b := []string{fmt.Sprintf("devices=%d", len(c.Seqs))}
	if c.mine != nil {
		b = append(b, c.mine.Buckets()...)
	}
	return b
}

func (c *pubPar) Check(m *lib.Monitor, code string) {
	if strings.HasPrefix(code, "harness-panic:") {
		m.Violate("C20/publication/parallel/harness", "the run of this device did not finish", c, "an answer", code)
		return
	}
	c.mine.Check(m, code)
}

func init() {
	decoders["pub/par"] = decoder[pubPar]()
	builders = append(builders, func(f lib.Flags, res *lib.Result, rng *rand.Rand) []*section {
		s := &section{name: "pub/par",
			tie: res.Tie("publication: several devices of one process in parallel", "K1", "groups of 2..4 publication models run at the same time, one goroutine each; the injected clocks form a barrier (Now() returns when every running device is inside Now()), so the change phases of the devices' writes - which hold no lock - overlap in real time; one skeleton of 2..5 ops per group (first create, then create 30% [other id 2/3, generated id 1/3] / update 45% [mask none 60%, body(+media_type) 40%; version '' or current] / acknowledge 15% / delete 10%), bodies, media types and audiences differ per device, bodies padded to about 1 MiB (+64 KiB per device) on the way into the code; each device's answer is compared with the model's answer for its own sequence alone; non-trivial = at least two devices and a create/update in the device's sequence; distinct by the whole group + device"),
			mon: res.Monitor("publication.parallel devices vs Go map spec", "every device of a process behaves as if it were alone: the sequential publication spec (status codes, version = md5(v1,id,body,media_type,audience.name) of the stored content recomputed with crypto/md5, publish/receipt times, receipt reset) holds on each device while the others write at the same moment; the stored body is the padded body byte for byte; no panic")}
		bodies := []string{"hello", "world", "", "b3"}
		mts := []string{"text/plain", "application/json", ""}
		auds := []string{"tenant", "screen", ""}
		groups := f.N(10, 40)
		for gi := 0; gi < groups; gi++ {
			k := 2 + rng.Intn(3)
			n := 2 + rng.Intn(4)
			seqs := make([][]pubOp, k)
			each := func(mk func(dev int) pubOp) {
				for d := 0; d < k; d++ {
					seqs[d] = append(seqs[d], mk(d))
				}
			}
			fill := func(o *pubOp, dev int) {
				o.Body = fmt.Sprintf("%s/%d.%d", pick(rng, bodies), gi, dev)
				o.MediaType = pick(rng, mts)
				if rng.Intn(4) > 0 {
					a := pick(rng, auds)
					o.Audience = &a
					o.Receipt = int32(rng.Intn(4))
					if o.Receipt == 3 {
						o.Reason = "no"
					}
				}
			}
			live := []string{"p1"}
			haveGen := false
			target := func() string {
				if haveGen && rng.Intn(4) == 0 {
					return "$g"
				}
				return pick(rng, live)
			}
			for j := 0; j < n; j++ {
				r := rng.Intn(100)
				switch {
				case j == 0:
					each(func(d int) pubOp { o := pubOp{Op: "create", ID: "p1"}; fill(&o, d); return o })
				case r < 30:
					id := "p2"
					if rng.Intn(3) == 0 {
						id, haveGen = "", true
					} else {
						live = append(live, id)
					}
					each(func(d int) pubOp { o := pubOp{Op: "create", ID: id}; fill(&o, d); return o })
				case r < 75:
					id, vref := target(), pick(rng, []string{"", "cur", "cur"})
					var mask []string
					if rng.Intn(10) < 4 {
						mask = pick(rng, [][]string{{"body"}, {"body", "media_type"}})
					}
					each(func(d int) pubOp {
						o := pubOp{Op: "update", ID: id, VRef: vref, Mask: mask}
						fill(&o, d)
						return o
					})
				case r < 90:
					id, rc, allow := target(), pick(rng, []int32{2, 3, 1}), rng.Intn(2) == 0
					each(func(d int) pubOp {
						o := pubOp{Op: "ack", ID: id, VRef: "cur", Receipt: rc, AllowAck: allow}
						if rc == 3 {
							o.Reason = "busy"
						}
						return o
					})
				default:
					id := target()
					each(func(d int) pubOp { return pubOp{Op: "delete", ID: id, VRef: "cur"} })
				}
			}
			run := &parRun{}
			for d := 0; d < k; d++ {
				s.add(&pubPar{Model: "pub", Kind: "par", Seqs: seqs, Me: d, Pad: 1 << 20, run: run})
			}
		}
		return []*section{s}
	})
}
