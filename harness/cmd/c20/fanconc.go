package main

// Forced overlaps of UpdateFanSpeed on one fan-speed model (tie kind K4) on the controller of meterconc.go.

import (
	"context"
	"fmt"
	"math"
	"math/rand"
	"strconv"
	"strings"
	"time"

	"google.golang.org/grpc/status"
	"google.golang.org/protobuf/types/known/fieldmaskpb"

	"github.com/smart-core-os/sc-api/go/traits"
	"github.com/smart-core-os/sc-golang/pkg/cmp"
	"github.com/smart-core-os/sc-golang/pkg/resource"
	"github.com/smart-core-os/sc-golang/pkg/trait/fanspeedpb"
	"github.com/smart-core-os/sc-golang/verifharness/lib"
)

type fanConc struct {
	Model   string      `json:"model"`
	Kind    string      `json:"kind"`
	Presets []fanPreset `json:"presets"`
	Init    fanState    `json:"init"`
	Progs   [][]fanOp   `json:"progs"`
	Sched   []string    `json:"sched"`
	Note    string      `json:"note,omitempty"`
}

func encFanOp(o fanOp) string {
	rel := "abs"
	if o.Relative {
		rel = "rel"
	}
	mask := "none"
	if o.Mask != nil {
		mask = "m:" + strings.Join(o.Mask, "+")
	}
	return rel + "|" + mask + "|" + o.fanState.enc()
}

func (c *fanConc) Line() string {
	var sb strings.Builder
	var ps []string
	for _, p := range c.Presets {
		ps = append(ps, encStr(p.Name)+":"+pctBits(p.Pct))
	}
	sb.WriteString("fan.conc " + encList(ps) + " " + c.Init.enc() + " " + encList(c.Sched))
	for _, p := range c.Progs {
		var ks []string
		for _, o := range p {
			ks = append(ks, encFanOp(o))
		}
		if len(ks) == 0 {
			sb.WriteString(" -")
		} else {
			sb.WriteString(" " + strings.Join(ks, ";"))
		}
	}
	return sb.String()
}
func (c *fanConc) Key() string { return c.Line() }
func (c *fanConc) NonTrivial() bool {
	seen := map[string]bool{}
	for _, s := range c.Sched {
		seen[s] = true
	}
	return len(seen) >= 2
}
func (c *fanConc) Buckets() []string {
	b := []string{fmt.Sprintf("threads=%d", len(c.Progs))}
	for _, p := range c.Progs {
		for _, o := range p {
			b = append(b, fmt.Sprintf("op:rel=%v,masked=%v", o.Relative, o.Mask != nil))
		}
	}
	if run := lastFanConc[c]; run != nil {
		for _, cs := range run.calls {
			for _, k := range cs {
				b = append(b, "ret="+strings.SplitN(k.ret, "=", 2)[0])
			}
		}
	}
	return b
}

type fanConcRun struct {
	final  string
	finalS fanState
	calls  [][]concCallOut
	vals   [][]*fanState // the fan speed each ok call returned
	order  [][2]int
	events []fanState
	stuck  bool
}

func (c *fanConc) exec() (run fanConcRun, failure string) {
	ctl := newCtl(1000)
	defer ctl.close()
	var m *fanspeedpb.Model
	r := catch(func() string {
		var ps []fanspeedpb.Preset
		for _, p := range c.Presets {
			ps = append(ps, fanspeedpb.Preset{Name: p.Name, Percentage: p.Pct})
		}
		m = fanspeedpb.NewModel(fanspeedpb.WithPresets(ps...),
			fanspeedpb.WithInitialFanSpeed(&traits.FanSpeed{Percentage: c.Init.Pct, Preset: c.Init.Preset, PresetIndex: c.Init.Index, Direction: traits.FanSpeed_Direction(c.Init.Dir)}))
		return "ok"
	})
	if r != "ok" {
		return run, "new:" + r
	}
	srv := fanspeedpb.NewModelServer(m)
	ctx, cancel := context.WithCancel(context.Background())
	log := &eventLog[fanState]{done: make(chan struct{})}
	pull := m.PullFanSpeed(ctx, resource.WithBackpressure(true))
	go func() {
		defer close(log.done)
		for ch := range pull {
			log.add(fanOf(ch.Value))
		}
	}()
	log.waitSeed()
	lens := make([]int, len(c.Progs))
	run.vals = make([][]*fanState, len(c.Progs))
	for i, p := range c.Progs {
		lens[i] = len(p)
		run.vals[i] = make([]*fanState, len(p))
	}
	run.calls, run.stuck = runConc(ctl, lens, func(i, k int) string {
		o := c.Progs[i][k]
		ret := catch(func() string {
			req := &traits.UpdateFanSpeedRequest{Relative: o.Relative,
				FanSpeed: &traits.FanSpeed{Percentage: o.Pct, Preset: o.Preset, PresetIndex: o.Index, Direction: traits.FanSpeed_Direction(o.Dir)}}
			if o.Mask != nil {
				req.UpdateMask = &fieldmaskpb.FieldMask{Paths: append([]string(nil), o.Mask...)}
			}
			v, err := srv.UpdateFanSpeed(context.Background(), req)
			if err != nil {
				if c := status.Code(err).String(); c != "Aborted" {
					return "err:" + c
				}
				return "Aborted"
			}
			if v == nil {
				return "nil"
			}
			st := fanOf(v)
			run.vals[i][k] = &st
			return "ok=" + st.enc()
		})
		run.order = append(run.order, [2]int{i, k}) // one logical thread runs at a time
		return ret
	}, c.Sched)
	if !run.stuck {
		// how many events to wait for: the model's default message equivalence (percentages within 0.01) holds back a
		// committed value that is equivalent to the one sent before it (used for waiting only, the verdict below
		// does not depend on it: with too small a count events are missing from a stream that is only required
		// to be a subsequence of the committed values)
		want := 1
		eq := cmp.Equal(cmp.FloatValueApprox(0, 0.01))
		toPb := func(s fanState) *traits.FanSpeed {
			return &traits.FanSpeed{Percentage: s.Pct, Preset: s.Preset, PresetIndex: s.Index, Direction: traits.FanSpeed_Direction(s.Dir)}
		}
		last := toPb(c.Init)
		for _, ik := range run.order {
			if v := run.vals[ik[0]][ik[1]]; v != nil {
				if pb := toPb(*v); !eq(last, pb) {
					want++
					last = pb
				}
			}
		}
		log.settle(want)
		run.final = catch(func() string {
			run.finalS = fanOf(m.FanSpeed())
			return run.finalS.enc()
		})
	}
	cancel()
	select {
	case <-log.done:
	case <-time.After(2 * time.Second):
	}
	run.events = log.snapshot()
	return run, ""
}

var lastFanConc = map[*fanConc]*fanConcRun{}

func (c *fanConc) RunCode() string {
	run, fail := c.exec()
	if fail != "" {
		return fail
	}
	lastFanConc[c] = &run
	if run.stuck {
		return "stuck"
	}
	var ths []string
	for _, cs := range run.calls {
		var rets, traces []string
		for _, k := range cs {
			rets = append(rets, k.ret)
			traces = append(traces, strings.TrimPrefix(k.trace, "s"))
		}
		ths = append(ths, encAmpGo(rets)+"::"+encAmpGo(traces))
	}
	return run.final + "#" + strings.Join(ths, ";;")
}

// Check: the successful calls replayed, in the order they returned (= commit order: a call's commit is its last
// atomic step and one logical thread runs at a time), on the table-lookup spec of fan.go (fanSpec: written fields
// merged over the value stored at the commit, relative = added to that value, then preset > index > percentage,
// index clamped): every returned fan speed, the stored fan speed and the Pull stream are the replay's, and
// consistency is never lost; a refused call (Aborted) changes nothing and only happens to a call another call
// overlapped. At an excluded point of the sequential rule (a write that clears the preset of a fan that has one)
// the replay continues from what the call returned.
func (c *fanConc) Check(m *lib.Monitor, code string) {
	const sig = "C20/fanspeed/concurrent/"
	run := lastFanConc[c]
	delete(lastFanConc, c)
	if strings.HasPrefix(code, "new:") || run == nil {
		m.Violate(sig+"NewModel/panic", "NewModel panicked: "+lastPanic, c, "no panic", code)
		return
	}
	if run.stuck {
		m.Violate(sig+"stuck", "a released call neither reached its next step nor returned within 20 s", c, "progress", "stuck")
		return
	}
	state := c.Init
	states := []fanState{state}
	for _, ik := range run.order {
		o := c.Progs[ik[0]][ik[1]]
		out := run.calls[ik[0]][ik[1]]
		switch {
		case out.ret == "panic":
			m.Violate(sig+"UpdateFanSpeed/panic", "UpdateFanSpeed panicked: "+lastPanic, c, "no panic", out.ret)
			return
		case out.ret == "Aborted":
			if !out.overlapped {
				m.Violate(sig+"UpdateFanSpeed/aborted-without-overlap", "a call that no other call overlapped was refused as a concurrent update", c, "ok", out.ret)
			}
		case strings.HasPrefix(out.ret, "ok="):
			got := run.vals[ik[0]][ik[1]]
			if got == nil {
				continue
			}
			want, ok := fanSpec(c.Presets, state, o)
			if !ok {
				m.Count("excluded-point")
				state = *got
				states = append(states, state)
				continue
			}
			if *got != want {
				m.Violate(sig+"UpdateFanSpeed/returned-value-not-the-rule-on-the-value-stored-at-the-commit", "the returned fan speed must be the request applied (relative: added) to the fan speed stored at the commit, then preset > index > percentage", c, "ok="+want.enc(), out.ret)
				return
			}
			if fanConsistent(c.Presets, state) && !fanConsistent(c.Presets, *got) {
				m.Violate(sig+"UpdateFanSpeed/inconsistent", "preset, index and percentage are no longer mutually consistent", c, "consistent", got.enc())
				return
			}
			state = want
			states = append(states, state)
		default:
			m.Violate(sig+"UpdateFanSpeed/error", "a well-formed UpdateFanSpeed (known preset) failed with an unexpected code", c, "ok or Aborted", out.ret)
			return
		}
	}
	if run.finalS != state {
		m.Violate(sig+"stored/not-the-replay-of-the-committed-calls", "the stored fan speed must be the sequential run of exactly the successful calls (no relative step lost or applied twice)", c, state.enc(), run.final)
		return
	}
	// the Pull stream (backpressure): committed values in commit order; the model's message equivalence may hold
	// back a value that is (approximately) the one before it, so: a subsequence of the replay's states
	j := 0
	for _, e := range run.events {
		for j < len(states) && states[j] != e {
			j++
		}
		if j == len(states) {
			var ws, es []string
			for _, s := range states {
				ws = append(ws, s.enc())
			}
			for _, s := range run.events {
				es = append(es, s.enc())
			}
			m.Violate(sig+"pull-events/not-committed-values-in-commit-order", "PullFanSpeed (backpressure) must show committed fan speeds only, in commit order", c, "a subsequence of "+strings.Join(ws, " "), strings.Join(es, " "))
			return
		}
	}
}

func init() {
	decoders["fan/conc"] = decoder[fanConc]()
	builders = append(builders, func(f lib.Flags, res *lib.Result, rng *rand.Rand) []*section {
		s := &section{name: "fan/conc",
			tie: res.Tie("fanspeed.ModelServer overlapping UpdateFanSpeed (forced schedules)", "K4", "logical threads park at gau.afterRead and gau.beforeLock of Value.Set; a schedule of thread steps is executed, then every thread finishes in index order; compared exactly with the Lean interleaving model (the instance C20_fan_conc_is_sequential_run is about): the stored fan speed, every call's result (returned fan speed / Aborted) and park points; 1..5 presets with distinct non-empty names and float32 percentages (10% duplicate percentage), initial fan speed on a preset 70% / between presets 30%; requests: relative 50% (index steps -2..2 and the int32 limits, percentage deltas) / absolute, written fields among percentage / preset (configured names only: an unknown name is refused before the transaction, sequential tie) / preset_index / direction, mask = written fields 55% / none 35% / other 10%; systematic: caller A advanced 0..3 steps, rival B (one or two requests) runs completely, A finishes; random: 2..3 threads x 1..3 requests, random schedules; non-trivial = at least two threads step inside the schedule; distinct by request line"),
			mon: res.Monitor("fanspeed.fan speed is the replay of the successful calls under overlap", "the successful calls replayed in the order they returned on the table-lookup spec (written fields merged over the value stored at the commit, relative = added to it, preset > index > percentage, index clamped): every returned fan speed and the stored fan speed are exactly the replay's, consistency is kept, the PullFanSpeed stream (backpressure) shows committed values only and in commit order; Aborted only when overlapped and without effect; no other error, no panic, no hang")}
		mkPresets := func() []fanPreset {
			k := 1 + rng.Intn(5)
			var ps []fanPreset
			for j := 0; j < k; j++ {
				p := fanPreset{Name: fmt.Sprintf("p%d", j), Pct: randPct(rng)}
				if j > 0 && rng.Intn(10) == 0 {
					p.Pct = ps[0].Pct
				}
				ps = append(ps, p)
			}
			return ps
		}
		mkInit := func(ps []fanPreset) fanState {
			if rng.Intn(100) < 70 {
				j := rng.Intn(len(ps))
				// the first preset with that percentage / name, as a consistent state has it
				for i, p := range ps {
					if p.Name == ps[j].Name {
						j = i
						break
					}
				}
				return fanState{Pct: ps[j].Pct, Preset: ps[j].Name, Index: int32(j), Dir: int32(rng.Intn(3))}
			}
			st := fanState{Pct: randPct(rng), Index: -1, Dir: int32(rng.Intn(3))}
			for i, p := range ps {
				if p.Pct == st.Pct {
					st.Preset, st.Index = p.Name, int32(i)
					break
				}
			}
			return st
		}
		mkOp := func(ps []fanPreset) fanOp {
			var o fanOp
			o.Relative = rng.Intn(2) == 0
			var written []string
			for _, fld := range []string{"percentage", "preset", "preset_index", "direction"} {
				if rng.Intn(100) < 30 {
					written = append(written, fld)
				}
			}
			if len(written) == 0 {
				written = []string{pick(rng, []string{"percentage", "preset_index", "preset_index", "preset"})}
			}
			for _, fld := range written {
				switch fld {
				case "percentage":
					o.Pct = randPct(rng)
					if o.Relative {
						o.Pct = randDelta(rng)
					} else if rng.Intn(3) == 0 {
						o.Pct = pick(rng, ps).Pct
					}
				case "preset":
					o.Preset = pick(rng, ps).Name
				case "preset_index":
					o.Index = int32(rng.Intn(len(ps)+4) - 2)
					if o.Relative {
						o.Index = int32(rng.Intn(5) - 2)
						if rng.Intn(12) == 0 {
							o.Index = pick(rng, []int32{math.MaxInt32, math.MinInt32})
						}
					}
				case "direction":
					o.Dir = int32(rng.Intn(3))
				}
			}
			switch r := rng.Intn(100); {
			case r < 55:
				o.Mask = written
			case r < 90:
				o.Mask = nil
			default:
				o.Mask = []string{pick(rng, []string{"percentage", "preset", "preset_index", "direction"})}
			}
			return o
		}
		for rep := 0; rep < 6; rep++ {
			for _, nb := range []int{1, 2} {
				for k := 0; k <= 3; k++ {
					ps := mkPresets()
					c := &fanConc{Model: "fan", Kind: "conc", Presets: ps, Init: mkInit(ps), Note: "systematic"}
					var pb []fanOp
					for i := 0; i < nb; i++ {
						pb = append(pb, mkOp(ps))
					}
					c.Progs = [][]fanOp{{mkOp(ps)}, pb}
					for i := 0; i < k; i++ {
						c.Sched = append(c.Sched, "0")
					}
					for i := 0; i < 3*nb; i++ {
						c.Sched = append(c.Sched, "1")
					}
					s.add(c)
				}
			}
		}
		n := f.N(300, 5000)
		for i := 0; i < n; i++ {
			ps := mkPresets()
			c := &fanConc{Model: "fan", Kind: "conc", Presets: ps, Init: mkInit(ps)}
			nt := 2 + rng.Intn(2)
			total := 0
			for t := 0; t < nt; t++ {
				var p []fanOp
				for k := 1 + rng.Intn(1+i*3/n); k > 0; k-- {
					p = append(p, mkOp(ps))
				}
				total += len(p)
				c.Progs = append(c.Progs, p)
			}
			for k := rng.Intn(3*total + 2); k > 0; k-- {
				c.Sched = append(c.Sched, strconv.Itoa(rng.Intn(nt)))
			}
			s.add(c)
		}
		return []*section{s}
	})
}
