// Harness for C20 (trait models keep derived state consistent with their rules).
// One section per model: a tie (Lean model through driverC20 vs the real Go code) and a monitor (the
// model's small spec written independently in Go, evaluated on the real code).
package main

import (
	"encoding/json"
	"fmt"
	"log"
	"math/rand"
	"os"
	"sort"
	"strings"

	"github.com/smart-core-os/sc-golang/verifharness/lib"
)

// kase is one generated input: it knows its driver request line, how to run the real code and how to
// judge the code's answer against the property.
type kase interface {
	Line() string                      // request for driverC20
	RunCode() string                   // canonical answer of the real code (same format as the driver's)
	Check(m *lib.Monitor, code string) // the property's own statement on the code's answer
	Key() string                       // distinct-counting key
	NonTrivial() bool                  // per the section's stated rule
	Buckets() []string                 // distribution buckets
}

type section struct {
	name    string
	tie     *lib.Tie
	mon     *lib.Monitor
	cases   []kase
	compare func(model, code string) bool // nil: string equality
}

func (s *section) add(c kase) { s.cases = append(s.cases, c) }

func (s *section) run(drv *lib.Driver) {
	lines := make([]string, len(s.cases))
	for i, c := range s.cases {
		if s.tie != nil {
			lines[i] = c.Line()
		}
	}
	var answers []string
	if s.tie == nil {
		// a family without a model side (par/mix: the answers are compared with the code's own solo answers)
	} else if drv != nil {
		var err error
		answers, err = drv.Batch(lines)
		if err != nil {
			s.tie.Fail(err)
		}
	} else {
		s.tie.Fail(fmt.Errorf("no driver: monitors only"))
	}
	for i, c := range s.cases {
		code := c.RunCode()
		model := "!no-answer"
		if i < len(answers) {
			model = answers[i]
		}
		if s.compare != nil && s.compare(model, code) {
			model = code // equal up to the section's stated tolerance
		}
		if drv != nil && s.tie != nil {
			s.tie.Record(c.Key(), c.NonTrivial(), c, model, code)
		}
		for _, b := range c.Buckets() {
			if s.tie != nil {
				s.tie.Count(b)
			}
			s.mon.Count(b)
		}
		s.mon.Eval(c.Key(), c.NonTrivial(), nil)
		c.Check(s.mon, code)
	}
}

func main() {
	f := lib.ParseFlags()
	if f.Replay != "" {
		os.Exit(replay(f))
	}
	res := lib.NewResult("C20", f)
	var drv *lib.Driver
	if f.Driver != "" || os.Getenv("C20_MONITORS_ONLY") == "" {
		var err error
		if drv, err = lib.StartDriver(f.Driver); err != nil {
			lib.Fatal(err)
		}
		defer drv.Close()
	}
	rng := lib.NewRand(f.Seed)
	debug := func(s *section) {
		if os.Getenv("C20_DEBUG") != "" {
			log.SetFlags(log.Lmicroseconds)
			log.Println("section", s.name)
		}
	}
	for _, build := range builders {
		for _, s := range build(f, res, rng) {
			if mixable[s.name] {
				mixPool[s.name] = s.cases
			}
			if only := os.Getenv("C20_ONLY"); only != "" && !strings.HasPrefix(s.name, only) {
				continue // development aid: run one section (the generator still consumed its share of the PRNG)
			}
			if os.Getenv("C20_DEBUG") != "" {
				log.SetFlags(log.Lmicroseconds)
				log.Println("section", s.name)
			}
			s.run(drv)
		}
	}
	if only := os.Getenv("C20_ONLY"); only == "" || strings.HasPrefix("par/mix", only) {
		s := mixSection(f, res)
		debug(s)
		s.run(drv)
	}
	if err := res.Write(f.Out); err != nil {
		lib.Fatal(err)
	}
}

// builders: one per model; each returns its sections with generated cases.
var builders []func(f lib.Flags, res *lib.Result, rng *rand.Rand) []*section

// decoders: replay input "model"+"kind" -> kase
var decoders = map[string]func(b []byte) (kase, error){}

func replay(f lib.Flags) int {
	rp, err := lib.ReadReplay(f.Replay)
	if err != nil {
		lib.Fatal(err)
	}
	in, ok := rp.Input.(map[string]any)
	if !ok {
		fmt.Println("replay: no concrete input in file (", rp.Kind, rp.Broken, ")")
		return 2
	}
	b, _ := json.Marshal(in)
	dec, ok := decoders[fmt.Sprint(in["model"])+"/"+fmt.Sprint(in["kind"])]
	if !ok {
		fmt.Println("replay: unknown case kind", in["model"], in["kind"])
		return 2
	}
	c, err := dec(b)
	if err != nil {
		fmt.Println("replay: bad input:", err)
		return 2
	}
	m := lib.NewMonitor("replay", "")
	out := c.RunCode()
	c.Check(m, out)
	fmt.Printf("replay %s -> code=%s\n", c.Line(), out)
	if len(m.Violations) > 0 {
		for _, v := range m.Violations {
			fmt.Printf("STILL FAILS %s: %s (expected %s, observed %s)\n", v.Signature, v.What, v.Expected, v.Observed)
		}
		return 1
	}
	fmt.Println("replay: property holds on this input now")
	return 0
}

func decoder[T any, P interface {
	*T
	kase
}]() func(b []byte) (kase, error) {
	return func(b []byte) (kase, error) {
		p := P(new(T))
		if err := json.Unmarshal(b, p); err != nil {
			return nil, err
		}
		return p, nil
	}
}

// --- small helpers -------------------------------------------------------------------------------

// esc makes a name safe for the space/punctuation separated line protocol without changing what the
// model sees: the driver undoes it (ScVerif/C20/Esc.lean). "" -> %e, "%" -> %25, " " -> %20.
func esc(s string) string {
	if s == "" {
		return "%e"
	}
	return strings.ReplaceAll(strings.ReplaceAll(s, "%", "%25"), " ", "%20")
}

func unesc(s string) string {
	if s == "%e" {
		return ""
	}
	return strings.ReplaceAll(strings.ReplaceAll(s, "%20", " "), "%25", "%")
}

// encNames encodes a list of raw names (each escaped); encList joins already encoded parts.
func encNames(xs []string) string {
	ys := make([]string, len(xs))
	for i, x := range xs {
		ys[i] = esc(x)
	}
	return encList(ys)
}

// nearMiss returns a variant of a configured name that a lenient comparison (case folding, trimming,
// prefix matching, unicode normalisation) would accept but exact comparison must not: case variants,
// leading/trailing ASCII or no-break space, a proper prefix, an extension, a look-alike letter, empty.
func nearMiss(rng *rand.Rand, name string) string {
	lookalike := map[rune]rune{'a': 'а', 'e': 'е', 'o': 'о', 'p': 'р', 'c': 'с', 'i': 'і', 'x': 'х', 'l': 'ⅼ', '1': 'l', '0': 'O'}
	for try := 0; try < 8; try++ {
		var v string
		switch rng.Intn(10) {
		case 0:
			v = strings.ToUpper(name)
		case 1:
			v = strings.ToLower(name)
		case 2: // Title / swapped first letter
			if name != "" {
				r := []rune(name)
				if up := []rune(strings.ToUpper(string(r[0]))); string(up) != string(r[0]) {
					r[0] = up[0]
				} else {
					r[0] = []rune(strings.ToLower(string(r[0])))[0]
				}
				v = string(r)
			}
		case 3:
			v = " " + name
		case 4:
			v = name + " "
		case 5:
			v = name + "\u00a0"
		case 6:
			if r := []rune(name); len(r) > 0 {
				v = string(r[:len(r)-1])
			}
		case 7:
			v = name + "x"
		case 8:
			r := []rune(name)
			for i, c := range r {
				if l, ok := lookalike[c]; ok {
					r[i] = l
					break
				}
			}
			v = string(r)
		case 9:
			v = ""
		}
		if v != name {
			return v
		}
	}
	return name + "_"
}

func encList(xs []string) string {
	if len(xs) == 0 {
		return "-"
	}
	return strings.Join(xs, ",")
}

func sortedKeys[V any](m map[string]V) []string {
	ks := make([]string, 0, len(m))
	for k := range m {
		ks = append(ks, k)
	}
	sort.Strings(ks)
	return ks
}

func pick[T any](rng *rand.Rand, xs []T) T { return xs[rng.Intn(len(xs))] }

// catch runs f; a panic becomes the outcome "panic" (the message is kept separately).
func catch(f func() string) (out string) {
	var r string
	panicked, msg := lib.Catch(func() { r = f() })
	if panicked {
		lastPanic = msg
		return "panic"
	}
	return r
}

var lastPanic string
