package main

// Forced overlaps of UpdateModeValues on one mode model (tie kind K4) on the controller of meterconc.go.

import (
	"context"
	"fmt"
	"math/rand"
	"strconv"
	"strings"
	"time"

	"google.golang.org/grpc/status"
	"google.golang.org/protobuf/types/known/fieldmaskpb"

	"github.com/smart-core-os/sc-api/go/traits"
	"github.com/smart-core-os/sc-golang/pkg/resource"
	"github.com/smart-core-os/sc-golang/pkg/trait/modepb"
	"github.com/smart-core-os/sc-golang/verifharness/lib"
)

type modeConc struct {
	Model string     `json:"model"`
	Kind  string     `json:"kind"`
	Modes []modeDef  `json:"modes"`
	Progs [][]modeOp `json:"progs"`
	Sched []string   `json:"sched"`
	Note  string     `json:"note,omitempty"`
}

func encModeOp(o modeOp) string { return o.Mask + "|" + encMap(o.Values) + "|" + encRel(o.Relative) }

func (c *modeConc) Line() string {
	var sb strings.Builder
	sb.WriteString("mode.conc " + encModes(c.Modes) + " " + encList(c.Sched))
	for _, p := range c.Progs {
		var ks []string
		for _, o := range p {
			ks = append(ks, encModeOp(o))
		}
		if len(ks) == 0 {
			sb.WriteString(" -")
		} else {
			sb.WriteString(" " + strings.Join(ks, ";"))
		}
	}
	return sb.String()
}
func (c *modeConc) Key() string { return c.Line() }
func (c *modeConc) NonTrivial() bool {
	seen := map[string]bool{}
	for _, s := range c.Sched {
		seen[s] = true
	}
	return len(seen) >= 2
}
func (c *modeConc) Buckets() []string {
	b := []string{fmt.Sprintf("threads=%d", len(c.Progs))}
	for _, p := range c.Progs {
		for _, o := range p {
			b = append(b, fmt.Sprintf("op:mask=%s,rel=%v", o.Mask, len(o.Relative) > 0))
		}
	}
	return b
}

type modeConcRun struct {
	final  string
	calls  [][]concCallOut
	order  [][2]int
	events []string
	stuck  bool
}

func (c *modeConc) exec() (run modeConcRun, failure string) {
	ctl := newCtl(1000)
	defer ctl.close()
	var m *modepb.Model
	r := catch(func() string {
		m = modepb.NewModelModes(toPbModes(c.Modes))
		return "ok"
	})
	if r != "ok" {
		return run, "new:" + r
	}
	srv := modepb.NewModelServer(m)
	ctx, cancel := context.WithCancel(context.Background())
	log := &eventLog[string]{done: make(chan struct{})}
	pull := m.PullModeValues(ctx, resource.WithBackpressure(true))
	go func() {
		defer close(log.done)
		for ch := range pull {
			log.add(encMap(ch.Value.GetValues()))
		}
	}()
	log.waitSeed()
	lens := make([]int, len(c.Progs))
	for i, p := range c.Progs {
		lens[i] = len(p)
	}
	run.calls, run.stuck = runConc(ctl, lens, func(i, k int) string {
		o := c.Progs[i][k]
		ret := catch(func() string {
			req := &traits.UpdateModeValuesRequest{}
			if o.Values != nil {
				req.ModeValues = &traits.ModeValues{Values: copyMap(o.Values)}
			}
			if len(o.Relative) > 0 {
				req.Relative = &traits.ModeValuesRelative{Values: map[string]int32{}}
				for n, v := range o.Relative {
					req.Relative.Values[n] = v
				}
			}
			if o.Mask == "values" {
				req.UpdateMask = &fieldmaskpb.FieldMask{Paths: []string{"values"}}
			}
			v, err := srv.UpdateModeValues(context.Background(), req)
			if err != nil {
				return status.Code(err).String()
			}
			return "ok=" + encMap(v.GetValues())
		})
		run.order = append(run.order, [2]int{i, k}) // one logical thread runs at a time
		return ret
	}, c.Sched)
	if !run.stuck {
		want := 1
		for _, cs := range run.calls {
			for _, k := range cs {
				if strings.HasPrefix(k.ret, "ok=") {
					want++
				}
			}
		}
		log.settle(want)
		run.final = catch(func() string { return encMap(m.ModeValues().GetValues()) })
	}
	cancel()
	select {
	case <-log.done:
	case <-time.After(2 * time.Second):
	}
	run.events = log.snapshot()
	return run, ""
}

var lastModeConc = map[*modeConc]*modeConcRun{}

func (c *modeConc) RunCode() string {
	run, fail := c.exec()
	if fail != "" {
		return fail
	}
	lastModeConc[c] = &run
	if run.stuck {
		return "stuck"
	}
	var ths []string
	for _, cs := range run.calls {
		var rets, traces []string
		for _, k := range cs {
			rets = append(rets, strings.SplitN(k.ret, "=", 2)[0])
			traces = append(traces, strings.TrimPrefix(k.trace, "s"))
		}
		ths = append(ths, encAmpGo(rets)+":"+encAmpGo(traces))
	}
	return run.final + "#" + strings.Join(ths, ";")
}

// specApply: one request on a plain Go map (independent of the model): relative steps are taken from the
// value stored at that moment, index (i+k) mod n with a non-negative result; a missing or unknown current
// value selects the first; without mask the stored map becomes the request's map, with mask "values" the
// request's entries are merged in (an empty request map clears the field).
func (c *modeConc) specApply(state map[string]string, o modeOp) map[string]string {
	src := copyMap(o.Values)
	for name, k := range o.Relative {
		var vals []string
		for _, md := range c.Modes {
			if md.Name == name {
				vals = md.Values
				break
			}
		}
		if len(vals) == 0 {
			continue
		}
		cur, ok := state[name]
		idx := -1
		for i, v := range vals {
			if ok && v == cur {
				idx = i
				break
			}
		}
		if idx < 0 {
			src[name] = vals[0]
			continue
		}
		n := int64(len(vals))
		src[name] = vals[((int64(idx)+int64(k))%n+n)%n]
	}
	if o.Mask != "values" {
		return src
	}
	if len(src) == 0 {
		return map[string]string{}
	}
	out := copyMap(state)
	for k, v := range src {
		out[k] = v
	}
	return out
}

// Check: the successful calls replayed in the order they returned on a Go map: every returned ModeValues, the
// stored values and the Pull stream are the replay's (no relative step lost, none applied twice, none computed
// from a stale value); a refused call (Aborted) changes nothing and only happens to a call another call
// overlapped; no other error, no panic, no hang.
func (c *modeConc) Check(m *lib.Monitor, code string) {
	const sig = "C20/mode/concurrent/"
	run := lastModeConc[c]
	delete(lastModeConc, c)
	if strings.HasPrefix(code, "new:") || run == nil {
		m.Violate(sig+"NewModelModes/panic", "NewModelModes panicked: "+lastPanic, c, "no panic", code)
		return
	}
	if run.stuck {
		m.Violate(sig+"stuck", "a released call neither reached its next step nor returned within 20 s", c, "progress", "stuck")
		return
	}
	state := map[string]string{}
	for _, md := range c.Modes {
		state[md.Name] = md.Values[0]
	}
	events := []string{encMap(state)}
	for _, ik := range run.order {
		o := c.Progs[ik[0]][ik[1]]
		out := run.calls[ik[0]][ik[1]]
		switch {
		case out.ret == "panic":
			m.Violate(sig+"UpdateModeValues/panic", "UpdateModeValues panicked: "+lastPanic, c, "no panic", out.ret)
			return
		case out.ret == "Aborted":
			if !out.overlapped {
				m.Violate(sig+"UpdateModeValues/aborted-without-overlap", "a call that no other call overlapped was refused as a concurrent update", c, "ok", out.ret)
			}
		case strings.HasPrefix(out.ret, "ok="):
			state = c.specApply(state, o)
			events = append(events, encMap(state))
			if out.ret != "ok="+encMap(state) {
				m.Violate(sig+"UpdateModeValues/returned-values-not-the-replay-of-the-committed-calls", "the returned mode values must be the request applied to the values stored at the commit", c, "ok="+encMap(state), out.ret)
				return
			}
		default:
			m.Violate(sig+"UpdateModeValues/error", "UpdateModeValues failed with an unexpected code", c, "ok or Aborted", out.ret)
			return
		}
	}
	if run.final != encMap(state) {
		m.Violate(sig+"stored/values-not-the-replay-of-the-committed-calls", "the stored mode values must be the sequential run of exactly the successful calls (no relative step lost or applied twice)", c, encMap(state), run.final)
		return
	}
	if strings.Join(run.events, " ") != strings.Join(events, " ") {
		m.Violate(sig+"pull-events/not-the-committed-writes-in-order", "PullModeValues (backpressure) must show every committed write once, in commit order", c, strings.Join(events, " "), strings.Join(run.events, " "))
	}
}

func init() {
	decoders["mode/conc"] = decoder[modeConc]()
	builders = append(builders, func(f lib.Flags, res *lib.Result, rng *rand.Rand) []*section {
		s := &section{name: "mode/conc",
			tie: res.Tie("mode.ModelServer overlapping UpdateModeValues (forced schedules)", "K4", "logical threads park at gau.afterRead and gau.beforeLock of Value.Set; a schedule of thread steps is executed, then every thread finishes in index order; compared exactly with the Lean interleaving model: the stored values, every call's result (ok / Aborted) and park points; one mode with 1..4 distinct values (the model compares stored values as association lists = proto.Equal on maps with at most one key); requests: relative steps (any int32, the limits included), explicit values (known or unknown), with and without the update mask; systematic: caller A advanced 0..3 steps, rival B (one or two requests) runs completely, A finishes; random: 2..3 threads x 1..3 requests, random schedules; non-trivial = at least two threads step inside the schedule; distinct by request line"),
			mon: res.Monitor("mode.values are the replay of the successful calls under overlap", "the successful calls replayed in the order they returned on a Go map ((i+k) mod n, first value for a missing/unknown current value, mask-less write replaces the map, masked write merges): returned values, stored values and the PullModeValues stream (backpressure) are exactly the replay's; Aborted only when overlapped and without effect; no other error, no panic, no hang")}
		mkModes := func() []modeDef {
			pool := []string{"auto", "eco", "boost", "off"}
			// ONE mode: the Lean interleaving model compares the value read with the stored one as association lists,
			// which is the code's proto.Equal on the values map only when the map has at most one key
			return []modeDef{{Name: pick(rng, []string{"m", "fan mode", "M"}), Values: append([]string(nil), pool[:1+rng.Intn(4)]...)}}
		}
		steps := []int32{1, -1, 2, -2, 3, 5, -7, 2147483647, -2147483648, 0}
		mkOp := func(ms []modeDef) modeOp {
			o := modeOp{Mask: pick(rng, []string{"none", "values", "values"})}
			switch rng.Intn(6) {
			case 0: // explicit value (possibly unknown to the mode)
				md := pick(rng, ms)
				o.Values = map[string]string{md.Name: pick(rng, append([]string{"zz"}, md.Values...))}
			default:
				o.Relative = map[string]int32{pick(rng, ms).Name: pick(rng, steps)}
				if rng.Intn(4) == 0 {
					o.Relative[pick(rng, ms).Name] = pick(rng, steps)
				}
				if rng.Intn(5) == 0 {
					md := pick(rng, ms)
					o.Values = map[string]string{md.Name: pick(rng, md.Values)}
				}
			}
			return o
		}
		for rep := 0; rep < 6; rep++ {
			for _, nb := range []int{1, 2} {
				for k := 0; k <= 3; k++ {
					c := &modeConc{Model: "mode", Kind: "conc", Modes: mkModes(), Note: "systematic"}
					var pb []modeOp
					for i := 0; i < nb; i++ {
						pb = append(pb, mkOp(c.Modes))
					}
					c.Progs = [][]modeOp{{mkOp(c.Modes)}, pb}
					for i := 0; i < k; i++ {
						c.Sched = append(c.Sched, "0")
					}
					for i := 0; i < 3*nb; i++ {
						c.Sched = append(c.Sched, "1")
					}
					s.add(c)
				}
			}
		}
		n := f.N(300, 5000)
		for i := 0; i < n; i++ {
			c := &modeConc{Model: "mode", Kind: "conc", Modes: mkModes()}
			nt := 2 + rng.Intn(2)
			total := 0
			for t := 0; t < nt; t++ {
				var p []modeOp
				for k := 1 + rng.Intn(1+i*3/n); k > 0; k-- {
					p = append(p, mkOp(c.Modes))
				}
				total += len(p)
				c.Progs = append(c.Progs, p)
			}
			for k := rng.Intn(3*total + 2); k > 0; k-- {
				c.Sched = append(c.Sched, strconv.Itoa(rng.Intn(nt)))
			}
			s.add(c)
		}
		return []*section{s}
	})
}
