package main

// Forced overlaps of UpdatePublication / AcknowledgePublication on one publication (tie kind K4), on the
// controller of meterconc.go: threads park at gau.afterRead, inside the injected clock's Now (outside
// the commit section) and at gau.beforeLock; a schedule of thread steps and clock advances is executed
// deterministically and compared with the Lean interleaving model.

import (
	"context"
	"fmt"
	"math/rand"
	"strconv"
	"strings"
	"sync"
	"time"

	"google.golang.org/grpc/status"
	"google.golang.org/protobuf/types/known/fieldmaskpb"

	"github.com/smart-core-os/sc-api/go/traits"
	"github.com/smart-core-os/sc-golang/pkg/resource"
	"github.com/smart-core-os/sc-golang/pkg/trait/publicationpb"
	"github.com/smart-core-os/sc-golang/verifharness/lib"
)

const pubConcID = "p1"

type pubCall struct {
	Op        string   `json:"op"` // update | ack
	Body      string   `json:"body"`
	MediaType string   `json:"mt"`
	Audience  *string  `json:"aud"`
	Receipt   int32    `json:"receipt"`
	Reason    string   `json:"reason"`
	Mask      []string `json:"mask"` // update: nil = no mask
	VRef      string   `json:"vref"` // "" | init | bogus | hb:<body>
	AllowAck  bool     `json:"allow_ack"`
}

type pubConc struct {
	Model string      `json:"model"`
	Kind  string      `json:"kind"`
	T0    int64       `json:"t0"`
	Init  pubCall     `json:"init"` // the publication created (sequentially) at t0
	Progs [][]pubCall `json:"progs"`
	Sched []string    `json:"sched"`
	Note  string      `json:"note,omitempty"`
}

func (k pubCall) enc() string {
	if k.Op == "ack" {
		return fmt.Sprintf("ack|%s|%d|%s|%v", encStr(k.VRef), k.Receipt, encStr(k.Reason), k.AllowAck)
	}
	mask := "none"
	if k.Mask != nil {
		mask = "m:" + strings.Join(k.Mask, "+")
	}
	return fmt.Sprintf("update|%s|%s|%s|%s|%d|%s|%s|%s", encStr(pubConcID), encStr(k.Body), encStr(k.MediaType), encOptStr(k.Audience), k.Receipt, encStr(k.Reason), mask, encStr(k.VRef))
}

func (c *pubConc) Line() string {
	var sb strings.Builder
	sb.WriteString(fmt.Sprintf("pub.conc %d create|%s|%s|%s|%s|%d|%s %s", c.T0, encStr(pubConcID), encStr(c.Init.Body), encStr(c.Init.MediaType), encOptStr(c.Init.Audience), c.Init.Receipt, encStr(c.Init.Reason), encList(c.Sched)))
	for _, p := range c.Progs {
		var cs []string
		for _, k := range p {
			cs = append(cs, k.enc())
		}
		if len(cs) == 0 {
			sb.WriteString(" -")
		} else {
			sb.WriteString(" " + strings.Join(cs, ";"))
		}
	}
	return sb.String()
}
func (c *pubConc) Key() string { return c.Line() }
func (c *pubConc) NonTrivial() bool {
	seen := map[string]bool{}
	for _, s := range c.Sched {
		if !strings.HasPrefix(s, "+") {
			seen[s] = true
		}
	}
	return len(seen) >= 2
}
func (c *pubConc) Buckets() []string {
	b := []string{fmt.Sprintf("threads=%d", len(c.Progs))}
	for _, p := range c.Progs {
		for _, k := range p {
			b = append(b, "call="+k.Op)
		}
	}
	return b
}

type pubConcRun struct {
	final  string
	calls  [][]concCallOut
	recs   [][]*pubRec // the publication each ok call returned
	order  [][2]int    // calls in the order they returned
	events []pubRec
	finalR *pubRec
	initV  string
	max    int64
	stuck  bool
}

func mkPubMsg(k pubCall) *traits.Publication {
	p := &traits.Publication{Id: pubConcID, Body: []byte(k.Body), MediaType: k.MediaType, Version: "client-supplied"}
	if k.Audience != nil {
		p.Audience = &traits.Publication_Audience{Name: *k.Audience, Receipt: traits.Publication_Audience_Receipt(k.Receipt), ReceiptRejectedReason: k.Reason}
	}
	return p
}

func (c *pubConc) vOf(initV, vref string) string {
	switch {
	case vref == "init":
		return initV
	case strings.HasPrefix(vref, "hb:"):
		return independentVersion(pubConcID, vref[3:], c.Init.MediaType, c.Init.Audience)
	}
	return vref
}

func (c *pubConc) exec() (run pubConcRun, failure string) {
	ctl := newCtl(c.T0)
	defer ctl.close()
	var m *publicationpb.Model
	var srv *publicationpb.ModelServer
	r := catch(func() string {
		m = publicationpb.NewModel(resource.WithClock(ctl))
		srv = publicationpb.NewModelServer(m)
		p, err := srv.CreatePublication(context.Background(), &traits.CreatePublicationRequest{Publication: mkPubMsg(c.Init)})
		if err != nil {
			return "err:" + status.Code(err).String()
		}
		run.initV = p.Version
		return "ok"
	})
	if r != "ok" {
		return run, "new:" + r
	}
	ctx, cancel := context.WithCancel(context.Background())
	var evMu sync.Mutex
	pullDone := make(chan struct{})
	pull := m.PullPublication(ctx, pubConcID, resource.WithBackpressure(true))
	go func() {
		defer close(pullDone)
		for ch := range pull {
			evMu.Lock()
			run.events = append(run.events, recOf(ch.Value))
			evMu.Unlock()
		}
	}()

	// the model may register its subscription asynchronously (PullPublication does): the seed event tells
	// that it is in place, so that every later commit is seen as an event
	for dl := time.Now().Add(2 * time.Second); time.Now().Before(dl); time.Sleep(20 * time.Microsecond) {
		evMu.Lock()
		n := len(run.events)
		evMu.Unlock()
		if n >= 1 {
			break
		}
	}
	run.calls = make([][]concCallOut, len(c.Progs))
	run.recs = make([][]*pubRec, len(c.Progs))
	ths := make([]*cthread, len(c.Progs))
	inCall := make([]bool, len(c.Progs))
	for i, prog := range c.Progs {
		i, prog := i, prog
		run.calls[i] = make([]concCallOut, len(prog))
		run.recs[i] = make([]*pubRec, len(prog))
		var th *cthread
		th = ctl.spawn(i, len(prog), func(k int) {
			out := &run.calls[i][k]
			call := prog[k]
			out.ret = catch(func() string {
				var p *traits.Publication
				var err error
				if call.Op == "ack" {
					p, err = srv.AcknowledgePublication(context.Background(), &traits.AcknowledgePublicationRequest{Id: pubConcID, Version: c.vOf(run.initV, call.VRef), Receipt: traits.Publication_Audience_Receipt(call.Receipt), ReceiptRejectedReason: call.Reason, AllowAcknowledged: call.AllowAck})
				} else {
					req := &traits.UpdatePublicationRequest{Publication: mkPubMsg(call), Version: c.vOf(run.initV, call.VRef)}
					if call.Mask != nil {
						req.UpdateMask = &fieldmaskpb.FieldMask{Paths: append([]string(nil), call.Mask...)}
					}
					p, err = srv.UpdatePublication(context.Background(), req)
				}
				if err != nil {
					return "err:" + status.Code(err).String()
				}
				if p == nil {
					return "nil"
				}
				rec := recOf(p)
				run.recs[i][k] = &rec
				return "ok=" + rec.enc()
			})
			out.trace = strings.Join(th.trace, "")
			out.times = append([]int64(nil), th.times...)
			run.order = append(run.order, [2]int{i, k}) // one logical thread runs at a time
		})
		ths[i] = th
	}
	callIdx := make([]int, len(c.Progs))
	stepThread := func(i int) {
		th := ths[i]
		if th.done {
			return
		}
		for j := range ths {
			if j != i && inCall[j] {
				run.calls[j][callIdx[j]].overlapped = true
				run.calls[i][callIdx[i]].overlapped = true
			}
		}
		inCall[i] = true
		switch ctl.step(th) {
		case "s", "done":
			inCall[i] = false
			callIdx[i]++
		case "stuck":
			run.stuck = true
		}
	}
	for _, s := range c.Sched {
		if run.stuck {
			break
		}
		if strings.HasPrefix(s, "+") {
			d, _ := strconv.ParseInt(s[1:], 10, 64)
			ctl.tick(d)
			continue
		}
		if i, err := strconv.Atoi(s); err == nil && i >= 0 && i < len(ths) {
			stepThread(i)
		}
	}
	for i := range ths {
		for n := 0; !ths[i].done && !run.stuck && n < 1000; n++ {
			stepThread(i)
		}
	}
	if !run.stuck {
		want := 1
		for i, cs := range run.calls {
			for k, out := range cs {
				// a committed call publishes one event; allow_acknowledged answers ok without writing
				if strings.HasPrefix(out.ret, "ok=") && strings.Contains(out.trace, "l") {
					want++
				}
				_ = i
				_ = k
			}
		}
		// at most `want` events are in flight (a write that changes nothing publishes none): wait for them,
		// or until the stream has been quiet for a while
		quiet, last := 0, -1
		for dl := time.Now().Add(2 * time.Second); time.Now().Before(dl); time.Sleep(100 * time.Microsecond) {
			evMu.Lock()
			n := len(run.events)
			evMu.Unlock()
			if n >= want {
				break
			}
			if n == last {
				if quiet++; quiet >= 30 {
					break
				}
			} else {
				quiet, last = 0, n
			}
		}
		run.final = catch(func() string {
			p, ok := m.GetPublication(pubConcID)
			if !ok || p == nil {
				return "missing"
			}
			rec := recOf(p)
			run.finalR = &rec
			return rec.enc()
		})
	}
	cancel()
	select {
	case <-pullDone:
	case <-time.After(2 * time.Second):
	}
	evMu.Lock()
	run.events = append([]pubRec(nil), run.events...)
	evMu.Unlock()
	ctl.mu.Lock()
	run.max = ctl.max
	ctl.mu.Unlock()
	return run, ""
}

var lastPubConc = map[*pubConc]*pubConcRun{}

func (c *pubConc) RunCode() string {
	run, fail := c.exec()
	if fail != "" {
		return fail
	}
	lastPubConc[c] = &run
	if run.stuck {
		return "stuck"
	}
	var ths []string
	for _, cs := range run.calls {
		var rets, traces []string
		for _, k := range cs {
			rets = append(rets, k.ret)
			traces = append(traces, strings.TrimPrefix(k.trace, "s"))
		}
		ths = append(ths, encAmpGo(rets)+"::"+encAmpGo(traces))
	}
	return run.final + "#" + strings.Join(ths, ";;")
}

// consistentPub: the publication clause on one observed publication, from its fields alone: version =
// md5 of its own content; a publish time, not in the future; a receipt time, if any, between the publish
// time and now (an acknowledgement is never older than the version it is attached to); receipt details
// (ACCEPTED/REJECTED or a reason) only together with a receipt time.
func consistentPub(r pubRec, max int64) (ok bool, why string) {
	if r.Version != independentVersion(r.ID, r.Body, r.MT, r.Aud) {
		return false, "version-not-hash-of-content"
	}
	pt, err := strconv.ParseInt(r.PTime, 10, 64)
	if err != nil {
		return false, "publish-time-missing"
	}
	if pt > max {
		return false, "publish-time-in-future"
	}
	if r.RTime != "-" {
		rt, err := strconv.ParseInt(r.RTime, 10, 64)
		if err != nil {
			return false, "receipt-time-malformed"
		}
		if rt < pt {
			return false, "receipt-older-than-version"
		}
		if rt > max {
			return false, "receipt-time-in-future"
		}
	} else if r.Receipt == 2 || r.Receipt == 3 || r.Reason != "" {
		return false, "receipt-details-without-time"
	}
	return true, ""
}

func (c *pubConc) Check(m *lib.Monitor, code string) {
	const sig = "C20/publication/concurrent/"
	run := lastPubConc[c]
	delete(lastPubConc, c)
	if strings.HasPrefix(code, "new:") || run == nil {
		m.Violate(sig+"setup", "creating the publication failed: "+code+" "+lastPanic, c, "ok", code)
		return
	}
	if run.stuck {
		m.Violate(sig+"stuck", "a released call neither reached its next step nor returned within 20 s", c, "progress", "stuck")
		return
	}
	if run.finalR == nil {
		m.Violate(sig+"stored/missing", "the publication disappeared", c, "present", run.final)
		return
	}
	if ok, why := consistentPub(*run.finalR, run.max); !ok {
		m.Violate(sig+"stored/"+why, "after the overlapping calls the stored publication's version, publish time and receipt are not consistent", c, "version = md5(content), publish <= receipt <= now", run.final)
	}
	for _, e := range run.events {
		if ok, why := consistentPub(e, run.max); !ok {
			m.Violate(sig+"pull-event/"+why, "a Pull event carries a publication whose version, publish time and receipt are not consistent", c, "version = md5(content), publish <= receipt <= now", e.enc())
			break
		}
	}
	// The version / acknowledge protocol, on a two-field register (current version, current receipt) that follows
	// the committed calls in the order they returned (a call's commit is its last atomic step and one logical
	// thread runs at a time, so this is the order of the commits): a call that names a version is only ever
	// applied to that version, and a publication that carries an ACCEPTED / REJECTED receipt is not acknowledged
	// again. Independent of the model: only what the calls were given and what they returned is used.
	curV, curReceipt := run.initV, int32(0)
	var last *pubRec
	for _, ik := range run.order {
		call, out, rec := c.Progs[ik[0]][ik[1]], run.calls[ik[0]][ik[1]], run.recs[ik[0]][ik[1]]
		if rec == nil || !strings.HasPrefix(out.ret, "ok=") || !strings.Contains(out.trace, "l") {
			continue // refused, or answered without a write (allow_acknowledged)
		}
		method := map[string]string{"update": "UpdatePublication", "ack": "AcknowledgePublication"}[call.Op]
		if named := c.vOf(run.initV, call.VRef); named != "" && named != curV {
			m.Violate(sig+method+"/applied-to-another-version", "a call conditional on one version of the publication was applied to (and answered ok on) another version: the write that came in between is lost without notice", c, "FailedPrecondition / Aborted: the request names version "+named+", the stored version at its commit was "+curV, out.ret)
		}
		if call.Op == "ack" && (curReceipt == 2 || curReceipt == 3) {
			m.Violate(sig+method+"/acknowledged-twice", "an acknowledge was committed on a publication that already carried an ACCEPTED / REJECTED receipt", c, "FailedPrecondition (or the acknowledged publication, unchanged, with allow_acknowledged)", out.ret)
		}
		curV, curReceipt, last = rec.Version, rec.Receipt, rec
	}
	if last != nil && last.enc() != run.finalR.enc() {
		m.Violate(sig+"stored/not-the-last-committed-write", "the stored publication is not the one the last committed call returned", c, last.enc(), run.final)
	}
	for i, cs := range run.calls {
		for k, out := range cs {
			call := c.Progs[i][k]
			method := map[string]string{"update": "UpdatePublication", "ack": "AcknowledgePublication"}[call.Op]
			switch {
			case out.ret == "panic":
				m.Violate(sig+method+"/panic", method+" panicked: "+lastPanic, c, "no panic", out.ret)
			case strings.HasPrefix(out.ret, "ok="):
				rec := run.recs[i][k]
				if rec == nil {
					continue
				}
				if ok, why := consistentPub(*rec, run.max); !ok {
					m.Violate(sig+method+"/returned/"+why, "a call returned a publication whose version, publish time and receipt are not consistent", c, "version = md5(content), publish <= receipt <= now", rec.enc())
					continue
				}
				committed := strings.Contains(out.trace, "l")
				mine := func(s string) bool {
					t, err := strconv.ParseInt(s, 10, 64)
					if err != nil {
						return false
					}
					for _, x := range out.times {
						if x == t {
							return true
						}
					}
					return false
				}
				if call.Op == "update" && (!mine(rec.PTime) || rec.RTime != "-" || rec.Reason != "" || (rec.Aud != nil && rec.Receipt != 1)) {
					m.Violate(sig+method+"/returned/not-a-fresh-version", "a successful update must return a publish time the clock gave to this call and a reset receipt", c, fmt.Sprintf("publish time in %v, receipt NO_SIGNAL without time or reason", out.times), rec.enc())
				}
				if call.Op == "ack" && committed && (!mine(rec.RTime) || rec.Receipt != call.Receipt || rec.Reason != call.Reason) {
					m.Violate(sig+method+"/returned/wrong-receipt", "a committed acknowledge must return its receipt, its reason and a receipt time the clock gave to this call", c, fmt.Sprintf("receipt %d %q at one of %v", call.Receipt, call.Reason, out.times), rec.enc())
				}
			case out.ret == "err:Aborted":
				// CAS refusal, or (acknowledge) version mismatch
				if call.Op == "update" && !out.overlapped {
					m.Violate(sig+method+"/aborted-without-overlap", "an update that no other call overlapped was refused as a concurrent update", c, "ok or FailedPrecondition", out.ret)
				}
			case out.ret == "err:FailedPrecondition":
				if call.Op == "update" && call.VRef == "" {
					m.Violate(sig+method+"/precondition-without-version", "an update without a version precondition failed a precondition", c, "ok or Aborted", out.ret)
				}
			default:
				m.Violate(sig+method+"/error", method+" failed with an unexpected code", c, "ok, Aborted or FailedPrecondition", out.ret)
			}
		}
	}
}

func init() {
	decoders["pub/conc"] = decoder[pubConc]()
	builders = append(builders, func(f lib.Flags, res *lib.Result, rng *rand.Rand) []*section {
		s := &section{name: "pub/conc",
			tie: res.Tie("publication.ModelServer overlapping Update/Acknowledge on one publication (forced schedules)", "K4", "one publication created at t0 (audience 80%); logical threads park at gau.afterRead, inside the injected clock's Now (outside the commit section) and at gau.beforeLock; a schedule of thread steps and clock advances is executed, then every thread finishes in index order; compared with the Lean interleaving model: final publication, every call's result and park order; systematic: caller A (acknowledge, update, or update conditional on the initial version against a rival that replaces it) advanced 0..4 steps, clock +0/+3, rival B (same-content update, body-changing update, acknowledge) runs completely, clock +0/+2, A finishes; random: 2..3 threads x 1..3 calls (update 45%: masks none/body/media_type/audience/audience.name, version none/init/bogus/of-a-body; acknowledge 55%: receipts ACCEPTED/REJECTED/NO_SIGNAL+reason, allow_acknowledged 35%), random schedules with clock advances; non-trivial = at least two threads step inside the schedule; distinct by request line"),
			mon: res.Monitor("publication version/receipt stay consistent under overlapping calls", "stored publication, every returned publication and every Pull event (backpressure): version = md5(content) recomputed, publish time present, publish <= receipt time <= latest clock instant, receipt details only with a receipt time; a successful update returns a publish time given to that call and a reset receipt; a committed acknowledge returns its receipt/reason and a time given to that call; codes are ok/Aborted/FailedPrecondition; an update nobody overlapped is not Aborted; the version/acknowledge protocol on a (version, receipt) register that follows the committed calls in the order they returned: a call that names a version is applied to that version only, an ACCEPTED/REJECTED publication is not acknowledged again, the stored publication is the one the last committed call returned; no hang, no panic")}
		bodies := []string{"hello", "world", "b3"}
		auds := []string{"tenant", "screen"}
		mkInit := func() pubCall {
			k := pubCall{Op: "create", Body: pick(rng, bodies), MediaType: pick(rng, []string{"text/plain", ""})}
			if rng.Intn(5) > 0 {
				a := pick(rng, auds)
				k.Audience = &a
			}
			return k
		}
		mkAck := func(init pubCall) pubCall {
			k := pubCall{Op: "ack", VRef: "init", Receipt: pick(rng, []int32{2, 2, 3, 1}), AllowAck: rng.Intn(100) < 35}
			if k.Receipt != 2 {
				k.Reason = pick(rng, []string{"busy", "later"})
			}
			switch r := rng.Intn(10); {
			case r == 0:
				k.VRef = "bogus"
			case r < 3:
				k.VRef = "hb:" + pick(rng, bodies)
			}
			return k
		}
		mkUpdate := func(init pubCall, sameContent bool) pubCall {
			k := pubCall{Op: "update", Body: init.Body, MediaType: init.MediaType, Audience: init.Audience}
			if !sameContent {
				k.Body = pick(rng, bodies)
				if rng.Intn(4) == 0 {
					a := pick(rng, auds)
					k.Audience = &a
					k.Receipt = int32(rng.Intn(4))
				}
			}
			switch rng.Intn(6) {
			case 0:
				k.Mask = nil
			case 1:
				k.Mask = []string{"body"}
			case 2:
				k.Mask = []string{"body", "media_type"}
			case 3:
				k.Mask = []string{"body", "audience.name"}
			case 4:
				k.Mask = []string{"body", "audience"}
			case 5:
				k.Mask = []string{"media_type"}
			}
			switch r := rng.Intn(10); {
			case r < 4:
				k.VRef = "init"
			case r == 4:
				k.VRef = "bogus"
			case r == 5:
				k.VRef = "hb:" + pick(rng, bodies)
			}
			return k
		}
		// systematic forced overlaps
		for _, a := range []string{"ack", "update", "update@init"} {
			for _, b := range []string{"same", "other", "ack"} {
				for k := 0; k <= 4; k++ {
					for _, d1 := range []int{0, 3} {
						for _, d2 := range []int{0, 2} {
							c := &pubConc{Model: "pub", Kind: "conc", T0: 1000 + int64(rng.Intn(1000)), Init: mkInit(), Note: "systematic"}
							var ca, cb pubCall
							if a == "ack" {
								ca = mkAck(c.Init)
								ca.VRef = "init"
							} else {
								ca = mkUpdate(c.Init, rng.Intn(2) == 0)
								if a == "update@init" {
									ca.VRef = "init" // conditional on the version the rival is about to replace
								}
							}
							switch b {
							case "same":
								cb = mkUpdate(c.Init, true)
								cb.VRef = ""
							case "other":
								cb = mkUpdate(c.Init, false)
								if a == "update@init" {
									// a rival that certainly makes another version: another body, written whatever the stored version is
									for cb.Body == c.Init.Body {
										cb.Body = pick(rng, bodies)
									}
									cb.VRef, cb.Mask = "", pick(rng, [][]string{nil, {"body"}, {"body", "media_type"}})
								}
							default:
								cb = mkAck(c.Init)
							}
							c.Progs = [][]pubCall{{ca}, {cb}}
							for i := 0; i < k; i++ {
								c.Sched = append(c.Sched, "0")
							}
							if d1 > 0 {
								c.Sched = append(c.Sched, fmt.Sprintf("+%d", d1))
							}
							c.Sched = append(c.Sched, "1", "1", "1", "1")
							if d2 > 0 {
								c.Sched = append(c.Sched, fmt.Sprintf("+%d", d2))
							}
							s.add(c)
						}
					}
				}
			}
		}
		n := f.N(400, 6000)
		for i := 0; i < n; i++ {
			c := &pubConc{Model: "pub", Kind: "conc", T0: 1000 + int64(rng.Intn(1000)), Init: mkInit()}
			nt := 2 + rng.Intn(2)
			total := 0
			for t := 0; t < nt; t++ {
				var p []pubCall
				for k := 1 + rng.Intn(1+i*3/n); k > 0; k-- {
					if rng.Intn(100) < 45 {
						p = append(p, mkUpdate(c.Init, rng.Intn(3) == 0))
					} else {
						p = append(p, mkAck(c.Init))
					}
				}
				total += len(p)
				c.Progs = append(c.Progs, p)
			}
			for k := rng.Intn(4*total + 2); k > 0; k-- {
				if rng.Intn(5) == 0 {
					c.Sched = append(c.Sched, fmt.Sprintf("+%d", rng.Intn(4)))
				} else {
					c.Sched = append(c.Sched, strconv.Itoa(rng.Intn(nt)))
				}
			}
			s.add(c)
		}
		return []*section{s}
	})
}
