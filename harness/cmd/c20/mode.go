package main

import (
	"context"
	"fmt"
	"math/big"
	"math/rand"
	"strconv"
	"strings"

	"google.golang.org/grpc/status"
	"google.golang.org/protobuf/types/known/fieldmaskpb"

	"github.com/smart-core-os/sc-api/go/traits"
	"github.com/smart-core-os/sc-golang/pkg/trait/modepb"
	"github.com/smart-core-os/sc-golang/verifharness/lib"
)

type modeDef struct {
	Name   string   `json:"name"`
	Values []string `json:"values"`
	// a mode without values: Nil = its value list is a nil slice, else an empty non-nil slice (a list
	// that was filtered down to nothing / is provisioned later)
	Nil bool `json:"nil,omitempty"`
}

type modeOp struct {
	Values   map[string]string `json:"values"`
	Relative map[string]int32  `json:"relative"`
	Mask     string            `json:"mask"` // none | values
}

type modeSeq struct {
	Model string    `json:"model"`
	Kind  string    `json:"kind"`
	Cfg   string    `json:"cfg"` // custom: NewModelModes(modes) | default: NewModel()
	Modes []modeDef `json:"modes"`
	Ops   []modeOp  `json:"ops"`
	pre   []map[string]string
	post  []map[string]string
	rets  []string
	used  string
}

func encModes(ms []modeDef) string {
	var parts []string
	for _, m := range ms {
		parts = append(parts, esc(m.Name)+":"+encNames(m.Values))
	}
	if len(parts) == 0 {
		return "-"
	}
	return strings.Join(parts, "/")
}

func encMap(m map[string]string) string {
	var parts []string
	for _, k := range sortedKeys(m) {
		parts = append(parts, esc(k)+"="+esc(m[k]))
	}
	return encList(parts)
}

func encRel(m map[string]int32) string {
	var parts []string
	for _, k := range sortedKeys(m) {
		parts = append(parts, esc(k)+"="+strconv.Itoa(int(m[k])))
	}
	return encList(parts)
}

func (c *modeSeq) effectiveModes() []modeDef {
	if c.Cfg == "default" {
		return pbModes(modepb.DefaultModes)
	}
	return c.Modes
}

func (c *modeSeq) Line() string {
	var sb strings.Builder
	sb.WriteString("mode.seq " + encModes(c.effectiveModes()))
	for _, o := range c.Ops {
		sb.WriteString(" " + o.Mask + "|" + encMap(o.Values) + "|" + encRel(o.Relative))
	}
	return sb.String()
}
func (c *modeSeq) Key() string {
	k := c.Cfg + " " + c.Line()
	for _, md := range c.Modes {
		if len(md.Values) == 0 && md.Nil {
			k += " nil:" + md.Name
		}
	}
	return k
}

// someModeEmpty: a configured mode has no values (nothing NewModelModes could select)
func (c *modeSeq) someModeEmpty() bool {
	for _, md := range c.effectiveModes() {
		if len(md.Values) == 0 {
			return true
		}
	}
	return false
}
func (c *modeSeq) NonTrivial() bool {
	for _, o := range c.Ops {
		if len(o.Relative) > 0 {
			return true
		}
	}
	return false
}
func (c *modeSeq) Buckets() []string {
	b := []string{"cfg=" + c.Cfg}
	if c.someModeEmpty() {
		b = append(b, "cfg: a mode without values")
	}
	for _, o := range c.Ops {
		b = append(b, fmt.Sprintf("op:mask=%s,rel=%v", o.Mask, len(o.Relative) > 0))
	}
	return b
}

func pbModes(ms *traits.Modes) []modeDef {
	var out []modeDef
	for _, m := range ms.GetModes() {
		d := modeDef{Name: m.Name}
		for _, v := range m.Values {
			d.Values = append(d.Values, v.Name)
		}
		out = append(out, d)
	}
	return out
}

func toPbModes(ms []modeDef) *traits.Modes {
	out := &traits.Modes{}
	for _, m := range ms {
		pm := &traits.Modes_Mode{Name: m.Name}
		for _, v := range m.Values {
			pm.Values = append(pm.Values, &traits.Modes_Value{Name: v})
		}
		if len(m.Values) == 0 && !m.Nil {
			pm.Values = []*traits.Modes_Value{}
		}
		out.Modes = append(out.Modes, pm)
	}
	return out
}

func copyMap(m map[string]string) map[string]string {
	out := map[string]string{}
	for k, v := range m {
		out[k] = v
	}
	return out
}

func (c *modeSeq) RunCode() string {
	c.pre, c.post, c.rets = nil, nil, nil
	var m *modepb.Model
	r := catch(func() string {
		if c.Cfg == "default" {
			m = modepb.NewModel()
		} else {
			m = modepb.NewModelModes(toPbModes(c.Modes))
		}
		return "ok"
	})
	if r != "ok" {
		return "new:" + r
	}
	srv := modepb.NewModelServer(m)
	c.used = encModes(pbModes(m.Modes()))
	outs := []string{"init:" + c.used + "#" + encMap(m.ModeValues().Values)}
	for _, o := range c.Ops {
		o := o
		c.pre = append(c.pre, copyMap(m.ModeValues().Values))
		ret := catch(func() string {
			req := &traits.UpdateModeValuesRequest{}
			if o.Values != nil {
				req.ModeValues = &traits.ModeValues{Values: copyMap(o.Values)}
			}
			if len(o.Relative) > 0 {
				req.Relative = &traits.ModeValuesRelative{Values: map[string]int32{}}
				for k, v := range o.Relative {
					req.Relative.Values[k] = v
				}
			}
			if o.Mask == "values" {
				req.UpdateMask = &fieldmaskpb.FieldMask{Paths: []string{"values"}}
			}
			_, err := srv.UpdateModeValues(context.Background(), req)
			if err != nil {
				return "err:" + status.Code(err).String()
			}
			return "ok"
		})
		c.rets = append(c.rets, ret)
		c.post = append(c.post, copyMap(m.ModeValues().Values))
		outs = append(outs, ret+"#"+encMap(m.ModeValues().Values))
	}
	return strings.Join(outs, ";")
}

func nodup(xs []string) bool { return len(setOf(xs)) == len(xs) }

// Check: (1) the model uses the configured modes and starts each at its first value; (2) every
// relative step k on a mode with n distinct values moves index i to (i+k) mod n (Euclidean, math/big),
// an unknown or absent current value selects the first value; explicit values are stored.
func (c *modeSeq) Check(m *lib.Monitor, code string) {
	if strings.HasPrefix(code, "new:") {
		if c.someModeEmpty() {
			// "the first value of each mode will be selected": there is none to select, the constructor
			// refuses the configuration (by panicking); nothing was constructed, nothing to check
			return
		}
		m.Violate("C20/mode/NewModelModes/panic", "constructor panicked on modes that all have a value: "+lastPanic, c, "no panic", code)
		return
	}
	modes := c.effectiveModes()
	first := map[string]string{}
	byName := map[string][]string{}
	for _, md := range modes {
		// later duplicates of a mode name overwrite, like the code's map write; should a model come into
		// being although one of its modes has no values, that mode can have no selected value
		if len(md.Values) > 0 {
			first[md.Name] = md.Values[0]
		}
		if _, ok := byName[md.Name]; !ok {
			byName[md.Name] = md.Values
		}
	}
	wantInit := "init:" + encModes(modes) + "#" + encMap(first)
	if got := strings.SplitN(code, ";", 2)[0]; got != wantInit {
		sig := "C20/mode/NewModelModes/config-ignored"
		if c.Cfg == "default" {
			sig = "C20/mode/NewModel/config"
		}
		m.Violate(sig, "the model must use the modes it was constructed with and select each mode's first value", c, wantInit, got)
	}
	// the relative-step rule is judged against the modes the model actually uses (so that a
	// config defect does not mask or fake a step defect)
	usedModes := map[string][]string{}
	for _, part := range strings.Split(c.used, "/") {
		if kv := strings.SplitN(part, ":", 2); len(kv) == 2 {
			if _, ok := usedModes[unesc(kv[0])]; !ok {
				usedModes[unesc(kv[0])] = decList(kv[1])
			}
		}
	}
	for i, o := range c.Ops {
		if i >= len(c.rets) {
			break
		}
		if c.rets[i] == "panic" {
			m.Violate("C20/mode/UpdateModeValues/panic", "UpdateModeValues panicked: "+lastPanic, c, "no panic", "panic at op "+strconv.Itoa(i))
			return
		}
		if c.rets[i] != "ok" {
			m.Violate("C20/mode/UpdateModeValues/error", "a well-formed update failed", c, "ok", c.rets[i])
			continue
		}
		pre, post := c.pre[i], c.post[i]
		for name, k := range o.Relative {
			vs := usedModes[name]
			if len(vs) == 0 {
				// not a mode of this model (unknown, or only a near-miss of a configured name): the step
				// writes nothing, the entry is whatever the rest of the request makes it
				want, has := "", false
				if v, ok := o.Values[name]; ok {
					want, has = v, true
				} else if v, ok := pre[name]; ok && o.Mask == "values" && len(post) > 0 {
					want, has = v, true
				}
				if got, ok := post[name]; ok != has || got != want {
					m.Violate("C20/mode/relative/unknown-mode-written", fmt.Sprintf("a relative step on %q, which is not one of the model's modes, must not select a value", name), c, fmt.Sprintf("%q present=%v", want, has), fmt.Sprintf("%q present=%v", got, ok))
				}
				continue
			}
			if !nodup(vs) {
				continue
			}
			want := vs[0]
			if cur, ok := pre[name]; ok {
				for idx, v := range vs {
					if v == cur {
						z := new(big.Int).Add(big.NewInt(int64(idx)), big.NewInt(int64(k)))
						z.Mod(z, big.NewInt(int64(len(vs)))) // Euclidean for a positive modulus
						want = vs[z.Int64()]
						break
					}
				}
			}
			if post[name] != want {
				cls := "wrong-step"
				if k > 1<<30 || k < -(1<<30) {
					cls = "wrong-step/int32-overflow"
				}
				m.Violate("C20/mode/relative/"+cls, fmt.Sprintf("relative %+d on mode %s (values %v, current %q) must select index (i+k) mod n", k, name, vs, pre[name]), c, want, post[name])
			}
		}
		for name, v := range o.Values {
			if _, rel := o.Relative[name]; rel && len(usedModes[name]) > 0 {
				continue
			}
			if post[name] != v {
				m.Violate("C20/mode/UpdateModeValues/explicit-value-lost", "an explicitly written mode value must be stored", c, name+"="+v, name+"="+post[name])
			}
		}
	}
}

func init() {
	decoders["mode/seq"] = decoder[modeSeq]()
	builders = append(builders, func(f lib.Flags, res *lib.Result, rng *rand.Rand) []*section {
		s := &section{name: "mode/seq",
			tie: res.Tie("mode.ModelServer.UpdateModeValues sequences", "K1", "random configurations (NewModelModes with 1..3 modes of 1..4 values [5% duplicate value, 5% duplicate mode name, 4% of the modes have NO values: an empty non-nil list 2/3, a nil list 1/3 - the constructor refuses them by panicking, in the model too] 85%, NewModel() 15%) and 1..8 updates (relative entries on known modes 80%/unknown 20%, steps in -5..5 90% / near +-2^31 10%; explicit values known/garbage; about 10% of mode names and values in requests are near-miss variants of configured ones (case, padding, prefix, extension, look-alike, empty); mask none or 'values'); short sequences first; non-trivial = some relative entry; distinct by config + request line"),
			mon: res.Monitor("mode.relative-step and config vs table lookup", "Modes() and initial values are the configured ones; relative k from index i of n distinct values selects (i+k) mod n (math/big Euclidean), unknown/absent current value selects the first; explicit values are stored; no panic")}
		modeNames := []string{"temp", "spin", "eco"}
		valNames := []string{"v0", "v1", "v2", "v3", "v4", "v5"}
		n := f.N(1500, 20000)
		for i := 0; i < n; i++ {
			c := &modeSeq{Model: "mode", Kind: "seq", Cfg: "custom"}
			if rng.Intn(100) < 15 {
				c.Cfg = "default"
			} else {
				nm := 1 + rng.Intn(3)
				for j := 0; j < nm; j++ {
					nv := 1 + rng.Intn(4)
					off := rng.Intn(3)
					d := modeDef{Name: modeNames[j]}
					for k := 0; k < nv; k++ {
						d.Values = append(d.Values, valNames[(off+k)%len(valNames)])
					}
					if rng.Intn(20) == 0 {
						d.Values = append(d.Values, d.Values[0])
					}
					if j > 0 && rng.Intn(20) == 0 {
						d.Name = modeNames[0]
					}
					if rng.Intn(25) == 0 {
						d.Values, d.Nil = nil, rng.Intn(3) == 0 // boundary: a mode without values
					}
					c.Modes = append(c.Modes, d)
				}
			}
			eff := c.effectiveModes()
			names := []string{}
			for _, d := range eff {
				names = append(names, d.Name)
			}
			k := 1 + i*8/n
			for j := 0; j < k; j++ {
				o := modeOp{Mask: pick(rng, []string{"none", "none", "values"})}
				if rng.Intn(100) < 75 {
					o.Relative = map[string]int32{}
					for r := 1 + rng.Intn(2); r > 0; r-- {
						name := pick(rng, names)
						if rng.Intn(5) == 0 {
							name = "nomode"
						} else if rng.Intn(8) == 0 {
							name = nearMiss(rng, name)
						}
						step := int32(rng.Intn(11) - 5)
						if rng.Intn(10) == 0 {
							step = pick(rng, []int32{1<<31 - 1, 1<<31 - 2, -1 << 31, -1<<31 + 1, 1 << 30})
						}
						o.Relative[name] = step
					}
				}
				if rng.Intn(100) < 45 {
					o.Values = map[string]string{}
					for r := rng.Intn(3); r > 0; r-- {
						d := pick(rng, eff)
						v := "garbage"
						if len(d.Values) > 0 {
							v = pick(rng, d.Values)
						}
						if rng.Intn(4) == 0 {
							v = "garbage"
						} else if rng.Intn(6) == 0 {
							v = nearMiss(rng, v)
						}
						key := d.Name
						if rng.Intn(12) == 0 {
							key = nearMiss(rng, key)
						}
						o.Values[key] = v
					}
				}
				c.Ops = append(c.Ops, o)
			}
			s.add(c)
		}
		return []*section{s}
	})
}
