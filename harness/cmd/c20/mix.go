package main

// Devices of all seven models in one process, really in parallel (family "par/mix").
//
// The sequential families run one case after the other.  Here groups of 16 of their cases - each case
// constructs its own model(s) and drives its own operation sequence, with its own injected clock and
// random source - are executed at the same time, one goroutine per case, each case many times in a row, two rounds.  The devices
// share nothing, so every case must give exactly the answer it gives when it runs alone (the answer the
// sequential tie compares with the Lean model and the sequential monitor judges).  A difference means
// that the trait models keep state outside the model instance (a package-level scratch value, a shared
// default, a cache) that concurrent callers corrupt.  No timing assumption is made: a case whose
// answer is not the same in two solo runs is left out.

import (
	"encoding/json"
	"fmt"
	"sort"
	"sync"

	"github.com/smart-core-os/sc-golang/verifharness/lib"
)

// the sequential families whose cases are self-contained (no schedule controller, no process-wide hook)
var mixable = map[string]bool{"enterleave/seq": true, "fan/seq": true, "meter/seq": true, "mode/seq": true,
	"parent/seq": true, "pub/seq": true, "vending/seq": true}

var mixPool = map[string][]kase{}

type parMix struct {
	Model  string            `json:"model"`
	Kind   string            `json:"kind"`
	Of     string            `json:"of"`    // the family the cases are taken from
	Cases  []json.RawMessage `json:"cases"` // replay inputs of that family
	Rounds int               `json:"rounds"`
	Reps   int               `json:"reps"` // each goroutine runs its case this often per round
	N      int               `json:"n"`
}

func (c *parMix) fresh() []kase {
	dec := decoders[c.Of]
	var out []kase
	for _, raw := range c.Cases {
		if dec == nil {
			break
		}
		if k, err := dec(raw); err == nil {
			out = append(out, k)
		}
	}
	return out
}

func runQuiet(k kase) (out string) {
	panicked, msg := lib.Catch(func() { out = k.RunCode() })
	if panicked {
		return "harness-panic:" + msg
	}
	return out
}

func short(s string) string {
	if len(s) > 400 {
		return s[:400] + "..."
	}
	return s
}

func (c *parMix) RunCode() string {
	var solo, solo2 []string
	for _, k := range c.fresh() {
		solo = append(solo, runQuiet(k))
	}
	for _, k := range c.fresh() {
		solo2 = append(solo2, runQuiet(k))
	}
	dec := decoders[c.Of]
	for r := 0; r < c.Rounds; r++ {
		ks := c.fresh()
		out := make([]string, len(ks))
		start := make(chan struct{})
		var wg sync.WaitGroup
		for i := range ks {
			wg.Add(1)
			go func(i int) {
				defer wg.Done()
				<-start
				// the case again and again (a new device each time), so that all the goroutines of the group
				// are busy for the whole round; the first answer that is not the solo answer is kept
				for rep := 0; rep < c.Reps || rep == 0; rep++ {
					k := ks[i]
					if rep > 0 {
						var err error
						if k, err = dec(c.Cases[i]); err != nil {
							return
						}
					}
					out[i] = runQuiet(k)
					if i < len(solo) && out[i] != solo[i] {
						return
					}
				}
			}(i)
		}
		close(start)
		wg.Wait()
		for i := range ks {
			if i < len(solo) && solo[i] == solo2[i] && out[i] != solo[i] {
				return fmt.Sprintf("differs: case %d of the group (%s), round %d: alone %s ; alongside the others %s", i, short(ks[i].Line()), r, short(solo[i]), short(out[i]))
			}
		}
	}
	return "same"
}

func (c *parMix) Line() string     { return "-" }
func (c *parMix) Key() string      { return fmt.Sprintf("%s #%d", c.Of, c.N) }
func (c *parMix) NonTrivial() bool { return len(c.Cases) >= 2 }
func (c *parMix) Buckets() []string {
	return []string{"of=" + c.Of}
}

func (c *parMix) Check(m *lib.Monitor, code string) {
	if code != "same" {
		m.Violate("C20/parallel/"+c.Of+"/answer-differs-from-solo-run", "a device gave another answer while other devices of the process were busy than it gives alone: the models share state outside the model instance", c, "the answer of the solo run", code)
	}
}

// mixSection is built after the sequential families have been generated: an evenly spaced sample of each
func mixSection(f lib.Flags, res *lib.Result) *section {
	s := &section{name: "par/mix",
		mon: res.Monitor("devices of one process do not disturb each other (all seven models)", "groups of 16 cases of a sequential family (enter/leave, fan speed, meter, mode, parent, publication, vending: an evenly spaced sample of each family's generated cases, every case with its own models, clock and random source) run at the same time on 16 goroutines, each goroutine its case 12 times in a row (a new device every time), 2 rounds: every case's answer (the string the sequential tie compares with the Lean model) is exactly its answer when run alone; cases whose two solo runs differ are left out")}
	var names []string
	for n := range mixPool {
		names = append(names, n)
	}
	sort.Strings(names)
	per := f.N(192, 960)
	for _, name := range names {
		cs := mixPool[name]
		if len(cs) == 0 {
			continue
		}
		stride := len(cs) / per
		if stride < 1 {
			stride = 1
		}
		var grp []json.RawMessage
		n := 0
		flush := func() {
			if len(grp) > 0 {
				s.add(&parMix{Model: "par", Kind: "mix", Of: name, Cases: grp, Rounds: 2, Reps: 12, N: n})
				n++
				grp = nil
			}
		}
		for i := 0; i < len(cs) && n*16+len(grp) < per; i += stride {
			b, err := json.Marshal(cs[i])
			if err != nil {
				continue
			}
			grp = append(grp, b)
			if len(grp) == 16 {
				flush()
			}
		}
		flush()
	}
	return s
}

func init() {
	decoders["par/mix"] = decoder[parMix]()
}
