package main

// Forced overlaps of AddChild / AddChildTrait / RemoveChildTrait on ONE child of a parent model (tie kind
// K4) on the controller of meterconc.go. All three write through Collection.Update = GetAndUpdate; the
// trait calls have nobody to hand an error to (they return the child, not an error), so a write that loses
// the compare-and-commit race has to be made again on top of the rival's result — never a panic.

import (
	"context"
	"fmt"
	"math/rand"
	"strconv"
	"strings"
	"sync"
	"time"

	"github.com/smart-core-os/sc-api/go/traits"
	"github.com/smart-core-os/sc-golang/pkg/resource"
	"github.com/smart-core-os/sc-golang/pkg/trait/parentpb"
	"github.com/smart-core-os/sc-golang/verifharness/lib"
)

const parConcName = "dev"

type parCall struct {
	Op     string   `json:"op"` // addchild | add | rm
	Traits []string `json:"traits"`
}

func (k parCall) enc() string { return k.Op + ":" + encNames(k.Traits) }

type parConc struct {
	Model   string      `json:"model"`
	Kind    string      `json:"kind"`
	Present bool        `json:"present"` // the child exists at the start
	Init    []string    `json:"init"`    // ... with these traits (strictly ascending)
	Progs   [][]parCall `json:"progs"`
	Sched   []string    `json:"sched"`
	Note    string      `json:"note,omitempty"`
}

func encChildState(present bool, ts []string) string {
	if !present {
		return "~"
	}
	return encNames(ts)
}

func (c *parConc) Line() string {
	var sb strings.Builder
	sb.WriteString("par.conc " + encChildState(c.Present, c.Init) + " " + encList(c.Sched))
	for _, p := range c.Progs {
		var ks []string
		for _, k := range p {
			ks = append(ks, k.enc())
		}
		if len(ks) == 0 {
			sb.WriteString(" -")
		} else {
			sb.WriteString(" " + strings.Join(ks, ";"))
		}
	}
	return sb.String()
}
func (c *parConc) Key() string { return c.Line() }
func (c *parConc) NonTrivial() bool {
	seen := map[string]bool{}
	for _, s := range c.Sched {
		seen[s] = true
	}
	return len(seen) >= 2
}
func (c *parConc) Buckets() []string {
	b := []string{fmt.Sprintf("threads=%d", len(c.Progs)), fmt.Sprintf("present=%v", c.Present)}
	for _, p := range c.Progs {
		for _, k := range p {
			b = append(b, "call="+k.Op)
		}
	}
	return b
}

type parConcRun struct {
	final  string
	calls  [][]concCallOut
	order  [][2]int // calls in the order they returned
	events []string // every Pull event: change type + new value
	stuck  bool
}

func childStr(ch *traits.Child) string {
	if ch == nil {
		return "~"
	}
	return encNames(traitNames(ch.Traits))
}

func (c *parConc) exec() (run parConcRun, failure string) {
	ctl := newCtl(1000)
	defer ctl.close()
	var m *parentpb.Model
	r := catch(func() string {
		m = parentpb.NewModel()
		if c.Present {
			m.AddChild(&traits.Child{Name: parConcName, Traits: mkTraits(c.Init)})
		}
		return "ok"
	})
	if r != "ok" {
		return run, "new:" + r
	}
	ctx, cancel := context.WithCancel(context.Background())
	log := &eventLog[string]{done: make(chan struct{})}
	pull := m.PullChildren(ctx, resource.WithBackpressure(true))
	go func() {
		defer close(log.done)
		for ch := range pull {
			log.add(ch.Type.String() + "=" + childStr(ch.NewValue))
		}
	}()
	seeds := 0
	if c.Present {
		seeds = 1
		log.waitSeed()
	} else {
		// no seed event tells that the subscription is in place: PullChildren subscribes before it returns
		// (Collection.Pull registers the listener synchronously), nothing to wait for
	}
	lens := make([]int, len(c.Progs))
	for i, p := range c.Progs {
		lens[i] = len(p)
	}
	var omu sync.Mutex
	run.calls, run.stuck = runConc(ctl, lens, func(i, k int) string {
		call := c.Progs[i][k]
		ret := catch(func() string {
			switch call.Op {
			case "addchild":
				m.AddChild(&traits.Child{Name: parConcName, Traits: mkTraits(call.Traits)})
				return "ok"
			case "add":
				ch, created := m.AddChildTrait(parConcName, toNames(call.Traits)...)
				if created {
					return "created=" + childStr(ch)
				}
				return "existing=" + childStr(ch)
			case "rm":
				ch := m.RemoveChildTrait(parConcName, toNames(call.Traits)...)
				if ch == nil {
					return "nil"
				}
				return "ok=" + childStr(ch)
			}
			return "!bad-op"
		})
		omu.Lock()
		run.order = append(run.order, [2]int{i, k})
		omu.Unlock()
		return ret
	}, c.Sched)
	if !run.stuck {
		_ = seeds
		want := len(c.spec(&run).events)
		log.settle(want)
		run.final = catch(func() string {
			for _, ch := range m.ListChildren() {
				if ch.Name == parConcName {
					return childStr(ch)
				}
			}
			return "~"
		})
	}
	cancel()
	select {
	case <-log.done:
	case <-time.After(2 * time.Second):
	}
	run.events = log.snapshot()
	return run, ""
}

var lastParConc = map[*parConc]*parConcRun{}

func (c *parConc) RunCode() string {
	run, fail := c.exec()
	if fail != "" {
		return fail
	}
	lastParConc[c] = &run
	if run.stuck {
		return "stuck"
	}
	var ths []string
	for _, cs := range run.calls {
		var rets, traces []string
		for _, k := range cs {
			rets = append(rets, k.ret)
			traces = append(traces, strings.TrimPrefix(k.trace, "s"))
		}
		ths = append(ths, encAmpGo(rets)+"/"+encAmpGo(traces))
	}
	return run.final + "#" + strings.Join(ths, ";")
}

var parFn = map[string]string{"addchild": "AddChild", "addchildtrait": "AddChildTrait", "add": "AddChildTrait", "rm": "RemoveChildTrait"}

type parSpec struct {
	rets   [][]string
	final  string
	events []string
}

// spec: the calls replayed in the order they returned, on a Go set.
func (c *parConc) spec(run *parConcRun) parSpec {
	present := c.Present
	set := map[string]bool{}
	for _, t := range c.Init {
		set[t] = true
	}
	enc := func() string {
		if !present {
			return "~"
		}
		return encNames(sortedKeys(set))
	}
	var sp parSpec
	sp.rets = make([][]string, len(c.Progs))
	for i, p := range c.Progs {
		sp.rets[i] = make([]string, len(p))
	}
	if c.Present {
		sp.events = append(sp.events, "ADD="+enc())
	}
	for _, ik := range run.order {
		call := c.Progs[ik[0]][ik[1]]
		if run.calls[ik[0]][ik[1]].ret == "panic" {
			break
		}
		var want string
		switch call.Op {
		case "addchild":
			want = "ok"
			if !present {
				present = true
				set = map[string]bool{}
				for _, t := range call.Traits {
					set[t] = true
				}
				sp.events = append(sp.events, "ADD="+enc())
			}
		case "add":
			kind, ev := "existing=", "UPDATE="
			if !present {
				kind, ev = "created=", "ADD="
				present = true
				set = map[string]bool{}
			}
			for _, t := range call.Traits {
				set[t] = true
			}
			want = kind + enc()
			sp.events = append(sp.events, ev+enc())
		case "rm":
			if !present {
				want = "nil"
			} else {
				for _, t := range call.Traits {
					delete(set, t)
				}
				want = "ok=" + enc()
				sp.events = append(sp.events, "UPDATE="+enc())
			}
		}
		sp.rets[ik[0]][ik[1]] = want
	}
	sp.final = enc()
	return sp
}

// Check (a Go set per child, independent of the model). The calls are replayed on the spec in the order
// in which they RETURNED (a call's commit is its last atomic step, so this is the order of the commits):
// AddChild creates the child with its traits when it is absent at that moment and changes nothing
// otherwise; AddChildTrait creates it if absent (reported as created exactly then) and makes the trait set
// the union; RemoveChildTrait answers nil when the child is absent and makes the trait set the difference
// otherwise. Every call's returned child, the stored child at the end and the stream of Pull events must be
// exactly what this replay gives: sorted, duplicate-free, nothing added lost, nothing removed kept. No call
// panics (a lost compare-and-commit race is not the caller's problem) and none hangs.
func (c *parConc) Check(m *lib.Monitor, code string) {
	const sig = "C20/parent/concurrent/"
	run := lastParConc[c]
	delete(lastParConc, c)
	if strings.HasPrefix(code, "new:") || run == nil {
		m.Violate(sig+"NewModel/panic", "NewModel/AddChild panicked: "+lastPanic, c, "no panic", code)
		return
	}
	if run.stuck {
		m.Violate(sig+"stuck", "a released call neither reached its next step nor returned within 20 s", c, "progress", "stuck")
		return
	}
	sp := c.spec(run)
	for _, ik := range run.order {
		call := c.Progs[ik[0]][ik[1]]
		out := run.calls[ik[0]][ik[1]]
		name := parFn[call.Op]
		if out.ret == "panic" {
			overlap := "without-overlap"
			if out.overlapped {
				overlap = "lost-race"
			}
			m.Violate(sig+name+"/panic/"+overlap, name+" panicked: "+lastPanic, c, "no panic", out.ret+" (park points "+out.trace+")")
			return
		}
		if want := sp.rets[ik[0]][ik[1]]; out.ret != want {
			m.Violate(sig+name+"/returned-child-not-the-set-algebra-of-the-committed-calls", "the returned child must be the union/difference of the calls committed so far, in commit order", c, want, out.ret)
			return
		}
	}
	enc := func() string { return sp.final }
	wantEvents := sp.events
	if run.final != enc() {
		m.Violate(sig+"stored/traits-not-the-set-algebra-of-the-committed-calls", "the stored child must be the sorted duplicate-free union/difference of all committed calls", c, enc(), run.final)
		return
	}
	if strings.Join(run.events, " ") != strings.Join(wantEvents, " ") {
		m.Violate(sig+"pull-events/not-the-committed-writes-in-order", "PullChildren (backpressure) must show every committed write once, in commit order", c, strings.Join(wantEvents, " "), strings.Join(run.events, " "))
	}
}

func init() {
	decoders["parent/conc"] = decoder[parConc]()
	builders = append(builders, func(f lib.Flags, res *lib.Result, rng *rand.Rand) []*section {
		s := &section{name: "parent/conc",
			tie: res.Tie("parent.Model overlapping AddChild/AddChildTrait/RemoveChildTrait on one child (forced schedules)", "K4", "logical threads park at gau.afterRead and gau.beforeLock of Collection.Update; a schedule of thread steps is executed, then every thread finishes in index order; compared exactly with the Lean interleaving model (retrying calls): the stored child, every call's returned child / created flag / nil and the park points of every call (a lost race shows as rlrl...); child absent or present with 0..4 traits at the start; names from a small alphabet with near-miss spellings; systematic: caller A advanced 0..3 steps, rival B (one or two calls of any kind) runs completely, A finishes; starved: A loses 1..9 races in a row against B's calls and finishes afterwards; random: 2..3 threads x 1..3 calls, random schedules; non-trivial = at least two threads step inside the schedule; distinct by request line"),
			mon: res.Monitor("parent.child traits are the set union/difference of the committed calls under overlap", "the calls replayed in the order they returned on a Go set: every returned child, created flag and nil answer, the stored child and the PullChildren stream (backpressure) are exactly the replay's; no panic (a lost race is made again, not thrown at the caller), no hang")}
		alphabet := []string{"a", "b", "c", "d", "e", "A", "ab", "a ", "b.c", "é"}
		names := func(max int) []string {
			n := rng.Intn(max + 1)
			out := make([]string, 0, n)
			for i := 0; i < n; i++ {
				out = append(out, pick(rng, alphabet[:3+rng.Intn(len(alphabet)-2)]))
			}
			return out
		}
		sortedSet := func(max int) []string {
			seen := map[string]bool{}
			for _, n := range names(max) {
				seen[n] = true
			}
			return sortedKeys(seen)
		}
		mkCall := func() parCall {
			switch rng.Intn(7) {
			case 0:
				return parCall{Op: "addchild", Traits: sortedSet(3)}
			case 1, 2, 3:
				return parCall{Op: "add", Traits: names(3)}
			default:
				return parCall{Op: "rm", Traits: names(3)}
			}
		}
		mkInit := func(c *parConc) {
			if rng.Intn(3) > 0 {
				c.Present = true
				c.Init = sortedSet(4)
			}
		}
		for rep := 0; rep < 8; rep++ {
			for _, nb := range []int{1, 2} {
				for k := 0; k <= 3; k++ {
					c := &parConc{Model: "parent", Kind: "conc", Note: "systematic"}
					mkInit(c)
					a := mkCall()
					if rep < 4 {
						a.Op = []string{"add", "rm"}[rep%2]
					}
					var pb []parCall
					for i := 0; i < nb; i++ {
						pb = append(pb, mkCall())
					}
					c.Progs = [][]parCall{{a}, pb}
					for i := 0; i < k; i++ {
						c.Sched = append(c.Sched, "0")
					}
					for i := 0; i < 3*nb; i++ {
						c.Sched = append(c.Sched, "1")
					}
					s.add(c)
				}
			}
		}
		// starved caller: A reads and computes, a rival call commits, A is refused and reads again, the next rival call
		// commits, ... for 1..9 rounds in a row (B's program is one call per round); A must still get through once
		// the rivals are done, whatever the number of lost races
		for rounds := 1; rounds <= 9; rounds++ {
			for _, op := range []string{"add", "rm"} {
				c := &parConc{Model: "parent", Kind: "conc", Note: "starved"}
				mkInit(c)
				if op == "rm" {
					c.Present = true
				}
				a := mkCall()
				a.Op = op
				var pb []parCall
				c.Sched = []string{"0", "0"} // A: read, change function, parked before the lock
				for r := 0; r < rounds; r++ {
					// a rival that changes the record for sure: adds a trait not there yet
					pb = append(pb, parCall{Op: "add", Traits: []string{fmt.Sprintf("r%d", r)}})
					c.Sched = append(c.Sched, "1", "1", "1", "0", "0") // B commits; A is refused, reads again, computes again
				}
				c.Progs = [][]parCall{{a}, pb}
				s.add(c)
			}
		}
		n := f.N(400, 6000)
		for i := 0; i < n; i++ {
			c := &parConc{Model: "parent", Kind: "conc"}
			mkInit(c)
			nt := 2 + rng.Intn(2)
			total := 0
			for t := 0; t < nt; t++ {
				var p []parCall
				for k := 1 + rng.Intn(1+i*3/n); k > 0; k-- {
					p = append(p, mkCall())
				}
				total += len(p)
				c.Progs = append(c.Progs, p)
			}
			for k := rng.Intn(4*total + 2); k > 0; k-- {
				c.Sched = append(c.Sched, strconv.Itoa(rng.Intn(nt)))
			}
			s.add(c)
		}
		return []*section{s}
	})
}
