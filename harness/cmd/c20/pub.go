package main

import (
	"context"
	"crypto/md5"
	"fmt"
	"math/rand"
	"strings"

	"google.golang.org/grpc/status"
	"google.golang.org/protobuf/types/known/fieldmaskpb"

	"github.com/smart-core-os/sc-api/go/traits"
	"github.com/smart-core-os/sc-golang/pkg/resource"
	"github.com/smart-core-os/sc-golang/pkg/trait/publicationpb"
	"github.com/smart-core-os/sc-golang/verifharness/lib"
)

type pubOp struct {
	Op           string   `json:"op"` // create | update | delete | ack
	ID           string   `json:"id"`
	Body         string   `json:"body"`
	MediaType    string   `json:"mt"`
	Audience     *string  `json:"aud"`     // nil: no audience
	Receipt      int32    `json:"receipt"` // create/update: receipt sent inside the audience; ack: the receipt
	Reason       string   `json:"reason"`
	Mask         []string `json:"mask"` // update: nil = no mask, else subset of body, media_type
	VRef         string   `json:"vref"` // "" | cur | old | bogus
	AllowMissing bool     `json:"allow_missing"`
	AllowAck     bool     `json:"allow_ack"`
}

type pubSeq struct {
	Model string  `json:"model"`
	Kind  string  `json:"kind"`
	Ops   []pubOp `json:"ops"`
	rets  []string
	snaps []map[string]pubRec // observed store after each op
}

type pubRec struct {
	ID, Body, MT string
	Aud          *string
	Receipt      int32
	Reason       string
	RTime        string
	Version      string
	PTime        string
}

func encOptStr(p *string) string {
	if p == nil {
		return "-"
	}
	return encStr(*p)
}

func (c *pubSeq) Line() string {
	var sb strings.Builder
	sb.WriteString("pub.seq")
	for _, o := range c.Ops {
		mask := "none"
		if o.Mask != nil {
			mask = "m:" + strings.Join(o.Mask, "+")
		}
		switch o.Op {
		case "create":
			sb.WriteString(fmt.Sprintf(" create|%s|%s|%s|%s|%d|%s", encStr(o.ID), encStr(o.Body), encStr(o.MediaType), encOptStr(o.Audience), o.Receipt, encStr(o.Reason)))
		case "update":
			sb.WriteString(fmt.Sprintf(" update|%s|%s|%s|%s|%d|%s|%s|%s", encStr(o.ID), encStr(o.Body), encStr(o.MediaType), encOptStr(o.Audience), o.Receipt, encStr(o.Reason), mask, encStr(o.VRef)))
		case "delete":
			sb.WriteString(fmt.Sprintf(" delete|%s|%s|%v", encStr(o.ID), encStr(o.VRef), o.AllowMissing))
		case "ack":
			sb.WriteString(fmt.Sprintf(" ack|%s|%s|%d|%s|%v", encStr(o.ID), encStr(o.VRef), o.Receipt, encStr(o.Reason), o.AllowAck))
		}
	}
	return sb.String()
}
func (c *pubSeq) Key() string { return c.Line() }
func (c *pubSeq) NonTrivial() bool {
	for _, o := range c.Ops {
		if o.Op == "ack" || o.Op == "update" {
			return true
		}
	}
	return false
}
func (c *pubSeq) Buckets() []string {
	var b []string
	for i, o := range c.Ops {
		if i < len(c.rets) {
			b = append(b, o.Op+"="+c.rets[i])
		}
	}
	return b
}

// independentVersion recomputes the documented version hash with crypto/md5.
func independentVersion(id, body, mt string, aud *string) string {
	h := md5.New()
	h.Write([]byte("v1"))
	h.Write([]byte(id))
	h.Write([]byte(body))
	h.Write([]byte(mt))
	if aud != nil {
		h.Write([]byte(*aud))
	}
	return fmt.Sprintf("%x", h.Sum(nil))
}

func recOf(p *traits.Publication) pubRec {
	r := pubRec{ID: p.Id, Body: string(p.Body), MT: p.MediaType, Version: p.Version, PTime: encTs(p.PublishTime), RTime: "-"}
	if p.Audience != nil {
		n := p.Audience.Name
		r.Aud = &n
		r.Receipt = int32(p.Audience.Receipt)
		r.Reason = p.Audience.ReceiptRejectedReason
		r.RTime = encTs(p.Audience.ReceiptTime)
	}
	return r
}

// enc prints the version as H when it is the hash of the record's own fields (the model's H is abstract).
func (r pubRec) enc() string {
	v := "X:" + r.Version
	if r.Version == independentVersion(r.ID, r.Body, r.MT, r.Aud) {
		v = "H"
	}
	return fmt.Sprintf("%s|%s|%s|%s|%d|%s|%s|%s|%s", encStr(r.ID), encStr(r.Body), encStr(r.MT), encOptStr(r.Aud), r.Receipt, encStr(r.Reason), r.RTime, v, r.PTime)
}

func snapshot(m *publicationpb.Model) map[string]pubRec {
	out := map[string]pubRec{}
	for _, p := range m.ListPublications() {
		out[p.Id] = recOf(p)
	}
	return out
}

func encSnap(s map[string]pubRec) string {
	var parts []string
	for _, k := range sortedKeys(s) {
		parts = append(parts, s[k].enc())
	}
	if len(parts) == 0 {
		return "-"
	}
	return strings.Join(parts, "/")
}

func (c *pubSeq) RunCode() string {
	c.rets, c.snaps = nil, nil
	clk := &fakeClock{t: 1000}
	m := publicationpb.NewModel(resource.WithClock(clk))
	srv := publicationpb.NewModelServer(m)
	prev := map[string]string{} // id -> version before its last successful create/update
	var outs []string
	for _, o := range c.Ops {
		o := o
		clk.t++
		cur := snapshot(m)
		resolve := func() string {
			switch o.VRef {
			case "cur":
				if r, ok := cur[o.ID]; ok {
					return r.Version
				}
				return "bogus"
			case "old":
				if v, ok := prev[o.ID]; ok {
					return v
				}
				return "bogus"
			}
			return o.VRef
		}
		mkPub := func() *traits.Publication {
			p := &traits.Publication{Id: o.ID, Body: []byte(o.Body), MediaType: o.MediaType, Version: "client-supplied"}
			if o.Audience != nil {
				p.Audience = &traits.Publication_Audience{Name: *o.Audience, Receipt: traits.Publication_Audience_Receipt(o.Receipt), ReceiptRejectedReason: o.Reason}
			}
			return p
		}
		ret := catch(func() string {
			var err error
			switch o.Op {
			case "create":
				_, err = srv.CreatePublication(context.Background(), &traits.CreatePublicationRequest{Publication: mkPub()})
			case "update":
				req := &traits.UpdatePublicationRequest{Publication: mkPub(), Version: resolve()}
				if o.Mask != nil {
					req.UpdateMask = &fieldmaskpb.FieldMask{Paths: append([]string(nil), o.Mask...)}
				}
				_, err = srv.UpdatePublication(context.Background(), req)
			case "delete":
				_, err = srv.DeletePublication(context.Background(), &traits.DeletePublicationRequest{Id: o.ID, Version: resolve(), AllowMissing: o.AllowMissing})
			case "ack":
				var p *traits.Publication
				p, err = srv.AcknowledgePublication(context.Background(), &traits.AcknowledgePublicationRequest{Id: o.ID, Version: resolve(), Receipt: traits.Publication_Audience_Receipt(o.Receipt), ReceiptRejectedReason: o.Reason, AllowAcknowledged: o.AllowAck})
				if err == nil && p == nil {
					return "nil"
				}
			}
			if err != nil {
				return "err:" + status.Code(err).String()
			}
			return "ok"
		})
		c.rets = append(c.rets, ret)
		after := snapshot(m)
		if ret == "ok" && (o.Op == "create" || o.Op == "update") {
			if r, ok := cur[o.ID]; ok {
				prev[o.ID] = r.Version
			}
		}
		c.snaps = append(c.snaps, after)
		outs = append(outs, ret+"#"+encSnap(after))
	}
	return strings.Join(outs, ";")
}

// Check: a Go map of records with the documented rules; version recomputed with crypto/md5.
func (c *pubSeq) Check(m *lib.Monitor, code string) {
	spec := map[string]pubRec{}
	prev := map[string]string{}
	now := int64(1000)
	for i, o := range c.Ops {
		if i >= len(c.rets) {
			break
		}
		now++
		ret := c.rets[i]
		method := map[string]string{"create": "CreatePublication", "update": "UpdatePublication", "delete": "DeletePublication", "ack": "AcknowledgePublication"}[o.Op]
		if ret == "panic" {
			m.Violate("C20/publication/"+method+"/panic", method+" panicked: "+lastPanic, c, "no panic", fmt.Sprintf("panic at op %d", i))
			return
		}
		cur, exists := spec[o.ID]
		ver := o.VRef
		switch o.VRef {
		case "cur":
			ver = "bogus"
			if exists {
				ver = cur.Version
			}
		case "old":
			ver = "bogus"
			if v, ok := prev[o.ID]; ok {
				ver = v
			}
		}
		want := "ok"
		nowS := fmt.Sprint(now)
		minted := func(r pubRec) pubRec {
			if r.Aud != nil {
				r.Receipt, r.Reason, r.RTime = 1, "", "-"
			} else {
				r.Receipt, r.Reason, r.RTime = 0, "", "-"
			}
			r.PTime = nowS
			r.Version = independentVersion(r.ID, r.Body, r.MT, r.Aud)
			return r
		}
		switch o.Op {
		case "create":
			if exists {
				want = "err:AlreadyExists"
			} else {
				spec[o.ID] = minted(pubRec{ID: o.ID, Body: o.Body, MT: o.MediaType, Aud: o.Audience})
			}
		case "update":
			switch {
			case o.ID == "":
				want = "err:InvalidArgument"
			case !exists:
				want = "err:NotFound"
			case ver != "" && ver != cur.Version:
				want = "err:FailedPrecondition"
			default:
				r := cur
				if o.Mask == nil {
					r = pubRec{ID: o.ID, Body: o.Body, MT: o.MediaType, Aud: o.Audience}
				} else {
					if inMask(o.Mask, "body") {
						r.Body = o.Body
					}
					if inMask(o.Mask, "media_type") {
						r.MT = o.MediaType
					}
				}
				prev[o.ID] = cur.Version
				spec[o.ID] = minted(r)
			}
		case "delete":
			switch {
			case o.ID == "":
				want = "err:InvalidArgument"
			case !exists && o.AllowMissing:
			case !exists:
				want = "err:NotFound"
			case ver != "" && ver != cur.Version:
				want = "err:FailedPrecondition"
			default:
				delete(spec, o.ID)
			}
		case "ack":
			switch {
			case o.ID == "" || ver == "":
				want = "err:InvalidArgument"
			case !exists:
				want = "err:NotFound"
			case ver != cur.Version:
				want = "err:Aborted"
			case cur.Receipt == 2 || cur.Receipt == 3:
				if !o.AllowAck {
					want = "err:FailedPrecondition"
				}
			default:
				r := cur
				if r.Aud == nil {
					e := ""
					r.Aud = &e
				}
				r.Receipt, r.Reason, r.RTime = o.Receipt, o.Reason, nowS
				spec[o.ID] = r
			}
		}
		if ret != want {
			cls := "wrong-status"
			if o.Op == "ack" && o.AllowAck && want == "ok" && ret == "err:FailedPrecondition" {
				cls = "allow-acknowledged-ignored"
			}
			m.Violate("C20/publication/"+method+"/"+cls, fmt.Sprintf("op %d (%s %s) returned the wrong status", i, o.Op, o.ID), c, want, ret)
			return
		}
		if got := encSnap(c.snaps[i]); got != encSnap(spec) {
			cls := "wrong-state"
			for id, r := range c.snaps[i] {
				if r.Version != independentVersion(r.ID, r.Body, r.MT, r.Aud) {
					cls = "version-not-hash-of-content"
					_ = id
				}
			}
			m.Violate("C20/publication/"+method+"/"+cls, fmt.Sprintf("after op %d the stored publications differ from the spec (version = md5 of content, fresh publish time and receipt reset on create/update, acknowledge protocol)", i), c, encSnap(spec), got)
			return
		}
	}
}

func init() {
	decoders["pub/seq"] = decoder[pubSeq]()
	builders = append(builders, func(f lib.Flags, res *lib.Result, rng *rand.Rand) []*section {
		s := &section{name: "pub/seq",
			tie: res.Tie("publication.ModelServer op sequences", "K1", "random sequences of 1..10 ops over 3 ids (70% an id created earlier in the sequence, 2% empty id, 8% near-miss variant of an id: case, padding, prefix, extension, look-alike): first op create 90%, then create 25% / update 30% (mask none 50%, subsets of body/media_type 50%; version '' 30%, current 45%, previous 15%, bogus 10%) / delete 10% / acknowledge 35% (receipt ACCEPTED/REJECTED/NO_SIGNAL, version current 75%, allow_acknowledged 40%); bodies/media types/audiences from small pools, audience absent 25%; injected clock +1 s per op; versions printed as H when equal to the independently recomputed md5 of the record's own content; non-trivial = has an update or acknowledge; distinct by request line"),
			mon: res.Monitor("publication.records vs Go map spec", "status codes of the version/ack protocol and the stored records: version = md5(v1,id,body,media_type,audience.name) recomputed with crypto/md5, publish time = now and receipt reset on create/update, ack sets receipt/reason/time once unless allow_acknowledged; no panic")}
		ids := []string{"p1", "p2", "p3"}
		bodies := []string{"hello", "world", "", "b3"}
		mts := []string{"text/plain", "application/json", ""}
		auds := []string{"tenant", "screen", ""}
		n := f.N(2000, 25000)
		for i := 0; i < n; i++ {
			c := &pubSeq{Model: "pub", Kind: "seq"}
			k := 1 + i*10/n
			var live []string // ids created earlier in this sequence (the generator's guess)
			for j := 0; j < k; j++ {
				o := pubOp{ID: pick(rng, ids)}
				if len(live) > 0 && rng.Intn(10) < 7 {
					o.ID = pick(rng, live)
				}
				if rng.Intn(50) == 0 {
					o.ID = ""
				} else if rng.Intn(12) == 0 {
					o.ID = nearMiss(rng, o.ID)
				}
				fill := func() {
					o.Body, o.MediaType = pick(rng, bodies), pick(rng, mts)
					if rng.Intn(4) > 0 {
						a := pick(rng, auds)
						o.Audience = &a
						o.Receipt = int32(rng.Intn(4))
						if o.Receipt == 3 {
							o.Reason = "no"
						}
					}
				}
				vref := func(curPct int) string {
					r := rng.Intn(100)
					switch {
					case r < curPct:
						return "cur"
					case r < curPct+15:
						return "old"
					case r < curPct+25:
						return "bogus"
					}
					return ""
				}
				switch r := rng.Intn(100); {
				case r < 25 || j == 0 && r < 90:
					o.Op = "create"
					fill()
					if o.ID == "" {
						o.ID = "p1" // generated ids are random: not part of the tie
					}
					live = append(live, o.ID)
				case r < 55:
					o.Op = "update"
					fill()
					o.VRef = vref(45)
					if rng.Intn(2) == 0 {
						o.Mask = []string{}
						for _, fld := range []string{"body", "media_type"} {
							if rng.Intn(2) == 0 {
								o.Mask = append(o.Mask, fld)
							}
						}
						if len(o.Mask) == 0 {
							o.Mask = []string{"body"}
						}
					}
				case r < 65:
					o.Op = "delete"
					o.VRef = vref(45)
					o.AllowMissing = rng.Intn(2) == 0
				default:
					o.Op = "ack"
					o.VRef = vref(75)
					o.Receipt = pick(rng, []int32{2, 2, 3, 1})
					if o.Receipt == 3 {
						o.Reason = "busy"
					}
					o.AllowAck = rng.Intn(100) < 40
				}
				c.Ops = append(c.Ops, o)
			}
			s.add(c)
		}
		return []*section{s}
	})
}
