// common_*.go are shared verbatim by cmd/c01 and cmd/c04 (keep the copies identical).
//
// Scripts, the line protocol of driverC01/driverC04, and the translation between the flat message
// of the Lean model (ScVerif/C01/Flat.lean) and internal/testproto.TestAllTypes restricted to the
// fields default_int32 (a), default_string (s), optional_int32 (c).
package main

import (
	"errors"
	"fmt"
	"sort"
	"strconv"
	"strings"

	"google.golang.org/grpc/codes"
	"google.golang.org/grpc/status"
	"google.golang.org/protobuf/proto"
	"google.golang.org/protobuf/reflect/protoreflect"
	"google.golang.org/protobuf/types/known/fieldmaskpb"

	"github.com/smart-core-os/sc-golang/internal/testproto"
)

type T = testproto.TestAllTypes

// Cfg describes how the resource under test is constructed.
type Cfg struct {
	Kind string   `json:"kind"`           // "coll" | "val"
	W    *string  `json:"W,omitempty"`    // writable fields mask
	Icpt string   `json:"icpt,omitempty"` // id interceptor name
	Tick int      `json:"tick"`           // clock step per Now()
	Rng  []int    `json:"rng,omitempty"`  // scripted rng bytes (then zeros)
	Init []string `json:"init,omitempty"` // coll: "id~msg"; val: one "msg"
	Eqv  string   `json:"eqv,omitempty"`  // equivalence name (C04)
}

// Op is one request; Opts are tokens of the driver protocol ("um=a,s", "xa", "chk=aEq:3", …).
type Op struct {
	Op   string   `json:"op"`
	ID   string   `json:"id"`
	Msg  string   `json:"msg,omitempty"`
	Opts []string `json:"opts,omitempty"`
}

type Script struct {
	Cfg Cfg  `json:"cfg"`
	Ops []Op `json:"ops"`
}

func (c Cfg) line() string {
	var b strings.Builder
	if c.Kind == "val" {
		b.WriteString("newv")
	} else {
		b.WriteString("newc")
	}
	if c.W != nil {
		b.WriteString(" W=" + *c.W)
	}
	if c.Icpt != "" {
		b.WriteString(" icpt=" + c.Icpt)
	}
	fmt.Fprintf(&b, " tick=%d", c.Tick)
	if len(c.Rng) > 0 {
		s := make([]string, len(c.Rng))
		for i, x := range c.Rng {
			s[i] = strconv.Itoa(x)
		}
		b.WriteString(" rng=" + strings.Join(s, ","))
	}
	if len(c.Init) > 0 {
		b.WriteString(" init=" + strings.Join(c.Init, ";"))
	}
	if c.Eqv != "" {
		b.WriteString(" eqv=" + c.Eqv)
	}
	return b.String()
}

func (o Op) line() string {
	var b strings.Builder
	b.WriteString(o.Op)
	switch o.Op {
	case "upd", "add":
		b.WriteString(" id=" + o.ID + " msg=" + o.Msg)
	case "del", "get":
		b.WriteString(" id=" + o.ID)
	case "vset":
		b.WriteString(" msg=" + o.Msg)
	}
	for _, t := range o.Opts {
		b.WriteString(" " + t)
	}
	return b.String()
}

func (o Op) isWrite() bool {
	return o.Op == "upd" || o.Op == "add" || o.Op == "del" || o.Op == "vset"
}

// opt returns the value of option key k ("" for a bare flag) and whether it is present.
func (o Op) opt(k string) (string, bool) {
	for _, t := range o.Opts {
		if t == k {
			return "", true
		}
		if strings.HasPrefix(t, k+"=") {
			return t[len(k)+1:], true
		}
	}
	return "", false
}

func (o Op) has(k string) bool { _, ok := o.opt(k); return ok }

// ---------------------------------------------------------------------------------------------
// messages

const fieldA, fieldS, fieldC, fieldF, fieldR = "default_int32", "default_string", "optional_int32", "default_foreign_message", "repeated_int32"

var letterPath = map[string]string{"a": fieldA, "s": fieldS, "c": fieldC, "f": fieldF, "r": fieldR, "x": "no_such_field",
	// paths INSIDE the nested message (read masks: a mask may name a message field and a path inside it)
	"fc": fieldF + ".c", "fd": fieldF + ".d"}

func parseMsg(s string) *T {
	p := strings.Split(s, "/")
	if len(p) != 3 && len(p) != 5 {
		panic("bad msg " + s)
	}
	a, err := strconv.ParseInt(p[0], 10, 32)
	if err != nil {
		panic("bad msg " + s)
	}
	m := &T{DefaultInt32: int32(a), DefaultString: p[1]}
	if p[2] != "-" {
		c, err := strconv.ParseInt(p[2], 10, 32)
		if err != nil {
			panic("bad msg " + s)
		}
		c32 := int32(c)
		m.OptionalInt32 = &c32
	}
	if len(p) == 5 {
		if p[3] != "-" {
			cd := strings.Split(p[3], ":")
			c, err1 := strconv.ParseInt(cd[0], 10, 32)
			d, err2 := strconv.ParseInt(cd[1], 10, 32)
			if err1 != nil || err2 != nil {
				panic("bad msg " + s)
			}
			m.DefaultForeignMessage = &testproto.ForeignMessage{C: int32(c), D: int32(d)}
		}
		if p[4] != "-" {
			for _, x := range strings.Split(p[4], ".") {
				n, err := strconv.ParseInt(x, 10, 32)
				if err != nil {
					panic("bad msg " + s)
				}
				m.RepeatedInt32 = append(m.RepeatedInt32, int32(n))
			}
		}
	}
	return m
}

// showMsg is the canonical text of a message; fields outside the modelled three are reported.
func showMsg(pm proto.Message) string {
	if pm == nil {
		return "nil"
	}
	m, ok := pm.(*T)
	if !ok {
		return fmt.Sprintf("!type:%T", pm)
	}
	if m == nil {
		return "nil"
	}
	c := "-"
	if m.OptionalInt32 != nil {
		c = strconv.Itoa(int(*m.OptionalInt32))
	}
	s := fmt.Sprintf("%d/%s/%s", m.DefaultInt32, m.DefaultString, c)
	if m.DefaultForeignMessage != nil || len(m.RepeatedInt32) > 0 {
		f, r := "-", "-"
		if fm := m.DefaultForeignMessage; fm != nil {
			f = fmt.Sprintf("%d:%d", fm.C, fm.D)
			if len(fm.ProtoReflect().GetUnknown()) > 0 {
				f += "!unknown"
			}
		}
		if len(m.RepeatedInt32) > 0 {
			xs := make([]string, len(m.RepeatedInt32))
			for i, x := range m.RepeatedInt32 {
				xs[i] = strconv.Itoa(int(x))
			}
			r = strings.Join(xs, ".")
		}
		s += "/" + f + "/" + r
	}
	extra := false
	m.ProtoReflect().Range(func(fd protoreflect.FieldDescriptor, _ protoreflect.Value) bool {
		switch string(fd.Name()) {
		case fieldA, fieldS, fieldC, fieldF, fieldR:
		default:
			extra = true
		}
		return true
	})
	if extra {
		s += "!extra"
	}
	return s
}

// parseMask: "0" is a mask with no paths; letters a,s,c,x.
func parseMask(s string) *fieldmaskpb.FieldMask {
	fm := &fieldmaskpb.FieldMask{Paths: []string{}}
	if s == "0" {
		return fm
	}
	for _, l := range strings.Split(s, ",") {
		p, ok := letterPath[l]
		if !ok {
			panic("bad mask " + s)
		}
		fm.Paths = append(fm.Paths, p)
	}
	return fm
}

func maskLetters(s string) []string {
	if s == "0" {
		return []string{}
	}
	return strings.Split(s, ",")
}

func codeName(err error) string {
	if err == nil {
		return "-"
	}
	return status.Code(err).String()
}

func codeByName(n string) (codes.Code, bool) {
	for c := codes.Code(0); c <= codes.Unauthenticated; c++ {
		if c.String() == n {
			return c, true
		}
	}
	return 0, false
}

func showList(xs []string) string { return "[" + strings.Join(xs, ";") + "]" }

// ---------------------------------------------------------------------------------------------
// the closed family of named callbacks (same names and meaning as in ScVerif/C01/Flat.lean)

func optA(pm proto.Message) int32 {
	if m, ok := pm.(*T); ok && m != nil {
		return m.DefaultInt32
	}
	return 0
}

func namedBefore(n string) func(old, v proto.Message) {
	switch n {
	case "addA":
		return func(old, v proto.Message) { v.(*T).DefaultInt32 += optA(old) }
	case "bumpA":
		return func(_, v proto.Message) { v.(*T).DefaultInt32++ }
	case "copyC":
		return func(old, v proto.Message) {
			if o, ok := old.(*T); ok && o != nil {
				if o.OptionalInt32 == nil {
					v.(*T).OptionalInt32 = nil
				} else {
					c := *o.OptionalInt32
					v.(*T).OptionalInt32 = &c
				}
			}
		}
	}
	panic("unknown before interceptor " + n)
}

func namedAfter(n string) func(old, d proto.Message) {
	switch n {
	case "stampC":
		return func(old, d proto.Message) { c := optA(old) + d.(*T).DefaultInt32; d.(*T).OptionalInt32 = &c }
	case "markS":
		return func(old, d proto.Message) {
			if optA(old) != d.(*T).DefaultInt32 {
				d.(*T).DefaultString = "chg"
			}
		}
	case "clearC":
		return func(_, d proto.Message) { d.(*T).OptionalInt32 = nil }
	}
	panic("unknown after interceptor " + n)
}

func namedCheck(n string) func(old proto.Message) error {
	p := strings.Split(n, ":")
	switch p[0] {
	case "aEq":
		k, _ := strconv.Atoi(p[1])
		return func(old proto.Message) error {
			if int(optA(old)) == k {
				return nil
			}
			return status.Error(codes.FailedPrecondition, "a is not as expected")
		}
	case "fail":
		c, ok := codeByName(p[1])
		if !ok {
			panic("unknown code " + p[1])
		}
		return func(proto.Message) error {
			if c == codes.Unknown {
				return errors.New("plain error")
			}
			return status.Error(c, "check failed")
		}
	case "nonNil":
		return func(old proto.Message) error {
			if m, ok := old.(*T); ok && m != nil {
				return nil
			}
			return status.Error(codes.NotFound, "no old value")
		}
	case "sEmpty":
		return func(old proto.Message) error {
			if m, ok := old.(*T); ok && m != nil && m.DefaultString != "" {
				return status.Error(codes.FailedPrecondition, "s is not empty")
			}
			return nil
		}
	}
	panic("unknown check " + n)
}

func lowerASCII(s string) string {
	b := []byte(s)
	for i, ch := range b {
		if 'A' <= ch && ch <= 'Z' {
			b[i] = ch + 32
		}
	}
	return string(b)
}

func namedIcpt(n string) func(string) string {
	switch n {
	case "lower":
		return lowerASCII
	case "dash":
		return func(s string) string { return "-" + s }
	case "dup":
		return func(s string) string { return s + s }
	case "first":
		return func(s string) string {
			if len(s) > 1 {
				return s[:1]
			}
			return s
		}
	}
	panic("unknown id interceptor " + n)
}

func namedInclude(n string) func(id string, m proto.Message) bool {
	switch n {
	case "aPos":
		return func(_ string, m proto.Message) bool { return optA(m) > 0 }
	case "idLtB":
		return func(id string, _ proto.Message) bool { return id < "b" }
	case "sEmpty":
		return func(_ string, m proto.Message) bool {
			t, ok := m.(*T)
			return !ok || t == nil || t.DefaultString == ""
		}
	}
	panic("unknown include " + n)
}

func namedEqv(n string) func(x, y proto.Message) bool {
	switch n {
	case "equal":
		return func(x, y proto.Message) bool { return proto.Equal(x, y) }
	case "sameA":
		return func(x, y proto.Message) bool { return optA(x) == optA(y) }
	}
	panic("unknown equivalence " + n)
}

func sortedCopy(xs []string) []string {
	ys := append([]string(nil), xs...)
	sort.Strings(ys)
	return ys
}
