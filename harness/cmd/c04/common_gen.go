package main

import (
	"fmt"
	"math/rand"
	"strconv"
	"time"
)

// Generators shared by cmd/c01 and cmd/c04: pools, configuration and option generators.

var (
	idPool   = []string{"", "a", "b", "c", "A", "B"}
	maskPool = []string{"0", "a", "s", "c", "a,s", "a,c", "s,c", "a,s,c", "x", "a,x", "a,a", "s,a", "f", "r", "f,r", "a,r", "a,s,c,f,r", "r,r", "f,s"}
	wPool    = []string{"0", "a", "s", "c", "a,s", "a,c", "s,c", "a,s,c", "f", "r", "f,r", "a,f,r", "a,s,c,f,r"}
	fPool    = []string{"-", "0:0", "2:0", "0:3", "5:6"}
	rPool    = []string{"-", "7", "8.9", "-"}
	aPool    = []int{0, 1, 2, 3, 7}
	sPool    = []string{"", "x", "yy", "Zed"}
	cPool    = []string{"-", "-", "0", "4"}
	codePool = []string{"FailedPrecondition", "Aborted", "Unknown", "PermissionDenied", "NotFound"}
	incPool  = []string{"aPos", "idLtB", "sEmpty"}
	bfPool   = []string{"addA", "bumpA", "copyC"}
	afPool   = []string{"stampC", "markS", "clearC"}
	icptPool = []string{"", "", "", "lower", "lower", "dash", "first", "dup"}
	tickPool = []int{1, 1, 1, 0, 2}
)

func pick[X any](r *rand.Rand, xs []X) X { return xs[r.Intn(len(xs))] }

func genMsg(r *rand.Rand) string {
	base := fmt.Sprintf("%d/%s/%s", pick(r, aPool), pick(r, sPool), pick(r, cPool))
	if r.Intn(3) > 0 {
		return base
	}
	return rparse(base + "/" + pick(r, fPool) + "/" + pick(r, rPool)).String()
}

func genRng(r *rand.Rand) []int {
	switch r.Intn(4) {
	case 0:
		return nil // all zeros: every generated id collides with the previous ones
	case 1:
		return []int{1, 2, 3}
	default:
		n := 6 + r.Intn(60)
		b := make([]int, n)
		for i := range b {
			b[i] = r.Intn(256)
		}
		return b
	}
}

func genCfg(r *rand.Rand) Cfg {
	c := Cfg{Kind: "coll", Tick: pick(r, tickPool)}
	if r.Intn(4) == 0 {
		c.Kind = "val"
	}
	if r.Intn(5) < 2 {
		w := pick(r, wPool)
		c.W = &w
	}
	if c.Kind == "val" {
		if r.Intn(3) > 0 {
			c.Init = []string{genMsg(r)}
		}
		return c
	}
	c.Icpt = pick(r, icptPool)
	c.Rng = genRng(r)
	seen := map[string]bool{}
	for n := r.Intn(4); n > 0; n-- {
		id := pick(r, idPool[1:])
		// initial records are kept under the interceptor's image of their id: no two with one image
		key := id
		if c.Icpt != "" {
			key = namedIcpt(c.Icpt)(id)
		}
		if !seen[key] {
			seen[key] = true
			c.Init = append(c.Init, id+"~"+genMsg(r))
		}
	}
	return c
}

// genWriteOpts draws every write option independently, biased by the current contents (`cur` is the
// message stored under the target, if any) so that preconditions both hold and fail.
func genWriteOpts(r *rand.Rand, op string, cur *rmsg) []string {
	var o []string
	p := func(pct int) bool { return r.Intn(100) < pct }
	if p(20) {
		o = append(o, "wt="+genInstant(r))
	}
	if op != "del" {
		if p(35) {
			o = append(o, "um="+pick(r, maskPool))
		}
		if p(15) {
			o = append(o, "rs="+pick(r, maskPool))
		}
		if p(15) {
			o = append(o, "bf="+pick(r, bfPool))
		}
		if p(15) {
			o = append(o, "af="+pick(r, afPool))
		}
		if p(10) {
			o = append(o, "nw")
		}
		if p(15) {
			o = append(o, "mw="+pick(r, wPool))
		}
	}
	if p(18) {
		if cur != nil && p(65) {
			o = append(o, "ev="+cur.String())
		} else {
			o = append(o, "ev="+genMsg(r))
		}
	}
	if p(18) {
		switch r.Intn(5) {
		case 0:
			o = append(o, "chk=fail:"+pick(r, codePool))
		case 1:
			o = append(o, "chk=nonNil")
		case 2:
			o = append(o, "chk=sEmpty")
		default:
			a := pick(r, aPool)
			if cur != nil && p(65) {
				a = cur.a
			}
			o = append(o, fmt.Sprintf("chk=aEq:%d", a))
		}
	}
	if op == "del" && p(35) {
		o = append(o, "am")
	}
	if op == "upd" {
		if p(10) {
			o = append(o, "xa")
		}
		if p(45) {
			o = append(o, "cia")
		}
	}
	if op == "upd" || op == "add" {
		if p(30) {
			o = append(o, "ccb")
		}
		if p(30) {
			o = append(o, "gid")
			if p(70) {
				o = append(o, "icb")
			}
		} else if p(5) {
			o = append(o, "icb")
		}
	}
	r.Shuffle(len(o), func(i, j int) { o[i], o[j] = o[j], o[i] })
	return o
}

func genReadOpts(r *rand.Rand, list bool) []string {
	var o []string
	if r.Intn(100) < 35 {
		o = append(o, "rm="+pick(r, maskPool))
	}
	if list && r.Intn(100) < 40 {
		o = append(o, "inc="+pick(r, incPool))
	}
	return o
}

// genInstant draws a write time: mostly small instants around the clock's readings (so they collide
// with readings and go backwards between writes), and the boundary instants of time.Time: the zero
// value, the Unix epoch, before the epoch, far future, whole seconds and sub-second nanos.
func genInstant(r *rand.Rand) string {
	switch r.Intn(12) {
	case 0, 1:
		return zeroInstant // time.Time{}
	case 2:
		return showTime(time.Unix(0, 0))
	case 3:
		return showTime(time.Unix(-5, 7)) // before the epoch, with nanos
	case 4:
		return showTime(time.Unix(1<<40, 0)) // far future
	case 5:
		return showTime(time.Unix(clockBase+int64(r.Intn(3)), int64(r.Intn(2))*999_999_999))
	case 6:
		return strconv.Itoa(-1 - r.Intn(5)) // just before the clock's origin
	default:
		return strconv.Itoa(r.Intn(50)) // nanoseconds after the origin: equal to / earlier than / later than readings
	}
}
