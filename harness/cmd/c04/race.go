package main

import (
	"bytes"
	"fmt"
	"runtime"
	"strconv"
	"strings"
	"time"

	"context"

	"google.golang.org/protobuf/proto"

	"github.com/smart-core-os/sc-golang/internal/verifhook"
	"github.com/smart-core-os/sc-golang/pkg/resource"
	"github.com/smart-core-os/sc-golang/verifharness/lib"
)

// K4-style scenarios: a subscriber opens WHILE a write is in flight, steered through the yield points
// *.onUpdate.beforeListen (subscriber between its snapshot and its bus registration) and
// value.set.beforeSend / coll.update.beforeSend (write between commit and publication).

// splitRace separates a race op into its write and its subscription.
func splitRace(o Op) (w Op, sub Op) {
	w = Op{ID: o.ID, Msg: o.Msg}
	sub = Op{Op: "sub"}
	for _, t := range o.Opts {
		switch {
		case strings.HasPrefix(t, "w="):
			w.Op = t[2:]
		case strings.HasPrefix(t, "sname="):
			sub.Opts = append(sub.Opts, "name="+t[6:])
		case strings.HasPrefix(t, "srm="):
			sub.Opts = append(sub.Opts, "rm="+t[4:])
		case t == "suo":
			sub.Opts = append(sub.Opts, "uo")
		case strings.HasPrefix(t, "cname="):
		default:
			w.Opts = append(w.Opts, t)
		}
	}
	return
}

// lastRaceIDs: id callback invocations of the write of the last race scenario
var lastRaceIDs string

type pending struct {
	done  chan struct{}
	ready chan struct{}
	goid  int64
	val   proto.Message
	err   error
	pmsg  string
	cb    *callbacks
	k0    int64
}

func (r *real) startWrite(o Op) *pending {
	p := &pending{done: make(chan struct{}), ready: make(chan struct{}), cb: &callbacks{}, k0: busSends.Load()}
	go func() {
		defer close(p.done)
		p.goid = verifhook.GoID()
		close(p.ready)
		_, p.pmsg = lib.Catch(func() {
			ws := writeOptions(o, p.cb)
			switch o.Op {
			case "upd":
				p.val, p.err = r.coll.Update(o.ID, parseMsg(o.Msg), ws...)
			case "add":
				p.val, p.err = r.coll.Add(o.ID, parseMsg(o.Msg), ws...)
			case "del":
				p.val, p.err = r.coll.Delete(o.ID, ws...)
			case "vset":
				p.val, p.err = r.val.Set(parseMsg(o.Msg), ws...)
			default:
				panic("not a write: " + o.Op)
			}
		})
	}()
	<-p.ready
	return p
}

func (p *pending) wait() bool {
	select {
	case <-p.done:
		return true
	case <-time.After(2 * waitBound):
		return false
	}
}

func (p *pending) sends() int { return int(busSends.Load() - p.k0) }

func (p *pending) head() string {
	lastRaceIDs = showList(p.cb.ids)
	if p.pmsg != "" {
		return "panic:" + p.pmsg
	}
	return fmt.Sprintf("val=%s err=%s", showMsg(p.val), codeName(p.err))
}

// blockedOrDone decides, from the goroutine's wait reason in the runtime's stack dump (not from a
// timeout), whether the write has finished or is waiting for the resource's lock.
func (p *pending) blockedOrDone() string { return blockedOrDone(p.goid, p.done) }

// blockedOrDone: has the goroutine finished (done closed) or is it waiting for a lock?
func blockedOrDone(goid int64, done <-chan struct{}) string {
	deadline := time.Now().Add(2 * waitBound)
	stable := 0
	for {
		select {
		case <-done:
			return "done"
		default:
		}
		st := goroutineState(goid)
		if st == "sync.RWMutex.Lock" || st == "sync.RWMutex.RLock" || st == "sync.Mutex.Lock" || st == "semacquire" {
			stable++
			if stable >= 3 {
				select {
				case <-done:
					return "done"
				default:
				}
				return "blocked"
			}
		} else {
			stable = 0
		}
		if time.Now().After(deadline) {
			return "stuck:" + st
		}
		time.Sleep(30 * time.Microsecond)
	}
}

// goroutineState: the wait reason the runtime prints for a goroutine ("running", "select",
// "sync.RWMutex.Lock", ...), "" if it no longer exists.
func goroutineState(goid int64) string {
	buf := make([]byte, 1<<16)
	for {
		n := runtime.Stack(buf, true)
		if n < len(buf) {
			buf = buf[:n]
			break
		}
		buf = make([]byte, 2*len(buf))
	}
	needle := []byte("goroutine " + strconv.FormatInt(goid, 10) + " [")
	i := bytes.Index(buf, needle)
	for i > 0 && buf[i-1] != '\n' {
		j := bytes.Index(buf[i+1:], needle)
		if j < 0 {
			return ""
		}
		i += 1 + j
	}
	if i < 0 {
		return ""
	}
	rest := buf[i+len(needle):]
	k := bytes.IndexByte(rest, ']')
	if k < 0 {
		return ""
	}
	st := string(rest[:k])
	if c := strings.IndexByte(st, ','); c >= 0 {
		st = st[:c]
	}
	return st
}

func (r *real) seedCount(sub Op) int {
	if sub.has("uo") {
		return 0
	}
	if r.val != nil {
		if r.val.Get() != nil {
			return 1
		}
		return 0
	}
	return len(r.coll.List())
}

// openParked starts a subscription in its own goroutine; it parks at the armed yield point inside
// Pull. ready is closed once Pull has returned (the subscription is registered on the bus).
func (r *real) openParked(sub Op) (sb *realSub, ready chan struct{}) {
	name, _ := sub.opt("name")
	ctx, cancel := context.WithCancel(context.Background())
	sb = &realSub{name: name, cancel: cancel, notify: make(chan struct{}, 1), done: make(chan struct{})}
	ready = make(chan struct{})
	started := make(chan struct{})
	rs := append(readOptions(sub), resource.WithBackpressure(true))
	go func() {
		defer close(sb.done)
		sb.goid = verifhook.GoID()
		close(started)
		if r.val != nil {
			ch := r.val.Pull(ctx, rs...)
			close(ready)
			for e := range ch {
				sb.push(showVEventFlags(e))
			}
		} else {
			ch := r.coll.Pull(ctx, rs...)
			close(ready)
			for e := range ch {
				sb.push(showCEvent(e))
			}
		}
	}()
	<-started
	return
}

func (r *real) register(sb *realSub) {
	r.subs[sb.name] = sb
	r.subOrder = append(r.subOrder, sb.name)
}

func joinDeliv(old, name string) string {
	if old == "" {
		return name + "=[]"
	}
	return old + " " + name + "=[]"
}

// raceA: the subscriber is parked between its snapshot and its bus registration while one write runs.
func (r *real) raceA(o Op) string {
	w, sub := splitRace(o)
	name, _ := sub.opt("name")
	point := "coll.onUpdate.beforeListen"
	if r.val != nil {
		point = "value.onUpdate.beforeListen"
	}
	nSeed := r.seedCount(sub)
	armedPoint.Store(point)
	sb, ready := r.openParked(sub)
	select {
	case <-parkedCh:
	case <-time.After(waitBound):
		armedPoint.Store("")
		return "!subscriber-did-not-reach-" + point
	}
	p := r.startWrite(w)
	st := p.blockedOrDone()
	if strings.HasPrefix(st, "stuck") {
		releaseCh <- struct{}{}
		return "!write-" + st
	}
	blocked := st == "blocked"
	oldDeliv := ""
	if !blocked {
		// the write went through while the subscriber was held: it reached the subscribers that were open
		oldDeliv = r.deliveries(p.sends())
		nSeed = r.seedCount(sub)
	}
	releaseCh <- struct{}{}
	select {
	case <-ready:
	case <-time.After(waitBound):
		return "!subscriber-did-not-return"
	}
	r.register(sb)
	seed := showList(sb.take(nSeed))
	var deliv string
	if blocked {
		if !p.wait() {
			return "!write-timeout"
		}
		deliv = r.deliveries(p.sends())
	} else {
		deliv = joinDeliv(oldDeliv, name)
	}
	return fmt.Sprintf("blocked=%v seed=%s %s | %s", blocked, seed, p.head(), deliv)
}

// raceB: the write is parked between its commit and its publication while the subscriber opens.
func (r *real) raceB(o Op) string {
	w, sub := splitRace(o)
	name, _ := sub.opt("name")
	point := "coll.update.beforeSend"
	if r.val != nil {
		point = "value.set.beforeSend"
	}
	armedPoint.Store(point)
	p := r.startWrite(w)
	parked := false
	select {
	case <-parkedCh:
		parked = true
	case <-p.done:
		armedPoint.Store("")
	case <-time.After(2 * waitBound):
		armedPoint.Store("")
		return "!write-timeout"
	}
	if parked {
		seed := r.subscribe(sub)
		releaseCh <- struct{}{}
		if !p.wait() {
			return "!write-timeout"
		}
		return fmt.Sprintf("parked=true %s %s | %s", seed, p.head(), r.deliveries(p.sends()))
	}
	oldDeliv := r.deliveries(p.sends())
	seed := r.subscribe(sub)
	return fmt.Sprintf("parked=false %s %s | %s", seed, p.head(), joinDeliv(oldDeliv, name))
}

// raceC: the write is parked inside Bus.Send, right after it took its snapshot of the listeners, while
// the subscriber opens. The new listener is not in the snapshot: nothing of this write is delivered to
// it (its seed has the write), but it must still be registered when that Send has finished - also when
// the Send met a cancelled listener and garbage-collected. A Delete publishes while holding the
// resource lock: a subscriber that needs a seed waits for it (blocked, decided from the goroutine's
// wait reason) and registers right after.
func (r *real) raceC(o Op) string {
	w, sub := splitRace(o)
	name, _ := sub.opt("name")
	armedPoint.Store("bus.send.afterSnapshot")
	p := r.startWrite(w)
	parked := false
	select {
	case <-parkedCh:
		parked = true
	case <-p.done:
		armedPoint.Store("")
	case <-time.After(2 * waitBound):
		armedPoint.Store("")
		return "!write-timeout"
	}
	if !parked {
		oldDeliv := r.deliveries(p.sends())
		seed := r.subscribe(sub)
		return fmt.Sprintf("parked=false blocked=false %s %s | %s", seed, p.head(), joinDeliv(oldDeliv, name))
	}
	sb, ready := r.openParked(sub) // nothing is armed any more: it does not park
	st := blockedOrDone(sb.goid, ready)
	if strings.HasPrefix(st, "stuck") {
		releaseCh <- struct{}{}
		return "!subscriber-" + st
	}
	releaseCh <- struct{}{}
	if !p.wait() {
		return "!write-timeout"
	}
	select {
	case <-ready:
	case <-time.After(waitBound):
		return "!subscriber-did-not-return"
	}
	r.unregistered = 1
	oldDeliv := r.deliveries(p.sends())
	r.unregistered = 0
	nSeed := r.seedCount(sub)
	r.register(sb)
	seed := showList(sb.take(nSeed))
	return fmt.Sprintf("parked=true blocked=%v seed=%s %s | %s", st == "blocked", seed, p.head(), joinDeliv(oldDeliv, name))
}

// raceE: the write is parked inside Bus.Send, right after it took its snapshot of the listeners, while
// the subscription `cname` - which IS in the snapshot - is cancelled (its Pull has ended and the bus has
// closed its listener before the Send goes on). The Send meets a listener that died under its hands: it
// must skip it, serve every other listener of the snapshot exactly once, and collect the dead one. A
// write that announces nothing never reaches the bus: the cancellation happens on an idle bus.
func (r *real) raceE(o Op) string {
	w, _ := splitRace(o)
	cancelOp := Op{Op: "unsub", Opts: []string{"name=" + optOf(o, "cname")}}
	armedPoint.Store("bus.send.afterSnapshot")
	p := r.startWrite(w)
	parked := false
	select {
	case <-parkedCh:
		parked = true
	case <-p.done:
		armedPoint.Store("")
	case <-time.After(2 * waitBound):
		armedPoint.Store("")
		return "!write-timeout"
	}
	un := r.unsubscribe(cancelOp)
	if parked {
		releaseCh <- struct{}{}
		if !p.wait() {
			return "!write-timeout"
		}
	}
	if un != "ok" {
		return un
	}
	return fmt.Sprintf("parked=%v %s | %s", parked, p.head(), r.deliveries(p.sends()))
}

// raceeOp wraps a write and the name of the subscription cancelled during its Send into a scenario op.
func raceeOp(w Op, cname string) Op {
	o := Op{Op: "racee", ID: w.ID, Msg: w.Msg, Opts: append([]string(nil), w.Opts...)}
	o.Opts = append(o.Opts, "w="+w.Op, "cname="+cname)
	return o
}

// splitRaced separates a raced op into the Delete that is held after its first read and the write
// that runs meanwhile.
func splitRaced(o Op) (del Op, u Op) {
	del = Op{Op: "del", ID: o.ID}
	u = Op{Msg: ""}
	for _, t := range o.Opts {
		switch {
		case strings.HasPrefix(t, "u="):
			u.Op = t[2:]
		case strings.HasPrefix(t, "uid="):
			u.ID = t[4:]
		case strings.HasPrefix(t, "umsg="):
			u.Msg = t[5:]
		case t == "ucia":
			u.Opts = append(u.Opts, "cia")
		case strings.HasPrefix(t, "uwt="):
			u.Opts = append(u.Opts, "wt="+t[4:])
		default:
			del.Opts = append(del.Opts, t)
		}
	}
	return
}

// racedOp wraps a Delete and the write that overtakes it into a scenario op.
func racedOp(del Op, u Op) Op {
	o := Op{Op: "raced", ID: del.ID, Opts: append([]string(nil), del.Opts...)}
	o.Opts = append(o.Opts, "u="+u.Op, "uid="+u.ID)
	if u.Op != "del" {
		o.Opts = append(o.Opts, "umsg="+u.Msg)
	}
	for _, t := range u.Opts {
		if t == "cia" {
			o.Opts = append(o.Opts, "ucia")
		} else if strings.HasPrefix(t, "wt=") {
			o.Opts = append(o.Opts, "u"+t)
		}
	}
	return o
}

// raceD: a Delete is parked right after its first (read-locked) read of the item while another write
// of the writer runs to completion; then the Delete goes on: its checks see the value first read, the
// re-read under the write lock notices the change and the attempt is repeated with the fresh item.
func (r *real) raceD(o Op) (ans string, uids string) {
	del, u := splitRaced(o)
	armedPoint.Store("coll.delete.afterRead")
	p := r.startWrite(del)
	select {
	case <-parkedCh:
	case <-p.done:
		armedPoint.Store("")
		return "!delete-did-not-reach-coll.delete.afterRead", ""
	case <-time.After(2 * waitBound):
		armedPoint.Store("")
		return "!write-timeout", ""
	}
	a, sends := r.runWrite(u)
	if strings.HasPrefix(a, "panic:") || strings.HasPrefix(a, "!") {
		releaseCh <- struct{}{}
		p.wait()
		return a, ""
	}
	first := fmt.Sprintf("uval=%s uerr=%s | %s", part(a, "val"), part(a, "err"), r.deliveries(sends))
	k1 := busSends.Load()
	releaseCh <- struct{}{}
	if !p.wait() {
		return "!write-timeout", ""
	}
	return first + " || " + p.head() + " | " + r.deliveries(int(busSends.Load()-k1)), part(a, "ids")
}

// splitRaceF separates a racef op into its two subscriptions and the release order.
func splitRaceF(o Op) (s1, s2 Op, order string) {
	s1, s2 = Op{Op: "sub"}, Op{Op: "sub"}
	for _, t := range o.Opts {
		switch {
		case strings.HasPrefix(t, "sname="):
			s1.Opts = append(s1.Opts, "name="+t[6:])
		case strings.HasPrefix(t, "srm="):
			s1.Opts = append(s1.Opts, "rm="+t[4:])
		case t == "suo":
			s1.Opts = append(s1.Opts, "uo")
		case strings.HasPrefix(t, "tname="):
			s2.Opts = append(s2.Opts, "name="+t[6:])
		case strings.HasPrefix(t, "trm="):
			s2.Opts = append(s2.Opts, "rm="+t[4:])
		case t == "tuo":
			s2.Opts = append(s2.Opts, "uo")
		case strings.HasPrefix(t, "order="):
			order = t[6:]
		}
	}
	return
}

// racefOp wraps two subscriptions whose Bus.Listen calls overlap into a scenario op.
func racefOp(n1 string, o1 []string, n2 string, o2 []string, order string) Op {
	o := Op{Op: "racef", Opts: []string{"sname=" + n1}}
	for _, t := range o1 {
		if t == "uo" {
			o.Opts = append(o.Opts, "suo")
		} else if strings.HasPrefix(t, "rm=") {
			o.Opts = append(o.Opts, "s"+t)
		}
	}
	o.Opts = append(o.Opts, "tname="+n2)
	for _, t := range o2 {
		if t == "uo" {
			o.Opts = append(o.Opts, "tuo")
		} else if strings.HasPrefix(t, "rm=") {
			o.Opts = append(o.Opts, "t"+t)
		}
	}
	o.Opts = append(o.Opts, "order="+order)
	return o
}

// raceF: two subscribers are inside Bus.Listen at the same time - both held at bus.listen.beforeRegister
// (the listener is built, not yet in the bus's list), then released one after the other in the given
// order. Both registrations must take effect: each subscriber gets its seed and every later write.
func (r *real) raceF(o Op) string {
	s1, s2, order := splitRaceF(o)
	const point = "bus.listen.beforeRegister"
	n1, n2 := r.seedCount(s1), r.seedCount(s2)
	armedPoint.Store(point)
	sb1, ready1 := r.openParked(s1)
	select {
	case <-parkedCh:
	case <-time.After(waitBound):
		armedPoint.Store("")
		return "!subscriber-did-not-reach-" + point
	}
	armedPoint2.Store(point)
	sb2, ready2 := r.openParked(s2)
	select {
	case <-parkedCh2:
	case <-time.After(waitBound):
		armedPoint2.Store("")
		releaseCh <- struct{}{}
		return "!subscriber-did-not-reach-" + point
	}
	release := func(rel chan struct{}, ready chan struct{}) bool {
		rel <- struct{}{}
		select {
		case <-ready:
			return true
		case <-time.After(waitBound):
			return false
		}
	}
	var ok bool
	if order == "21" {
		ok = release(releaseCh2, ready2) && release(releaseCh, ready1)
		r.register(sb2)
		r.register(sb1)
	} else {
		ok = release(releaseCh, ready1) && release(releaseCh2, ready2)
		r.register(sb1)
		r.register(sb2)
	}
	if !ok {
		return "!subscriber-did-not-return"
	}
	return fmt.Sprintf("seed=%s seed2=%s", showList(sb1.take(n1)), showList(sb2.take(n2)))
}
