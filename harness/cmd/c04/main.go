// Harness for C04 (with backpressure the stream is an exact, ordered edit script).
//
//	tie  K1 "coll-stream" / "value-stream": random write histories (successful and failing writes, with
//	     and without WithWriteTime, every write option) with backpressured subscribers opened at random
//	     points (read mask, updates-only, resource equivalence on/off); after every write each
//	     subscriber is drained synchronously; model (driverC04) vs pkg/resource: seed and deliveries.
//	tie  K2 "small-scope": ALL histories up to a length over 2 ids x every subscription point x
//	     subscription options x equivalence on/off.
//	tie  K4 "subscribe-during-write" (race.go): a subscriber opens while a write is in flight - parked
//	     before its bus registration (racea), write parked between commit and publication (raceb), write
//	     parked inside Bus.Send after its snapshot of the listeners, with cancelled / live listeners in the
//	     snapshot (racec: the late subscriber must survive that Send's garbage collection and receive
//	     every later write) - and a Delete overtaken by another write after its first read (raced: the
//	     REMOVE must carry the item actually removed). The driver's state is the bus model of
//	     lean/ScVerif/C04/Bus.lean: `unsub` only marks the listener dead, a Send collects lazily.
//	     racee: a subscription that is IN the snapshot is cancelled while the write is parked inside
//	     Bus.Send (the others must be served exactly once, the dead one skipped and collected).
//	tie  K2 "pullid-scope": ALL short histories x subscription points for a PullID subscriber x
//	     equivalence {none, equal, sameA} (the inner Pull and the harness's shadow Pull are the only
//	     listeners: two equivalence decisions per bus event).
//	     racef: TWO subscribers are inside Bus.Listen at the same time (both parked at
//	     bus.listen.beforeRegister, released in either order): both registrations must take effect.
//	tie  K4 "stalled-subscriber": a consumer stops receiving (hold); its forwarder takes one change, the
//	     next Set waits the full 5 s send deadline of Value.set on that listener and gives up; healthy
//	     subscribers registered before / after it; resume. Each script in a child process of the harness.
//	tie  K4 "waste-records" (waste.go): wastepb's PullWasteRecords handler (history + Value.Pull) opened on a
//	     quiet model and while an AddWasteRecord is parked between its Set and its append.
//	monitor "writer-log": the received stream vs the writer's own log (what its calls returned),
//	     independent of the Lean model.
package main

import (
	"bytes"
	"encoding/json"
	"fmt"
	"math/rand"
	"os"
	"os/exec"
	"sort"
	"strconv"
	"strings"
	"time"

	"github.com/smart-core-os/sc-golang/verifharness/lib"
)

func main() {
	if js := os.Getenv(childEnv); js != "" {
		os.Exit(childMain(js))
	}
	f := lib.ParseFlags()
	installHook()
	if f.Replay != "" {
		os.Exit(replay(f))
	}
	res := lib.NewResult("C04", f)
	drv, err := lib.StartDriver(f.Driver)
	if err != nil {
		lib.Fatal(err)
	}
	defer drv.Close()
	h := &harness{
		cover: newPairCover(),
		drv:   drv,
		tieC:  res.Tie("coll-stream", "K1", "random write histories on a Collection (Add/Update/Delete, successful and failing, every write option, with/without write time, id interceptor, generated ids, fixed/ticking clock, empty/one/many initial records) with backpressured Pull subscribers opened at random points (read mask incl. nested paths next to / without their parent, updates-only; resource equivalence given as an ordered option LIST over equal/sameA/nil: set, cleared, replaced); compared: every seed and every delivery after every write. distinct = distinct (config, op, subscriptions, answer)"),
		tieV:  res.Tie("value-stream", "K1", "the same for Value.Set / Value.Pull (with/without initial value)"),
		tieS:  res.Tie("small-scope", "K2", "ALL write histories up to the stated length over ids {a,b} (add/update/create-update/delete/failing-precondition) x every subscription point x {plain, updates-only, read mask} subscribers (opened together when there is no equivalence; the masked one with a NESTED mask: a message field and a path inside it) x equivalence {none, equal}, and for subscribers opened before the first write also a resource whose option list is [equal, WithEquivalence(nil)]; distinct = distinct scripts"),
		tieR:  res.Tie("subscribe-during-write", "K4", "a subscriber opens WHILE one write is in flight, steered through the yield points: (a) subscriber parked at {value,coll}.onUpdate.beforeListen (between its snapshot and its bus registration) while the write runs - compared: whether the write is blocked on the resource lock (decided from the goroutine's wait reason) or finishes, the seed, every delivery; (b) write parked at value.set.beforeSend / coll.update.beforeSend (committed, not published) while the subscriber opens. ALL (initial contents, prefix write, write in flight) over the small alphabet, each followed by three follow-up writes, x both kinds x {plain, updates-only, read mask} x equivalence {none, equal}, Collection and Value; (c) write parked inside Bus.Send right after its snapshot of the listeners (bus.send.afterSnapshot) while the subscriber opens, the snapshot holding {no, a cancelled, a cancelled and a live, a live and a cancelled} listener: the new subscriber is seeded with the write, is not served by that Send, survives its garbage collection and receives every follow-up write; (d) a Delete parked right after its first read (coll.delete.afterRead) while another write of the same or another id runs to completion: ALL (initial contents, prefix write, Delete options {none, allow-missing, expected value, expected check}, overtaking write) - compared: both answers and every delivery (the REMOVE must carry the item actually removed); the random K1 histories contain all four kinds of scenario too. distinct = distinct scripts"),
		tieP:  res.Tie("pullid-scope", "K2", "ALL write histories up to the stated length over {add a, create-update a, masked update of a with write time, update of a to a message whose `a` is 0, delete a, add b} x every subscription point x a PullID(a) subscriber {plain, read mask} x resource equivalence {none, equal, sameA}: the item's seed value flagged seed and last-seed, other ids skipped, the changes of the id the equivalence does not relate forwarded as values, the stream ended by exactly the first delivered REMOVE (a REMOVE the equivalence relates to `no item` is suppressed by the inner Pull and the stream goes on); distinct = distinct scripts"),
		tieH:  res.Tie("stalled-subscriber", "K4", "Collection: a backpressured Collection.Pull subscriber whose consumer stops receiving (hold): its forwarder takes one change, the next Update / Add / Delete (stallw) waits at that listener - there is no deadline - until the consumer receives again after 5.6 s; healthy subscribers registered before / after the held one (plain, read masks incl. nested, updates-only), the waiting write an update / a create / a delete; compared: the write's answer (no error), what the resumed subscriber was owed, everybody's delivery of the waiting write and of the writes after it. Value: a backpressured Value.Pull subscriber whose consumer stops receiving (hold) while the writer goes on: its forwarder takes one change and blocks, the next Set that announces a change waits the full 5 s of Value.set's send deadline on that listener and gives up - ALL listed layouts of healthy subscribers registered before / after the stalled one (plain, read mask, updates-only; with/without initial value; one or two held subscribers; hold before the first write or after one) x the write sequence (a Set the forwarder takes, a Set that finds it stalled, resume, further Sets). Each script runs in its own child process of the harness (the 5 s wait overlaps with the other families); compared: every answer (value and error of each Set, who was handed which event, what the resumed subscriber receives). distinct = distinct scripts"),
		tieW:  res.Tie("waste-records", "K4", "a stream a trait handler COMPOSES from a record history and a Value.Pull - wastepb ModelServer.PullWasteRecords, opened through the real handler with a server stream of the harness - (a) on a quiet model and (b) while an AddWasteRecord is parked at value.set.beforeSend (its Set committed; neither its publication nor its append to the history done) or inside that Set's Bus.Send after its snapshot of the listeners (bus.send.afterSnapshot): ALL (number of records before {0,1,2,3,49,50,51} around the 50-record window, quiet / mid-add, read mask {none, id, area}, updates-only on/off, 1 or 2 records added afterwards); compared with the model's wasteStream (Waste.lean): every record the stream sent, in order; distinct = distinct scenarios"),
		mon:   res.Monitor("writer-log", "the stream each subscriber received vs the writer's own log: seed = current contents sorted by id, flagged, last flagged last, stored change time; then exactly one event per successful write (none for failed writes or a no-op delete), id/kind/old/new from what the writer's calls returned, time = write time or a clock reading within the write, suppression iff the configured equivalence relates the compared pair"),
	}
	if os.Getenv("C04_ONLY") == "waste" { // development: the waste-records family alone
		h.wasteScope(f.Tier == "thorough")
		if err := res.Write(f.Out); err != nil {
			lib.Fatal(err)
		}
		return
	}
	r := lib.NewRand(f.Seed)
	stalls := startStalls(stallScripts(f.Tier == "thorough"))
	stages := map[string]float64{}
	t0 := time.Now()
	lap := func(name string) { stages[name] = time.Since(t0).Seconds(); t0 = time.Now() }
	h.smallScope(f.N(3, 4))
	lap("small-scope")
	h.pullIDScope(f.N(3, 4))
	lap("pullid-scope")
	h.raceScope(h.tieR)
	lap("subscribe-during-write")
	for _, s := range fixedScripts() {
		h.runScript(s, h.tieFor(s))
	}
	n := f.N(2500, 60000)
	for i := 0; i < n; i++ {
		maxLen := 3 + i/20
		if maxLen > 30 {
			maxLen = 30
		}
		s := genHistory(r, 1+r.Intn(maxLen))
		h.runScript(s, h.tieFor(s))
	}
	lap("random-histories")
	h.wasteScope(f.Tier == "thorough")
	lap("waste-records")
	for _, c := range stalls {
		code, err := c.wait()
		if err != nil {
			h.tieH.Fail(err)
			continue
		}
		h.record(c.s, code, h.tieH)
	}
	lap("stalled-subscriber (wait after the other families)")
	h.tieH.Exhaustive = true
	res.Extra["stage_seconds"] = stages
	h.tieS.Exhaustive = true
	h.tieR.Exhaustive = true
	h.tieP.Exhaustive = true
	res.Extra["ops_total"] = h.ops
	res.Extra["scripts_skipped_after_missing_deliveries"] = h.skipped
	pw := h.cover.report([]string{"upd", "add", "del", "vset"}, []string{"rm", "uo"})
	res.Extra["pairwise_option_coverage"] = pw
	h.tieC.Count(fmt.Sprintf("pairwise option combinations covered: %v of %v", pw["covered"], pw["combinations"]))
	if err := res.Write(f.Out); err != nil {
		lib.Fatal(err)
	}
}

type harness struct {
	cover                  *pairCover
	drv                    *lib.Driver
	tieC, tieV, tieS, tieR *lib.Tie
	tieP, tieH, tieW       *lib.Tie
	mon                    *lib.Monitor
	ops                    int
	skipped                int // scripts not run because the run was already failing on missing deliveries
}

func (h *harness) tieFor(s Script) *lib.Tie {
	if s.Cfg.Kind == "val" {
		return h.tieV
	}
	return h.tieC
}

func (o Op) subLine() string {
	return o.Op + " " + strings.Join(o.Opts, " ")
}

func optOf(o Op, k string) string { v, _ := o.opt(k); return v }

func isRace(o Op) bool { return o.Op == "racea" || o.Op == "raceb" || o.Op == "racec" }

func opLine(o Op) string {
	if o.Op == "sub" || o.Op == "unsub" || o.Op == "subid" || o.Op == "racef" || o.Op == "hold" || o.Op == "resume" {
		return o.subLine()
	}
	if isRace(o) || o.Op == "racee" || o.Op == "stallw" {
		return o.Op + " id=" + o.ID + " msg=" + o.Msg + " " + strings.Join(o.Opts, " ")
	}
	if o.Op == "raced" {
		return o.Op + " id=" + o.ID + " " + strings.Join(o.Opts, " ")
	}
	return o.line()
}

// obs is what the harness observed for one op on the real code.
type obs struct {
	ans        string // the answer in the driver's format
	clk0, clk1 int    // clock counter before / after the call
	ids        string // id callback invocations of a write
}

// obsJSON: an obs as a child process hands it to its parent
type obsJSON struct {
	Ans  string `json:"ans"`
	Clk0 int    `json:"clk0"`
	Clk1 int    `json:"clk1"`
	IDs  string `json:"ids"`
}

func runCode(s Script) []obs {
	r := newReal(s.Cfg, false)
	defer r.close()
	out := make([]obs, len(s.Ops))
	for i, op := range s.Ops {
		o := obs{clk0: r.clk.n}
		switch op.Op {
		case "sub":
			o.ans = r.subscribe(op)
		case "unsub":
			o.ans = r.unsubscribe(op)
		case "subid":
			o.ans = r.subscribeID(op)
		case "racea":
			o.ans = r.raceA(op)
			o.ids = lastRaceIDs
		case "raceb":
			o.ans = r.raceB(op)
			o.ids = lastRaceIDs
		case "racec":
			o.ans = r.raceC(op)
			o.ids = lastRaceIDs
		case "raced":
			o.ans, o.ids = r.raceD(op)
		case "racee":
			o.ans = r.raceE(op)
			o.ids = lastRaceIDs
		case "racef":
			o.ans = r.raceF(op)
		case "stallw":
			o.ans, o.ids = r.stallW(op)
		case "hold":
			o.ans = r.hold(op)
		case "resume":
			o.ans = r.resume(op)
		default:
			a, sends := r.runWrite(op)
			if strings.HasPrefix(a, "panic:") || strings.HasPrefix(a, "!") {
				o.ans = a
			} else {
				r.partial = sends > 0 && part(a, "err") != "-"
				o.ans = fmt.Sprintf("val=%s err=%s | %s", part(a, "val"), part(a, "err"), r.deliveries(sends))
				r.partial = false
				o.ids = part(a, "ids")
			}
		}
		o.clk1 = r.clk.n
		out[i] = o
	}
	return out
}

func (h *harness) runModel(s Script) ([]string, error) {
	lines := []string{s.Cfg.line()}
	for _, op := range s.Ops {
		lines = append(lines, opLine(op))
	}
	ans, err := h.drv.Batch(lines)
	if err != nil {
		return nil, err
	}
	if ans[0] != "ok" {
		return nil, fmt.Errorf("driver rejected config %q: %s", lines[0], ans[0])
	}
	return ans[1:], nil
}

func prefix(s Script, n int) Script { return Script{Cfg: s.Cfg, Ops: append([]Op(nil), s.Ops[:n]...)} }

func part(ans, key string) string {
	for _, t := range strings.Split(ans, " ") {
		if strings.HasPrefix(t, key+"=") {
			return t[len(key)+1:]
		}
	}
	return ""
}

func (h *harness) runScript(s Script, tie *lib.Tie) {
	if failingFast() {
		h.skipped++
		return
	}
	h.record(s, runCode(s), tie)
}

// record ties what the code did on a script to the model's answers and runs the monitor on it.
func (h *harness) record(s Script, code []obs, tie *lib.Tie) {
	model, err := h.runModel(s)
	if err != nil {
		tie.Fail(err)
		return
	}
	w := newWriterLog(s.Cfg)
	liveSubs := map[string]Op{}
	subsDesc := ""
	for i, op := range s.Ops {
		h.ops++
		key := s.Cfg.line() + "#" + opLine(op) + "#" + subsDesc + "#" + code[i].ans
		exh := tie == h.tieS || tie == h.tieR || tie == h.tieP || tie == h.tieH
		if exh {
			key = scriptKey(s)
		}
		tie.Record(key, !exh || i == len(s.Ops)-1, map[string]any{"script": prefix(s, i+1)}, model[i], code[i].ans)
		tie.Count("op:" + op.Op)
		if op.isWrite() || isRace(op) || op.Op == "racee" {
			wop := op
			if isRace(op) || op.Op == "racee" {
				wop, _ = splitRace(op)
			}
			h.cover.call(wop.Op, wop)
			// the readers of a write: the subscriptions open at that moment
			for _, so := range liveSubs {
				h.cover.cross(wop.Op, wop, []string{"rm", "uo"}, so)
			}
		}
		switch {
		case op.Op == "sub" || op.Op == "subid":
			liveSubs[optOf(op, "name")] = op
		case op.Op == "unsub":
			delete(liveSubs, optOf(op, "name"))
		case isRace(op):
			_, so := splitRace(op)
			liveSubs[optOf(so, "name")] = so
		case op.Op == "racee":
			delete(liveSubs, optOf(op, "cname"))
		case op.Op == "racef":
			s1, s2, _ := splitRaceF(op)
			liveSubs[optOf(s1, "name")] = s1
			liveSubs[optOf(s2, "name")] = s2
		}
		if isRace(op) || op.Op == "racee" {
			tie.Count(op.Op + ":" + strings.SplitN(code[i].ans, " ", 2)[0])
		}
		if op.Op == "raced" {
			del, u := splitRaced(op)
			if halves := strings.SplitN(code[i].ans, " || ", 2); len(halves) == 2 {
				tie.Count(fmt.Sprintf("raced:same-id=%v overtaking-err=%s delete-err=%s", del.ID == u.ID,
					part(strings.Replace(halves[0], "uerr=", "err=", 1), "err"), part(halves[1], "err")))
			}
		}
		if op.isWrite() {
			tie.Count("err:" + part(code[i].ans, "err"))
			if strings.Contains(code[i].ans, "=[]") {
				tie.Count("delivery:none")
			}
			if strings.Contains(code[i].ans, "|]") {
				tie.Count("delivery:some")
			}
		}
		for _, t := range op.Opts {
			tie.Count("opt:" + strings.SplitN(t, "=", 2)[0])
		}
		h.mon.Eval(key, true, nil)
		w.check(h.mon, s, i, code[i])
		if op.Op == "sub" || op.Op == "unsub" || op.Op == "subid" || isRace(op) || op.Op == "racee" || op.Op == "racef" ||
			op.Op == "hold" || op.Op == "resume" || op.Op == "stallw" {
			subsDesc += opLine(op) + ";"
		}
	}
}

func scriptKey(s Script) string {
	var b strings.Builder
	b.WriteString(s.Cfg.line() + ";")
	for _, op := range s.Ops {
		b.WriteString(opLine(op) + ";")
	}
	return b.String()
}

// ---------------------------------------------------------------------------------------------
// the monitor's oracle: the writer's own log

type refEntry struct {
	msg    string
	exact  bool // stored change time known exactly (write time given, or an initial record)
	t      string
	lo, hi int // otherwise: a clock reading within [lo, hi) (== lo for a fixed clock)
}

type subState struct {
	rm    *string
	last  string  // Value: the last value delivered ("nil" if none)
	pid   *string // PullID: the (intercepted) id
	ended bool    // PullID: the item was removed, the stream has ended
	held  bool    // its consumer is not receiving: what it is owed is due when it resumes
	owed  []owedEvent
	// Sets that gave up announcing while it was held (its forwarder may have been handed their event)
	dlFailed int
}

// owedEvent: an event of a successful write a held subscriber has not received yet
type owedEvent struct {
	val string // Value: the projected value; Collection: id|kind|old|new (projected)
	t   refEntry
}

type writerLog struct {
	cfg Cfg
	ref map[string]refEntry // collection contents as the writer knows them
	// a Set gave up announcing ("blocked for too long"): the writer was told it failed, what is stored
	// is not known to the writer until its next successful Set
	valUnknown bool
	val        *refEntry
	subs       map[string]*subState
	order      []string
}

func newWriterLog(cfg Cfg) *writerLog {
	w := &writerLog{cfg: cfg, ref: map[string]refEntry{}, subs: map[string]*subState{}}
	if cfg.Kind == "val" {
		if len(cfg.Init) > 0 && cfg.Init[0] != "nil" {
			w.val = &refEntry{msg: rparse(cfg.Init[0]).String(), exact: true, t: "0"}
		}
	} else {
		for _, rec := range cfg.Init {
			p := strings.SplitN(rec, "~", 2)
			// an initial record is addressed like any other item: under the interceptor's image of its id
			if _, dup := w.ref[w.icpt(p[0])]; !dup {
				w.ref[w.icpt(p[0])] = refEntry{msg: rparse(p[1]).String(), exact: true, t: "0"}
			}
		}
	}
	return w
}

func proj(msg string, rm *string) string {
	if msg == "nil" || rm == nil {
		return msg
	}
	return project(Op{Opts: []string{"rm=" + *rm}}, rparse(msg)).String()
}

// effEqv: the equivalence a resource built with the listed options has, as the documentation of
// WithEquivalence states it: options apply in order, the last one decides, nil = no equivalence checking.
func effEqv(list string) string {
	if list == "" {
		return ""
	}
	toks := strings.Split(list, ",")
	if last := toks[len(toks)-1]; last != "nil" {
		return last
	}
	return ""
}

func eqvHolds(name, x, y string) bool {
	switch name {
	case "equal":
		return x == y
	case "sameA":
		a := func(s string) int {
			if s == "nil" {
				return 0
			}
			return rparse(s).a
		}
		return a(x) == a(y)
	}
	return false
}

func (w *writerLog) icpt(id string) string {
	if w.cfg.Icpt == "" {
		return id
	}
	return namedIcpt(w.cfg.Icpt)(id)
}

// timeOK: the change time of an event / the stored time of an item
func (e refEntry) timeOK(ts string) bool {
	if e.exact {
		return ts == e.t // a given write time is THE change time, whatever instant it is
	}
	t, err := strconv.Atoi(ts)
	if err != nil {
		return false
	}
	return (t >= e.lo && t < e.hi) || (e.lo == e.hi && t == e.lo)
}

func splitList(s string) []string {
	s = strings.TrimSuffix(strings.TrimPrefix(s, "["), "]")
	if s == "" {
		return nil
	}
	return strings.Split(s, ";")
}

func (w *writerLog) clone() *writerLog {
	c := &writerLog{cfg: w.cfg, ref: map[string]refEntry{}, subs: map[string]*subState{}, order: append([]string(nil), w.order...)}
	for k, v := range w.ref {
		c.ref[k] = v
	}
	if w.val != nil {
		v := *w.val
		c.val = &v
	}
	for k, v := range w.subs {
		sv := *v
		sv.owed = append([]owedEvent(nil), v.owed...)
		c.subs[k] = &sv
	}
	c.valUnknown = w.valUnknown
	return c
}

func (w *writerLog) adopt(c *writerLog) { *w = *c }

func (w *writerLog) check(m *lib.Monitor, s Script, i int, o obs) {
	op := s.Ops[i]
	in := map[string]any{"script": prefix(s, i+1)}
	kind := "Collection"
	if w.cfg.Kind == "val" {
		kind = "Value"
	}
	sig := "C04/" + kind + ".Pull"
	if !strings.HasPrefix(o.ans, "!") {
		// a delivery (or seed event) that never arrived is a missing event, not a stall of the harness
		o.ans = strings.NewReplacer(";!timeout", "", "!timeout", "").Replace(o.ans)
	}
	if strings.HasPrefix(o.ans, "panic:") || strings.HasPrefix(o.ans, "!") || strings.Contains(o.ans, "!timeout") ||
		strings.Contains(o.ans, "!closed") || strings.Contains(o.ans, "!no-equivalence-call") ||
		strings.Contains(o.ans, "!listener-not-stopped") {
		m.Violate(sig+"/panic-or-stall", "a call panicked, stalled, or an expected delivery never arrived", in, "answer", o.ans)
		return
	}
	switch op.Op {
	case "unsub":
		name, _ := op.opt("name")
		w.drop(name)
	case "sub":
		w.checkSub(m, in, sig, op, o.ans)
	case "subid":
		w.checkSubID(m, in, op, o.ans)
	case "racea":
		w.checkRaceA(m, in, sig, op, o)
	case "raceb":
		w.checkRaceB(m, in, sig, op, o)
	case "racec":
		w.checkRaceC(m, in, sig, op, o)
	case "raced":
		w.checkRaceD(m, in, sig, op, o)
	case "racee":
		w.checkRaceE(m, in, sig, op, o)
	case "racef":
		// two subscribers whose registrations overlapped: each is seeded from the current contents, and
		// each is open from here on (checked by the delivery check of the writes that follow)
		s1, s2, order := splitRaceF(op)
		a2 := "seed=" + part(o.ans, "seed2")
		if order == "21" {
			w.checkSub(m, in, sig, s2, a2)
			w.checkSub(m, in, sig, s1, o.ans)
		} else {
			w.checkSub(m, in, sig, s1, o.ans)
			w.checkSub(m, in, sig, s2, a2)
		}
	case "stallw":
		// a Collection write made while a held subscriber's forwarder was full; that subscriber received
		// again while the write was waiting for it. What the writer may rely on: the write is not failed by
		// a slow subscriber (there is no error to report: the item is stored), the resumed subscriber gets
		// what it was owed and then, like EVERY open subscriber, this write's event exactly once.
		wop, rname := splitStallW(op)
		halves := strings.SplitN(o.ans, " || ", 2)
		if len(halves) != 2 {
			m.Violate(sig+"/panic-or-stall", "a call panicked, stalled, or an expected delivery never arrived", in, "two answers", o.ans)
			return
		}
		w.checkResume(m, in, sig, Op{Op: "resume", Opts: []string{"name=" + rname}}, obs{ans: halves[0]})
		o2 := obs{ans: halves[1], clk0: o.clk0, clk1: o.clk1, ids: o.ids}
		if part(o2.ans, "err") == "Unknown" && part(o2.ans, "val") == "nil" && !wop.has("chk") {
			m.Violate(sig+"/write-failed-by-slow-subscriber", "a write whose item was stored was reported as failed because a subscriber was slow to receive", in, "no error", o2.ans)
		}
		exp, evTime := w.applyWrite(m, in, wop, o2)
		w.checkDeliveries(m, in, sig, exp, evTime, o2.ans)
	case "hold":
		if st := w.subs[optOf(op, "name")]; st != nil {
			st.held = true
		}
	case "resume":
		w.checkResume(m, in, sig, op, o)
	default:
		exp, evTime := w.applyWrite(m, in, op, o)
		w.checkDeliveries(m, in, sig, exp, evTime, o.ans)
	}
}

func (w *writerLog) drop(name string) {
	delete(w.subs, name)
	for k, n := range w.order {
		if n == name {
			w.order = append(w.order[:k], w.order[k+1:]...)
			break
		}
	}
}

// checkRaceE: a subscription was cancelled while the write's Send was delivering (or, for a write that
// announces nothing, at that moment on an idle bus). Nothing is claimed about the cancelled one; every
// other open subscription receives the write's event exactly once, as for any write.
func (w *writerLog) checkRaceE(m *lib.Monitor, in map[string]any, sig string, op Op, o obs) {
	wop, _ := splitRace(op)
	w.drop(optOf(op, "cname"))
	exp, evTime := w.applyWrite(m, in, wop, o)
	w.checkDeliveries(m, in, sig, exp, evTime, o.ans)
}

// checkRaceA: a subscriber opened while one write ran. The property: the write is either reflected
// in the seed (and then not delivered) or not in the seed and delivered exactly once - either order of
// the two is fine, anything else (in neither, or delivered on top of a seed that has it as if it were
// new state) is a violation.
func (w *writerLog) checkRaceA(m *lib.Monitor, in map[string]any, sig string, op Op, o obs) {
	wop, sop := splitRace(op)
	name, _ := sop.opt("name")
	// candidate 1: subscribe, then the write
	c1, m1 := w.clone(), lib.NewMonitor("c1", "")
	c1.checkSub(m1, in, sig, sop, o.ans)
	seedOK1 := len(m1.Violations) == 0
	e1, t1 := c1.applyWrite(m1, in, wop, o)
	c1.checkDeliveries(m1, in, sig, e1, t1, o.ans)
	if len(m1.Violations) == 0 {
		m.Count("racea:subscribe-first")
		w.adopt(c1)
		return
	}
	// candidate 2: the write, then subscribe (the new subscriber gets nothing of it)
	c2, m2 := w.clone(), lib.NewMonitor("c2", "")
	e2, t2 := c2.applyWrite(m2, in, wop, o)
	c2.checkDeliveries(m2, in, sig, e2, t2, o.ans)
	if part(o.ans, name) != "[]" {
		m2.Violate(sig+"/delivered-although-in-seed", "the write is in the seed and was delivered as well", in, "[]", part(o.ans, name))
	}
	c2.checkSub(m2, in, sig, sop, o.ans)
	if len(m2.Violations) == 0 {
		m.Count("racea:write-first")
		w.adopt(c2)
		return
	}
	// neither order explains what the subscriber received
	from := m2
	if seedOK1 {
		from = m1 // the seed is the one from before the write: the write had to be delivered
	}
	for _, v := range from.Violations {
		last := v.Signature[strings.LastIndex(v.Signature, "/")+1:]
		m.Violate(sig+"/concurrent-subscribe/"+last, "subscriber opened during a write: seed ++ events do not account for the write exactly once ("+v.What+")", in, v.Expected, v.Observed)
	}
	w.adopt(c1)
}

// checkRaceB: the write was committed but not yet published when the subscriber opened. The seed must
// contain it; its event, published afterwards, must still be the write's own event (id, kind, old and
// new as the writer knows them, change time) - for the new subscriber a stale duplicate whose new value
// IS the seeded value, so folding it changes nothing - or be suppressed by the equivalence.
func (w *writerLog) checkRaceB(m *lib.Monitor, in map[string]any, sig string, op Op, o obs) {
	wop, sop := splitRace(op)
	exp, evTime := w.applyWrite(m, in, wop, o)
	if part(o.ans, "parked") == "true" {
		w.checkSub(m, in, sig, sop, o.ans)
		w.checkDeliveries(m, in, sig, exp, evTime, o.ans)
		return
	}
	w.checkDeliveries(m, in, sig, exp, evTime, o.ans)
	w.checkSub(m, in, sig, sop, o.ans)
}

// checkRaceC: the subscriber opened while the write's Send was delivering (after its snapshot): the
// write is in the seed and nothing of it is delivered to the new subscriber; every later write is
// (checked by the ordinary delivery check of the writes that follow: the subscriber is open from here on).
func (w *writerLog) checkRaceC(m *lib.Monitor, in map[string]any, sig string, op Op, o obs) {
	wop, sop := splitRace(op)
	name, _ := sop.opt("name")
	exp, evTime := w.applyWrite(m, in, wop, o)
	w.checkDeliveries(m, in, sig, exp, evTime, o.ans)
	if got := part(o.ans, name); got != "[]" {
		m.Violate(sig+"/delivered-although-in-seed", "the write is in the seed and was delivered as well", in, "[]", got)
	}
	w.checkSub(m, in, sig, sop, o.ans)
}

// checkRaceD: a Delete whose first read was overtaken by another write of the writer. The two calls are
// serialised by the resource lock, the overtaking write first: its event as usual; then the Delete's:
// a REMOVE whose old value is what the overtaking write left under the id (the value actually removed,
// which is also what Delete returns) - or nothing if the Delete failed.
func (w *writerLog) checkRaceD(m *lib.Monitor, in map[string]any, sig string, op Op, o obs) {
	del, u := splitRaced(op)
	halves := strings.SplitN(o.ans, " || ", 2)
	if len(halves) != 2 {
		m.Violate(sig+"/panic-or-stall", "a call panicked, stalled, or an expected delivery never arrived", in, "two answers", o.ans)
		return
	}
	o1 := obs{ans: strings.Replace(strings.Replace(halves[0], "uval=", "val=", 1), "uerr=", "err=", 1), clk0: o.clk0, clk1: o.clk1, ids: o.ids}
	e1, t1 := w.applyWrite(m, in, u, o1)
	w.checkDeliveries(m, in, sig, e1, t1, o1.ans)
	o2 := obs{ans: halves[1], clk0: o.clk0, clk1: o.clk1}
	e2, t2 := w.applyWrite(m, in, del, o2)
	w.checkDeliveries(m, in, sig, e2, t2, o2.ans)
}

// checkSubID: the seed of a PullID: the item's (projected) current value with its stored change time,
// flagged seed and last-seed, if the item exists and the subscription is not updates-only.
func (w *writerLog) checkSubID(m *lib.Monitor, in map[string]any, op Op, ans string) {
	sig := "C04/Collection.PullID"
	name, _ := op.opt("name")
	id := w.icpt(optOf(op, "id"))
	st := &subState{last: "nil", pid: &id}
	if v, ok := op.opt("rm"); ok {
		st.rm = &v
	}
	w.subs[name] = st
	w.order = append(w.order, name)
	got := splitList(part(ans, "seed"))
	e, exists := w.ref[id]
	if op.has("uo") || !exists {
		if len(got) != 0 {
			m.Violate(sig+"/seed/unexpected-seed", "seed for an updates-only subscription or an absent item", in, "[]", part(ans, "seed"))
		}
		return
	}
	if len(got) != 1 {
		m.Violate(sig+"/seed/count", "an existing item must be seeded by exactly one value", in, "1 value", part(ans, "seed"))
		return
	}
	f := strings.Split(got[0], "|")
	switch {
	case f[0] != proj(e.msg, st.rm):
		m.Violate(sig+"/seed/wrong-value", "seed value is not the (projected) stored item", in, proj(e.msg, st.rm), f[0])
	case f[2] != "SL":
		m.Violate(sig+"/seed/wrong-flags", "the single seed value of an item must be flagged seed and last-seed", in, "SL", f[2])
	case !e.timeOK(f[1]):
		m.Violate(sig+"/seed/wrong-time", "seed does not carry the item's stored change time", in, fmt.Sprint(e), f[1])
	}
}

func (w *writerLog) checkSub(m *lib.Monitor, in map[string]any, sig string, op Op, ans string) {
	o := obs{ans: ans}
	name, _ := op.opt("name")
	st := &subState{last: "nil"}
	if v, ok := op.opt("rm"); ok {
		st.rm = &v
	}
	w.subs[name] = st
	w.order = append(w.order, name)
	got := splitList(part(o.ans, "seed"))
	if op.has("uo") {
		if len(got) != 0 {
			m.Violate(sig+"/seed/updates-only-got-seed", "an updates-only subscription received seed events", in, "[]", part(o.ans, "seed"))
		}
		return
	}
	if w.cfg.Kind == "val" {
		if w.val == nil && w.valUnknown {
			// the writer knows of no value, but a Set it was told had failed did store one
			if len(got) == 1 {
				st.last = strings.Split(got[0], "|")[0]
			}
			return
		}
		if w.val == nil {
			if len(got) != 0 {
				m.Violate(sig+"/seed/count", "seed for an absent value", in, "[]", part(o.ans, "seed"))
			}
			return
		}
		if len(got) != 1 {
			m.Violate(sig+"/seed/count", "a present value must be seeded by exactly one event", in, "1 event", part(o.ans, "seed"))
			return
		}
		f := strings.Split(got[0], "|")
		want := proj(w.val.msg, st.rm)
		t := f[1]
		if w.valUnknown {
			// the last Set was reported as failed after it had stored its value: the writer cannot tell
			// which value is current (only that the seed is flagged as one)
			if f[2] != "SL" {
				m.Violate(sig+"/seed/wrong-flags", "seed of a Value must be flagged seed and last-seed", in, "SL", f[2])
			}
			st.last = f[0]
			return
		}
		switch {
		case f[0] != want:
			m.Violate(sig+"/seed/wrong-value", "seed value is not the (projected) current value", in, want, f[0])
		case f[2] != "SL":
			m.Violate(sig+"/seed/wrong-flags", "seed of a Value must be flagged seed and last-seed", in, "SL", f[2])
		case !w.val.timeOK(t):
			m.Violate(sig+"/seed/wrong-time", "seed does not carry the stored change time", in, fmt.Sprint(*w.val), f[1])
		}
		st.last = want
		return
	}
	ids := make([]string, 0, len(w.ref))
	for id := range w.ref {
		ids = append(ids, id)
	}
	sort.Strings(ids)
	if len(got) != len(ids) {
		m.Violate(sig+"/seed/count", "seed must have one event per stored item", in, fmt.Sprint(ids), part(o.ans, "seed"))
		return
	}
	for k, id := range ids {
		f := strings.Split(got[k], "|")
		e := w.ref[id]
		t := f[1]
		wantFlags := "S"
		if k == len(ids)-1 {
			wantFlags = "SL"
		}
		switch {
		case f[0] != id:
			m.Violate(sig+"/seed/not-sorted-by-id", "seed events are not the stored ids in increasing order", in, fmt.Sprint(ids), part(o.ans, "seed"))
		case f[2] != "ADD" || f[3] != "nil" || f[4] != proj(e.msg, st.rm):
			m.Violate(sig+"/seed/wrong-event", "seed event is not ADD(nil -> projected item)", in, "ADD|nil|"+proj(e.msg, st.rm), got[k])
		case f[5] != wantFlags:
			m.Violate(sig+"/seed/wrong-flags", "seed flags: all seed, exactly the last one last-seed", in, wantFlags, f[5])
		case !e.timeOK(t):
			m.Violate(sig+"/seed/wrong-time", "seed does not carry the item's stored change time", in, fmt.Sprint(e), f[1])
		}
	}
}

// applyWrite: what the writer saw of one write; updates the writer's view of the contents and returns
// the one event the write must have announced (nil: none) and the rule its change time obeys.
func (w *writerLog) applyWrite(m *lib.Monitor, in map[string]any, op Op, o obs) (*[5]string, refEntry) {
	// a write: what did the writer see?
	val, errc := part(o.ans, "val"), part(o.ans, "err")
	ent := refEntry{lo: o.clk0, hi: o.clk1}
	if v, ok := op.opt("wt"); ok {
		ent.exact = true
		ent.t = v
	}
	evTime := ent      // event time obeys the same rule as the stored time
	var exp *[5]string // id, kind, old, new (unprojected) of the one expected event; nil = none
	switch {
	case errc != "-" || val == "nil":
		// failed write, or Delete of a missing id with allow-missing: nothing changed
		if op.Op == "vset" && errc == "Unknown" && w.stalled() {
			w.valUnknown = true
		}
	case op.Op == "vset":
		exp = &[5]string{"", "", "", val}
		ent.msg = val
		w.val = &ent
		w.valUnknown = false
	case op.Op == "del":
		id := w.icpt(op.ID)
		old, ok := w.ref[id]
		if !ok || old.msg != val {
			m.Violate("C04/Collection.Delete/returned-not-stored", "Delete returned something else than the value the writer last wrote", in, old.msg, val)
		}
		exp = &[5]string{id, "REMOVE", val, "nil"}
		evTime = refEntry{lo: o.clk0, hi: o.clk1} // Delete has no write time: c.clock.Now()
		delete(w.ref, id)
	default:
		id := w.icpt(op.ID)
		// an id is absent when the caller gave none (decided on the id as given, before the id interceptor:
		// fix 929e9c0 in /repo) or when the interceptor maps it to the empty key
		if (op.ID == "" || id == "") && op.has("gid") {
			ids := splitList(o.ids)
			if len(ids) != 1 {
				return nil, evTime // the writer did not ask to hear the generated id: nothing to compare ids with
			}
			id = ids[0]
		}
		old, existed := w.ref[id]
		if existed {
			exp = &[5]string{id, "UPDATE", old.msg, val}
		} else {
			exp = &[5]string{id, "ADD", "nil", val}
		}
		ent.msg = val
		w.ref[id] = ent
	}
	return exp, evTime
}

func (w *writerLog) checkDeliveries(m *lib.Monitor, in map[string]any, sig string, exp *[5]string, evTime refEntry, ans string) {
	o := obs{ans: ans}
	for _, name := range w.order {
		st := w.subs[name]
		if st.pid != nil {
			w.checkPidDelivery(m, in, st, exp, evTime, part(o.ans, name))
			continue
		}
		got := splitList(part(o.ans, name))
		if st.held {
			// nothing can be received while held; the event of a successful write is owed
			if len(got) > 0 {
				m.Violate(sig+"/held-subscriber-received", "a subscriber that was not receiving received an event", in, "[]", part(o.ans, name))
			}
			if exp != nil && w.cfg.Kind != "val" {
				oldP, newP := proj(exp[2], st.rm), proj(exp[3], st.rm)
				if eqv := effEqv(w.cfg.Eqv); eqv == "" || !eqvHolds(eqv, oldP, newP) {
					st.owed = append(st.owed, owedEvent{val: exp[0] + "|" + exp[1] + "|" + oldP + "|" + newP, t: evTime})
				}
			} else if exp != nil {
				st.owed = append(st.owed, owedEvent{val: proj(exp[3], st.rm), t: evTime})
			} else if w.stalled() && part(o.ans, "err") == "Unknown" {
				st.dlFailed++
			}
			continue
		}
		var want []string
		suppressed := false
		if exp != nil {
			if w.cfg.Kind == "val" {
				v := proj(exp[3], st.rm)
				if eqv := effEqv(w.cfg.Eqv); eqv != "" && eqvHolds(eqv, st.last, v) {
					suppressed = true
				} else {
					want = []string{v}
					st.last = v
				}
			} else {
				oldP, newP := proj(exp[2], st.rm), proj(exp[3], st.rm)
				if eqv := effEqv(w.cfg.Eqv); eqv != "" && eqvHolds(eqv, oldP, newP) {
					suppressed = true
				} else {
					want = []string{exp[0] + "|" + exp[1] + "|" + oldP + "|" + newP}
				}
			}
		}
		switch {
		case len(got) > 0 && exp == nil && w.stalled() && part(o.ans, "err") == "Unknown":
			m.Violate(sig+"/event-for-deadline-failed-write", "a Set that gave up announcing (a subscriber registered later did not take the event in time) was reported as failed, yet this subscriber was handed its event", in, "[]", part(o.ans, name))
			continue
		case len(got) > 0 && exp == nil:
			m.Violate(sig+"/event-for-failed-write", "a failed (or no-op) write produced an event", in, "[]", part(o.ans, name))
			continue
		case len(got) > 0 && suppressed:
			m.Violate(sig+"/equivalent-not-suppressed", "an event whose compared pair the equivalence relates was delivered", in, "[]", part(o.ans, name))
			continue
		case len(got) == 0 && len(want) == 1:
			m.Violate(sig+"/missing-event", "a successful write produced no event although no configured equivalence relates the compared pair", in, want[0], "[]")
			continue
		case len(got) > 1:
			m.Violate(sig+"/more-than-one-event", "one write produced several events", in, "one event", part(o.ans, name))
			continue
		case len(got) == 0:
			continue
		}
		f := strings.Split(got[0], "|")
		if w.cfg.Kind == "val" {
			t := f[1]
			switch {
			case f[0] != want[0]:
				m.Violate(sig+"/wrong-new", "event value is not the (projected) result returned to the writer", in, want[0], f[0])
			case f[2] != "":
				m.Violate(sig+"/wrong-flags", "an update is flagged as seed", in, "", f[2])
			case !evTime.timeOK(t):
				m.Violate(sig+"/wrong-time", "change time is neither the write time nor a clock reading taken during the write", in, fmt.Sprint(evTime), f[1])
			}
			continue
		}
		t := f[1]
		wf := strings.Split(want[0], "|")
		switch {
		case f[0] != wf[0]:
			m.Violate(sig+"/wrong-id", "event id is not the id written", in, wf[0], f[0])
		case f[2] != wf[1]:
			m.Violate(sig+"/wrong-kind", "kind must be ADD iff the id was absent, UPDATE otherwise, REMOVE for Delete", in, wf[1], f[2])
		case f[3] != wf[2]:
			m.Violate(sig+"/wrong-old", "old value is not the previous new value for that id", in, wf[2], f[3])
		case f[4] != wf[3]:
			m.Violate(sig+"/wrong-new", "new value is not the result returned to the writer", in, wf[3], f[4])
		case f[5] != "":
			m.Violate(sig+"/wrong-flags", "an update is flagged as seed", in, "", f[5])
		case !evTime.timeOK(t):
			m.Violate(sig+"/wrong-time", "change time is neither the write time nor a clock reading taken during the write", in, fmt.Sprint(evTime), f[1])
		}
	}
}

// stalled: some held subscriber is owed an event (its forwarder holds it: the next announcement finds
// that listener not taking events)
func (w *writerLog) stalled() bool {
	for _, st := range w.subs {
		if st.held && len(st.owed) > 0 {
			return true
		}
	}
	return false
}

// checkResume: a held subscriber receives again: exactly the events of the successful writes made
// while it was held, once each, in write order.
func (w *writerLog) checkResume(m *lib.Monitor, in map[string]any, sig string, op Op, o obs) {
	name := optOf(op, "name")
	st := w.subs[name]
	if st == nil {
		return
	}
	got := splitList(part(o.ans, name))
	owed, dlFailed := st.owed, st.dlFailed
	st.held, st.owed, st.dlFailed = false, nil, 0
	if len(got) < len(owed) {
		m.Violate(sig+"/missing-event", "a successful write produced no event although no configured equivalence relates the compared pair", in, fmt.Sprint(len(owed), " events after resuming"), part(o.ans, name))
		return
	}
	if len(got) > len(owed) && len(got)-len(owed) <= dlFailed {
		m.Violate(sig+"/event-for-deadline-failed-write", "a Set that gave up announcing (a subscriber registered later did not take the event in time) was reported as failed, yet this subscriber was handed its event", in, fmt.Sprint(len(owed), " events after resuming"), part(o.ans, name))
		return
	}
	if len(got) > len(owed) {
		m.Violate(sig+"/event-for-failed-write", "a failed (or no-op) write produced an event", in, fmt.Sprint(len(owed), " events after resuming"), part(o.ans, name))
		return
	}
	for k, e := range owed {
		f := strings.Split(got[k], "|")
		if w.cfg.Kind != "val" {
			if len(f) < 6 {
				m.Violate(sig+"/panic-or-stall", "a call panicked, stalled, or an expected delivery never arrived", in, e.val, got[k])
				continue
			}
			switch wf := strings.Split(e.val, "|"); {
			case f[0] != wf[0]:
				m.Violate(sig+"/wrong-id", "event id is not the id written", in, wf[0], f[0])
			case f[2] != wf[1]:
				m.Violate(sig+"/wrong-kind", "kind must be ADD iff the id was absent, UPDATE otherwise, REMOVE for Delete", in, wf[1], f[2])
			case f[3] != wf[2]:
				m.Violate(sig+"/wrong-old", "old value is not the previous new value for that id", in, wf[2], f[3])
			case f[4] != wf[3]:
				m.Violate(sig+"/wrong-new", "new value is not the result returned to the writer", in, wf[3], f[4])
			case f[5] != "":
				m.Violate(sig+"/wrong-flags", "an update is flagged as seed", in, "", f[5])
			case !e.t.timeOK(f[1]):
				m.Violate(sig+"/wrong-time", "change time is neither the write time nor a clock reading taken during the write", in, fmt.Sprint(e.t), f[1])
			}
			continue
		}
		switch {
		case f[0] != e.val:
			m.Violate(sig+"/wrong-new", "event value is not the (projected) result returned to the writer", in, e.val, f[0])
		case f[2] != "":
			m.Violate(sig+"/wrong-flags", "an update is flagged as seed", in, "", f[2])
		case !e.t.timeOK(f[1]):
			m.Violate(sig+"/wrong-time", "change time is neither the write time nor a clock reading taken during the write", in, fmt.Sprint(e.t), f[1])
		}
		st.last = e.val
	}
}

// checkPidDelivery: a PullID subscriber receives the new value of every successful ADD/UPDATE of its
// id, nothing for other ids, and its stream ends (channel closed, marked $) with the REMOVE of its id.
func (w *writerLog) checkPidDelivery(m *lib.Monitor, in map[string]any, st *subState, exp *[5]string, evTime refEntry, got string) {
	sig := "C04/Collection.PullID"
	closed := strings.HasSuffix(got, "$")
	list := splitList(strings.TrimSuffix(got, "$"))
	if strings.Contains(got, "!not-closed") {
		m.Violate(sig+"/not-closed-after-remove", "the stream did not end when the item was removed", in, "closed channel", got)
		return
	}
	if st.ended {
		if !closed || len(list) != 0 {
			m.Violate(sig+"/event-after-end", "a PullID stream delivered something after its item was removed", in, "[]$", got)
		}
		return
	}
	var want []string
	if exp != nil && exp[0] == *st.pid {
		// PullID forwards what its Pull delivers: a change whose (projected) old and new value the
		// configured equivalence relates is suppressed there - also a REMOVE, if the equivalence
		// relates the item to "no item": then the stream goes on
		oldP, newP := proj(exp[2], st.rm), proj(exp[3], st.rm)
		switch {
		case effEqv(w.cfg.Eqv) != "" && eqvHolds(effEqv(w.cfg.Eqv), oldP, newP):
		case exp[1] == "REMOVE":
			st.ended = true
		default:
			want = []string{newP}
		}
	}
	switch {
	case closed != st.ended:
		m.Violate(sig+"/wrong-end", "the stream must end exactly when its item is removed", in, fmt.Sprint("ended=", st.ended), got)
	case len(list) != len(want) && len(want) == 0:
		m.Violate(sig+"/unexpected-event", "a PullID subscriber received an event that is not a successful write of its id", in, "[]", got)
	case len(list) != len(want):
		m.Violate(sig+"/missing-event", "a successful write of the id was not delivered", in, want[0], got)
	case len(want) == 1:
		f := strings.Split(list[0], "|")
		switch {
		case f[0] != want[0]:
			m.Violate(sig+"/wrong-new", "value is not the (projected) result returned to the writer", in, want[0], f[0])
		case f[2] != "":
			m.Violate(sig+"/wrong-flags", "an update is flagged as seed", in, "", f[2])
		case !evTime.timeOK(f[1]):
			m.Violate(sig+"/wrong-time", "change time is neither the write time nor a clock reading taken during the write", in, fmt.Sprint(evTime), f[1])
		}
	}
}

// ---------------------------------------------------------------------------------------------
// generators

func fixedScripts() []Script {
	return []Script{
		// PullID: seed flagged last-seed although "a" is not the greatest id; other ids skipped; ends on REMOVE
		{Cfg: Cfg{Kind: "coll", Tick: 1, Init: []string{"a~2//3", "b~1//-"}}, Ops: []Op{
			{Op: "subid", Opts: []string{"name=p", "id=a", "rm=a"}}, {Op: "subid", Opts: []string{"name=q", "id=c"}},
			{Op: "upd", ID: "b", Msg: "5//-"}, {Op: "upd", ID: "a", Msg: "5/z/-"}, {Op: "add", ID: "c", Msg: "1//-"},
			{Op: "del", ID: "a"}, {Op: "add", ID: "a", Msg: "1//-"}, {Op: "del", ID: "c"}}},
		// boundary write times: the zero time.Time, the Unix epoch, before the epoch - live event and later seed
		{Cfg: Cfg{Kind: "coll", Tick: 1}, Ops: []Op{
			{Op: "sub", Opts: []string{"name=k1"}}, {Op: "add", ID: "a", Msg: "1//-", Opts: []string{"wt=" + zeroInstant}},
			{Op: "upd", ID: "a", Msg: "2//-", Opts: []string{"wt=" + showTime(time.Unix(0, 0))}}, {Op: "sub", Opts: []string{"name=k2"}},
			{Op: "upd", ID: "a", Msg: "3//-", Opts: []string{"wt=" + zeroInstant}}, {Op: "sub", Opts: []string{"name=k3"}},
			{Op: "add", ID: "b", Msg: "1//-", Opts: []string{"wt=" + showTime(time.Unix(-5, 7))}}, {Op: "sub", Opts: []string{"name=k4", "rm=a"}}}},
		{Cfg: Cfg{Kind: "val", Tick: 1, Init: []string{"1//-"}}, Ops: []Op{
			{Op: "sub", Opts: []string{"name=k1"}}, {Op: "vset", Msg: "2//-", Opts: []string{"wt=" + zeroInstant}},
			{Op: "sub", Opts: []string{"name=k2"}}, {Op: "vset", Msg: "3//-", Opts: []string{"wt=" + showTime(time.Unix(1<<40, 0))}},
			{Op: "sub", Opts: []string{"name=k3"}}}},
		{Cfg: Cfg{Kind: "coll", Tick: 1, Init: []string{"b~1/x/-", "a~2//3"}}, Ops: []Op{
			{Op: "sub", Opts: []string{"name=k1"}}, {Op: "add", ID: "c", Msg: "1//-"}, {Op: "add", ID: "c", Msg: "2//-"},
			{Op: "upd", ID: "c", Msg: "5//-", Opts: []string{"wt=40"}}, {Op: "del", ID: "c"}, {Op: "add", ID: "c", Msg: "7//-"},
			{Op: "del", ID: "zz", Opts: []string{"am"}}, {Op: "sub", Opts: []string{"name=k2", "rm=a"}}, {Op: "del", ID: "a"}}},
		// option LISTS: an equivalence switched on and then off again (re-statements are events), replaced
		{Cfg: Cfg{Kind: "val", Tick: 1, Init: []string{"1/x/-"}, Eqv: "equal,nil"}, Ops: []Op{
			{Op: "sub", Opts: []string{"name=v"}}, {Op: "sub", Opts: []string{"name=w", "rm=a"}}, {Op: "vset", Msg: "1/x/-"},
			{Op: "vset", Msg: "1/y/-"}, {Op: "vset", Msg: "1/y/-", Opts: []string{"wt=3"}}, {Op: "vset", Msg: "2/y/-"}}},
		{Cfg: Cfg{Kind: "coll", Tick: 1, Init: []string{"a~1/x/-"}, Eqv: "sameA,nil"}, Ops: []Op{
			{Op: "sub", Opts: []string{"name=v"}}, {Op: "sub", Opts: []string{"name=w", "rm=a"}}, {Op: "upd", ID: "a", Msg: "1/x/-"},
			{Op: "upd", ID: "a", Msg: "1/y/-"}, {Op: "subid", Opts: []string{"name=p", "id=a"}}, {Op: "upd", ID: "a", Msg: "1/y/-"}, {Op: "del", ID: "a"}}},
		{Cfg: Cfg{Kind: "val", Tick: 1, Init: []string{"1/x/-"}, Eqv: "equal,sameA"}, Ops: []Op{
			{Op: "sub", Opts: []string{"name=v"}}, {Op: "vset", Msg: "1/y/-"}, {Op: "vset", Msg: "2/y/-"}, {Op: "vset", Msg: "2/y/-"}}},
		{Cfg: Cfg{Kind: "coll", Tick: 1, Init: []string{"a~1/x/-"}, Eqv: "nil,equal"}, Ops: []Op{
			{Op: "sub", Opts: []string{"name=v"}}, {Op: "upd", ID: "a", Msg: "1/x/-"}, {Op: "upd", ID: "a", Msg: "1/y/-"}}},
		{Cfg: Cfg{Kind: "val", Tick: 1, Init: []string{"1/x/-"}, Eqv: "equal"}, Ops: []Op{
			{Op: "sub", Opts: []string{"name=v", "rm=a"}}, {Op: "vset", Msg: "1/y/-"}, {Op: "vset", Msg: "2/y/-"},
			{Op: "vset", Msg: "3//-", Opts: []string{"ev=9//-"}}}},
	}
}

// the resource's equivalence options, in the order they are passed (the last one decides; "nil" =
// WithEquivalence(nil): set and cleared again, cleared and set, replaced)
var eqvPool = []string{"", "", "", "equal", "sameA", "equal,nil", "sameA,equal,nil", "nil", "nil,sameA", "equal,sameA", "sameA,nil,equal"}

// read masks include NESTED shapes: a message field together with a path inside it (names what the parent
// names), paths inside only, inner path before its parent
var subOptPool = [][]string{nil, nil, {"uo"}, {"rm=a"}, {"rm=s,c"}, {"rm=0"}, {"uo", "rm=a"}, {"rm=f,fc"}, {"rm=fd,a,f"}, {"rm=fc"},
	{"rm=fc,fd,s"}, {"uo", "rm=s,f,fd"}, {"rm=f,r"}}

// raceOp wraps a write and a subscription into a scenario op.
func raceOp(kind string, w Op, name string, subOpts []string) Op {
	o := Op{Op: kind, ID: w.ID, Msg: w.Msg, Opts: append([]string(nil), w.Opts...)}
	o.Opts = append(o.Opts, "w="+w.Op, "sname="+name)
	for _, t := range subOpts {
		if t == "uo" {
			o.Opts = append(o.Opts, "suo")
		} else if strings.HasPrefix(t, "rm=") {
			o.Opts = append(o.Opts, "s"+t)
		}
	}
	return o
}

func genWrite(r *rand.Rand, s Script, o *oracle) Op {
	var op Op
	if s.Cfg.Kind == "val" {
		return Op{Op: "vset", Msg: genMsg(r), Opts: genWriteOpts(r, "vset", o.val)}
	}
	id := pick(r, idPool)
	if len(o.items) > 0 && r.Intn(2) == 0 {
		ids := make([]string, 0, len(o.items))
		for k := range o.items {
			ids = append(ids, k)
		}
		id = pick(r, sortedCopy(ids))
	}
	var cur *rmsg
	if it, ok := o.items[o.icpt(id)]; ok {
		cur = &it.m
	}
	switch k := r.Intn(100); {
	case k < 40:
		op = Op{Op: "upd", ID: id, Msg: genMsg(r), Opts: genWriteOpts(r, "upd", cur)}
	case k < 70:
		op = Op{Op: "add", ID: id, Msg: genMsg(r), Opts: genWriteOpts(r, "add", cur)}
	default:
		op = Op{Op: "del", ID: id, Opts: genWriteOpts(r, "del", cur)}
	}
	// the writer always asks to hear a generated id
	if op.has("gid") && !op.has("icb") {
		op.Opts = append(op.Opts, "icb")
	}
	return op
}

func genHistory(r *rand.Rand, n int) Script {
	s := Script{Cfg: genCfg(r)}
	s.Cfg.Eqv = pick(r, eqvPool)
	o := newOracle(s.Cfg)
	live := []string{}
	nsub := 0
	for i := 0; i < n; i++ {
		k := r.Intn(100)
		maxLive := 3
		if effEqv(s.Cfg.Eqv) != "" {
			maxLive = 1
		}
		switch {
		case (k < 22 || i == 0 && k < 70) && len(live) < maxLive:
			nsub++
			name := fmt.Sprintf("k%d", nsub)
			live = append(live, name)
			so := pick(r, subOptPool)
			if s.Cfg.Kind == "coll" && r.Intn(100) < 25 {
				// PullID of an id that exists, will exist, or never does
				id := pick(r, idPool)
				if len(o.items) > 0 && r.Intn(3) > 0 {
					ids := make([]string, 0, len(o.items))
					for k := range o.items {
						ids = append(ids, k)
					}
					id = pick(r, sortedCopy(ids))
				}
				s.Ops = append(s.Ops, Op{Op: "subid", Opts: append([]string{"name=" + name, "id=" + id}, so...)})
				continue
			}
			if effEqv(s.Cfg.Eqv) == "" && len(live) < maxLive && r.Intn(100) < 15 {
				// two subscribers register at the same time
				nsub++
				name2 := fmt.Sprintf("k%d", nsub)
				live = append(live, name2)
				s.Ops = append(s.Ops, racefOp(name, so, name2, pick(r, subOptPool), pick(r, []string{"12", "21"})))
				continue
			}
			if r.Intn(100) < 45 {
				// the subscriber opens while a write is in flight
				w := genWrite(r, s, o)
				o.step(w)
				s.Ops = append(s.Ops, raceOp(pick(r, []string{"racea", "racea", "raceb", "racec", "racec"}), w, name, so))
				continue
			}
			s.Ops = append(s.Ops, Op{Op: "sub", Opts: append([]string{"name=" + name}, so...)})
			continue
		case k < 30 && len(live) > 0:
			j := r.Intn(len(live))
			if r.Intn(100) < 40 {
				// the subscription is cancelled while a write's Send is delivering
				w := genWrite(r, s, o)
				o.step(w)
				s.Ops = append(s.Ops, raceeOp(w, live[j]))
			} else {
				s.Ops = append(s.Ops, Op{Op: "unsub", Opts: []string{"name=" + live[j]}})
			}
			live = append(live[:j], live[j+1:]...)
			continue
		}
		op := genWrite(r, s, o)
		if op.Op == "del" && r.Intn(100) < 25 {
			// this Delete is overtaken by another write between its first read and its write lock
			u := genWrite(r, s, o)
			var keep []string
			for _, t := range u.Opts {
				if t == "cia" || strings.HasPrefix(t, "wt=") {
					keep = append(keep, t)
				}
			}
			u.Opts = keep
			o.step(u)
			o.step(op)
			s.Ops = append(s.Ops, racedOp(op, u))
			continue
		}
		o.step(op)
		s.Ops = append(s.Ops, op)
	}
	return s
}

// raceScope: ALL (prefix, write in flight, follow-up write) over the small alphabet x both scenario
// kinds x subscription options x equivalence, for Collection and Value.
func (h *harness) raceScope(tie *lib.Tie) {
	var alpha []Op
	for _, id := range []string{"a", "b"} {
		alpha = append(alpha, Op{Op: "add", ID: id, Msg: "1//-"}, Op{Op: "upd", ID: id, Msg: "2/x/-/3:4/-", Opts: []string{"cia"}},
			Op{Op: "upd", ID: id, Msg: "1/y/-", Opts: []string{"um=s", "wt=9"}}, Op{Op: "del", ID: id})
	}
	alpha = append(alpha, Op{Op: "upd", ID: "a", Msg: "3//-", Opts: []string{"ev=1//-"}})
	valpha := []Op{{Op: "vset", Msg: "1//-"}, {Op: "vset", Msg: "2/x/-/3:4/-"}, {Op: "vset", Msg: "2/y/-", Opts: []string{"um=s", "wt=9"}},
		{Op: "vset", Msg: "3//-", Opts: []string{"ev=1//-"}}}
	subOpts := [][]string{nil, {"uo"}, {"rm=a,f,fc"}}
	run := func(kind string, alpha []Op, inits [][]string) {
		prefixes := [][]Op{nil}
		for _, a := range alpha {
			prefixes = append(prefixes, []Op{a})
		}
		for _, init := range inits {
			for _, pre := range prefixes {
				for _, w := range alpha {
					for _, rk := range []string{"racea", "raceb"} {
						for _, so := range subOpts {
							for _, eqv := range []string{"", "equal"} {
								var ops []Op
								ops = append(ops, pre...)
								ops = append(ops, raceOp(rk, w, "k", so))
								ops = append(ops, alpha[:3]...) // three follow-up writes
								h.runScript(Script{Cfg: Cfg{Kind: kind, Tick: 1, Eqv: eqv, Init: init}, Ops: ops}, tie)
							}
						}
					}
				}
			}
		}
	}
	run("coll", alpha, [][]string{nil, {"a~1//-"}})
	run("val", valpha, [][]string{nil, {"1//-"}})
	// subscriber churn around a Send in flight (racec): the listeners the Send's snapshot holds are
	// {none, a cancelled one, a cancelled and a live one, a live and a cancelled one}; the new
	// subscriber registers after the snapshot; the follow-up writes must reach it.
	churns := [][]Op{nil,
		{{Op: "sub", Opts: []string{"name=g"}}, {Op: "unsub", Opts: []string{"name=g"}}},
		{{Op: "sub", Opts: []string{"name=g", "uo"}}, {Op: "unsub", Opts: []string{"name=g"}}, {Op: "sub", Opts: []string{"name=h"}}},
		{{Op: "sub", Opts: []string{"name=h", "rm=a"}}, {Op: "sub", Opts: []string{"name=g"}}, {Op: "unsub", Opts: []string{"name=g"}}}}
	runC := func(kind string, alpha []Op, inits [][]string) {
		for _, init := range inits {
			for ci, churn := range churns {
				for _, w := range alpha {
					for _, so := range subOpts {
						for _, eqv := range []string{"", "equal"} {
							if eqv != "" && ci >= 2 {
								continue // the decisions of the equivalence are attributed to ONE live subscriber
							}
							var ops []Op
							ops = append(ops, churn...)
							ops = append(ops, raceOp("racec", w, "k", so))
							ops = append(ops, alpha[:3]...)
							h.runScript(Script{Cfg: Cfg{Kind: kind, Tick: 1, Eqv: eqv, Init: init}, Ops: ops}, tie)
						}
					}
				}
			}
		}
	}
	runC("coll", alpha, [][]string{nil, {"a~1//-"}})
	runC("val", valpha, [][]string{nil, {"1//-"}})
	// a subscription cancelled while a Send is delivering (racee): the snapshot holds {the cancelled one,
	// the cancelled one and a live one before / after it, the cancelled one and an already dead one}
	cancels := [][]Op{
		{{Op: "sub", Opts: []string{"name=g"}}},
		{{Op: "sub", Opts: []string{"name=h", "rm=a"}}, {Op: "sub", Opts: []string{"name=g"}}},
		{{Op: "sub", Opts: []string{"name=g", "uo"}}, {Op: "sub", Opts: []string{"name=h"}}},
		{{Op: "sub", Opts: []string{"name=d"}}, {Op: "unsub", Opts: []string{"name=d"}}, {Op: "sub", Opts: []string{"name=g"}}, {Op: "sub", Opts: []string{"name=h", "uo"}}}}
	runE := func(kind string, alpha []Op, inits [][]string) {
		prefixes := [][]Op{nil}
		for _, a := range alpha {
			prefixes = append(prefixes, []Op{a})
		}
		for _, init := range inits {
			for ci, churn := range cancels {
				for _, pre := range prefixes {
					for _, w := range alpha {
						for _, eqv := range []string{"", "equal"} {
							if eqv != "" && ci >= 1 {
								continue // the decisions of the equivalence are attributed to ONE live subscriber
							}
							var ops []Op
							ops = append(ops, churn...)
							ops = append(ops, pre...)
							ops = append(ops, raceeOp(w, "g"))
							ops = append(ops, alpha[:3]...)
							h.runScript(Script{Cfg: Cfg{Kind: kind, Tick: 1, Eqv: eqv, Init: init}, Ops: ops}, tie)
						}
					}
				}
			}
		}
	}
	runE("coll", alpha, [][]string{nil, {"a~1//-"}})
	runE("val", valpha, [][]string{nil, {"1//-"}})
	// two subscribers inside Bus.Listen at the same time (racef): both held at bus.listen.beforeRegister,
	// released in either order; the bus holds {no, a live, a cancelled and not yet collected} listener
	// before; ALL pairs of subscription options; three follow-up writes must reach both
	befores := [][]Op{nil, {{Op: "sub", Opts: []string{"name=h", "rm=a"}}},
		{{Op: "sub", Opts: []string{"name=d"}}, {Op: "unsub", Opts: []string{"name=d"}}}}
	runF := func(kind string, alpha []Op, inits [][]string) {
		for _, init := range inits {
			for _, before := range befores {
				for _, o1 := range subOpts {
					for _, o2 := range subOpts {
						for _, order := range []string{"12", "21"} {
							var ops []Op
							ops = append(ops, before...)
							ops = append(ops, racefOp("k", o1, "m", o2, order))
							ops = append(ops, alpha[:3]...)
							h.runScript(Script{Cfg: Cfg{Kind: kind, Tick: 1, Init: init}, Ops: ops}, tie)
						}
					}
				}
			}
		}
	}
	runF("coll", alpha, [][]string{nil, {"a~1//-"}})
	runF("val", valpha, [][]string{nil, {"1//-"}})
	// a Delete overtaken, between its first read and its write lock, by another write (raced): ALL
	// (initial contents, prefix write, Delete options, overtaking write), two subscribers watching
	overtaking := []Op{{Op: "upd", ID: "a", Msg: "2/x/-/3:4/-", Opts: []string{"cia"}}, {Op: "upd", ID: "a", Msg: "3//-"},
		{Op: "upd", ID: "a", Msg: "1/y/-", Opts: []string{"cia", "wt=9"}}, {Op: "add", ID: "a", Msg: "1//-"}, {Op: "del", ID: "a"},
		{Op: "upd", ID: "b", Msg: "2/x/-/3:4/-", Opts: []string{"cia"}}}
	delOpts := [][]string{nil, {"am"}, {"ev=1//-"}, {"chk=aEq:1"}}
	prefixes := [][]Op{nil}
	for _, a := range alpha {
		prefixes = append(prefixes, []Op{a})
	}
	for _, init := range [][]string{nil, {"a~1//-"}} {
		for _, pre := range prefixes {
			for _, do := range delOpts {
				for _, u := range overtaking {
					ops := []Op{{Op: "sub", Opts: []string{"name=k"}}, {Op: "sub", Opts: []string{"name=m", "rm=a"}}}
					ops = append(ops, pre...)
					ops = append(ops, racedOp(Op{Op: "del", ID: "a", Opts: do}, u))
					ops = append(ops, alpha[:3]...)
					h.runScript(Script{Cfg: Cfg{Kind: "coll", Tick: 1, Init: init}, Ops: ops}, tie)
				}
			}
		}
	}
}

func (h *harness) smallScope(maxLen int) {
	var alpha []Op
	for _, id := range []string{"a", "b"} {
		alpha = append(alpha, Op{Op: "add", ID: id, Msg: "1//-"}, Op{Op: "upd", ID: id, Msg: "2/x/-/3:4/-", Opts: []string{"cia"}},
			Op{Op: "upd", ID: id, Msg: "1/y/-", Opts: []string{"um=s", "wt=9"}}, Op{Op: "del", ID: id})
	}
	alpha = append(alpha, Op{Op: "upd", ID: "a", Msg: "3//-", Opts: []string{"ev=1//-"}})
	subOpts := [][]string{nil, {"uo"}, {"rm=a,f,fc"}}
	var rec func(ops []Op)
	rec = func(ops []Op) {
		if len(ops) > 0 {
			for p := 0; p <= len(ops); p++ {
				// without an equivalence the three kinds of subscriber open together (they are served
				// independently); with one, one at a time (its decisions are attributed to ONE subscriber)
				var full []Op
				full = append(full, ops[:p]...)
				for k, so := range subOpts {
					full = append(full, Op{Op: "sub", Opts: append([]string{fmt.Sprintf("name=k%d", k)}, so...)})
				}
				full = append(full, ops[p:]...)
				h.runScript(Script{Cfg: Cfg{Kind: "coll", Tick: 1}, Ops: full}, h.tieS)
				// ... and, for subscribers that watch the whole history, the same on a resource whose option
				// list switched an equivalence on and off again (the list is resolved when the resource is
				// built: the subscription point does not matter to it)
				if p == 0 {
					h.runScript(Script{Cfg: Cfg{Kind: "coll", Tick: 1, Eqv: "equal,nil"}, Ops: full}, h.tieS)
				}
				for _, so := range subOpts {
					full = append([]Op(nil), ops[:p]...)
					full = append(full, Op{Op: "sub", Opts: append([]string{"name=k"}, so...)})
					full = append(full, ops[p:]...)
					h.runScript(Script{Cfg: Cfg{Kind: "coll", Tick: 1, Eqv: "equal"}, Ops: full}, h.tieS)
				}
			}
		}
		if len(ops) == maxLen {
			return
		}
		for _, a := range alpha {
			rec(append(append([]Op(nil), ops...), a))
		}
	}
	rec(nil)
	h.tieS.Count(fmt.Sprintf("alphabet=%d maxLen=%d", len(alpha), maxLen))
}

// pullIDScope: ALL short histories x subscription points for ONE PullID("a") subscriber, with and
// without a resource equivalence (its decisions are attributed to the PullID's inner Pull and the
// harness's shadow Pull, which are the only listeners).
func (h *harness) pullIDScope(maxLen int) {
	alpha := []Op{{Op: "add", ID: "a", Msg: "1//-"}, {Op: "upd", ID: "a", Msg: "2/x/-/3:4/-", Opts: []string{"cia"}},
		{Op: "upd", ID: "a", Msg: "1/y/-", Opts: []string{"um=s", "wt=9"}}, {Op: "upd", ID: "a", Msg: "0/x/-", Opts: []string{"cia"}},
		{Op: "del", ID: "a"}, {Op: "add", ID: "b", Msg: "1//-"}}
	subOpts := [][]string{nil, {"rm=a,f,fc"}}
	var rec func(ops []Op)
	rec = func(ops []Op) {
		if len(ops) > 0 {
			for p := 0; p <= len(ops); p++ {
				for _, so := range subOpts {
					for _, eqv := range []string{"", "equal", "sameA"} {
						full := append([]Op(nil), ops[:p]...)
						full = append(full, Op{Op: "subid", Opts: append([]string{"name=k", "id=a"}, so...)})
						full = append(full, ops[p:]...)
						h.runScript(Script{Cfg: Cfg{Kind: "coll", Tick: 1, Eqv: eqv}, Ops: full}, h.tieP)
					}
				}
			}
		}
		if len(ops) == maxLen {
			return
		}
		for _, a := range alpha {
			rec(append(append([]Op(nil), ops...), a))
		}
	}
	rec(nil)
	h.tieP.Count(fmt.Sprintf("alphabet=%d maxLen=%d", len(alpha), maxLen))
}

// ---------------------------------------------------------------------------------------------

func replay(f lib.Flags) int {
	rp, err := lib.ReadReplay(f.Replay)
	if err != nil {
		lib.Fatal(err)
	}
	in, ok := rp.Input.(map[string]any)
	if ok && in["waste"] != nil {
		return replayWaste(in["waste"])
	}
	if !ok || in["script"] == nil {
		fmt.Println("replay: no concrete input in file (", rp.Kind, rp.Broken, ")")
		return 2
	}
	b, _ := json.Marshal(in["script"])
	var s Script
	if err := json.Unmarshal(b, &s); err != nil {
		lib.Fatal(err)
	}
	m := lib.NewMonitor("replay", "")
	code := runCode(s)
	w := newWriterLog(s.Cfg)
	for i, op := range s.Ops {
		fmt.Printf("%-50s -> %s\n", opLine(op), code[i].ans)
		w.check(m, s, i, code[i])
	}
	if len(m.Violations) > 0 {
		for _, v := range m.Violations {
			fmt.Printf("STILL FAILS %s: %s (expected %s, observed %s)\n", v.Signature, v.What, v.Expected, v.Observed)
		}
		return 1
	}
	fmt.Println("replay: property holds on this input now")
	return 0
}

// ---------------------------------------------------------------------------------------------
// scripts that wait on the 5 s send deadline of Value.set: each in its own child process (its own bus
// counters and yield-point hook), started first and collected last

const childEnv = "C04_CHILD_SCRIPT"

func childMain(js string) int {
	var s Script
	if err := json.Unmarshal([]byte(js), &s); err != nil {
		fmt.Fprintln(os.Stderr, err)
		return 2
	}
	installHook()
	var out []obsJSON
	for _, o := range runCode(s) {
		out = append(out, obsJSON{Ans: o.ans, Clk0: o.clk0, Clk1: o.clk1, IDs: o.ids})
	}
	b, _ := json.Marshal(out)
	fmt.Println(string(b))
	return 0
}

type stallChild struct {
	s    Script
	cmd  *exec.Cmd
	out  *bytes.Buffer
	done chan error
}

func startStalls(scripts []Script) []*stallChild {
	var cs []*stallChild
	for _, s := range scripts {
		js, _ := json.Marshal(s)
		c := &stallChild{s: s, out: &bytes.Buffer{}, done: make(chan error, 1)}
		c.cmd = exec.Command(os.Args[0])
		c.cmd.Env = append(os.Environ(), childEnv+"="+string(js))
		c.cmd.Stdout = c.out
		c.cmd.Stderr = os.Stderr
		if err := c.cmd.Start(); err != nil {
			c.done <- err
		} else {
			go func() { c.done <- c.cmd.Wait() }()
		}
		cs = append(cs, c)
	}
	return cs
}

func (c *stallChild) wait() ([]obs, error) {
	select {
	case err := <-c.done:
		if err != nil {
			return nil, fmt.Errorf("stalled-subscriber child: %v", err)
		}
	case <-time.After(90 * time.Second):
		c.cmd.Process.Kill()
		return nil, fmt.Errorf("stalled-subscriber child did not finish")
	}
	var js []obsJSON
	if err := json.Unmarshal(bytes.TrimSpace(c.out.Bytes()), &js); err != nil || len(js) != len(c.s.Ops) {
		return nil, fmt.Errorf("stalled-subscriber child: bad output %q (%v)", c.out.String(), err)
	}
	var out []obs
	for _, o := range js {
		out = append(out, obs{ans: o.Ans, clk0: o.Clk0, clk1: o.Clk1, ids: o.IDs})
	}
	return out, nil
}

// stallScripts: layouts of healthy subscribers around a stalled one. Every script has exactly one Set
// that waits the full deadline (thorough: also two).
func stallScripts(thorough bool) []Script {
	sub := func(name string, opts ...string) Op {
		return Op{Op: "sub", Opts: append([]string{"name=" + name}, opts...)}
	}
	hold := func(name string) Op { return Op{Op: "hold", Opts: []string{"name=" + name}} }
	resume := func(name string) Op { return Op{Op: "resume", Opts: []string{"name=" + name}} }
	set := func(msg string, opts ...string) Op { return Op{Op: "vset", Msg: msg, Opts: opts} }
	v := func(init string, ops ...Op) Script {
		c := Cfg{Kind: "val", Tick: 1}
		if init != "" {
			c.Init = []string{init}
		}
		return Script{Cfg: c, Ops: ops}
	}
	out := []Script{
		// healthy subscriber AFTER the stalled one: no event for the Set reported as failed
		v("", sub("a", "uo"), sub("b"), hold("a"), set("1//-"), set("2//-", "wt=9"), resume("a"), set("3//-"), sub("z")),
		// healthy subscribers before and after it, initial value, read masks
		v("1/x/-", sub("c", "rm=a"), sub("a"), sub("b", "rm=s"), hold("a"), set("2/y/-"), set("3/y/-"), set("4//-", "ev=9//-"),
			resume("a"), set("5/z/-", "um=s"), set("6//-")),
		// held after a first write; the failing Set is a masked update; a subscriber opens while it is stalled
		v("", sub("a"), set("1//-"), hold("a"), set("2/x/-", "um=s", "wt=9"), sub("b", "uo"), set("3//-"), resume("a"), set("4//-")),
		// two held subscribers: the first has a free forwarder... the second is the one that stalls
		v("7//-", sub("a"), sub("c"), sub("b", "rm=a"), hold("b"), set("1//-"), hold("a"), set("2//-"), resume("a"), resume("b"), set("3//-"),
			set("4//-")),
		// the stalled subscription is cancelled instead of resumed: the next Set collects it
		v("", sub("c"), sub("a", "uo"), sub("b"), hold("a"), set("1//-"), set("2//-"), Op{Op: "unsub", Opts: []string{"name=a"}},
			set("3//-"), set("4//-", "wt=3")),
	}
	// Collection: Update / Add / Delete announce without a deadline. The forwarder of the held subscriber
	// takes the first change; the next write (stallw) waits at that listener until its consumer receives
	// again (the harness lets it after stallPatience, or as soon as the write has returned): the write
	// must succeed and EVERY open subscriber - registered before or after the held one, the held one too -
	// must get its event exactly once; the writes after it as usual.
	c := func(init []string, ops ...Op) Script {
		return Script{Cfg: Cfg{Kind: "coll", Tick: 1, Init: init}, Ops: ops}
	}
	upd := func(id, msg string, opts ...string) Op { return Op{Op: "upd", ID: id, Msg: msg, Opts: opts} }
	add := func(id, msg string, opts ...string) Op { return Op{Op: "add", ID: id, Msg: msg, Opts: opts} }
	del := func(id string, opts ...string) Op { return Op{Op: "del", ID: id, Opts: opts} }
	out = append(out,
		// healthy subscribers before and after the held one; the waiting write is an update
		c(nil, sub("b"), sub("a"), sub("c", "rm=a,f,fc"), hold("a"), add("x", "1//-"), stallWOp(upd("x", "2/x/-/3:4/-"), "a"),
			upd("x", "3//-", "wt=9"), del("x"), sub("z")),
		// initial record, masks, updates-only; the waiting write is a Delete; then the id is added again
		c([]string{"a~1/x/-"}, sub("c", "uo"), sub("a", "rm=s"), sub("b", "rm=a"), hold("a"), upd("a", "2/y/-", "um=a"),
			stallWOp(del("a"), "a"), add("a", "5//-"), upd("b", "1//-", "cia")),
		// the held one is the FIRST listener; the waiting write creates another item; a second round
		c(nil, sub("a"), sub("b", "uo"), hold("a"), add("x", "1//-"), stallWOp(add("y", "2//-", "wt=3"), "a"), upd("x", "4//-"),
			hold("a"), upd("y", "5//-"), resume("a"), del("y")),
	)
	if thorough {
		out = append(out,
			c([]string{"a~1//-", "b~2//-"}, sub("a", "rm=a"), sub("c"), hold("c"), upd("a", "2//-"), stallWOp(upd("b", "3/x/-", "cia"), "c"),
				hold("a"), del("a"), stallWOp(del("b"), "a"), add("a", "1//-")),
			v("", sub("a", "uo"), sub("b"), hold("a"), set("1//-"), set("2//-"), set("3//-"), resume("a"), set("4//-")),
			v("1//-", sub("c"), sub("a", "rm=a"), hold("a"), set("2//-"), set("3//-"), resume("a"), hold("c"), set("4//-"), set("5//-"),
				resume("c"), set("6//-")),
			v("", sub("a"), hold("a"), set("1//-", "ev=1//-"), set("1//-"), set("2//-"), resume("a"), sub("b"), set("3//-")),
		)
	}
	return out
}
