package main

import (
	"context"
	"fmt"
	"math/big"
	"runtime"
	"strings"
	"sync"
	"sync/atomic"
	"time"

	"google.golang.org/protobuf/proto"

	"github.com/smart-core-os/sc-api/go/types"
	"github.com/smart-core-os/sc-golang/internal/verifhook"
	"github.com/smart-core-os/sc-golang/pkg/resource"
	"github.com/smart-core-os/sc-golang/verifharness/lib"
)

// Everything here drives the REAL code (pkg/resource) and renders what it observes in the answer
// format of the Lean drivers.

// Instants are rendered as an integer: nanoseconds relative to the test clock's origin
// time.Unix(clockBase, 0). The clock ticks in nanoseconds, so clock readings are small numbers, and
// any time.Time (the zero value, before the epoch, far future, sub-second) has an exact rendering
// that can never be mistaken for an absent time.
const clockBase = 1_000_000

var nsPerSec = big.NewInt(1_000_000_000)

// instant converts a rendered instant back to a time.Time.
func instant(off string) time.Time {
	n, ok := new(big.Int).SetString(off, 10)
	if !ok {
		panic("bad instant " + off)
	}
	sec, ns := new(big.Int).DivMod(n, nsPerSec, new(big.Int)) // Euclidean: 0 <= ns < 1e9
	t := time.Unix(sec.Int64()+clockBase, ns.Int64()).UTC()
	if t.IsZero() {
		return time.Time{} // the zero value itself
	}
	return t
}

// zeroInstant is the rendering of time.Time{}.
var zeroInstant = showTime(time.Time{})

// testClock: Now() returns tick n and advances by step; frozen during construction.
type testClock struct {
	n, step int
	frozen  bool
}

func (c *testClock) Now() time.Time {
	t := time.Unix(clockBase, int64(c.n)).UTC()
	if !c.frozen {
		c.n += c.step
	}
	return t
}

func showTime(t time.Time) string {
	n := new(big.Int).Mul(big.NewInt(t.Unix()-clockBase), nsPerSec)
	return n.Add(n, big.NewInt(int64(t.Nanosecond()))).String()
}

// scriptRNG yields the scripted bytes, then nothing (the destination keeps its zero bytes).
type scriptRNG struct{ b []byte }

func (r *scriptRNG) Read(p []byte) (int, error) {
	n := copy(p, r.b)
	r.b = r.b[n:]
	return n, nil
}

// busSends counts bus.Send calls (yield point bus.send.afterSnapshot, build tag verif): the number
// of events a call put on the bus. The harness is single threaded with respect to writes.
var busSends atomic.Int64

// busListens / busStops count Bus.Listen calls (bus.listen.beforeRegister) and listeners whose channel
// has been closed by their stop goroutine (listener.stop.closed): their difference is the number of
// listeners that can still be handed an event. The harness runs one resource at a time and closes it
// synchronously, so the count is exact for the resource under test.
var busListens, busStops atomic.Int64

// armedPoint: the next goroutine that reaches this yield point parks (once) until released.
var (
	armedPoint atomic.Value // string
	parkedCh   = make(chan struct{}, 1)
	releaseCh  = make(chan struct{})
	// a second, independent slot: two goroutines held at (the same or different) yield points at once
	armedPoint2 atomic.Value // string
	parkedCh2   = make(chan struct{}, 1)
	releaseCh2  = make(chan struct{})
)

func installHook() {
	armedPoint.Store("")
	armedPoint2.Store("")
	verifhook.Set(func(point string) {
		switch point {
		case "bus.send.afterSnapshot":
			busSends.Add(1)
		case "bus.listen.beforeRegister":
			busListens.Add(1)
		case "listener.stop.closed":
			busStops.Add(1)
		}
		if p, _ := armedPoint.Load().(string); p != "" && p == point && armedPoint.CompareAndSwap(p, "") {
			parkedCh <- struct{}{}
			<-releaseCh
		} else if p, _ := armedPoint2.Load().(string); p != "" && p == point && armedPoint2.CompareAndSwap(p, "") {
			parkedCh2 <- struct{}{}
			<-releaseCh2
		}
	})
}

const waitBound = 8 * time.Second

// cmpLog records the decisions of the resource's equivalence (called once per bus event per live
// subscriber, in that subscriber's goroutine).
type cmpLog struct{ ch chan bool }

type real struct {
	cfg  Cfg
	clk  *testClock
	coll *resource.Collection
	val  *resource.Value
	cmp  *cmpLog
	// the always-on backpressured, updates-only probe (nil when the resource has an equivalence)
	probeC      <-chan *resource.CollectionChange
	probeV      <-chan *resource.ValueChange
	probeCancel context.CancelFunc
	subs        map[string]*realSub
	subOrder    []string
	pids        map[string]*pidInfo // PullID subscriptions, by name
	pidEnded    bool                // a PullID stream ended during the deliveries being collected
	// subscriptions a scenario has opened (their listener is on the bus) but not yet entered in subs
	unregistered int
	// held subscriptions (their consumer is not receiving): how many changes the writer's calls say their
	// forwarder is holding
	held map[string]int
	// ... and how many calls that failed after putting an event on the bus may have left theirs with it
	heldMaybe map[string]int
	// the write being collected returned an error although it put an event on the bus: who has been handed
	// it is not known from the call, the subscribers are given a short time instead
	partial bool
}

// pidInfo: a PullID subscription is observed together with a hidden plain Pull with the same options
// (the shadow): what the shadow receives tells how many of the bus events concern the id and whether
// the item was removed, i.e. how many deliveries to wait for and whether the channel must close.
type pidInfo struct {
	id     string
	shadow *realSub
	ended  bool
}

// realSub is an open backpressured subscription: a collector goroutine receives continuously (so
// writers are never held up by the harness) into got; take hands out what arrived.
type realSub struct {
	name   string
	cancel context.CancelFunc
	mu     sync.Mutex
	got    []string
	taken  int
	notify chan struct{}
	done   chan struct{}
	goid   int64 // the goroutine that called Pull (race scenarios)
	// hold / resume: the collector stops receiving (it is NOT inside a receive while held)
	holdCh, resumeCh chan struct{}
}

// takeWithin returns up to n more events, waiting at most d for them (no stall is recorded).
func (s *realSub) takeWithin(n int, d time.Duration) []string {
	deadline := time.After(d)
	for {
		s.mu.Lock()
		if len(s.got)-s.taken >= n {
			out := append([]string(nil), s.got[s.taken:s.taken+n]...)
			s.taken += n
			s.mu.Unlock()
			return out
		}
		s.mu.Unlock()
		select {
		case <-s.notify:
		case <-s.done: // every event received has been pushed
			s.mu.Lock()
			out := append([]string(nil), s.got[s.taken:]...)
			s.taken = len(s.got)
			s.mu.Unlock()
			return out
		case <-deadline:
			s.mu.Lock()
			out := append([]string(nil), s.got[s.taken:]...)
			s.taken = len(s.got)
			s.mu.Unlock()
			return out
		}
	}
}

func (s *realSub) push(e string) {
	s.mu.Lock()
	s.got = append(s.got, e)
	s.mu.Unlock()
	select {
	case s.notify <- struct{}{}:
	default:
	}
}

// takeBound bounds the wait for an expected delivery. It never matters on a tree where every expected
// delivery arrives; once several have not (the run is failing anyway) it is shortened so the run ends soon.
var (
	takeBound    = waitBound
	takeTimeouts int
)

// noteTimeout: an expected delivery did not arrive within the bound.
func noteTimeout() {
	takeTimeouts++
	switch {
	case takeTimeouts >= 4:
		takeBound = 50 * time.Millisecond
	default:
		takeBound = time.Second // the run is failing already: the next ones wait less
	}
}

// failingFast: so many expected deliveries never arrived that the run is certainly failing; the
// remaining scripts are skipped (each would wait for deliveries that do not come).
func failingFast() bool { return takeTimeouts >= 12 }

// take waits (bounded) until n more events have arrived and returns them.
func (s *realSub) take(n int) []string {
	deadline := time.After(takeBound)
	for {
		s.mu.Lock()
		if len(s.got)-s.taken >= n {
			out := append([]string(nil), s.got[s.taken:s.taken+n]...)
			s.taken += n
			s.mu.Unlock()
			return out
		}
		s.mu.Unlock()
		select {
		case <-s.notify:
		case <-s.done:
			s.mu.Lock()
			out := append([]string(nil), s.got[s.taken:]...)
			s.taken = len(s.got)
			s.mu.Unlock()
			return append(out, "!closed")
		case <-deadline:
			noteTimeout()
			s.mu.Lock()
			out := append([]string(nil), s.got[s.taken:]...)
			s.taken = len(s.got)
			s.mu.Unlock()
			return append(out, "!timeout")
		}
	}
}

// expectedLive: how many bus listeners of the resource under test have a live context: one per open
// Pull, two per PullID that has not ended (its inner Pull and the harness's shadow Pull), the probe.
func (r *real) expectedLive() int64 {
	n := int64(r.unregistered)
	if r.probeCancel != nil {
		n++
	}
	for name := range r.subs {
		if pi := r.pids[name]; pi != nil {
			if !pi.ended {
				n += 2
			}
			continue
		}
		n++
	}
	return n
}

// listenerWaitsOff: a cancelled listener once failed to stop within the bound (the run is failing anyway)
var listenerWaitsOff bool

// awaitListeners waits (bounded) until every listener whose context has been cancelled has been stopped
// by the bus (its channel closed): from then on no Send can hand it an event, so its Pull goroutine
// makes no further equivalence call that could be mistaken for a live subscriber's.
func (r *real) awaitListeners() bool {
	if listenerWaitsOff {
		return true
	}
	want := r.expectedLive()
	deadline := time.Now().Add(waitBound / 2)
	for i := 0; busListens.Load()-busStops.Load() != want; i++ {
		if time.Now().After(deadline) {
			listenerWaitsOff = true
			return false
		}
		if i < 200 {
			runtime.Gosched()
		} else {
			time.Sleep(50 * time.Microsecond)
		}
	}
	return true
}

// subscribe opens a backpressured Pull and returns the seed events (their number is known from the
// contents: one per stored item / one for a present value, none for updates-only).
func (r *real) subscribe(o Op) string {
	name, _ := o.opt("name")
	ctx, cancel := context.WithCancel(context.Background())
	sb := &realSub{name: name, cancel: cancel, notify: make(chan struct{}, 1), done: make(chan struct{})}
	rs := append(readOptions(o), resource.WithBackpressure(true))
	nSeed := 0
	if r.val != nil {
		if !o.has("uo") && r.val.Get() != nil {
			nSeed = 1
		}
		ch := r.val.Pull(ctx, rs...)
		sb.holdCh, sb.resumeCh = make(chan struct{}), make(chan struct{})
		go func() {
			defer close(sb.done)
			for {
				select {
				case e, ok := <-ch:
					if !ok {
						return
					}
					sb.push(showVEventFlags(e))
				case <-sb.holdCh:
					<-sb.resumeCh
				}
			}
		}()
	} else {
		if !o.has("uo") {
			nSeed = len(r.coll.List())
		}
		ch := r.coll.Pull(ctx, rs...)
		sb.holdCh, sb.resumeCh = make(chan struct{}), make(chan struct{})
		go func() {
			defer close(sb.done)
			for {
				select {
				case e, ok := <-ch:
					if !ok {
						return
					}
					sb.push(showCEvent(e))
				case <-sb.holdCh:
					<-sb.resumeCh
				}
			}
		}()
	}
	r.subs[name] = sb
	r.subOrder = append(r.subOrder, name)
	return "seed=" + showList(sb.take(nSeed))
}

func (r *real) unsubscribe(o Op) string {
	name, _ := o.opt("name")
	sb, ok := r.subs[name]
	if !ok {
		return "ok"
	}
	sb.cancel()
	if _, h := r.held[name]; h {
		delete(r.held, name)
		sb.resumeCh <- struct{}{}
	}
	select {
	case <-sb.done: // the Pull goroutine has ended: no later equivalence calls from it
	case <-time.After(waitBound):
		return "!unsub-timeout"
	}
	if pi := r.pids[name]; pi != nil {
		pi.shadow.cancel()
		select {
		case <-pi.shadow.done:
		case <-time.After(waitBound):
		}
		delete(r.pids, name)
	}
	delete(r.subs, name)
	for i, n := range r.subOrder {
		if n == name {
			r.subOrder = append(r.subOrder[:i], r.subOrder[i+1:]...)
			break
		}
	}
	if !r.awaitListeners() {
		return "!listener-not-stopped"
	}
	return "ok"
}

// deliveries collects, after a write that put `sends` events on the bus, what each open subscription
// received. Without an equivalence every bus event is delivered; with one (at most one subscription is
// open then) the recorded decisions of the equivalence say how many are.
func (r *real) deliveries(sends int) string {
	var parts []string
	for _, name := range r.subOrder {
		sb := r.subs[name]
		if pi := r.pids[name]; pi != nil {
			parts = append(parts, name+"="+r.pidDeliveries(sb, pi, sends))
			continue
		}
		if _, h := r.held[name]; h {
			// its consumer is not receiving: what a successful call put on the bus is with its forwarder
			if !r.partial {
				r.held[name] += sends
			} else {
				r.heldMaybe[name] += sends
			}
			parts = append(parts, name+"=[]")
			continue
		}
		if r.partial && r.cmp == nil {
			parts = append(parts, name+"="+showList(sb.takeWithin(sends, 300*time.Millisecond)))
			continue
		}
		n := sends
		if r.cmp != nil {
			n = 0
			for i := 0; i < sends; i++ {
				select {
				case suppressed := <-r.cmp.ch:
					if !suppressed {
						n++
					}
				case <-time.After(takeBound):
					// the subscriber's Pull never consulted the equivalence: the event did not reach it
					noteTimeout()
				}
			}
		}
		parts = append(parts, name+"="+showList(sb.take(n)))
	}
	if r.pidEnded {
		// PullID streams ended: their inner Pulls (cancelled by PullID itself) and the shadows must have
		// been stopped by the bus before the next write
		r.pidEnded = false
		if !r.awaitListeners() {
			parts = append(parts, "!listener-not-stopped")
		}
	}
	return strings.Join(parts, " ")
}

func newReal(cfg Cfg, probe bool) *real {
	r := &real{cfg: cfg, clk: &testClock{step: cfg.Tick, frozen: true}, subs: map[string]*realSub{}}
	opts := []resource.Option{resource.WithClock(r.clk)}
	rng := make([]byte, len(cfg.Rng))
	for i, x := range cfg.Rng {
		rng[i] = byte(x)
	}
	opts = append(opts, resource.WithRNG(&scriptRNG{b: rng}))
	if cfg.W != nil {
		opts = append(opts, resource.WithWritableFields(parseMask(*cfg.W)))
	}
	if cfg.Icpt != "" {
		opts = append(opts, resource.WithIDInterceptor(namedIcpt(cfg.Icpt)))
	}
	if cfg.Eqv != "" {
		// the equivalence options in the order listed; only the decisions of the comparer that is in force
		// by the documented rule (the last option) are recorded - a comparer that should have been replaced
		// or cleared is an ordinary comparer
		eff := effEqv(cfg.Eqv)
		if eff != "" {
			r.cmp = &cmpLog{ch: make(chan bool, 1024)}
		}
		toks := strings.Split(cfg.Eqv, ",")
		for i, tok := range toks {
			if tok == "nil" {
				opts = append(opts, resource.WithEquivalence(nil))
				continue
			}
			f := namedEqv(tok)
			if i == len(toks)-1 {
				log := r.cmp
				opts = append(opts, resource.WithEquivalence(resource.ComparerFunc(func(x, y proto.Message) bool {
					b := f(x, y)
					log.ch <- b
					return b
				})))
			} else {
				opts = append(opts, resource.WithEquivalence(resource.ComparerFunc(f)))
			}
		}
	}
	if cfg.Kind == "val" {
		if len(cfg.Init) > 0 && cfg.Init[0] != "nil" {
			opts = append(opts, resource.WithInitialValue(parseMsg(cfg.Init[0])))
		}
		r.val = resource.NewValue(opts...)
	} else {
		seen := map[string]bool{}
		for _, rec := range cfg.Init {
			p := strings.SplitN(rec, "~", 2)
			key := p[0]
			if cfg.Icpt != "" {
				key = namedIcpt(cfg.Icpt)(key)
			}
			if seen[p[0]] || seen["\x00"+key] {
				// WithInitialRecord panics on a duplicate id, NewCollection on two ids the interceptor maps to
				// one; the model keeps the last one, scripts avoid it
				continue
			}
			seen[p[0]], seen["\x00"+key] = true, true
			opts = append(opts, resource.WithInitialRecord(p[0], parseMsg(p[1])))
		}
		r.coll = resource.NewCollection(opts...)
	}
	// construction read the (frozen) clock at tick 0; the model starts its counter at `tick`
	r.clk.frozen = false
	r.clk.n = cfg.Tick
	if probe && effEqv(cfg.Eqv) == "" {
		ctx, cancel := context.WithCancel(context.Background())
		r.probeCancel = cancel
		if r.val != nil {
			r.probeV = r.val.Pull(ctx, resource.WithBackpressure(true), resource.WithUpdatesOnly(true))
		} else {
			r.probeC = r.coll.Pull(ctx, resource.WithBackpressure(true), resource.WithUpdatesOnly(true))
		}
	}
	return r
}

func (r *real) close() {
	if r.probeCancel != nil {
		r.probeCancel()
	}
	for name, s := range r.subs {
		s.cancel()
		if _, h := r.held[name]; h {
			select {
			case s.resumeCh <- struct{}{}:
			case <-time.After(waitBound):
			}
		}
	}
	r.held = nil
	for _, p := range r.pids {
		p.shadow.cancel()
	}
	r.probeCancel, r.subs, r.pids = nil, nil, nil
	r.awaitListeners()
}

func kindName(t types.ChangeType) string {
	switch t {
	case types.ChangeType_ADD:
		return "ADD"
	case types.ChangeType_UPDATE:
		return "UPDATE"
	case types.ChangeType_REMOVE:
		return "REMOVE"
	}
	return t.String()
}

func flags(seed, last bool) string {
	s := ""
	if seed {
		s += "S"
	}
	if last {
		s += "L"
	}
	return s
}

func showCEvent(e *resource.CollectionChange) string {
	if e == nil {
		return "!nil-event"
	}
	return fmt.Sprintf("%s|%s|%s|%s|%s|%s", e.Id, showTime(e.ChangeTime), kindName(e.ChangeType),
		showMsg(e.OldValue), showMsg(e.NewValue), flags(e.SeedValue, e.LastSeedValue))
}

func showVEventFlags(e *resource.ValueChange) string {
	if e == nil {
		return "!nil-event"
	}
	return fmt.Sprintf("%s|%s|%s", showMsg(e.Value), showTime(e.ChangeTime), flags(e.SeedValue, e.LastSeedValue))
}

func showVEvent(e *resource.ValueChange) string {
	if e == nil {
		return "!nil-event"
	}
	return fmt.Sprintf("%s|%s", showMsg(e.Value), showTime(e.ChangeTime))
}

// recvC / recvV receive one event with a bound; ok=false on timeout or closed channel.
func recvC(ch <-chan *resource.CollectionChange) (string, bool) {
	select {
	case e, ok := <-ch:
		if !ok {
			return "!closed", false
		}
		return showCEvent(e), true
	case <-time.After(waitBound):
		return "!timeout", false
	}
}

func recvV(ch <-chan *resource.ValueChange, withFlags bool) (string, bool) {
	select {
	case e, ok := <-ch:
		if !ok {
			return "!closed", false
		}
		if withFlags {
			return showVEventFlags(e), true
		}
		return showVEvent(e), true
	case <-time.After(waitBound):
		return "!timeout", false
	}
}

// writeOptions translates the option tokens into resource.WriteOption values; cb records callbacks.
type callbacks struct {
	ids     []string
	created int
}

func writeOptions(o Op, cb *callbacks) []resource.WriteOption {
	var ws []resource.WriteOption
	for _, t := range o.Opts {
		k, v := t, ""
		if i := strings.IndexByte(t, '='); i >= 0 {
			k, v = t[:i], t[i+1:]
		}
		switch k {
		case "wt":
			ws = append(ws, resource.WithWriteTime(instant(v)))
		case "um":
			ws = append(ws, resource.WithUpdateMask(parseMask(v)))
		case "rs":
			ws = append(ws, resource.WithResetMask(parseMask(v)))
		case "ev":
			ws = append(ws, resource.WithExpectedValue(parseMsg(v)))
		case "xa":
			ws = append(ws, resource.WithExpectAbsent())
		case "chk":
			ws = append(ws, resource.WithExpectedCheck(namedCheck(v)))
		case "am":
			ws = append(ws, resource.WithAllowMissing(true))
		case "bf":
			ws = append(ws, resource.InterceptBefore(namedBefore(v)))
		case "af":
			ws = append(ws, resource.InterceptAfter(namedAfter(v)))
		case "nw":
			ws = append(ws, resource.WithAllFieldsWritable())
		case "mw":
			ws = append(ws, resource.WithMoreWritableFields(parseMask(v)))
		case "cia":
			ws = append(ws, resource.WithCreateIfAbsent())
		case "ccb":
			ws = append(ws, resource.WithCreatedCallback(func() { cb.created++ }))
		case "gid":
			ws = append(ws, resource.WithGenIDIfAbsent())
		case "icb":
			ws = append(ws, resource.WithIDCallback(func(id string) { cb.ids = append(cb.ids, id) }))
		default:
			panic("unknown write option " + t)
		}
	}
	return ws
}

func readOptions(o Op) []resource.ReadOption {
	var rs []resource.ReadOption
	for _, t := range o.Opts {
		k, v := t, ""
		if i := strings.IndexByte(t, '='); i >= 0 {
			k, v = t[:i], t[i+1:]
		}
		switch k {
		case "rm":
			rs = append(rs, resource.WithReadMask(parseMask(v)))
		case "inc":
			rs = append(rs, resource.WithInclude(namedInclude(v)))
		case "uo":
			rs = append(rs, resource.WithUpdatesOnly(true))
		case "name", "id":
		default:
			panic("unknown read option " + t)
		}
	}
	return rs
}

// runWrite executes a write while draining the probe, then collects exactly the events the call
// put on the bus. Returns the call's answer (without the state dump) and the number of bus sends.
func (r *real) runWrite(o Op) (answer string, sends int) {
	cb := &callbacks{}
	var val proto.Message
	var err error
	var pmsg string
	k0 := busSends.Load()
	done := make(chan struct{})
	go func() {
		defer close(done)
		_, pmsg = lib.Catch(func() {
			ws := writeOptions(o, cb)
			switch o.Op {
			case "upd":
				val, err = r.coll.Update(o.ID, parseMsg(o.Msg), ws...)
			case "add":
				val, err = r.coll.Add(o.ID, parseMsg(o.Msg), ws...)
			case "del":
				val, err = r.coll.Delete(o.ID, ws...)
			case "vset":
				val, err = r.val.Set(parseMsg(o.Msg), ws...)
			default:
				panic("not a write: " + o.Op)
			}
		})
	}()
	var evs []string
	alive := true
	wait := time.After(4 * waitBound)
loop:
	for {
		select {
		case e, ok := <-r.probeC: // nil channel when there is no collection probe: never ready
			if !ok {
				r.probeC = nil
				alive = false
				continue
			}
			evs = append(evs, showCEvent(e))
		case e, ok := <-r.probeV:
			if !ok {
				r.probeV = nil
				alive = false
				continue
			}
			evs = append(evs, showVEvent(e))
		case <-done:
			break loop
		case <-wait:
			return "!write-timeout", int(busSends.Load() - k0)
		}
	}
	sends = int(busSends.Load() - k0)
	if pmsg != "" {
		return "panic:" + pmsg, sends
	}
	if r.probeC != nil || r.probeV != nil {
		for len(evs) < sends && alive {
			var s string
			var ok bool
			if r.probeC != nil {
				s, ok = recvC(r.probeC)
			} else {
				s, ok = recvV(r.probeV, false)
			}
			evs = append(evs, s)
			if !ok {
				break
			}
		}
	}
	if r.val != nil {
		return fmt.Sprintf("val=%s err=%s ev=%s", showMsg(val), codeName(err), showList(evs)), sends
	}
	return fmt.Sprintf("val=%s err=%s ev=%s ids=%s created=%d", showMsg(val), codeName(err), showList(evs),
		showList(cb.ids), cb.created), sends
}

// dump renders the contents with ids and stored change times, read through the seed of a fresh
// backpressured Pull, and the clock counter.
func (r *real) dump() string {
	if r.val != nil {
		cur := r.val.Get()
		if cur == nil {
			// no seed is sent for an absent value; its change time is not observable
			return fmt.Sprintf("st=nil@? clk=%d", r.clk.n)
		}
		ctx, cancel := context.WithCancel(context.Background())
		ch := r.val.Pull(ctx, resource.WithBackpressure(true))
		var st string
		select {
		case e, ok := <-ch:
			if !ok || e == nil {
				st = "!closed"
			} else {
				st = showMsg(e.Value) + "@" + showTime(e.ChangeTime)
			}
		case <-time.After(waitBound):
			st = "!timeout"
		}
		cancel()
		waitClosedV(ch)
		return fmt.Sprintf("st=%s clk=%d", st, r.clk.n)
	}
	n := len(r.coll.List())
	var items []string
	if n > 0 {
		ctx, cancel := context.WithCancel(context.Background())
		ch := r.coll.Pull(ctx, resource.WithBackpressure(true))
		for i := 0; i < n+1; i++ {
			var e *resource.CollectionChange
			var ok bool
			select {
			case e, ok = <-ch:
			case <-time.After(waitBound):
			}
			if !ok || e == nil {
				items = append(items, "!timeout")
				break
			}
			items = append(items, fmt.Sprintf("%s~%s@%s", e.Id, showMsg(e.NewValue), showTime(e.ChangeTime)))
			if e.LastSeedValue {
				break
			}
		}
		cancel()
		waitClosedC(ch)
	}
	return fmt.Sprintf("st=%s clk=%d", showList(items), r.clk.n)
}

func waitClosedC(ch <-chan *resource.CollectionChange) {
	t := time.After(waitBound)
	for {
		select {
		case _, ok := <-ch:
			if !ok {
				return
			}
		case <-t:
			return
		}
	}
}

func waitClosedV(ch <-chan *resource.ValueChange) {
	t := time.After(waitBound)
	for {
		select {
		case _, ok := <-ch:
			if !ok {
				return
			}
		case <-t:
			return
		}
	}
}

// runRead executes get / list / vget.
func (r *real) runRead(o Op) string {
	var out string
	p, msg := lib.Catch(func() {
		rs := readOptions(o)
		switch o.Op {
		case "get":
			m, ok := r.coll.Get(o.ID, rs...)
			if !ok {
				out = "nil"
				if m != nil {
					out = "!value-with-not-found"
				}
				return
			}
			out = showMsg(m)
		case "list":
			var xs []string
			for _, m := range r.coll.List(rs...) {
				xs = append(xs, showMsg(m))
			}
			out = showList(xs)
		case "vget":
			out = showMsg(r.val.Get(rs...))
		default:
			panic("not a read: " + o.Op)
		}
	})
	if p {
		return "panic:" + msg
	}
	return out
}

// collect starts the collector goroutine of a subscription.
func collectC(sb *realSub, ch <-chan *resource.CollectionChange) {
	go func() {
		defer close(sb.done)
		for e := range ch {
			sb.push(showCEvent(e))
		}
	}()
}

func collectV(sb *realSub, ch <-chan *resource.ValueChange) {
	go func() {
		defer close(sb.done)
		for e := range ch {
			sb.push(showVEventFlags(e))
		}
	}()
}

func newRealSub(name string, cancel context.CancelFunc) *realSub {
	return &realSub{name: name, cancel: cancel, notify: make(chan struct{}, 1), done: make(chan struct{})}
}

// concerns: does a delivered collection change (rendered) concern the id, and does it end a PullID stream
func concerns(ev, id string) (match, ends bool) {
	f := strings.Split(ev, "|")
	if len(f) < 5 || f[0] != id {
		return false, false
	}
	return true, f[2] == "REMOVE" || f[4] == "nil"
}

// subscribeID opens a backpressured PullID (and its shadow Pull) and returns the seed.
func (r *real) subscribeID(o Op) string {
	name, _ := o.opt("name")
	raw, _ := o.opt("id")
	id := raw // PullID applies the id interceptor itself; the changes carry the intercepted id
	if r.cfg.Icpt != "" {
		id = namedIcpt(r.cfg.Icpt)(raw)
	}
	rs := append(readOptions(o), resource.WithBackpressure(true))
	nSeed := 0
	if !o.has("uo") {
		nSeed = len(r.coll.List())
	}
	ctxS, cancelS := context.WithCancel(context.Background())
	shadow := newRealSub(name+"~shadow", cancelS)
	collectC(shadow, r.coll.Pull(ctxS, rs...))
	ctx, cancel := context.WithCancel(context.Background())
	sb := newRealSub(name, cancel)
	collectV(sb, r.coll.PullID(ctx, raw, rs...))
	pi := &pidInfo{id: id, shadow: shadow}
	n := 0
	for _, ev := range shadow.take(nSeed) {
		if m, ends := concerns(ev, id); m && !ends {
			n++
		}
	}
	if r.pids == nil {
		r.pids = map[string]*pidInfo{}
	}
	r.pids[name] = pi
	r.subs[name] = sb
	r.subOrder = append(r.subOrder, name)
	return "seed=" + showList(sb.take(n))
}

func (r *real) pidDeliveries(sb *realSub, pi *pidInfo, sends int) string {
	if pi.ended {
		return "[]$"
	}
	note := ""
	if r.cmp != nil {
		// the inner Pull of the PullID and the shadow Pull (same options) each consult the equivalence
		// once per bus event, on the same pair: the shadow receives the events it does not relate
		passed := 0
		for i := 0; i < 2*sends; i++ {
			select {
			case suppressed := <-r.cmp.ch:
				if !suppressed {
					passed++
				}
			case <-time.After(takeBound):
				noteTimeout()
				note = "!no-equivalence-call"
			}
		}
		if passed%2 != 0 {
			note = "!no-equivalence-call"
		}
		sends = passed / 2
	}
	n := 0
	for _, ev := range pi.shadow.take(sends) {
		if pi.ended {
			break
		}
		m, ends := concerns(ev, pi.id)
		switch {
		case m && ends:
			pi.ended = true
		case m:
			n++
		}
	}
	out := showList(sb.take(n)) + note
	if pi.ended {
		select {
		case <-sb.done: // the PullID channel was closed
		case <-time.After(takeBound):
			out += "!not-closed"
		}
		pi.shadow.cancel()
		select {
		case <-pi.shadow.done:
		case <-time.After(waitBound):
		}
		r.pidEnded = true
		out += "$"
	}
	return out
}

// hold: the consumer of the subscription stops receiving (it is outside any receive from then on).
func (r *real) hold(o Op) string {
	name, _ := o.opt("name")
	sb, ok := r.subs[name]
	if !ok || sb.holdCh == nil {
		return "!no-such-subscription"
	}
	select {
	case sb.holdCh <- struct{}{}:
	case <-time.After(waitBound):
		return "!hold-timeout"
	}
	if r.held == nil {
		r.held, r.heldMaybe = map[string]int{}, map[string]int{}
	}
	r.held[name], r.heldMaybe[name] = 0, 0
	return "ok"
}

// resume: the consumer receives again; returns what the forwarder was holding for it.
func (r *real) resume(o Op) string {
	name, _ := o.opt("name")
	sb, ok := r.subs[name]
	n, h := r.held[name]
	if !ok || !h {
		return "!no-such-subscription"
	}
	delete(r.held, name)
	select {
	case sb.resumeCh <- struct{}{}:
	case <-time.After(waitBound):
		return "!resume-timeout"
	}
	got := sb.take(n)
	if k := r.heldMaybe[name]; k > 0 && (len(got) == 0 || !strings.HasPrefix(got[len(got)-1], "!")) {
		// the forwarder hands over what it holds at once: anything more is there within moments
		got = append(got, sb.takeWithin(k, 300*time.Millisecond)...)
	}
	return name + "=" + showList(got)
}

// stallPatience: how long a write may wait on a subscriber that is not receiving before the harness lets
// that subscriber receive again - longer than the 5 s after which Value.set gives up announcing.
const stallPatience = 5600 * time.Millisecond

// splitStallW separates a stallw op into its write and the name of the held subscription.
func splitStallW(o Op) (w Op, rname string) {
	w = Op{ID: o.ID, Msg: o.Msg}
	for _, t := range o.Opts {
		switch {
		case strings.HasPrefix(t, "w="):
			w.Op = t[2:]
		case strings.HasPrefix(t, "rname="):
			rname = t[6:]
		default:
			w.Opts = append(w.Opts, t)
		}
	}
	return
}

func stallWOp(w Op, rname string) Op {
	o := Op{Op: "stallw", ID: w.ID, Msg: w.Msg, Opts: append([]string(nil), w.Opts...)}
	o.Opts = append(o.Opts, "w="+w.Op, "rname="+rname)
	return o
}

// stallW: a Collection write is made while the forwarder of the held subscription `rname` is full: its
// Send has to wait at that listener. The write runs in its own goroutine; the held consumer starts
// receiving again when the write has returned or after stallPatience, whichever is first (on the
// unchanged code a Collection write has no send deadline: it is still waiting then, and completes for
// every listener once the consumer receives). Answer: "<what the resumed consumer was owed> || <the
// write's answer and everybody's deliveries>".
func (r *real) stallW(o Op) (string, string) {
	w, rname := splitStallW(o)
	if _, h := r.held[rname]; !h || r.coll == nil {
		return "!no-such-subscription", ""
	}
	type res struct {
		a     string
		sends int
	}
	done := make(chan res, 1)
	go func() {
		a, sends := r.runWrite(w)
		done <- res{a, sends}
	}()
	var wr *res
	select {
	case x := <-done:
		wr = &x
	case <-time.After(stallPatience):
	}
	first := r.resume(Op{Op: "resume", Opts: []string{"name=" + rname}})
	if wr == nil {
		select {
		case x := <-done:
			wr = &x
		case <-time.After(4 * waitBound):
			return first + " || !write-timeout", ""
		}
	}
	if strings.HasPrefix(wr.a, "panic:") || strings.HasPrefix(wr.a, "!") {
		return first + " || " + wr.a, ""
	}
	r.partial = wr.sends > 0 && part(wr.a, "err") != "-"
	ans := fmt.Sprintf("%s || val=%s err=%s | %s", first, part(wr.a, "val"), part(wr.a, "err"), r.deliveries(wr.sends))
	r.partial = false
	return ans, part(wr.a, "ids")
}
