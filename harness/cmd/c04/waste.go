package main

import (
	"bytes"
	"context"
	"encoding/json"
	"fmt"
	"runtime"
	"strings"
	"sync"
	"time"

	"google.golang.org/grpc"
	"google.golang.org/protobuf/types/known/fieldmaskpb"

	"github.com/smart-core-os/sc-api/go/traits"
	"github.com/smart-core-os/sc-golang/internal/verifhook"
	"github.com/smart-core-os/sc-golang/pkg/trait/wastepb"
	"github.com/smart-core-os/sc-golang/verifharness/lib"
)

// K4 "waste-records": the property's `seed = state at subscription; no change committed around the moment
// of subscribing is missed` for a stream that a trait handler COMPOSES from a record history and a
// Value.Pull: wastepb's PullWasteRecords (ModelServer.PullWasteRecords -> pullWasteRecordsWrapper) sends
// the records len-50 .. len-2 of the history and then the Value.Pull of the newest record. The stream is
// opened through the real handler with a server stream of the harness, (a) while the model is quiet and
// (b) while an AddWasteRecord is parked at value.set.beforeSend: its Set has committed (Get and a new seed
// return the record), neither its publication nor its append to the history has happened; or parked at
// bus.send.afterSnapshot: the publication has taken its snapshot of the listeners (the new stream is not
// in it and is not handed the record again). Model:
// lean/ScVerif/C04/Waste.lean (driver op `waste`). The monitor is independent of it: the records
// committed before the stream opened (at most the last 50), oldest first, then every later record once.

type wasteScn struct {
	N     int    `json:"n"`     // completed AddWasteRecord calls before the stream opens
	Mid   bool   `json:"mid"`   // one more AddWasteRecord is between its Set and its append when the stream opens
	Snap  bool   `json:"snap"`  // … parked inside the Set's Bus.Send, after its snapshot of the listeners (bus.send.afterSnapshot), not before the Send
	RM    string `json:"rm"`    // read mask of the request: "", "id", "area"
	UO    bool   `json:"uo"`    // updates-only
	Later int    `json:"later"` // records added once the stream is open (>= 1: the last one ends the observation)
}

func wasteRec(i int) *traits.WasteRecord {
	return &traits.WasteRecord{Id: fmt.Sprintf("r%d", i), Area: fmt.Sprintf("z%d", i), Weight: float32(i + 1)}
}

func showWaste(r *traits.WasteRecord) string { return r.GetId() + ":" + r.GetArea() }

func projWaste(rm string, i int) string {
	r := wasteRec(i)
	switch rm {
	case "id":
		return r.Id + ":"
	case "area":
		return ":" + r.Area
	}
	return showWaste(r)
}

// wasteStreamSrv is the server side of the stream as the handler sees it.
type wasteStreamSrv struct {
	grpc.ServerStream
	ctx context.Context
	mu  sync.Mutex
	got []string
	bad []string // messages that are not one ADD change carrying the record as masked
}

func (s *wasteStreamSrv) Context() context.Context { return s.ctx }

func (s *wasteStreamSrv) Send(m *traits.PullWasteRecordsResponse) error {
	s.mu.Lock()
	defer s.mu.Unlock()
	for _, c := range m.GetChanges() {
		s.got = append(s.got, showWaste(c.GetNewValue()))
	}
	if len(m.GetChanges()) != 1 {
		s.bad = append(s.bad, fmt.Sprintf("%d changes in one message", len(m.GetChanges())))
	}
	return nil
}

func (s *wasteStreamSrv) snapshot() []string {
	s.mu.Lock()
	defer s.mu.Unlock()
	return append([]string(nil), s.got...)
}

func (s *wasteStreamSrv) awaitRecord(shown string, bound time.Duration) bool {
	deadline := time.Now().Add(bound)
	for i := 0; ; i++ {
		for _, g := range s.snapshot() {
			if g == shown {
				return true
			}
		}
		if time.Now().After(deadline) {
			return false
		}
		if i < 200 {
			time.Sleep(5 * time.Microsecond)
		} else {
			time.Sleep(100 * time.Microsecond)
		}
	}
}

// awaitState waits until the goroutine has been seen in the given wait state three times in a row.
func awaitState(goid int64, want string, done <-chan struct{}) string {
	deadline := time.Now().Add(waitBound)
	stable := 0
	for {
		select {
		case <-done:
			return "returned"
		default:
		}
		st := goroutineState(goid)
		if st == want {
			stable++
			if stable >= 3 {
				return "ok"
			}
		} else {
			stable = 0
		}
		if time.Now().After(deadline) {
			return "stuck:" + st
		}
		time.Sleep(20 * time.Microsecond)
	}
}

// awaitForwardersIdle: the handler pulls WITHOUT backpressure, so between the bus and the Pull goroutine sits
// minibus.DropExcess, which replaces the change it holds when the next one arrives first (lossy delivery is
// C09's subject). The harness therefore lets every change leave that goroutine before the next write: it
// waits until no DropExcess goroutine is holding a message (holding = waiting in its `select`).
func awaitForwardersIdle() bool {
	deadline := time.Now().Add(waitBound)
	buf := make([]byte, 1<<18)
	for {
		n := runtime.Stack(buf, true)
		for n == len(buf) {
			buf = make([]byte, 2*len(buf))
			n = runtime.Stack(buf, true)
		}
		holding := false
		for _, g := range bytes.Split(buf[:n], []byte("\n\n")) {
			if !bytes.Contains(g, []byte("minibus.DropExcess")) {
				continue
			}
			if k := bytes.IndexByte(g, ']'); k < 0 || bytes.Contains(g[:k], []byte("[select")) || bytes.Contains(g[:k], []byte("[runn")) {
				holding = true
			}
		}
		if !holding {
			return true
		}
		if time.Now().After(deadline) {
			return false
		}
		time.Sleep(20 * time.Microsecond)
	}
}

// runWaste: what the stream sent, as `stream=[…]` (or `!…` when the scenario could not be driven).
func runWaste(sc wasteScn) string {
	base := busListens.Load() - busStops.Load()
	m := wastepb.NewModel()
	wastepb.VerifSetRecords(m, nil)
	for i := 0; i < sc.N; i++ {
		if _, err := m.AddWasteRecord(wasteRec(i)); err != nil {
			return "!add: " + err.Error()
		}
	}
	next := sc.N
	addDone := make(chan error, 1)
	if sc.Mid {
		armedPoint.Store("value.set.beforeSend")
		if sc.Snap {
			armedPoint.Store("bus.send.afterSnapshot")
		}
		rec := wasteRec(next)
		next++
		go func() { _, err := m.AddWasteRecord(rec); addDone <- err }()
		select {
		case <-parkedCh:
		case err := <-addDone:
			armedPoint.Store("")
			return fmt.Sprint("!add finished without reaching value.set.beforeSend: ", err)
		case <-time.After(waitBound):
			armedPoint.Store("")
			return "!add-timeout"
		}
	}
	ctx, cancel := context.WithCancel(context.Background())
	defer cancel()
	srv := &wasteStreamSrv{ctx: ctx}
	req := &traits.PullWasteRecordsRequest{Name: "w", UpdatesOnly: sc.UO}
	if sc.RM != "" {
		req.ReadMask = &fieldmaskpb.FieldMask{Paths: []string{sc.RM}}
	}
	handler := make(chan struct{})
	ready := make(chan int64, 1)
	var herr error
	go func() {
		defer close(handler)
		ready <- verifhook.GoID()
		herr = wastepb.NewModelServer(m).PullWasteRecords(req, srv)
	}()
	goid := <-ready
	// the handler is registered on the value's bus once it waits for changes (`for change := range …`)
	st := awaitState(goid, "chan receive", handler)
	if sc.Mid {
		releaseCh <- struct{}{}
		select {
		case err := <-addDone:
			if err != nil {
				return "!add: " + err.Error()
			}
		case <-time.After(2 * waitBound):
			return "!add-timeout"
		}
	}
	if st != "ok" {
		return fmt.Sprint("!handler ", st, " ", herr)
	}
	if !awaitForwardersIdle() {
		return "!forwarder keeps holding a change"
	}
	note := ""
	for j := 0; j < sc.Later; j++ {
		if _, err := m.AddWasteRecord(wasteRec(next)); err != nil {
			return "!add: " + err.Error()
		}
		bound := waitBound
		if note != "" {
			bound = 50 * time.Millisecond
		}
		if !srv.awaitRecord(projWaste(sc.RM, next), bound) {
			note = " !undelivered"
		}
		next++
	}
	cancel()
	select {
	case <-handler:
	case <-time.After(waitBound):
		note += " !handler-did-not-return"
	}
	for i := 0; busListens.Load()-busStops.Load() != base && i < 80000; i++ {
		time.Sleep(50 * time.Microsecond)
	}
	if len(srv.bad) > 0 {
		note += " !" + strings.Join(srv.bad, ",")
	}
	return "stream=" + showList(srv.snapshot()) + note
}

func (sc wasteScn) modelLine() string {
	var hist, later []string
	for i := 0; i < sc.N; i++ {
		hist = append(hist, projWaste("", i))
	}
	next := sc.N
	val := ":"
	if sc.N > 0 {
		val = projWaste("", sc.N-1)
	}
	if sc.Mid {
		val = projWaste("", next)
		if !sc.Snap {
			later = append(later, val) // the publication of the parked Set reaches the new listener
		}
		next++
	}
	for j := 0; j < sc.Later; j++ {
		later = append(later, projWaste("", next+j))
	}
	l := "waste hist=" + strings.Join(hist, ",") + " val=" + val + " later=" + strings.Join(later, ",")
	if sc.RM != "" {
		l += " rm=" + sc.RM
	}
	if sc.UO {
		l += " uo"
	}
	return l
}

// checkWaste: the monitor, from the scenario alone.
func checkWaste(m *lib.Monitor, sc wasteScn, ans string) {
	const sig = "C04/wastepb.PullWasteRecords"
	in := map[string]any{"waste": sc}
	if !strings.HasPrefix(ans, "stream=[") {
		m.Violate(sig+"/not-driven", "the scenario could not be driven", in, "stream=[…]", ans)
		return
	}
	body := ans[len("stream=["):]
	note := ""
	if k := strings.Index(body, "]"); k >= 0 {
		body, note = body[:k], body[k+1:]
	}
	var got []string
	if body != "" {
		got = strings.Split(body, ";")
	}
	committed := sc.N
	if sc.Mid {
		committed++
	}
	var expSeed []string
	if !sc.UO {
		from := committed - 50
		if from < 0 {
			from = 0
		}
		for i := from; i < committed; i++ {
			expSeed = append(expSeed, projWaste(sc.RM, i))
		}
	}
	var expLater []string
	for j := 0; j < sc.Later; j++ {
		expLater = append(expLater, projWaste(sc.RM, committed+j))
	}
	// the part before the first record added after the stream was open
	cut := len(got)
	for i, g := range got {
		if g == expLater[0] {
			cut = i
			break
		}
	}
	seed, later := got[:cut], got[cut:]
	if sc.Mid {
		// the Set parked between commit and publication is published to the new listener too: one stale
		// duplicate of the record the seed already carried (C04_subscribe_atomic), or, updates-only, its event
		c := projWaste(sc.RM, committed-1)
		if n := len(seed); n >= 1 && seed[n-1] == c && (sc.UO || (n >= 2 && seed[n-2] == c)) {
			seed = seed[:n-1]
		}
	}
	expS, gotS := showList(expSeed), showList(seed)
	if gotS != expS {
		has := map[string]bool{}
		for _, g := range seed {
			has[g] = true
		}
		missed := ""
		for _, e := range expSeed {
			if !has[e] {
				missed += " " + e
			}
		}
		if sc.Mid && sc.N >= 1 && missed == " "+projWaste(sc.RM, sc.N-1) {
			// exactly the newest completely added record, while another add is between its Set and its append
			m.Violate(sig+"/newest-record-missed-during-add", "a stream opened while an AddWasteRecord was between its Set and its append was sent the history without its newest record and, as seed, the record being added: the newest completely added record was sent by nobody:"+missed, in, expS, gotS)
		} else if missed != "" {
			m.Violate(sig+"/record-missed", "a record committed before the stream was opened (within the last 50) was sent neither as history nor as seed:"+missed, in, expS, gotS)
		} else {
			m.Violate(sig+"/wrong-seed-part", "the records sent before the first later record are not the last 50 committed ones, oldest first", in, expS, gotS)
		}
		return
	}
	if showList(later) != showList(expLater) || note != "" {
		sg := "/wrong-event"
		if len(later) < len(expLater) {
			sg = "/missing-event"
		}
		m.Violate(sig+sg, "the records added after the stream was open were not sent once each, in order, as masked", in, showList(expLater), showList(later)+note)
	}
}

func wasteScenarios(thorough bool) []wasteScn {
	ns := []int{0, 1, 2, 3, 49, 50, 51}
	if thorough {
		ns = []int{0, 1, 2, 3, 4, 10, 48, 49, 50, 51, 52, 99, 120}
	}
	var out []wasteScn
	for _, n := range ns {
		for _, mid := range []bool{false, true} {
			if n == 0 && !mid {
				continue // the value then holds a generated record of NewModel, not one of the scenario's
			}
			for _, rm := range []string{"", "id", "area"} {
				for _, uo := range []bool{false, true} {
					for _, later := range []int{1, 2} {
						out = append(out, wasteScn{N: n, Mid: mid, RM: rm, UO: uo, Later: later})
						if mid && later == 1 {
							out = append(out, wasteScn{N: n, Mid: mid, Snap: true, RM: rm, UO: uo, Later: later})
						}
					}
				}
			}
		}
	}
	return out
}

func (h *harness) wasteScope(thorough bool) {
	scs := wasteScenarios(thorough)
	lines := make([]string, len(scs))
	for i, sc := range scs {
		lines[i] = sc.modelLine()
	}
	model, err := h.drv.Batch(lines)
	if err != nil {
		h.tieW.Fail(err)
		return
	}
	for i, sc := range scs {
		ans := runWaste(sc)
		in := map[string]any{"waste": sc}
		b, _ := json.Marshal(sc)
		h.tieW.Record(string(b), true, in, model[i], ans)
		h.tieW.Count(fmt.Sprintf("mid=%v after-snapshot=%v uo=%v", sc.Mid, sc.Snap, sc.UO))
		h.mon.Eval("waste#"+string(b), true, nil)
		checkWaste(h.mon, sc, ans)
	}
	h.tieW.Exhaustive = true
}

func replayWaste(v any) int {
	b, _ := json.Marshal(v)
	var sc wasteScn
	if err := json.Unmarshal(b, &sc); err != nil {
		lib.Fatal(err)
	}
	if sc.Later < 1 {
		sc.Later = 1
	}
	ans := runWaste(sc)
	fmt.Printf("%-50s -> %s\n", sc.modelLine(), ans)
	m := lib.NewMonitor("replay", "")
	checkWaste(m, sc, ans)
	if len(m.Violations) > 0 {
		for _, v := range m.Violations {
			fmt.Printf("STILL FAILS %s: %s (expected %s, observed %s)\n", v.Signature, v.What, v.Expected, v.Observed)
		}
		return 1
	}
	fmt.Println("replay: property holds on this input now")
	return 0
}
