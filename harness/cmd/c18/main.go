// Harness for C18 (timeline algebra): ties the Lean model (driverC18) to pkg/time and evaluates
// the property directly on the real code.
package main

import (
	"fmt"
	"os"
)

import "github.com/smart-core-os/sc-golang/verifharness/lib"

func main() {
	f := lib.ParseFlags()
	if f.Replay != "" {
		os.Exit(replay(f))
	}
	res := lib.NewResult("C18", f)
	if e := os.Getenv("C18_WATCH"); e != "" { // development: "<seg full>,<seg every>,<time full>,<time every>"
		fmt.Sscanf(e, "%d,%d,%d,%d", &segWatch.full, &segWatch.every, &timeWatch.full, &timeWatch.every)
	} else if f.Thorough() {
		segWatch.full, segWatch.every, timeWatch.full, timeWatch.every = 20000, 2, 20000, 8
	} else {
		segWatch.full, segWatch.every, timeWatch.full, timeWatch.every = 4000, 8, 2000, 32
	}
	drv, err := lib.StartDriver(f.Driver)
	if err != nil {
		lib.Fatal(err)
	}
	defer drv.Close()
	drvTime, err := lib.StartDriver(f.Driver)
	if err != nil {
		lib.Fatal(err)
	}
	defer drvTime.Close()
	execTime := prepTime(f, res)
	timeDone := make(chan struct{})
	go func() {
		defer close(timeDone)
		execTime(drvTime)
	}()
	runSeg(f, res, drv)
	<-timeDone
	if err := res.Write(f.Out); err != nil {
		lib.Fatal(err)
	}
}

func replay(f lib.Flags) int {
	rp, err := lib.ReadReplay(f.Replay)
	if err != nil {
		lib.Fatal(err)
	}
	in, ok := rp.Input.(map[string]any)
	if !ok {
		fmt.Println("replay: no concrete input in file (", rp.Kind, rp.Broken, ")")
		return 2
	}
	m := lib.NewMonitor("replay", "")
	if op := fmt.Sprint(in["op"]); floatOps[op] != "" {
		// the float clauses (breakpoints + accumulated rounding bound) on a rounding Sum / SumMagnitude
		c := scase{Op: op, L: fmt.Sprint(in["l"])}
		floatClauses(m, c)
		fmt.Printf("replay %s -> code=%s\n", c.line(), scase{floatOps[op], "", c.L, ""}.runCode().text)
	} else if segOps[op] {
		c := scase{Op: op, L: fmt.Sprint(in["l"])}
		if d, ok := in["d"]; ok {
			c.D = fmt.Sprint(d)
		}
		if b, ok := in["b"]; ok {
			c.B = fmt.Sprint(b)
		}
		o := c.runCode()
		c.safeMonitor(m, o)
		fmt.Printf("replay %s -> code=%s\n", c.line(), o.text)
	} else {
		c := tcase{Op: op, A: fmt.Sprint(in["a"]), B: fmt.Sprint(in["b"])}
		out := c.runCode()
		c.monitor(m, out)
		fmt.Printf("replay %v -> code=%s\n", c, out)
	}
	if len(m.Violations) > 0 {
		for _, v := range m.Violations {
			fmt.Printf("STILL FAILS %s: %s (expected %s, observed %s)\n", v.Signature, v.What, v.Expected, v.Observed)
		}
		return 1
	}
	fmt.Println("replay: property holds on this input now")
	return 0
}
