package main

// Write detection for "never modify their arguments".
//
// A before/after comparison of an argument, however deep, cannot see a write that is undone before the call
// returns (detach a field, copy, put it back), and neither can it see a write of the value that is already
// there; both are modifications: a caller may share the value for reading with other goroutines, and every
// operation of the property is read-only on its arguments.  Instead of hoping that a concurrent reader lands in
// the window, every case is run a second time with ALL its argument objects (messages, the objects they point
// to, slice backing arrays including their spare capacity, oneof wrappers) placed in pages of their own that
// are read-only for the duration of the call: the first store into any of them faults, the fault is turned
// into a panic (debug.SetPanicOnFault) that carries the address, and the address is mapped back to the object
// and field that was written.  Deterministic, no timing involved.  Stores into the unexported bookkeeping of a
// generated message (state, sizeCache, unknownFields) are not the caller's data: such a run is abandoned and
// counted, not judged.

import (
	"fmt"
	"reflect"
	"runtime/debug"
	"syscall"
	"unsafe"
)

const watchArenaSize = 1 << 20

type watchRegion struct {
	off, size uintptr
	label     string
	typ       reflect.Type // element type
	n         int          // > 0: backing array of n elements
}

// watchArena is a bump allocator over pages obtained from the kernel (outside the Go heap).  Everything stored
// in it points into the arena itself, at globals or at strings listed in keep, so the collector needs not see it.
type watchArena struct {
	buf       []byte
	used      uintptr
	regions   []watchRegion
	keep      []any
	fault     string // the operation stored into one of its arguments: where
	internal  bool   // the operation stored into the unexported bookkeeping of a message (run abandoned)
	protected bool
	broken    bool // the kernel refused a protection change: the arena is not used any more
}

func newWatchArena() *watchArena {
	buf, err := syscall.Mmap(-1, 0, watchArenaSize, syscall.PROT_READ|syscall.PROT_WRITE, syscall.MAP_ANON|syscall.MAP_PRIVATE)
	if err != nil {
		return nil
	}
	return &watchArena{buf: buf}
}

func (a *watchArena) reset() {
	clear(a.buf[:a.used])
	a.used, a.regions, a.keep, a.fault, a.internal = 0, a.regions[:0], nil, "", false
}

func (a *watchArena) alloc(size, align uintptr, label string, typ reflect.Type, n int) unsafe.Pointer {
	off := (a.used + align - 1) &^ (align - 1)
	if off+size > uintptr(len(a.buf)) {
		panic("watch arena exhausted")
	}
	a.used = off + size
	a.regions = append(a.regions, watchRegion{off, size, label, typ, n})
	return unsafe.Pointer(&a.buf[off])
}

func (a *watchArena) span() []byte {
	page := uintptr(syscall.Getpagesize())
	n := (a.used + page - 1) &^ (page - 1)
	if n == 0 {
		n = page
	}
	return a.buf[:n]
}

func (a *watchArena) protect() {
	if err := syscall.Mprotect(a.span(), syscall.PROT_READ); err != nil {
		a.broken = true
		return
	}
	a.protected = true
}

func (a *watchArena) unprotect() {
	if !a.protected {
		return
	}
	if err := syscall.Mprotect(a.span(), syscall.PROT_READ|syscall.PROT_WRITE); err != nil {
		panic("cannot make the watch arena writable again: " + err.Error())
	}
	a.protected = false
}

func (a *watchArena) contains(addr uintptr) bool {
	lo := uintptr(unsafe.Pointer(&a.buf[0]))
	return addr >= lo && addr < lo+uintptr(len(a.buf))
}

// locate names the object (and field) an address of the arena belongs to; internal = unexported field.
func (a *watchArena) locate(addr uintptr) (where string, internal bool) {
	off := addr - uintptr(unsafe.Pointer(&a.buf[0]))
	for _, r := range a.regions {
		if off < r.off || off >= r.off+r.size {
			continue
		}
		rel := off - r.off
		where = r.label
		t := r.typ
		if r.n > 0 {
			where = fmt.Sprintf("%s[%d]", r.label, rel/t.Size())
			rel %= t.Size()
		}
		if t.Kind() == reflect.Struct {
			for i := 0; i < t.NumField(); i++ {
				f := t.Field(i)
				if rel >= f.Offset && rel < f.Offset+f.Type.Size() {
					return where + "." + f.Name, !f.IsExported()
				}
			}
		}
		return where, false
	}
	return "padding between argument objects", false
}

// watchNew allocates a zero T for an argument: in the arena when one is active, on the heap otherwise.
func watchNew[T any](a *watchArena, label string) *T {
	if a == nil {
		return new(T)
	}
	var z T
	return (*T)(a.alloc(unsafe.Sizeof(z), unsafe.Alignof(z), label, reflect.TypeOf(z), 0))
}

// watchSlice is make([]T, n, c) with the backing array in the arena when one is active.
func watchSlice[T any](a *watchArena, n, c int, label string) []T {
	if a == nil || c == 0 {
		return make([]T, n, c)
	}
	var z T
	p := a.alloc(unsafe.Sizeof(z)*uintptr(c), unsafe.Alignof(z), label, reflect.TypeOf(z), c)
	return unsafe.Slice((*T)(p), c)[:n]
}

// watchKeep keeps heap values referenced from the arena alive (strings stored in message fields).
func watchKeep(a *watchArena, v ...any) {
	if a != nil {
		a.keep = append(a.keep, v...)
	}
}

type watchFault struct{ where string }

func (w watchFault) Error() string { return "argument written to: " + w.where }

// watched runs the operation under test with the arena read-only.  A store into the arena ends the operation
// (as a panic of type watchFault, after the arena has been made writable again) and is recorded in a.fault.
func watched(a *watchArena, f func()) {
	if a == nil || a.broken {
		f()
		return
	}
	a.protect()
	old := debug.SetPanicOnFault(true)
	defer func() {
		debug.SetPanicOnFault(old)
		a.unprotect()
		if r := recover(); r != nil {
			if e, ok := r.(interface{ Addr() uintptr }); ok && a.contains(e.Addr()) {
				where, internal := a.locate(e.Addr())
				if internal {
					a.internal = true
				} else if a.fault == "" {
					a.fault = where
				}
				panic(watchFault{where})
			}
			panic(r)
		}
	}()
	f()
}

// wa is the arena of the segment / mode half (nil: arguments are built on the heap, nothing is protected).
// Only the goroutine that runs the segment cases touches it.
var wa *watchArena

var segArena = newWatchArena()

// watchCounts: how the watched runs ended (reported through the tie's counters by compareSeg).
var watchCounts = map[string]int{}

// watchSampler decides which cases get the second, watched run: the first `full` cases of every operation (the
// exhaustive small families come first) and every `every`-th one after that.  A protection change is a system
// call that interrupts every thread of the process, so watching each of ~700k quick-tier cases would double the
// run time; a store into an argument is a property of an operation and a branch, not of particular numbers.
type watchSampler struct {
	seen        map[string]int
	full, every int
}

func (s *watchSampler) take(op string) bool {
	if s.seen == nil {
		s.seen = map[string]int{}
	}
	n := s.seen[op]
	s.seen[op] = n + 1
	return n < s.full || s.every <= 1 || n%s.every == 0
}

// segWatch / timeWatch: the samplers of the two halves (replays watch every case: every = 1).
var segWatch = &watchSampler{full: 0, every: 1}
var timeWatch = &watchSampler{full: 0, every: 1}

// runWatched runs the case once more with its arguments in read-only pages and reports a store into them.
func (c scase) runWatched() (mutated string) {
	a := segArena
	if a == nil || a.broken {
		watchCounts["watch/unavailable"]++
		return ""
	}
	if !segWatch.take(c.Op) {
		watchCounts["watch/not-sampled"]++
		return ""
	}
	a.reset()
	wa = a
	defer func() { wa = nil }()
	c.runCode0()
	switch {
	case a.fault != "":
		watchCounts["watch/store-into-argument"]++
		return "a store into " + a.fault + " during the call (the argument's pages were read-only)"
	case a.internal:
		watchCounts["watch/message-bookkeeping-written-run-abandoned"]++
	default:
		watchCounts["watch/clean"]++
	}
	return ""
}
