package main

// Float32 magnitudes beyond the exactness bound, judged (round 6).
//
// PropsFloat.C18_sum_float_error / C18_sumMagnitude_float_error: for every list and every arrangement the
// unstable sort may leave equal-time edges in, Sum in float32 stays at every instant within
// 2*n*A/2^24 of the pointwise sum (n = number of rising/falling edges, A = total of their absolute deltas);
// SumMagnitude within 2*n*A/2^24 of the exact total (n segments, A their absolute magnitudes).  Here that is
// the monitor's clause for every case in which rounding happens — also those whose result the tie cannot
// compare because it depends on the order sort.Slice leaves equal-time edges in: the real result is sampled
// through the real MagnitudeAt and compared with the exact pointwise sum (math/big) under that bound.
// Independent of the model: the oracle is the span layout of the arguments and exact rational arithmetic.

import (
	"fmt"
	"math/big"
	"math/rand"
	"strings"
	"time"

	"github.com/smart-core-os/sc-golang/pkg/trait/electricpb/segmentpb"
	"github.com/smart-core-os/sc-golang/verifharness/lib"
)

// floatOps: the replay names of the float clauses (the real code run is Sum / SumMagnitude).
var floatOps = map[string]string{"sumf": "sum", "summagf": "summag"}

// edgeBudget: the number of edges calcCuts produces for ls and the total of their absolute deltas (numerators).
func edgeBudget(ls [][]sg) (n int64, a *big.Int) {
	a = new(big.Int)
	for _, l := range ls {
		for _, s := range l {
			if s.mag != 0 {
				m := new(big.Int).Abs(big.NewInt(s.mag))
				n++
				a.Add(a, m)
				if !s.inf {
					n++
					a.Add(a, m)
				}
			}
			if s.inf {
				break
			}
		}
	}
	return n, a
}

// ratOf: the float32 f as an exact rational number of magnitude units (numerators over 2^magShift); nil for
// an infinity or NaN.
func ratOf(f float32) *big.Rat {
	x := new(big.Rat).SetFloat64(float64(f))
	if x == nil {
		return nil
	}
	return x.Mul(x, new(big.Rat).SetInt(new(big.Int).Lsh(big.NewInt(1), uint(magShift))))
}

func ratText(x *big.Rat) string {
	if x == nil {
		return "not a finite number"
	}
	return x.RatString()
}

// withinBound: |got - want| * 2^24 <= 2 * n * a.
func withinBound(got *big.Rat, want *big.Int, n int64, a *big.Int) bool {
	if got == nil {
		return false
	}
	d := new(big.Rat).Sub(got, new(big.Rat).SetInt(want))
	d.Abs(d)
	d.Mul(d, new(big.Rat).SetInt64(1<<24))
	bound := new(big.Int).Mul(big.NewInt(2*n), a)
	return d.Cmp(new(big.Rat).SetInt(bound)) <= 0
}

// sumFloatClauses judges a Sum on rounding magnitudes: the breakpoints are those of the pointwise sum
// (C18_sum_float_timing) and the magnitude at every sampled instant is within the accumulated rounding bound of
// the pointwise sum (C18_sum_float_error).  c is reported with the replay name "sumf".
func sumFloatClauses(mon *lib.Monitor, c scase, ls [][]sg, o outcome) {
	rc := scase{"sumf", "", c.L, ""}
	if strings.HasPrefix(o.text, "panic:") {
		mon.Violate("C18/Sum/panic", "Sum panicked", rc, "no panic", o.text)
		return
	}
	if o.mutated != "" {
		mon.Violate("C18/Sum/argument-modified", "Sum modified its argument", rc, "arguments unchanged", o.mutated)
	}
	mon.Count("float32/sum-timing(rounding case)")
	if want, got := fmt.Sprint(expectedClosedLens(ls)), fmt.Sprint(closedLensOf(o.segs)); want != got {
		mon.Violate("C18/Sum/float-timing", "the breakpoints of Sum on rounding magnitudes are not those of the pointwise sum (rounding may change magnitudes only)", rc, want, got+" (result "+o.text+")")
		return
	}
	n, a := edgeBudget(ls)
	var pts []int64
	for _, l := range ls {
		pts = append(pts, breakpoints(l)...)
	}
	pts = append(pts, realBps(o.segs)...)
	mon.Count("float32/sum-error-bound(rounding case)")
	exactEverywhere := true
	panicked, msg := lib.Catch(func() {
		for _, t := range samplePoints(pts) {
			want := new(big.Int)
			for _, l := range ls {
				if mag, ok, _ := stepAt(l, t); ok {
					want.Add(want, big.NewInt(mag))
				}
			}
			var got float32
			if t >= 0 {
				got, _ = segmentpb.MagnitudeAt(time.Duration(t), o.segs...)
			}
			g := ratOf(got)
			if g == nil || g.Cmp(new(big.Rat).SetInt(want)) != 0 {
				exactEverywhere = false
			}
			if !withinBound(g, want, n, a) {
				mon.Violate("C18/Sum/float-error-bound", "Sum on rounding float32 magnitudes is further from the pointwise sum than the roundings of its additions can account for (2 * edges * total absolute delta / 2^24)",
					rc, fmt.Sprintf("%s at t=%d (+- 2*%d*%s/2^24)", want, t, n, a), fmt.Sprintf("%s (result %s)", ratText(g), o.text))
				return
			}
		}
	})
	if panicked {
		mon.Violate("C18/Sum/result-unusable", "the result of the operation cannot be read as a step function (MagnitudeAt panics on it)", rc, "a well-formed result", o.text+" -> panic: "+msg)
		return
	}
	if exactEverywhere {
		mon.Count("float32/sum-error-bound: result is the pointwise sum exactly")
	} else {
		mon.Count("float32/sum-error-bound: result rounded, within the bound")
	}
}

// sumMagFloatClause judges SumMagnitude on rounding magnitudes (C18_sumMagnitude_float_error).
func sumMagFloatClause(mon *lib.Monitor, c scase, l []sg, got float32, text string) {
	rc := scase{"summagf", "", c.L, ""}
	if strings.HasPrefix(text, "panic:") {
		mon.Violate("C18/SumMagnitude/panic", "SumMagnitude panicked", rc, "no panic", text)
		return
	}
	want, a := new(big.Int), new(big.Int)
	for _, s := range l {
		want.Add(want, big.NewInt(s.mag))
		a.Add(a, new(big.Int).Abs(big.NewInt(s.mag)))
	}
	mon.Count("float32/summag-error-bound(rounding case)")
	if g := ratOf(got); !withinBound(g, want, int64(len(l)), a) {
		mon.Violate("C18/SumMagnitude/float-error-bound", "SumMagnitude on rounding float32 magnitudes is further from the exact total than the roundings of its additions can account for (2 * segments * total absolute magnitude / 2^24)",
			rc, fmt.Sprintf("%s (+- 2*%d*%s/2^24)", want, len(l), a), ratText(g))
	}
}

// floatClauses runs the float clauses on a case given by its replay name (also the replay entry point).
func floatClauses(mon *lib.Monitor, c scase) {
	plain := scase{floatOps[c.Op], "", c.L, ""}
	mon.Eval(c.line(), true, nil)
	switch c.Op {
	case "sumf":
		var ls [][]sg
		if c.L != "none" {
			ls = parseSgLists(c.L)
		}
		sumFloatClauses(mon, plain, ls, plain.runCode())
	case "summagf":
		o := plain.runCode()
		if o.mutated != "" {
			mon.Violate("C18/SumMagnitude/argument-modified", "SumMagnitude modified its argument", c, "arguments unchanged", o.mutated)
		}
		sumMagFloatClause(mon, plain, parseSgs(c.L), o.mag, o.text)
	}
}

// randSharedLists: 2-4 lists of float32-integer magnitudes of very different sizes on a coarse time grid, so
// that several rising and falling edges fall on the same instants: the order sort.Slice leaves them in decides
// which small terms are absorbed.  No retry: this is the family the tie cannot compare.
func randSharedLists(r *rand.Rand) [][]sg {
	n := 2 + r.Intn(3)
	ls := make([][]sg, n)
	for i := range ls {
		k := 1 + r.Intn(4)
		var l []sg
		for j := 0; j < k; j++ {
			mag := f32int(r)
			if r.Intn(5) == 0 {
				mag = 0
			}
			l = append(l, sg{mag: mag, len: int64(r.Intn(4))})
		}
		if r.Intn(3) == 0 {
			l = append(l, sg{mag: f32int(r), inf: true})
		}
		ls[i] = l
	}
	return ls
}
