package main

import (
	"fmt"
	"math"
	"math/big"
	"math/rand"
	"strconv"
	"strings"

	"google.golang.org/protobuf/types/known/timestamppb"

	sctimepb "github.com/smart-core-os/sc-api/go/types/time"
	sctime "github.com/smart-core-os/sc-golang/pkg/time"
	"github.com/smart-core-os/sc-golang/verifharness/lib"
)

// tcase is one request in the line protocol of driverC18: `<op> <a> <b>`.
//
//	cmp   a,b = "secs:nanos"
//	isect a,b = "nil" | "<start>/<end>" with start,end = "-" | "secs:nanos"
//	conn  likewise
//	pall - - | pbefore a - | pafter a - | pbetween a b   the period constructors; a,b = "-" (nil) | "secs:nanos"
type tcase struct {
	Op string `json:"op"`
	A  string `json:"a"`
	B  string `json:"b"`
}

func (c tcase) line() string { return c.Op + " " + c.A + " " + c.B }

func parseTs(s string) *timestamppb.Timestamp { return parseTsIn(nil, s) }

// parseTsIn builds the timestamp in the given watch arena (nil: on the heap).
func parseTsIn(a *watchArena, s string) *timestamppb.Timestamp {
	if s == "-" {
		return nil
	}
	p := strings.Split(s, ":")
	sec, err1 := strconv.ParseInt(p[0], 10, 64)
	n, err2 := strconv.ParseInt(p[1], 10, 32)
	if err1 != nil || err2 != nil {
		panic("bad ts " + s)
	}
	ts := watchNew[timestamppb.Timestamp](a, "timestamp")
	ts.Seconds, ts.Nanos = sec, int32(n)
	ts.ProtoReflect()
	return ts
}

func parsePeriod(s string) *sctimepb.Period { return parsePeriodIn(nil, s) }

func parsePeriodIn(a *watchArena, s string) *sctimepb.Period {
	if s == "nil" {
		return nil
	}
	p := strings.Split(s, "/")
	out := watchNew[sctimepb.Period](a, "period")
	out.StartTime, out.EndTime = parseTsIn(a, p[0]), parseTsIn(a, p[1])
	out.ProtoReflect()
	return out
}

func (c tcase) runCode() string {
	var out string
	panicked, msg := lib.Catch(func() {
		switch c.Op {
		case "cmp":
			out = strconv.Itoa(sctime.CompareAscending(parseTs(c.A), parseTs(c.B)))
		case "isect":
			out = strconv.FormatBool(sctime.PeriodsIntersect(parsePeriod(c.A), parsePeriod(c.B)))
		case "conn":
			out = strconv.FormatBool(sctime.PeriodsConnected(parsePeriod(c.A), parsePeriod(c.B)))
		case "pall", "pbefore", "pafter", "pbetween":
			out = showPeriod(c.construct())
		default:
			out = "!bad-op"
		}
	})
	if panicked {
		return "panic:" + msg
	}
	return out
}

// construct runs one of the period constructors of the real code.
func (c tcase) construct() *sctimepb.Period {
	switch c.Op {
	case "pall":
		return sctime.AllTime()
	case "pbefore":
		return sctime.PeriodBefore(parseTs(c.A))
	case "pafter":
		return sctime.PeriodOnOrAfter(parseTs(c.A))
	default:
		return sctime.PeriodBetween(parseTs(c.A), parseTs(c.B))
	}
}

func showTs(t *timestamppb.Timestamp) string {
	if t == nil {
		return "-"
	}
	return fmt.Sprintf("%d:%d", t.Seconds, t.Nanos)
}

func showPeriod(p *sctimepb.Period) string {
	if p == nil {
		return "nil"
	}
	return showTs(p.StartTime) + "/" + showTs(p.EndTime)
}

// fromNs is the normalised timestamp of an instant given in ns (nil if it does not fit int64 seconds).
func fromNs(x *big.Int) *timestamppb.Timestamp {
	q, r := new(big.Int).DivMod(x, big.NewInt(1_000_000_000), new(big.Int))
	if !q.IsInt64() {
		return nil
	}
	return &timestamppb.Timestamp{Seconds: q.Int64(), Nanos: int32(r.Int64())}
}

// --- independent oracle (math/big on the ns timeline) ------------------------------------------

func ns(t *timestamppb.Timestamp) *big.Int {
	x := new(big.Int).Mul(big.NewInt(t.Seconds), big.NewInt(1_000_000_000))
	return x.Add(x, big.NewInt(int64(t.Nanos)))
}

func normal(t *timestamppb.Timestamp) bool {
	return t == nil || (t.Nanos >= 0 && t.Nanos < 1_000_000_000)
}

// bounds of a period as optional big ints
func bounds(p *sctimepb.Period) (lo, hi *big.Int) {
	if p.StartTime != nil {
		lo = ns(p.StartTime)
	}
	if p.EndTime != nil {
		hi = ns(p.EndTime)
	}
	return
}

func lt(a, b *big.Int) bool { return a == nil || b == nil || a.Cmp(b) < 0 } // absent bound = infinite
func le(a, b *big.Int) bool { return a == nil || b == nil || a.Cmp(b) <= 0 }

// argsModified runs the operation once more on fresh arguments and reports how the call changed them ("" if
// it did not): the predicates, the comparison and the constructors only read their timestamps / periods.
func (c tcase) argsModified() (mutated string) {
	if mutated = c.argsModifiedIn(nil); mutated != "" {
		return mutated
	}
	// once more with the arguments in read-only pages (watch.go): any store into them during the call
	w := timeArena
	if w == nil || w.broken || !timeWatch.take(c.Op) {
		return ""
	}
	w.reset()
	timeWatched++
	c.argsModifiedIn(w)
	if w.fault != "" {
		return "a store into " + w.fault + " during the call (the argument's pages were read-only)"
	}
	return ""
}

var timeArena = newWatchArena()

// timeWatched counts the watched runs of the pkg/time half (only its own goroutine touches it).
var timeWatched int

func (c tcase) argsModifiedIn(w *watchArena) (mutated string) {
	lib.Catch(func() {
		switch c.Op {
		case "cmp":
			a, b := parseTsIn(w, c.A), parseTsIn(w, c.B)
			watched(w, func() { sctime.CompareAscending(a, b) })
			if showTs(a) != c.A || showTs(b) != c.B {
				mutated = showTs(a) + " " + showTs(b)
			}
		case "isect", "conn":
			p, q := parsePeriodIn(w, c.A), parsePeriodIn(w, c.B)
			var ps, pe, qs, qe *timestamppb.Timestamp
			if p != nil {
				ps, pe = p.StartTime, p.EndTime
			}
			if q != nil {
				qs, qe = q.StartTime, q.EndTime
			}
			watched(w, func() {
				if c.Op == "isect" {
					sctime.PeriodsIntersect(p, q)
				} else {
					sctime.PeriodsConnected(p, q)
				}
			})
			if showPeriod(p) != c.A || showPeriod(q) != c.B ||
				(p != nil && (p.StartTime != ps || p.EndTime != pe)) || (q != nil && (q.StartTime != qs || q.EndTime != qe)) {
				mutated = showPeriod(p) + " " + showPeriod(q)
			}
		case "pbefore", "pafter", "pbetween":
			a, b := parseTsIn(w, c.A), parseTsIn(w, c.B)
			watched(w, func() {
				switch c.Op {
				case "pbefore":
					sctime.PeriodBefore(a)
				case "pafter":
					sctime.PeriodOnOrAfter(a)
				default:
					sctime.PeriodBetween(a, b)
				}
			})
			if showTs(a) != c.A || showTs(b) != c.B {
				mutated = showTs(a) + " " + showTs(b)
			}
		}
	})
	return mutated
}

// monitor evaluates the property's own statement on the real code's answer.
func (c tcase) monitor(m *lib.Monitor, code string) {
	if strings.HasPrefix(code, "panic:") {
		m.Violate("C18/"+c.Op+"/panic", "operation panicked", c, "no panic", code)
		return
	}
	if mut := c.argsModified(); mut != "" {
		m.Violate("C18/"+c.Op+"/argument-modified", "the operation modified the timestamps / periods it was given", c, c.A+" "+c.B, mut)
	}
	switch c.Op {
	case "pall", "pbefore", "pafter", "pbetween":
		// the constructed period, read through the real PeriodsIntersect with the 1ns probe [x, x+1ns), must
		// contain exactly the instants the constructor documents: all / before a / from a on / [a, b)
		name := map[string]string{"pall": "AllTime", "pbefore": "PeriodBefore", "pafter": "PeriodOnOrAfter", "pbetween": "PeriodBetween"}[c.Op]
		var lo, hi *timestamppb.Timestamp
		switch c.Op {
		case "pbefore":
			hi = parseTs(c.A)
		case "pafter":
			lo = parseTs(c.A)
		case "pbetween":
			lo, hi = parseTs(c.A), parseTs(c.B)
		}
		if !normal(lo) || !normal(hi) {
			return
		}
		var l, h *big.Int
		if lo != nil {
			l = ns(lo)
		}
		if hi != nil {
			h = ns(hi)
		}
		if !lt(l, h) {
			return // empty or inverted: no instants claimed
		}
		p := c.construct()
		probes := []*big.Int{big.NewInt(0), big.NewInt(1_700_000_000_000_000_000)}
		for _, b := range []*big.Int{l, h} {
			if b != nil {
				for _, dx := range []int64{-1, 0, 1} {
					probes = append(probes, new(big.Int).Add(b, big.NewInt(dx)))
				}
			}
		}
		for _, x := range probes {
			from, to := fromNs(x), fromNs(new(big.Int).Add(x, big.NewInt(1)))
			if from == nil || to == nil {
				continue
			}
			want := (l == nil || l.Cmp(x) <= 0) && (h == nil || x.Cmp(h) < 0)
			got := sctime.PeriodsIntersect(p, &sctimepb.Period{StartTime: from, EndTime: to})
			if got != want {
				m.Violate("C18/"+name+"/wrong-instants", name+" does not denote the documented set of instants (probed with PeriodsIntersect against [x, x+1ns))", c,
					fmt.Sprintf("instant %s member=%v", x, want), fmt.Sprintf("member=%v (period %s)", got, code))
				break
			}
		}
	case "cmp":
		a, b := parseTs(c.A), parseTs(c.B)
		if !normal(a) || !normal(b) {
			// outside the chronological claim; still must be -1/0/1
			if code != "-1" && code != "0" && code != "1" {
				m.Violate("C18/CompareAscending/not-in-{-1,0,1}", "CompareAscending must return -1, 0 or 1", c, "-1|0|1", code)
			}
			return
		}
		want := strconv.Itoa(ns(a).Cmp(ns(b)))
		if code != want {
			sig := "C18/CompareAscending/wrong-sign"
			if code != "-1" && code != "0" && code != "1" {
				sig = "C18/CompareAscending/not-in-{-1,0,1}"
			}
			m.Violate(sig, "CompareAscending disagrees with chronological order", c, want, code)
		}
	case "isect", "conn":
		p, q := parsePeriod(c.A), parsePeriod(c.B)
		name := map[string]string{"isect": "PeriodsIntersect", "conn": "PeriodsConnected"}[c.Op]
		// symmetry holds for all inputs
		sym := tcase{Op: c.Op, A: c.B, B: c.A}.runCode()
		if sym != code {
			m.Violate("C18/"+name+"/asymmetric", name+" is not symmetric", c, code, sym)
		}
		if p == nil || q == nil {
			if code != "false" {
				m.Violate("C18/"+name+"/nil-period", name+" with a nil period must be false", c, "false", code)
			}
			return
		}
		if !normal(p.StartTime) || !normal(p.EndTime) || !normal(q.StartTime) || !normal(q.EndTime) {
			return
		}
		pl, ph := bounds(p)
		ql, qh := bounds(q)
		var want bool
		if c.Op == "isect" {
			if !(lt(pl, ph) && lt(ql, qh)) {
				return // empty/inverted interval: outside the property's "intervals"
			}
			// two non-empty half-open intervals overlap iff max lower < min upper
			want = lt(pl, qh) && lt(ql, ph)
		} else {
			if !(le(pl, ph) && le(ql, qh)) {
				return
			}
			want = le(pl, qh) && le(ql, ph)
		}
		if code != strconv.FormatBool(want) {
			m.Violate("C18/"+name+"/wrong-answer", name+" disagrees with interval semantics", c, strconv.FormatBool(want), code)
		}
	}
}

// --- generators --------------------------------------------------------------------------------

func endpointDomain() []string {
	d := []string{"-"}
	for s := 0; s <= 5; s++ {
		for _, n := range []int{0, 1, 999999999} {
			d = append(d, fmt.Sprintf("%d:%d", s, n))
		}
	}
	return d
}

func periodDomain() []string {
	e := endpointDomain()
	d := []string{"nil"}
	for _, a := range e {
		for _, b := range e {
			d = append(d, a+"/"+b)
		}
	}
	return d
}

func randTs(r *rand.Rand) string {
	var s int64
	switch r.Intn(6) {
	case 0:
		s = int64(r.Intn(7)) - 3
	case 1:
		s = math.MaxInt64 - int64(r.Intn(3))
	case 2:
		s = math.MinInt64 + int64(r.Intn(3))
	case 3:
		s = int64(r.Uint64())
	case 4:
		s = 1_700_000_000 + int64(r.Intn(1000))
	default:
		s = int64(r.Intn(2_000_000)) - 1_000_000
	}
	var n int32
	switch r.Intn(5) {
	case 0:
		n = 0
	case 1:
		n = 999_999_999
	case 2:
		n = int32(r.Intn(3))
	default:
		n = int32(r.Intn(1_000_000_000))
	}
	if r.Intn(12) == 0 {
		// outside what timestamppb calls valid: the comparison is still a -1/0/1 lexicographic total order on
		// the (int64, int32) fields (C18_compare_sign, C18_total_order), with no int32 wrap-around
		n = []int32{math.MinInt32, math.MaxInt32, -1, 1_000_000_000, 2_000_000_000, math.MinInt32 + 1}[r.Intn(6)]
	}
	return fmt.Sprintf("%d:%d", s, n)
}

func randPeriod(r *rand.Rand, pool []string) string {
	if r.Intn(20) == 0 {
		return "nil"
	}
	pick := func() string {
		if r.Intn(5) == 0 {
			return "-"
		}
		if r.Intn(2) == 0 && len(pool) > 0 {
			return pool[r.Intn(len(pool))]
		}
		return randTs(r)
	}
	return pick() + "/" + pick()
}

// prepTime registers the ties and the monitor of the pkg/time half (in report order) and returns the
// function that runs them; main runs it on a driver process of its own, concurrently with the segment half
// (nothing here touches shared state: each tie and monitor is its own object).
func prepTime(f lib.Flags, res *lib.Result) func(drv *lib.Driver) {
	mon := res.Monitor("time-semantics",
		"every tie case is also checked against an independent math/big oracle: sign of the ns difference, interval overlap/touch, symmetry, nil => false; the timestamps / periods handed to an operation compared before/after, and (sampled: the first cases of every operation, then every n-th) once more with the arguments in read-only pages, where any store into them during the call faults (watch.go)")
	k2 := res.Tie("periods-exhaustive", "K2",
		"all ordered pairs of periods (incl. nil) with endpoints in {unbounded, 0..5}s x nanos {0,1,999999999}, both predicates; distinct = distinct (op,p,q); non-trivial = both periods non-nil")
	k2.Exhaustive = true
	k2b := res.Tie("compare-exhaustive-small", "K2",
		"CompareAscending on all pairs of timestamps with secs in {-2..5} x nanos {0,1,999999999}; non-trivial = a != b")
	k2b.Exhaustive = true
	k2c := res.Tie("constructors-exhaustive-small", "K2",
		"AllTime, PeriodBefore(a), PeriodOnOrAfter(a), PeriodBetween(a, b) for all a, b in {nil, 0..5}s x nanos {0,1,999999999}; non-trivial = some bound given")
	k2c.Exhaustive = true
	k1 := res.Tie("random-64bit", "K1",
		"random timestamps over the full int64 seconds range (extremes, near-equal, random; 1/12 with nanos outside [0, 1e9): MinInt32(+1), MaxInt32, -1, 1e9, 2e9 - compared with the model only, the chronological monitor needs valid nanos) and periods built from a shared pool so that equal/adjacent bounds are frequent; non-trivial = operands differ")
	return func(drv *lib.Driver) {

		// K2: the whole finite domain named by the property
		dom := periodDomain()
		var cases []tcase
		for _, op := range []string{"isect", "conn"} {
			for _, a := range dom {
				for _, b := range dom {
					cases = append(cases, tcase{op, a, b})
				}
			}
		}
		compare(k2, mon, drv, cases)

		// K2b: all timestamp pairs of the small domain for cmp
		var small []string
		for s := -2; s <= 5; s++ {
			for _, n := range []int{0, 1, 999999999} {
				small = append(small, fmt.Sprintf("%d:%d", s, n))
			}
		}
		cases = cases[:0]
		for _, a := range small {
			for _, b := range small {
				cases = append(cases, tcase{"cmp", a, b})
			}
		}
		compare(k2b, mon, drv, cases)

		// K2c: the period constructors over the endpoint domain
		cases = cases[:0]
		cases = append(cases, tcase{"pall", "-", "-"})
		for _, a := range endpointDomain() {
			cases = append(cases, tcase{"pbefore", a, "-"}, tcase{"pafter", a, "-"})
			for _, b := range endpointDomain() {
				cases = append(cases, tcase{"pbetween", a, b})
			}
		}
		compare(k2c, mon, drv, cases)

		// K1: random 64-bit range timestamps and periods built from them
		r := lib.NewRand(f.Seed)
		n := f.N(20000, 400000)
		cases = cases[:0]
		for i := 0; i < n; i++ {
			pool := []string{randTs(r), randTs(r), randTs(r)}
			switch r.Intn(4) {
			case 3:
				a, b := pool[r.Intn(3)], pool[r.Intn(3)]
				if r.Intn(6) == 0 {
					a = "-"
				}
				switch r.Intn(3) {
				case 0:
					cases = append(cases, tcase{"pbefore", a, "-"})
				case 1:
					cases = append(cases, tcase{"pafter", a, "-"})
				default:
					cases = append(cases, tcase{"pbetween", a, b})
				}
			case 0:
				a := pool[r.Intn(3)]
				b := pool[r.Intn(3)]
				if r.Intn(2) == 0 {
					b = randTs(r)
				}
				cases = append(cases, tcase{"cmp", a, b})
			case 1:
				cases = append(cases, tcase{"isect", randPeriod(r, pool), randPeriod(r, pool)})
			default:
				cases = append(cases, tcase{"conn", randPeriod(r, pool), randPeriod(r, pool)})
			}
		}
		compare(k1, mon, drv, cases)
	}
}

func compare(t *lib.Tie, mon *lib.Monitor, drv *lib.Driver, cases []tcase) {
	lines := make([]string, len(cases))
	for i, c := range cases {
		lines[i] = c.line()
	}
	type batch struct {
		model []string
		err   error
	}
	done := make(chan batch, 1)
	go func() {
		model, err := drv.Batch(lines)
		done <- batch{model, err}
	}()
	codes := make([]string, len(cases))
	for i, c := range cases {
		codes[i] = c.runCode()
	}
	b := <-done
	model, err := b.model, b.err
	if err != nil {
		t.Fail(err)
		return
	}
	for i, c := range cases {
		code := codes[i]
		key := c.line()
		nontrivial := c.A != c.B && c.A != "nil" && c.B != "nil"
		if strings.HasPrefix(c.Op, "p") {
			t.Count(c.Op)
		} else {
			t.Count(c.Op + "=" + code)
		}
		t.Record(key, nontrivial, c, model[i], code)
		mon.Eval(key, nontrivial, nil)
		mon.Count(c.Op)
		before := timeWatched
		c.monitor(mon, code)
		if timeWatched != before {
			mon.Count("watch/run-on-read-only-arguments")
		}
	}
}
