package main

// Segment and mode half of C18: the electric segment/mode operations against
//   (a) the Lean model through driverC18 (structural tie: canonical text of every result), and
//   (b) an independent step-function oracle written here (monitor: the property itself), which
//       samples the real MagnitudeAt of every result at every integer nanosecond around all
//       breakpoints, and deep-compares every argument before/after the call.

import (
	"fmt"
	"math"
	"math/bits"
	"math/rand"
	"regexp"
	"sort"
	"strconv"
	"strings"
	"time"

	"google.golang.org/protobuf/proto"
	"google.golang.org/protobuf/types/known/durationpb"
	"google.golang.org/protobuf/types/known/timestamppb"

	"github.com/smart-core-os/sc-api/go/traits"
	"github.com/smart-core-os/sc-golang/pkg/trait/electricpb/modepb"
	"github.com/smart-core-os/sc-golang/pkg/trait/electricpb/segmentpb"
	"github.com/smart-core-os/sc-golang/verifharness/lib"
)

// scase is one request of the segment/mode part of driverC18's protocol: `<op> [<d>] <l>`.
//
//	segment  = mag/len, len = "i" when absent        list = "e" | seg,seg,...      lists = list;list;...
//	mode     = start@list, start = "-" when absent   modes = mode;mode;...
//	ops with d: active magat maxafter cut shift mactive mmagat mmaxafter mcut mshift
//	ops without: dur max summag sum msum
type scase struct {
	Op string `json:"op"`
	D  string `json:"d"`
	L  string `json:"l"`
	// B names the absolute instant that model time 0 is mapped to for the mode operations ("" = an
	// ordinary instant in 2023; "zero" = the zero time.Time 0001-01-01T00:00:00Z; "unix" = the Unix
	// epoch, whose Timestamp proto has all fields zero; "denorm" = the ordinary instant, but every start time
	// is handed over as a DENORMALISED Timestamp proto {seconds+1, nanos-1e9}, which AsTime() reads as the
	// same instant). The operations must not depend on it.
	B string `json:"b,omitempty"`
}

// key identifies the case (request line plus the epoch family when it is not the default).
func (c scase) key() string {
	if c.B == "" {
		return c.line()
	}
	return c.line() + " @" + c.B
}

func (c scase) line() string {
	if c.D == "" {
		return c.Op + " " + c.L
	}
	return c.Op + " " + c.D + " " + c.L
}

var segOps = map[string]bool{"active": true, "magat": true, "maxafter": true, "cut": true, "shift": true, "mactive": true,
	"cuts": true, "mmagat": true, "mmaxafter": true, "mcut": true, "mshift": true, "mminat": true, "dur": true, "max": true, "summag": true, "sum": true, "msum": true}

// ---- plain values (the harness's own representation; the oracle works on these only) -----------

type sg struct {
	mag int64
	len int64
	inf bool
}

type md struct {
	hasStart bool
	start    int64
	segs     []sg
}

func parseSg(s string) sg {
	p := strings.Split(s, "/")
	if len(p) != 2 {
		panic("bad segment " + s)
	}
	m, err := strconv.ParseInt(p[0], 10, 64)
	if err != nil {
		panic("bad segment " + s)
	}
	if p[1] == "i" {
		return sg{mag: m, inf: true}
	}
	l, err := strconv.ParseInt(p[1], 10, 64)
	if err != nil {
		panic("bad segment " + s)
	}
	return sg{mag: m, len: l}
}

func parseSgs(s string) []sg {
	if s == "e" {
		return nil
	}
	var out []sg
	for _, x := range strings.Split(s, ",") {
		out = append(out, parseSg(x))
	}
	return out
}

func parseSgLists(s string) [][]sg {
	if s == "none" {
		return nil
	}
	var out [][]sg
	for _, x := range strings.Split(s, ";") {
		out = append(out, parseSgs(x))
	}
	return out
}

func parseMd(s string) md {
	p := strings.Split(s, "@")
	if len(p) != 2 {
		panic("bad mode " + s)
	}
	m := md{segs: parseSgs(p[1])}
	if p[0] != "-" {
		x, err := strconv.ParseInt(p[0], 10, 64)
		if err != nil {
			panic("bad mode " + s)
		}
		m.hasStart, m.start = true, x
	}
	return m
}

func parseMds(s string) []md {
	if s == "none" {
		return nil
	}
	var out []md
	for _, x := range strings.Split(s, ";") {
		out = append(out, parseMd(x))
	}
	return out
}

func showSg(s sg) string {
	if s.inf {
		return fmt.Sprintf("%d/i", s.mag)
	}
	return fmt.Sprintf("%d/%d", s.mag, s.len)
}

func showSgs(l []sg) string {
	if len(l) == 0 {
		return "e"
	}
	p := make([]string, len(l))
	for i, s := range l {
		p[i] = showSg(s)
	}
	return strings.Join(p, ",")
}

func showSgLists(ls [][]sg) string {
	if len(ls) == 0 {
		return "none"
	}
	p := make([]string, len(ls))
	for i, l := range ls {
		p[i] = showSgs(l)
	}
	return strings.Join(p, ";")
}

func showMd(m md) string {
	st := "-"
	if m.hasStart {
		st = strconv.FormatInt(m.start, 10)
	}
	return st + "@" + showSgs(m.segs)
}

func showMds(ms []md) string {
	if len(ms) == 0 {
		return "none"
	}
	p := make([]string, len(ms))
	for i, m := range ms {
		p[i] = showMd(m)
	}
	return strings.Join(p, ";")
}

// ---- real protobuf values ---------------------------------------------------------------------

// base is the instant that model time 0 maps to. The default is an ordinary instant; the epoch
// families put it on the two distinguished instants of the libraries involved, so that start times
// and query times AT those instants (and just before/after) are exercised: nothing in the property
// depends on where on the absolute timeline a mode sits.
var bases = map[string]time.Time{
	"":       time.Unix(1_700_000_000, 0).UTC(),
	"zero":   {},                    // time.Time{}: IsZero() is true exactly here
	"unix":   time.Unix(0, 0).UTC(), // timestamppb.Timestamp{} (seconds 0, nanos 0)
	"denorm": time.Unix(1_700_000_000, 0).UTC(),
}

// denormStarts: build start times as denormalised Timestamp protos (set by useBase).
var denormStarts bool

var base = bases[""]

func (c scase) useBase() {
	b, ok := bases[c.B]
	if !ok {
		panic("unknown epoch family " + c.B)
	}
	base = b
	denormStarts = c.B == "denorm"
}

func at(ns int64) time.Time { return base.Add(time.Duration(ns)) }

// magVal: the float32 a numerator of a request line stands for (n / 2^magShift), magnitudes and Fixed shapes alike.
func magVal(n int64) float32 { return float32(math.Ldexp(float64(n), -magShift)) }

func pbSeg(s sg) *traits.ElectricMode_Segment {
	out := watchNew[traits.ElectricMode_Segment](wa, "segment")
	out.Magnitude = magVal(s.mag)
	if !s.inf {
		out.Length = watchNew[durationpb.Duration](wa, "segment length")
		dl := durationpb.New(time.Duration(s.len))
		out.Length.Seconds, out.Length.Nanos = dl.Seconds, dl.Nanos
		if s.len == math.MaxInt64 {
			// a proto beyond the int64 ns range: AsDuration saturates it to exactly this length
			out.Length.Seconds, out.Length.Nanos = 9223372037, 0
		}
		out.Length.ProtoReflect()
	}
	out.ProtoReflect() // the lazily set type pointer of the message is in place before the call under test
	return out
}

// pbFixed is the oneof wrapper of a Fixed shape.
func pbFixed(v float32) *traits.ElectricMode_Segment_Fixed {
	out := watchNew[traits.ElectricMode_Segment_Fixed](wa, "segment shape")
	out.Fixed = v
	return out
}

// guarded is an argument slice with two hidden sentinel elements in its spare capacity and a deep
// copy of its visible contents, so that any write through the argument is detectable.
type guarded struct {
	full  []*traits.ElectricMode_Segment // len+2 elements
	n     int
	ptrs  []*traits.ElectricMode_Segment
	clone []*traits.ElectricMode_Segment
	s1    *traits.ElectricMode_Segment
	s2    *traits.ElectricMode_Segment
}

func guard(l []sg) *guarded {
	g := &guarded{n: len(l)}
	g.full = watchSlice[*traits.ElectricMode_Segment](wa, len(l)+2, len(l)+2, "segment slice")
	for i, s := range l {
		g.full[i] = pbSeg(s)
		g.ptrs = append(g.ptrs, g.full[i])
		g.clone = append(g.clone, proto.Clone(g.full[i]).(*traits.ElectricMode_Segment))
	}
	g.s1 = watchNew[traits.ElectricMode_Segment](wa, "segment in the spare capacity")
	g.s2 = watchNew[traits.ElectricMode_Segment](wa, "segment in the spare capacity")
	g.s1.Magnitude, g.s2.Magnitude = -777, -778
	g.full[len(l)] = g.s1
	g.full[len(l)+1] = g.s2
	return g
}

func (g *guarded) arg() []*traits.ElectricMode_Segment { return g.full[:g.n:len(g.full)] }

// changed reports how the argument differs from what was passed ("" if untouched).
func (g *guarded) changed() string {
	for i := 0; i < g.n; i++ {
		if g.full[i] != g.ptrs[i] {
			return fmt.Sprintf("element %d of the argument slice was replaced", i)
		}
		if !proto.Equal(g.full[i], g.clone[i]) {
			return fmt.Sprintf("segment %d was modified: %v -> %v", i, g.clone[i], g.full[i])
		}
	}
	if g.full[g.n] != g.s1 || g.full[g.n+1] != g.s2 || g.s1.Magnitude != -777 || g.s2.Magnitude != -778 || g.s1.Length != nil || g.s2.Length != nil {
		return "the spare capacity of the argument slice was written to"
	}
	return ""
}

type guardedMode struct {
	mode  *traits.ElectricMode
	clone *traits.ElectricMode
	g     *guarded
}

func guardMode(m md) *guardedMode {
	g := guard(m.segs)
	mode := watchNew[traits.ElectricMode](wa, "mode")
	mode.Id, mode.Title, mode.Segments = "m1", "t", g.arg()
	if m.hasStart {
		ts := timestamppb.New(at(m.start))
		mode.StartTime = watchNew[timestamppb.Timestamp](wa, "mode start time")
		mode.StartTime.Seconds, mode.StartTime.Nanos = ts.Seconds, ts.Nanos
		if denormStarts {
			mode.StartTime.Seconds, mode.StartTime.Nanos = ts.Seconds+1, ts.Nanos-1_000_000_000
		}
		mode.StartTime.ProtoReflect()
	}
	mode.ProtoReflect()
	return &guardedMode{mode: mode, clone: proto.Clone(mode).(*traits.ElectricMode), g: g}
}

func (g *guardedMode) changed() string {
	if !proto.Equal(g.mode, g.clone) {
		return fmt.Sprintf("mode was modified: %v -> %v", g.clone, g.mode)
	}
	if len(g.mode.Segments) != g.g.n {
		return "mode.Segments was resliced"
	}
	return g.g.changed()
}

// magShift: magnitudes in request lines are integers n standing for the real magnitude n / 2^magShift.
// 0 for every tier but the float32 tier, where fractional float32 magnitudes are represented exactly
// by their numerators over a fixed power-of-two denominator (exact rational arithmetic in the model).
var magShift int

func scaled(f float32) (int64, bool) {
	v := math.Ldexp(float64(f), magShift)
	if v != math.Trunc(v) || math.Abs(v) >= 1<<62 {
		return 0, false
	}
	return int64(v), true
}

func showMag(f float32) string {
	if n, ok := scaled(f); ok {
		return strconv.FormatInt(n, 10)
	}
	return strconv.FormatFloat(float64(f), 'g', -1, 32) + "*2^" + strconv.Itoa(magShift)
}

func showPBSeg(s *traits.ElectricMode_Segment) string {
	if s == nil {
		return "nil"
	}
	if s.Length == nil {
		return showMag(s.Magnitude) + "/i"
	}
	return showMag(s.Magnitude) + "/" + strconv.FormatInt(int64(s.Length.AsDuration()), 10)
}

func showPBSegs(l []*traits.ElectricMode_Segment) string {
	if len(l) == 0 {
		return "e"
	}
	p := make([]string, len(l))
	for i, s := range l {
		p[i] = showPBSeg(s)
	}
	return strings.Join(p, ",")
}

// parseShaped splits "mag/len/shape" into the bare segment and its Fixed shape (if set).
func parseShaped(s string) (seg sg, shape int64, has bool) {
	i := strings.LastIndex(s, "/")
	if i < 0 {
		panic("bad shaped segment " + s)
	}
	seg = parseSg(s[:i])
	if s[i+1:] == "n" {
		return seg, 0, false
	}
	return seg, mustInt(s[i+1:]), true
}

func showPBSegS(s *traits.ElectricMode_Segment) string {
	if s == nil {
		return "nil"
	}
	switch sh := s.Shape.(type) {
	case nil:
		return showPBSeg(s) + "/n"
	case *traits.ElectricMode_Segment_Fixed:
		return showPBSeg(s) + "/" + showMag(sh.Fixed)
	default:
		return showPBSeg(s) + "/?"
	}
}

// consumption: what a segment stands for — its Fixed shape if set, else its magnitude ("if none set assume
// fixed = magnitude").
func consumption(s *traits.ElectricMode_Segment) float32 {
	if f, ok := s.Shape.(*traits.ElectricMode_Segment_Fixed); ok {
		return f.Fixed
	}
	return s.Magnitude
}

func showPBMode(m *traits.ElectricMode) string {
	if m == nil {
		return "nil"
	}
	st := "-"
	if m.StartTime != nil {
		st = strconv.FormatInt(int64(m.StartTime.AsTime().Sub(base)), 10)
	}
	return st + "@" + showPBSegs(m.Segments)
}

// ---- running the real code --------------------------------------------------------------------

// outcome is everything the monitor needs about one run of the real code.
type outcome struct {
	text    string // canonical answer (compared with the model)
	mutated string // non-empty if an argument was changed by the call
	// real result objects for sampling
	segs         []*traits.ElectricMode_Segment
	before       *traits.ElectricMode_Segment
	after        *traits.ElectricMode_Segment
	mode         *traits.ElectricMode
	mBefore      *traits.ElectricMode
	mAfter       *traits.ElectricMode
	ints         []int64
	ok, hasFloat bool
	mag          float32
}

func mustInt(s string) int64 {
	v, err := strconv.ParseInt(s, 10, 64)
	if err != nil {
		panic("bad integer " + s)
	}
	return v
}

// runCode runs the real code on the case: once on ordinary heap arguments (the outcome the tie and the monitor
// work on), and, unless that run already shows a modified argument or a panic, once more on arguments in
// read-only pages (watch.go), which turns ANY store into an argument during the call into o.mutated.
func (c scase) runCode() (o outcome) {
	o = c.runCode0()
	if o.mutated == "" && !strings.HasPrefix(o.text, "panic:") && o.text != "!bad-op" {
		o.mutated = c.runWatched()
	}
	return o
}

func (c scase) runCode0() (o outcome) {
	c.useBase()
	panicked, msg := lib.Catch(func() {
		switch c.Op {
		case "active", "magat", "maxafter", "shift":
			d := time.Duration(mustInt(c.D))
			g := guard(parseSgs(c.L))
			switch c.Op {
			case "active":
				var el time.Duration
				var idx int
				watched(wa, func() { el, idx = segmentpb.ActiveAt(d, g.arg()...) })
				o.ints = []int64{int64(el), int64(idx)}
				o.text = fmt.Sprintf("%d|%d", int64(el), idx)
			case "magat":
				watched(wa, func() { o.mag, o.ok = segmentpb.MagnitudeAt(d, g.arg()...) })
				o.text = showMag(o.mag) + "|" + strconv.FormatBool(o.ok)
			case "maxafter":
				var idx int
				watched(wa, func() { idx = segmentpb.MaxAfter(d, g.arg()...) })
				o.ints = []int64{int64(idx)}
				o.text = strconv.Itoa(idx)
			case "shift":
				watched(wa, func() { o.segs = segmentpb.Shift(d, g.arg()...) })
				o.text = showPBSegs(o.segs)
			}
			o.mutated = g.changed()
		case "dur", "max", "summag":
			g := guard(parseSgs(c.L))
			switch c.Op {
			case "dur":
				var tot time.Duration
				var inf bool
				watched(wa, func() { tot, inf = segmentpb.Duration(g.arg()...) })
				o.ints, o.ok = []int64{int64(tot)}, inf
				o.text = fmt.Sprintf("%d|%v", int64(tot), inf)
			case "max":
				var idx int
				watched(wa, func() { idx = segmentpb.Max(g.arg()...) })
				watched(wa, func() { o.mag = segmentpb.MaxMagnitude(g.arg()...) })
				o.ints = []int64{int64(idx)}
				o.text = strconv.Itoa(idx) + "|" + showMag(o.mag)
			case "summag":
				watched(wa, func() { o.mag = segmentpb.SumMagnitude(g.arg()...) })
				o.text = showMag(o.mag)
			}
			o.mutated = g.changed()
		case "cut":
			d := time.Duration(mustInt(c.D))
			g := guard([]sg{parseSg(c.L)})
			watched(wa, func() { o.before, o.after, o.ok = segmentpb.Cut(d, g.full[0]) })
			o.text = showPBSeg(o.before) + "|" + showPBSeg(o.after) + "|" + strconv.FormatBool(o.ok)
			o.mutated = g.changed()
		case "cuts":
			// a segment WITH its shape oneof: mag/len/shape, shape = "n" (not set) or the Fixed value
			d := time.Duration(mustInt(c.D))
			s, shape, has := parseShaped(c.L)
			g := guard([]sg{s})
			if has {
				g.full[0].Shape = pbFixed(magVal(shape))
				g.clone[0] = proto.Clone(g.full[0]).(*traits.ElectricMode_Segment)
			}
			watched(wa, func() { o.before, o.after, o.ok = segmentpb.Cut(d, g.full[0]) })
			o.text = showPBSegS(o.before) + "|" + showPBSegS(o.after) + "|" + strconv.FormatBool(o.ok)
			o.mutated = g.changed()
		case "sum":
			ls := parseSgLists(c.L)
			gs := make([]*guarded, len(ls))
			args := watchSlice[[]*traits.ElectricMode_Segment](wa, len(ls), len(ls)+1, "slice of lists")
			for i, l := range ls {
				gs[i] = guard(l)
				args[i] = gs[i].arg()
			}
			sentinel := watchSlice[*traits.ElectricMode_Segment](wa, 1, 1, "list in the spare capacity of the slice of lists")
			sentinel[0] = watchNew[traits.ElectricMode_Segment](wa, "segment in the spare capacity of the slice of lists")
			sentinel[0].Magnitude = -779
			args[:len(ls)+1][len(ls)] = sentinel
			watched(wa, func() { o.segs = segmentpb.Sum(args...) })
			o.text = showPBSegs(o.segs)
			if spare := args[:len(ls)+1][len(ls)]; len(spare) != 1 || spare[0] != sentinel[0] || sentinel[0].Magnitude != -779 {
				o.mutated = "the spare capacity of the slice of lists was written to"
			}
			for i, g := range gs {
				if m := g.changed(); m != "" {
					o.mutated = fmt.Sprintf("list %d: %s", i, m)
					break
				}
				if len(args[i]) != g.n || (g.n > 0 && &args[i][0] != &g.full[0]) {
					o.mutated = fmt.Sprintf("list %d: the argument slice header was replaced", i)
					break
				}
			}
		case "mactive", "mmagat", "mmaxafter", "mcut", "mshift":
			x := mustInt(c.D)
			g := guardMode(parseMd(c.L))
			switch c.Op {
			case "mactive":
				var el time.Duration
				var idx int
				watched(wa, func() { el, idx = modepb.ActiveAt(at(x), g.mode) })
				o.ints = []int64{int64(el), int64(idx)}
				o.text = fmt.Sprintf("%d|%d", int64(el), idx)
			case "mmagat":
				watched(wa, func() { o.mag, o.ok = modepb.MagnitudeAt(at(x), g.mode) })
				o.text = showMag(o.mag) + "|" + strconv.FormatBool(o.ok)
			case "mmaxafter":
				var idx int
				watched(wa, func() { idx = modepb.MaxSegmentAfter(at(x), g.mode) })
				o.ints = []int64{int64(idx)}
				o.text = strconv.Itoa(idx)
			case "mcut":
				watched(wa, func() { o.mBefore, o.mAfter, o.ok = modepb.Cut(at(x), g.mode) })
				o.text = showPBMode(o.mBefore) + "|" + showPBMode(o.mAfter) + "|" + strconv.FormatBool(o.ok)
			case "mshift":
				watched(wa, func() { o.mode = modepb.Shift(time.Duration(x), g.mode) })
				o.text = showPBMode(o.mode)
			}
			o.mutated = g.changed()
		case "mminat":
			x := mustInt(c.D)
			ms := parseMds(c.L)
			gs := make([]*guardedMode, len(ms))
			arg := map[string]*traits.ElectricMode{}
			for i, m := range ms {
				gs[i] = guardMode(m)
				arg[fmt.Sprintf("m%d", i)] = gs[i].mode
			}
			index := func(p *traits.ElectricMode) int {
				for i, g := range gs {
					if g.mode == p {
						return i
					}
				}
				return -1
			}
			var mode *traits.ElectricMode
			var mag float32
			watched(wa, func() { mode, mag = modepb.MinAt(at(x), arg) })
			o.mag = mag
			if mode == nil {
				o.text = "nil"
				o.ints = []int64{-1}
			} else {
				idx := index(mode)
				o.ints = []int64{int64(idx)}
				// how many modes share the returned magnitude (by the real MagnitudeAt)
				n := 0
				for _, g := range gs {
					if v, _ := modepb.MagnitudeAt(at(x), g.mode); v == mag {
						n++
					}
				}
				if n == 1 {
					o.text = showMag(mag) + "|" + strconv.Itoa(idx)
				} else {
					o.text = showMag(mag) + "|tie"
				}
				// measure (not judge) the dependence of the returned mode on the map iteration order
				for rep := 0; rep < 6; rep++ {
					again, mag2 := modepb.MinAt(at(x), arg)
					if mag2 != mag {
						o.text += fmt.Sprintf("|magnitude-varied:%v", mag2)
					}
					if again != mode {
						o.ok = true // mode varied between calls
					}
				}
			}
			if len(arg) != len(ms) {
				o.mutated = "the map argument was modified"
			}
			for i, g := range gs {
				if arg[fmt.Sprintf("m%d", i)] != g.mode {
					o.mutated = fmt.Sprintf("the map argument was modified (entry m%d replaced)", i)
				}
			}
			for i, g := range gs {
				if m := g.changed(); m != "" {
					o.mutated = fmt.Sprintf("mode %d: %s", i, m)
					break
				}
			}
		case "msum":
			ms := parseMds(c.L)
			gs := make([]*guardedMode, len(ms))
			args := watchSlice[*traits.ElectricMode](wa, len(ms), len(ms), "slice of modes")
			for i, m := range ms {
				gs[i] = guardMode(m)
				args[i] = gs[i].mode
			}
			watched(wa, func() { o.mode = modepb.Sum(args...) })
			o.text = showPBMode(o.mode)
			for i, g := range gs {
				if args[i] != g.mode {
					o.mutated = fmt.Sprintf("element %d of the argument slice was replaced", i)
					break
				}
				if m := g.changed(); m != "" {
					o.mutated = fmt.Sprintf("mode %d: %s", i, m)
					break
				}
			}
		case "shifts", "sums", "mcuts", "mshifts", "msums":
			c.runShaped(&o)
		default:
			o.text = "!bad-op"
		}
	})
	if panicked {
		o.text = "panic:" + msg
	}
	return o
}

// ---- the independent oracle: a segment list as a step function ---------------------------------

// span is one piece [from, to) of the step function (to is ignored when open).
type span struct {
	from, to int64
	open     bool
	mag      int64
	idx      int
}

// spans lays the segments out on the time axis, stopping after the first length-less one.
func spans(l []sg) (out []span, end int64, infinite bool) {
	var pos int64
	for i, s := range l {
		if s.inf {
			out = append(out, span{from: pos, open: true, mag: s.mag, idx: i})
			return out, pos, true
		}
		out = append(out, span{from: pos, to: pos + s.len, mag: s.mag, idx: i})
		pos += s.len
	}
	return out, pos, false
}

// stepAt is the value of the step function at t, whether any segment is active, and which one.
func stepAt(l []sg, t int64) (mag int64, ok bool, idx int) {
	if t < 0 {
		return 0, false, 0
	}
	sp, _, _ := spans(l)
	for _, p := range sp {
		if p.from <= t && (p.open || t < p.to) {
			return p.mag, true, p.idx
		}
	}
	return 0, false, len(l)
}

// stepAtOff is the step function of l at instant x for a list placed at instant start: like stepAt at
// x-start, but exact also when that difference does not fit an int64 (then x lies before every, or
// after every, breakpoint of a list of total length < 2^63).
func stepAtOff(l []sg, x, start int64) (mag int64, ok bool, idx int) {
	if d, fits := subOK(x, start); fits {
		return stepAt(l, d)
	}
	if x < start {
		return 0, false, 0
	}
	sp, _, inf := spans(l)
	if inf {
		last := sp[len(sp)-1]
		return last.mag, true, last.idx
	}
	return 0, false, len(l)
}

// span: how far apart two instants are, false when the difference does not fit an int64 or exceeds
// the window within which the sampling monitors walk every nanosecond.
func nearby(a, b int64) bool {
	d, ok := subOK(a, b)
	return ok && abs(d) <= 1<<20 && d != math.MinInt64
}

// horizon is a time after which every step function in ls is constant.
func horizon(ls ...[]sg) int64 {
	var h int64
	for _, l := range ls {
		_, end, _ := spans(l)
		if end > h {
			h = end
		}
	}
	return h
}

func realMag(t int64, l []*traits.ElectricMode_Segment) int64 {
	m, ok := segmentpb.MagnitudeAt(time.Duration(t), l...)
	if !ok {
		return 0
	}
	n, ok := scaled(m)
	if !ok {
		return math.MinInt64 + 12345 // not on the magnitude grid: cannot equal any expected value
	}
	return n
}

// realModeMag evaluates a (possibly nil) result mode at absolute instant x; a mode without a start
// time is taken to start at ref.
func realModeMag(ref int64, m *traits.ElectricMode, x int64) int64 {
	if m == nil {
		return 0
	}
	st := ref
	if m.StartTime != nil {
		st = int64(m.StartTime.AsTime().Sub(base))
	}
	return realMag(x-st, m.Segments)
}

func counts(s sg) bool { return s.inf || s.len > 0 }

// bestFrom: the maximum magnitude among counted segments with index >= from.
func bestFrom(l []sg, from int) (best int64, found bool) {
	for i := from; i < len(l); i++ {
		if counts(l[i]) && (!found || l[i].mag > best) {
			best, found = l[i].mag, true
		}
	}
	return
}

var opName = map[string]string{"active": "ActiveAt", "magat": "MagnitudeAt", "maxafter": "MaxAfter", "cut": "Cut", "cuts": "Cut", "shift": "Shift",
	"dur": "Duration", "max": "Max", "summag": "SumMagnitude", "sum": "Sum", "mactive": "modepb.ActiveAt", "mmagat": "modepb.MagnitudeAt",
	"mmaxafter": "modepb.MaxSegmentAfter", "mcut": "modepb.Cut", "mshift": "modepb.Shift", "msum": "modepb.Sum", "mminat": "modepb.MinAt"}

func (c scase) monitor(m *lib.Monitor, o outcome) {
	name := opName[c.Op]
	if strings.HasPrefix(o.text, "panic:") {
		m.Violate("C18/"+name+"/panic", name+" panicked", c, "no panic", o.text)
		return
	}
	if o.mutated != "" {
		m.Violate("C18/"+name+"/argument-modified", name+" modified its argument", c, "arguments unchanged", o.mutated)
	}
	bad := func(class, what, want, got string) {
		m.Violate("C18/"+name+"/"+class, what, c, want, got)
	}
	if c.beyondInt64() {
		// total length (plus shift) of 2^63 ns or more: outside the hypothesis under which the step-function
		// laws are claimed (C18_int64_*); the tie still compares the wrap-around behaviour with the model
		m.Count("excluded:int64-overflow")
		return
	}
	switch c.Op {
	case "shifts", "sums", "mcuts", "mshifts", "msums":
		c.monitorShaped(m, o)
	case "active", "mactive":
		var l []sg
		var d int64
		if c.Op == "active" {
			l, d = parseSgs(c.L), mustInt(c.D)
		} else {
			mode := parseMd(c.L)
			l = mode.segs
			if mode.hasStart {
				var fits bool
				if d, fits = subOK(mustInt(c.D), mode.start); !fits {
					// t.Sub(start) does not fit a Duration: the index is that of an instant before / after every
					// breakpoint; the elapsed time is negative before the start, and after it what it is at any
					// offset beyond the end of the list
					m.Count("far-instants/" + c.Op)
					_, _, wantIdx := stepAtOff(l, mustInt(c.D), mode.start)
					okEl := o.ints[0] < 0
					if mustInt(c.D) > mode.start {
						okEl = fmt.Sprintf("%d|%d", o.ints[0], o.ints[1]) == activeOracle(l, math.MaxInt64)
					}
					if int(o.ints[1]) != wantIdx || !okEl {
						bad("wrong-segment", name+" does not return the segment active at t for instants more than 2^63 ns apart", fmt.Sprintf("index %d", wantIdx), o.text)
					}
					return
				}
			}
		}
		want := activeOracle(l, d)
		got := fmt.Sprintf("%d|%d", o.ints[0], o.ints[1])
		if got != want {
			bad("wrong-segment", name+" does not return the segment active at d and the time elapsed before it", want, got)
		}
	case "magat", "mmagat":
		var l []sg
		var d int64
		if c.Op == "magat" {
			l, d = parseSgs(c.L), mustInt(c.D)
		} else {
			mode := parseMd(c.L)
			l = mode.segs
			if mode.hasStart {
				mag, ok, _ := stepAtOff(l, mustInt(c.D), mode.start)
				if want := fmt.Sprintf("%d|%v", mag, ok); o.text != want {
					bad("not-step-function", name+" differs from the step function of the segments", want, o.text)
				}
				return
			}
		}
		mag, ok, _ := stepAt(l, d)
		want := fmt.Sprintf("%d|%v", mag, ok)
		if o.text != want {
			bad("not-step-function", name+" differs from the step function of the segments", want, o.text)
		}
	case "dur":
		_, end, inf := spans(parseSgs(c.L))
		want := fmt.Sprintf("%d|%v", end, inf)
		if o.text != want {
			bad("wrong-total", "Duration is not the total length up to the first length-less segment", want, o.text)
		}
	case "max", "maxafter", "mmaxafter":
		var l []sg
		from := 0
		switch c.Op {
		case "max":
			l = parseSgs(c.L)
		case "maxafter":
			l = parseSgs(c.L)
			_, _, from = stepAt(l, mustInt(c.D))
		case "mmaxafter":
			mode := parseMd(c.L)
			l = mode.segs
			if mode.hasStart {
				_, _, from = stepAtOff(l, mustInt(c.D), mode.start)
			} else {
				_, _, from = stepAt(l, 0)
			}
		}
		best, found := bestFrom(l, from)
		idx := int(o.ints[0])
		switch {
		case !found && idx != len(l):
			bad("wrong-index", name+" must return len(segments) when no segment has a non-zero length", strconv.Itoa(len(l)), strconv.Itoa(idx))
		case found && (idx < from || idx >= len(l) || !counts(l[idx]) || l[idx].mag != best):
			bad("wrong-index", name+" does not point at a non-zero-length segment of the largest magnitude",
				fmt.Sprintf("an index >= %d of a counted segment with magnitude %d", from, best), strconv.Itoa(idx))
		}
		// the same answer read against the FUNCTION (C18_max_attained / C18_maxAfter_step_function): on a well-formed
		// list (only the last segment length-less) the segment pointed at carries the largest value the step function
		// takes at the instants from d on at which a segment is active; len(segments) iff there is no such instant
		if wf, dd, ok := maxDomain(c, l); wf && ok {
			var sup int64
			any := false
			for _, t := range samplePoints(append(breakpoints(l), dd)) {
				if t < dd {
					continue
				}
				if v, active, _ := stepAt(l, t); active && (!any || v > sup) {
					sup, any = v, true
				}
			}
			switch {
			case !any && idx != len(l):
				bad("wrong-maximum-of-function", name+" must return len(segments) when the step function has no active instant from d on", strconv.Itoa(len(l)), strconv.Itoa(idx))
			case any && (idx < 0 || idx >= len(l) || l[idx].mag != sup):
				bad("wrong-maximum-of-function", name+" does not point at the largest value the step function takes from d on",
					fmt.Sprintf("a segment of magnitude %d", sup), strconv.Itoa(idx))
			}
		}
		if c.Op == "max" {
			want := int64(0)
			if found {
				want = best
			}
			if showMag(o.mag) != strconv.FormatInt(want, 10) {
				bad("wrong-magnitude", "MaxMagnitude is not the largest magnitude of the non-zero-length segments", strconv.FormatInt(want, 10), showMag(o.mag))
			}
		}
	case "summag":
		var want int64
		for _, s := range parseSgs(c.L) {
			want += s.mag
		}
		if o.text != strconv.FormatInt(want, 10) {
			bad("wrong-total", "SumMagnitude is not the sum of the magnitudes", strconv.FormatInt(want, 10), o.text)
		}
	case "cuts":
		// magnitudes and lengths: exactly the judgement of the unshaped Cut
		seg, shape, has := parseShaped(c.L)
		scase{"cut", c.D, showSg(seg), c.B}.monitor(m, outcome{text: showPBSeg(o.before) + "|" + showPBSeg(o.after) + "|" + strconv.FormatBool(o.ok),
			before: o.before, after: o.after, ok: o.ok})
		// the shape: every part stands for the same consumption as the segment it was cut from (the `before` part
		// of a length-less segment included: it lost the segment's Fixed shape before fix: of round 5,
		// signature C18/Cut/shape-lost-on-unbounded-before)
		want := magVal(seg.mag)
		if has {
			want = magVal(shape)
		}
		d := mustInt(c.D)
		for i, part := range []*traits.ElectricMode_Segment{o.before, o.after} {
			if part == nil {
				continue
			}
			if got := consumption(part); got != want {
				if i == 0 && seg.inf && d > 0 {
					bad("shape-lost-on-unbounded-before", "the part Cut splits off the start of a length-less segment does not carry the segment's Fixed shape (every other part does)",
						fmt.Sprint(want), fmt.Sprintf("%v (%s)", got, o.text))
					break
				}
				bad("shape-changed", "a part returned by Cut stands for a different consumption (Fixed shape, else magnitude) than the segment",
					fmt.Sprint(want), fmt.Sprintf("%v (%s)", got, o.text))
				break
			}
		}
	case "cut":
		s, d := parseSg(c.L), mustInt(c.D)
		l := []sg{s}
		if d < 0 {
			if o.before != nil || o.after == nil || showPBSeg(o.after) != showSg(s) || !o.ok {
				bad("negative-d", "Cut with negative d must return (nil, segment) and flag outside", "nil|"+showSg(s)+"|true", o.text)
			}
			return
		}
		// the flag (C18_cut_outside): raised exactly when d is not the start and the segment is not active at d
		if _, active, _ := stepAt(l, d); o.ok != (d != 0 && !active) {
			bad("outside-flag", "Cut must flag `outside` exactly when d is not 0 and the segment is not active at d", strconv.FormatBool(d != 0 && !active), o.text)
		}
		pts := []int64{0, d}
		if !s.inf {
			pts = append(pts, s.len)
			if x, ok := subOK(s.len, d); ok {
				pts = append(pts, x)
			}
		}
		pts = append(append(pts, realBps(optList(o.before))...), realBps(optList(o.after))...)
		for _, t := range samplePoints(pts) {
			want, _, _ := stepAt(l, t)
			if t < d {
				if got := realMag(t, optList(o.before)); got != want {
					bad("before-differs", "the part before the cut differs from the segment before d", fmt.Sprintf("%d at t=%d", want, t), strconv.FormatInt(got, 10))
					break
				}
			} else if got := realMag(t, optList(o.before)); got != 0 {
				bad("before-too-long", "the part before the cut is non-zero at or after d", fmt.Sprintf("0 at t=%d", t), strconv.FormatInt(got, 10))
				break
			}
			td, ok := addOK(t, d)
			if !ok {
				continue
			}
			wantAfter, _, _ := stepAt(l, td)
			if t < 0 {
				wantAfter = 0
			}
			if got := realMag(t, optList(o.after)); got != wantAfter {
				bad("after-differs", "the part after the cut differs from the segment translated left by d", fmt.Sprintf("%d at t=%d", wantAfter, t), strconv.FormatInt(got, 10))
				break
			}
		}
	case "shift":
		l, d := parseSgs(c.L), mustInt(c.D)
		var pts []int64
		for _, b := range breakpoints(l) {
			pts = append(pts, b)
			if x, ok := addOK(b, d); ok {
				pts = append(pts, x)
			}
		}
		pts = append(pts, realBps(o.segs)...)
		for _, t := range samplePoints(pts) {
			var want int64
			if td, ok := subOK(t, d); ok && t >= 0 {
				want, _, _ = stepAt(l, td)
			} else if !ok && t >= 0 && d < 0 {
				want = far([][]sg{l}, 0, 0) // t-d lies beyond every int64 instant: the value "at infinity"
			}
			if got := realMag(t, o.segs); got != want {
				bad("not-translation", "Shift(d) is not the step function translated by d", fmt.Sprintf("%d at t=%d", want, t), fmt.Sprintf("%d (result %s)", got, o.text))
				break
			}
		}
	case "sum":
		ls := parseSgLists(c.L)
		var pts []int64
		for _, l := range ls {
			pts = append(pts, breakpoints(l)...)
		}
		pts = append(pts, realBps(o.segs)...)
		for _, t := range samplePoints(pts) {
			var want int64
			for _, l := range ls {
				v, _, _ := stepAt(l, t)
				want += v
			}
			if got := realMag(t, o.segs); got != want {
				if droppedTail(o.segs, t, want, far(ls, 0, 0)) && got == 0 {
					// the defect repaired by fix: 5957697, should it come back: its own signature
					bad("negative-infinite-tail-dropped", "Sum drops the final length-less segment when its summed magnitude is negative",
						fmt.Sprintf("%d at t=%d", want, t), fmt.Sprintf("%d (result %s)", got, o.text))
					break
				}
				bad("not-pointwise", "Sum is not the pointwise sum of the step functions", fmt.Sprintf("%d at t=%d", want, t), fmt.Sprintf("%d (result %s)", got, o.text))
				break
			}
		}
	case "mcut":
		mode, x := parseMd(c.L), mustInt(c.D)
		ref := x // a mode without a start time is assumed to start at t
		st := ref
		if mode.hasStart {
			st = mode.start
		}
		if len(mode.segs) == 0 {
			return // documented special case (mode, mode, true); the function is 0 everywhere
		}
		// the flag (C18_modes_cut_outside): raised exactly when t is not the start and no segment is active at t
		if _, active, _ := stepAtOff(mode.segs, x, st); o.ok != (x != st && !active) {
			bad("outside-flag", "modepb.Cut must flag `outside` exactly when t is not the mode's start and no segment is active at t", strconv.FormatBool(x != st && !active), o.text)
		}
		if !nearby(x, st) {
			// the sampling below walks every ns between start and t; instants further apart are judged at the
			// instants around the start, every breakpoint and t, read through the real modepb.MagnitudeAt (judged by
			// the exact big-offset oracle itself, C18_modes_read_any_span).  Excluded: t more than 2^63 ns after the
			// start of a mode with an unbounded tail, where t.Sub(start) saturates and the `before` part cannot be as
			// long as it should (C18_modes_saturation_witness) — compared with the model only
			_, fits := subOK(x, st)
			if _, _, inf := spans(mode.segs); !fits && inf && x > st {
				m.Count("excluded:saturation/mcut")
				return
			}
			m.Count("far-instants/mcut(judged at breakpoints)")
			var pts []int64
			for _, b := range breakpoints(mode.segs) {
				if y, ok := addOK(st, b); ok {
					pts = append(pts, y)
				}
			}
			for _, y := range farSamples(append(pts, x)) {
				want, _, _ := stepAtOff(mode.segs, y, st)
				if y < x {
					if got := realModeMagAbs(o.mBefore, y); got != want {
						bad("before-differs", "the mode before the cut differs from the mode before t", fmt.Sprintf("%d at %d", want, y), fmt.Sprintf("%d (%s)", got, o.text))
						break
					}
					continue
				}
				if got := realModeMagAbs(o.mAfter, y); got != want {
					bad("after-differs", "the mode after the cut differs from the mode from t on", fmt.Sprintf("%d at %d", want, y), fmt.Sprintf("%d (%s)", got, o.text))
					break
				}
				if got := realModeMagAbs(o.mBefore, y); got != 0 {
					bad("before-too-long", "the mode before the cut is non-zero at or after t", fmt.Sprintf("0 at %d", y), fmt.Sprintf("%d (%s)", got, o.text))
					break
				}
			}
			return
		}
		h := st + horizon(mode.segs) + 3
		if x > h {
			h = x + 3
		}
		lo := st - 2
		if x < lo {
			lo = x - 2
		}
		for _, y := range walk(lo, h, append(append(append(offsetAll(breakpoints(mode.segs), st), x), realModeBps(ref, o.mBefore)...), realModeBps(ref, o.mAfter)...)...) {
			want, _, _ := stepAt(mode.segs, y-st)
			if y < x {
				if got := realModeMag(ref, o.mBefore, y); got != want {
					bad("before-differs", "the mode before the cut differs from the mode before t", fmt.Sprintf("%d at %d", want, y), fmt.Sprintf("%d (%s)", got, o.text))
					break
				}
			} else {
				if got := realModeMag(ref, o.mAfter, y); got != want {
					bad("after-differs", "the mode after the cut differs from the mode from t on", fmt.Sprintf("%d at %d", want, y), fmt.Sprintf("%d (%s)", got, o.text))
					break
				}
				if o.mBefore != nil {
					if got := realModeMag(ref, o.mBefore, y); got != 0 {
						bad("before-too-long", "the mode before the cut is non-zero at or after t", fmt.Sprintf("0 at %d", y), fmt.Sprintf("%d (%s)", got, o.text))
						break
					}
				}
			}
		}
	case "mshift":
		mode, d := parseMd(c.L), mustInt(c.D)
		var st int64 // reference for a mode without start time: instant 0
		if mode.hasStart {
			st = mode.start
		}
		h := st + horizon(mode.segs) + abs(d) + 3
		for _, y := range walk(st-abs(d)-2, h, append(append(offsetAll(breakpoints(mode.segs), st), offsetAll(breakpoints(mode.segs), st+d)...), realModeBps(0, o.mode)...)...) {
			want, _, _ := stepAt(mode.segs, y-d-st)
			if !mode.hasStart && y < 0 {
				want = 0 // segments cannot move before the (implicit) start
			}
			if got := realModeMag(0, o.mode, y); got != want {
				bad("not-translation", "modepb.Shift(d) is not the mode translated by d", fmt.Sprintf("%d at %d", want, y), fmt.Sprintf("%d (%s)", got, o.text))
				break
			}
		}
		if o.mode != nil && (o.mode.StartTime != nil) != mode.hasStart {
			bad("start-time-presence", "modepb.Shift must keep the presence of the start time", fmt.Sprint(mode.hasStart), o.text)
		}
	case "mminat":
		ms, x := parseMds(c.L), mustInt(c.D)
		if len(ms) == 0 {
			if o.text != "nil" {
				bad("empty", "MinAt of no modes must return a nil mode", "nil", o.text)
			}
			return
		}
		val := func(mo md) int64 {
			if mo.hasStart {
				v, _, _ := stepAtOff(mo.segs, x, mo.start)
				return v
			}
			v, _, _ := stepAt(mo.segs, 0)
			return v
		}
		best := val(ms[0])
		for _, mo := range ms[1:] {
			if v := val(mo); v < best {
				best = v
			}
		}
		if showMag(o.mag) != strconv.FormatInt(best, 10) {
			bad("wrong-magnitude", "MinAt does not return the smallest magnitude at t", strconv.FormatInt(best, 10), o.text)
		}
		if idx := int(o.ints[0]); idx < 0 || idx >= len(ms) || val(ms[idx]) != best {
			bad("wrong-mode", "MinAt does not return a mode whose magnitude at t is the smallest", fmt.Sprintf("a mode with magnitude %d", best), fmt.Sprintf("mode #%d (%s)", idx, o.text))
		}
		if o.ok {
			m.Count("mminat/returned-mode-varied-between-calls(ties; measured, not a violation)")
		}
	case "msum":
		ms := parseMds(c.L)
		if len(ms) == 0 {
			if o.mode != nil {
				bad("empty", "modepb.Sum of no modes must be nil", "nil", o.text)
			}
			return
		}
		var earliest, latest int64
		any := false
		for _, mo := range ms {
			if mo.hasStart {
				if !any || mo.start < earliest {
					earliest = mo.start
				}
				if !any || mo.start > latest {
					latest = mo.start
				}
				any = true
			}
		}
		if o.mode == nil {
			bad("nil-result", "modepb.Sum of some modes must not be nil", "a mode", "nil")
			return
		}
		if any != (o.mode.StartTime != nil) || (any && int64(o.mode.StartTime.AsTime().Sub(base)) != earliest) {
			bad("wrong-start", "the sum must start at the earliest start time of the modes (if any)", fmt.Sprint(earliest), o.text)
			return
		}
		var all [][]sg
		for _, mo := range ms {
			all = append(all, mo.segs)
		}
		if any && !nearby(latest, earliest) {
			// start times far apart: judged at the instants around every mode's breakpoints through the real
			// modepb.MagnitudeAt, unless latest - earliest (plus the lists' lengths) leaves the int64 ns range, where
			// start.Sub(earliest) saturates or the shifted totals overflow (C18_modes_int64_sum is claimed below 2^63)
			span, fits := subOK(latest, earliest)
			if _, ok := addOK(span, horizon(all...)+2000); !fits || !ok {
				m.Count("excluded:saturation/msum")
				return
			}
			m.Count("far-instants/msum(judged at breakpoints)")
			var pts []int64
			for _, mo := range ms {
				st := latest
				if mo.hasStart {
					st = mo.start
				}
				for _, b := range breakpoints(mo.segs) {
					if y, ok := addOK(st, b); ok {
						pts = append(pts, y)
					}
				}
			}
			for _, y := range farSamples(pts) {
				var want int64
				for _, mo := range ms {
					st := latest
					if mo.hasStart {
						st = mo.start
					}
					v, _, _ := stepAtOff(mo.segs, y, st)
					want += v
				}
				if got := realModeMagAbs(o.mode, y); got != want {
					bad("not-pointwise", "modepb.Sum is not the pointwise sum of the modes", fmt.Sprintf("%d at %d", want, y), fmt.Sprintf("%d (%s)", got, o.text))
					break
				}
			}
			return
		}
		h := latest + horizon(all...) + 3
		var bps []int64
		for _, mo := range ms {
			st := latest
			if mo.hasStart {
				st = mo.start
			}
			bps = append(bps, offsetAll(breakpoints(mo.segs), st)...)
		}
		for _, y := range walk(earliest-2, h, append(bps, realModeBps(0, o.mode)...)...) {
			var want int64
			for _, mo := range ms {
				st := latest // a mode without start time starts at the most recent start time
				if mo.hasStart {
					st = mo.start
				}
				v, _, _ := stepAt(mo.segs, y-st)
				want += v
			}
			if got := realModeMag(0, o.mode, y); got != want {
				if droppedTail(o.mode.Segments, y-earliest, want, far(all, 0, 0)) && got == 0 {
					bad("negative-infinite-tail-dropped", "modepb.Sum (through segmentpb.Sum) drops the final length-less segment when its summed magnitude is negative",
						fmt.Sprintf("%d at %d", want, y), fmt.Sprintf("%d (%s)", got, o.text))
					break
				}
				bad("not-pointwise", "modepb.Sum is not the pointwise sum of the modes", fmt.Sprintf("%d at %d", want, y), fmt.Sprintf("%d (%s)", got, o.text))
				break
			}
		}
	}
}

// walk: the instants a sampling loop visits from lo to h and one far instant after h: every integer ns when the
// range is short; otherwise the ends and the instants around the given points (the breakpoints of the functions
// compared: between two neighbouring breakpoints step functions are constant, so nothing is lost).
func walk(lo, h int64, pts ...int64) []int64 {
	if h < lo {
		return []int64{h + 1000}
	}
	if h-lo <= 1<<12 {
		out := make([]int64, 0, h-lo+2)
		for y := lo; y <= h; y++ {
			out = append(out, y)
		}
		return append(out, h+1000)
	}
	set := map[int64]bool{}
	for _, p := range append([]int64{lo + 2, h - 2}, pts...) {
		for dx := int64(-2); dx <= 2; dx++ {
			if y := p + dx; y >= lo && y <= h {
				set[y] = true
			}
		}
	}
	out := make([]int64, 0, len(set)+1)
	for y := range set {
		out = append(out, y)
	}
	sort.Slice(out, func(i, j int) bool { return out[i] < out[j] })
	return append(out, h+1000)
}

// realBps: the breakpoints of a REAL result list (where its segments start, and its end).  The oracle side of a
// comparison changes only at the breakpoints of the arguments; the result may have been cut in other places, so
// its own breakpoints are sampled too (PropsSampling: agreement at the breakpoints of both sides is agreement
// everywhere).
func realBps(l []*traits.ElectricMode_Segment) []int64 {
	pts := []int64{0}
	var cur int64
	for _, s := range l {
		if s == nil || s.Length == nil {
			break
		}
		next, ok := addOK(cur, int64(s.Length.AsDuration()))
		if !ok {
			break
		}
		cur = next
		pts = append(pts, cur)
	}
	return pts
}

// realModeBps: the breakpoints of a real result mode as absolute instants (a mode without start time starts at ref).
func realModeBps(ref int64, m *traits.ElectricMode) []int64 {
	if m == nil {
		return nil
	}
	st := ref
	if m.StartTime != nil {
		st = int64(m.StartTime.AsTime().Sub(base))
	}
	var out []int64
	for _, b := range realBps(m.Segments) {
		if y, ok := addOK(st, b); ok {
			out = append(out, y)
		}
	}
	return out
}

func offsetAll(pts []int64, by int64) []int64 {
	out := make([]int64, len(pts))
	for i, p := range pts {
		out[i] = p + by
	}
	return out
}

// maxDomain: whether l is well formed (only its last segment may be length-less) and the offset from which the
// Max* operation of case c looks at the step function (false when that offset does not fit an int64).
func maxDomain(c scase, l []sg) (wf bool, from int64, ok bool) {
	for i, s := range l {
		if s.inf && i != len(l)-1 {
			return false, 0, true
		}
	}
	switch c.Op {
	case "maxafter":
		if d := mustInt(c.D); d > 0 {
			from = d
		}
	case "mmaxafter":
		if mode := parseMd(c.L); mode.hasStart {
			d, fits := subOK(mustInt(c.D), mode.start)
			if !fits {
				return true, 0, false
			}
			if d > 0 {
				from = d
			}
		}
	}
	return true, from, true
}

// farSamples: every point of pts and its two neighbours (where they fit an int64), sorted, without duplicates.
func farSamples(pts []int64) []int64 {
	set := map[int64]bool{}
	for _, p := range pts {
		for _, dx := range []int64{-1, 0, 1} {
			if y, ok := addOK(p, dx); ok {
				set[y] = true
			}
		}
	}
	out := make([]int64, 0, len(set))
	for y := range set {
		out = append(out, y)
	}
	sort.Slice(out, func(i, j int) bool { return out[i] < out[j] })
	return out
}

// realModeMagAbs: the value of a (possibly nil) result mode WITH a start time at the absolute instant y, read
// through the real modepb.MagnitudeAt (which copes with instants more than 2^63 ns apart).
func realModeMagAbs(m *traits.ElectricMode, y int64) int64 {
	if m == nil {
		return 0
	}
	v, ok := modepb.MagnitudeAt(at(y), m)
	if !ok {
		return 0
	}
	n, ok := scaled(v)
	if !ok {
		return math.MinInt64 + 12345
	}
	return n
}

// far is the value of the pointwise sum of the lists "at infinity": the sum of the magnitudes of
// their (first) length-less segments.
func far(ls [][]sg, _, _ int64) int64 {
	var v int64
	for _, l := range ls {
		sp, _, inf := spans(l)
		if inf {
			v += sp[len(sp)-1].mag
		}
	}
	return v
}

// droppedTail recognises the recorded defect of Sum exactly: the result is finite, t is at or after
// its end, and the expected value there is already the negative value "at infinity" (i.e. appending
// one length-less segment of that magnitude to the result would make it right at t).
func droppedTail(result []*traits.ElectricMode_Segment, t, want, atInfinity int64) bool {
	var end int64
	for _, s := range result {
		if s == nil || s.Length == nil {
			return false
		}
		end += int64(s.Length.AsDuration())
	}
	return atInfinity < 0 && want == atInfinity && t >= end
}

// safeMonitor runs the monitor; if evaluating the real MagnitudeAt on a result blows up (e.g. a nil
// element in a returned list) that is a violation of the property, not a crash of the harness.
func (c scase) safeMonitor(m *lib.Monitor, o outcome) {
	c.useBase()
	panicked, msg := lib.Catch(func() { c.monitor(m, o) })
	if panicked {
		m.Violate("C18/"+opName[c.Op]+"/result-unusable", "the result of the operation cannot be read as a step function (MagnitudeAt panics on it)", c, "a well-formed result", o.text+" -> panic: "+msg)
	}
}

// ---- int64 care ---------------------------------------------------------------------------------

func addOK(a, b int64) (int64, bool) {
	c := a + b
	if (b > 0 && c < a) || (b < 0 && c > a) {
		return 0, false
	}
	return c, true
}

func subOK(a, b int64) (int64, bool) {
	c := a - b
	if (b > 0 && c > a) || (b < 0 && c < a) {
		return 0, false
	}
	return c, true
}

// totalOK: the total of the present lengths, and whether it (and every length) is a sane int64 value.
func totalOK(l []sg) (int64, bool) {
	var tot int64
	for _, s := range l {
		if s.inf {
			continue
		}
		if s.len < 0 {
			return 0, false
		}
		var ok bool
		if tot, ok = addOK(tot, s.len); !ok {
			return 0, false
		}
	}
	return tot, true
}

// beyondInt64 reports whether the case lies outside the no-overflow hypothesis of the theorems.
func (c scase) beyondInt64() bool {
	switch c.Op {
	case "active", "magat", "maxafter", "dur", "max", "summag":
		_, ok := totalOK(parseSgs(c.L))
		return !ok
	case "shift":
		tot, ok := totalOK(parseSgs(c.L))
		d := mustInt(c.D)
		if !ok || d == math.MinInt64 {
			return true
		}
		if d > 0 {
			_, ok = addOK(tot, d)
		}
		return !ok
	case "sum":
		for _, l := range parseSgLists(c.L) {
			if _, ok := totalOK(l); !ok {
				return true
			}
		}
	}
	return false
}

// breakpoints: 0 and every cumulative length of the reachable segments.
func breakpoints(l []sg) []int64 {
	sp, end, _ := spans(l)
	pts := []int64{0, end}
	for _, p := range sp {
		pts = append(pts, p.from)
	}
	return pts
}

// samplePoints: every integer ns from 2 before the smallest to 3 after the largest of pts plus a far
// instant when that range is small; otherwise each point and its two neighbours, the instants around
// 0 and a far instant.
func samplePoints(pts []int64) []int64 {
	lo, hi := int64(0), int64(0)
	for _, b := range pts {
		if b > hi {
			hi = b
		}
		if b < lo {
			lo = b
		}
	}
	set := map[int64]bool{}
	if hi <= 64 && lo >= -64 {
		for t := lo - 2; t <= hi+3; t++ {
			set[t] = true
		}
		set[hi+1000] = true
	} else {
		for _, b := range append([]int64{0, -1}, pts...) {
			for _, dx := range []int64{-1, 0, 1} {
				if x, ok := addOK(b, dx); ok {
					set[x] = true
				}
			}
		}
		if x, ok := addOK(hi, 1000); ok {
			set[x] = true
		} else {
			set[math.MaxInt64] = true
		}
	}
	out := make([]int64, 0, len(set))
	for t := range set {
		out = append(out, t)
	}
	sort.Slice(out, func(i, j int) bool { return out[i] < out[j] })
	return out
}

func optList(s *traits.ElectricMode_Segment) []*traits.ElectricMode_Segment {
	if s == nil {
		return nil
	}
	return []*traits.ElectricMode_Segment{s}
}

func abs(x int64) int64 {
	if x < 0 {
		return -x
	}
	return x
}

// activeOracle: documented result of ActiveAt.
func activeOracle(l []sg, d int64) string {
	if d < 0 {
		return fmt.Sprintf("%d|0", d)
	}
	sp, end, _ := spans(l)
	for _, p := range sp {
		if p.from <= d && (p.open || d < p.to) {
			return fmt.Sprintf("%d|%d", p.from, p.idx)
		}
	}
	return fmt.Sprintf("%d|%d", end, len(l))
}

// ---- generators -------------------------------------------------------------------------------

func randSg(r *rand.Rand) sg {
	s := sg{mag: int64(r.Intn(8)) - 3}
	if r.Intn(4) == 0 {
		s.mag = 0
	}
	s.len = int64(r.Intn(6))
	return s
}

// randSgs: 0-6 segments, zero-length ones included, a final length-less one in a third of the lists,
// occasionally a length-less one in the middle (everything after it is unreachable).
func randSgs(r *rand.Rand) []sg {
	n := r.Intn(7)
	l := make([]sg, n)
	for i := range l {
		l[i] = randSg(r)
	}
	if n > 0 && r.Intn(3) == 0 {
		l[n-1].inf, l[n-1].len = true, 0
	}
	if n > 1 && r.Intn(15) == 0 {
		i := r.Intn(n - 1)
		l[i].inf, l[i].len = true, 0
	}
	return l
}

// aroundBreakpoints: a time at, just before or just after a breakpoint of l (or a little outside).
func aroundBreakpoints(r *rand.Rand, l []sg) int64 {
	sp, end, _ := spans(l)
	pts := []int64{0, end}
	for _, p := range sp {
		pts = append(pts, p.from)
	}
	return pts[r.Intn(len(pts))] + int64(r.Intn(3)) - 1
}

func randMd(r *rand.Rand, noStart bool) md {
	m := md{segs: randSgs(r)}
	if !noStart && r.Intn(4) != 0 {
		m.hasStart, m.start = true, int64(r.Intn(9))-2
	}
	return m
}

// randEpoch: where model time 0 sits for a mode case (1/5 the zero time.Time, 1/10 the Unix epoch, 1/10 an
// ordinary instant with denormalised start-time protos).
func randEpoch(r *rand.Rand) string {
	switch r.Intn(10) {
	case 0, 1:
		return "zero"
	case 2:
		return "unix"
	case 3:
		return "denorm"
	}
	return ""
}

func randSegCase(r *rand.Rand) scase {
	c := shapeUp(r, randSegCase0(r))
	if strings.HasPrefix(c.Op, "m") && c.Op != "max" && c.Op != "magat" && c.Op != "maxafter" {
		c.B = randEpoch(r)
	}
	if r.Intn(5) == 0 {
		c = scaleTime(c, timeUnits[r.Intn(len(timeUnits))], int64(r.Intn(4))%3-1)
	}
	return c
}

// timeUnits: the factors of the time-scaled cases.  The lengths and instants of the plain random cases are a
// few ns, so every Duration / Timestamp proto in them has seconds = 0 (or the epoch's seconds) and tiny nanos;
// real lengths are whole seconds.  A scaled case is the same case with every length, start time and d / t
// multiplied by the unit (and d / t moved by -1, 0 or 1 ns): whole seconds (nanos = 0), half seconds (seconds
// and nanos both in play, carries across the second), minutes, milliseconds.
var timeUnits = []int64{1_000_000_000, 1_000_000_000, 500_000_000, 60_000_000_000, 1_000_000}

var modeStart = regexp.MustCompile(`(^|;)(-?\d+)@`)

// scaleTime multiplies every time in the case by u and moves d by jitter.
func scaleTime(c scase, u, jitter int64) scase {
	c.L = segTok.ReplaceAllStringFunc(c.L, func(tok string) string {
		p := strings.Split(tok, "/")
		if p[1] != "i" {
			p[1] = strconv.FormatInt(mustInt(p[1])*u, 10)
		}
		return strings.Join(p, "/")
	})
	c.L = modeStart.ReplaceAllStringFunc(c.L, func(tok string) string {
		sep := ""
		if strings.HasPrefix(tok, ";") {
			sep, tok = ";", tok[1:]
		}
		return sep + strconv.FormatInt(mustInt(strings.TrimSuffix(tok, "@"))*u, 10) + "@"
	})
	if c.D != "" {
		c.D = strconv.FormatInt(mustInt(c.D)*u+jitter, 10)
	}
	return c
}

func randSegCase0(r *rand.Rand) scase {
	itoa := func(x int64) string { return strconv.FormatInt(x, 10) }
	switch r.Intn(17) {
	case 0:
		l := randSgs(r)
		return scase{"active", itoa(aroundBreakpoints(r, l)), showSgs(l), ""}
	case 1:
		l := randSgs(r)
		return scase{"magat", itoa(aroundBreakpoints(r, l)), showSgs(l), ""}
	case 2:
		l := randSgs(r)
		return scase{"maxafter", itoa(aroundBreakpoints(r, l)), showSgs(l), ""}
	case 3:
		return scase{"dur", "", showSgs(randSgs(r)), ""}
	case 4:
		op := "max"
		if r.Intn(4) == 0 {
			op = "summag"
		}
		return scase{op, "", showSgs(randSgs(r)), ""}
	case 5:
		s := randSg(r)
		if r.Intn(4) == 0 {
			s.inf, s.len = true, 0
		}
		d := itoa(s.len + int64(r.Intn(9)) - 6)
		switch r.Intn(3) {
		case 0:
			return scase{"cuts", d, showSg(s) + "/n", ""}
		case 1:
			return scase{"cuts", d, showSg(s) + "/" + itoa(int64(r.Intn(9))-4), ""}
		}
		return scase{"cut", d, showSg(s), ""}
	case 6, 7:
		l := randSgs(r)
		d := aroundBreakpoints(r, l)
		if r.Intn(2) == 0 {
			d = -d
		}
		return scase{"shift", itoa(d), showSgs(l), ""}
	case 8, 9, 10:
		n := 1 + r.Intn(4)
		if r.Intn(25) == 0 {
			n = 0
		}
		ls := make([][]sg, n)
		for i := range ls {
			ls[i] = randSgs(r)
		}
		return scase{"sum", "", showSgLists(ls), ""}
	case 11:
		m := randMd(r, false)
		op := []string{"mactive", "mmagat", "mmaxafter"}[r.Intn(3)]
		return scase{op, itoa(m.start + aroundBreakpoints(r, m.segs)), showMd(m), ""}
	case 12, 13:
		m := randMd(r, false)
		return scase{"mcut", itoa(m.start + aroundBreakpoints(r, m.segs)), showMd(m), ""}
	case 14:
		m := randMd(r, false)
		d := aroundBreakpoints(r, m.segs)
		if r.Intn(2) == 0 {
			d = -d
		}
		return scase{"mshift", itoa(d), showMd(m), ""}
	case 15:
		n := r.Intn(5)
		ms := make([]md, n)
		for i := range ms {
			ms[i] = randMd(r, false)
		}
		return scase{"mminat", itoa(int64(r.Intn(12)) - 2), showMds(ms), ""}
	default:
		n := 1 + r.Intn(4)
		if r.Intn(25) == 0 {
			n = 0
		}
		noStart := r.Intn(5) == 0
		ms := make([]md, n)
		for i := range ms {
			ms[i] = randMd(r, noStart)
		}
		return scase{"msum", "", showMds(ms), ""}
	}
}

// smallLists: all lists of at most n segments over mag in {-1,0,1,2}, len in {0,1,2,absent}.
func smallLists(n int) [][]sg {
	var atoms []sg
	for _, m := range []int64{-1, 0, 1, 2} {
		for _, l := range []int64{0, 1, 2} {
			atoms = append(atoms, sg{mag: m, len: l})
		}
		atoms = append(atoms, sg{mag: m, inf: true})
	}
	out := [][]sg{nil}
	level := [][]sg{nil}
	for k := 0; k < n; k++ {
		var next [][]sg
		for _, l := range level {
			for _, a := range atoms {
				nl := append(append([]sg{}, l...), a)
				next = append(next, nl)
			}
		}
		out = append(out, next...)
		level = next
	}
	return out
}

// ---- near-overflow lengths ---------------------------------------------------------------------

var hugeLens = []int64{1 << 62, 1<<62 - 1, 1<<62 + 1, math.MaxInt64, math.MaxInt64 - 1, math.MaxInt64 - 5, 1 << 61, 3, 1, 0}

func randHugeSgs(r *rand.Rand) []sg {
	n := 1 + r.Intn(3)
	l := make([]sg, n)
	for i := range l {
		l[i] = sg{mag: int64(r.Intn(5)) - 1, len: hugeLens[r.Intn(len(hugeLens))]}
	}
	if r.Intn(4) == 0 {
		l[n-1].inf, l[n-1].len = true, 0
	}
	return l
}

func randHugeD(r *rand.Rand, l []sg) int64 {
	var cur int64 // wrapping on purpose: any int64 is a legal argument
	pts := []int64{0, math.MaxInt64, math.MinInt64, math.MinInt64 + 1}
	for _, s := range l {
		if !s.inf {
			cur += s.len
			pts = append(pts, cur)
		}
	}
	d := pts[r.Intn(len(pts))] + int64(r.Intn(3)) - 1
	if r.Intn(3) == 0 {
		d = -d
	}
	return d
}

func randHugeCase(r *rand.Rand) scase {
	itoa := func(x int64) string { return strconv.FormatInt(x, 10) }
	l := randHugeSgs(r)
	switch r.Intn(8) {
	case 0:
		return scase{"active", itoa(randHugeD(r, l)), showSgs(l), ""}
	case 1:
		return scase{"magat", itoa(randHugeD(r, l)), showSgs(l), ""}
	case 2:
		return scase{"maxafter", itoa(randHugeD(r, l)), showSgs(l), ""}
	case 3:
		return scase{"dur", "", showSgs(l), ""}
	case 4:
		s := l[0]
		return scase{"cut", itoa(randHugeD(r, l[:1])), showSg(s), ""}
	case 5, 6:
		return scase{"shift", itoa(randHugeD(r, l)), showSgs(l), ""}
	default:
		ls := [][]sg{l}
		if r.Intn(2) == 0 {
			ls = append(ls, randHugeSgs(r))
		}
		return scase{"sum", "", showSgLists(ls), ""}
	}
}

func runSeg(f lib.Flags, res *lib.Result, drv *lib.Driver) {
	mon := res.Monitor("segment-step-function",
		"every tie case also goes through an independent Go oracle (segments laid out as spans on the time axis): ActiveAt/MagnitudeAt/Duration/Max* against their documented meaning; "+
			"results of Cut/Shift/Sum and the modepb operations sampled with the real MagnitudeAt at every integer ns from 2 before the first to 3 after the last breakpoint plus a far instant, "+
			"against pointwise sum / translation / split of the oracle; every argument (elements, spare slice capacity, mode) deep-compared before/after; "+
			"the sampled cases (the first of every operation, then every n-th; counters watch/*) run once more with every argument object - messages, lengths, start times, oneof wrappers, slice backing arrays incl. spare capacity, the slice of lists / modes - in read-only pages: any store into them during the call, also one that is undone before it returns, is reported with object and field (watch.go)")
	itoa := func(x int64) string { return strconv.FormatInt(x, 10) }

	// K2: exhaustive small domain
	k2 := res.Tie("segments-exhaustive-small", "K2",
		"all lists of <=3 segments over mag {-1,0,1,2} x len {0,1,2,absent}: Duration, Max, SumMagnitude on each; ActiveAt, MagnitudeAt, MaxAfter, Shift for every d in -1..total+1 (Shift also -d); "+
			"Cut of every segment at d in -1..4, unshaped and with the shape oneof unset / Fixed 0 / 2 / -3; Sum of all ordered pairs of lists of <=2 segments and all triples of lists of <=1 segment (quick) / plus pairs (<=3, <=1) (thorough); Shift, modepb.Cut, modepb.Shift on every list of <=2 segments under three shape patterns (all unset, all Fixed 3, alternating Fixed 0 / unset) with and without non-timing fields, Sum / modepb.Sum of all pairs of shaped lists of <=1 segment; "+
			"modepb read/Cut/Shift on lists of <=2 segments x start in {absent,0,2} x t in -1..total+3 (d in -3..3), modepb.Sum of all pairs of lists of <=1 segment and all triples over {e, 1/1, 2/i}, each x starts {absent,0,2}, modepb.MinAt of all pairs of lists of <=1 segment x t in -1..4 (the returned mode is compared only when the minimum is unique: it depends on map iteration order otherwise); the mode families again (lists of <=1 segment for read/Cut/Shift; thorough: <=2, plus denormalised start-time protos) with model time 0 placed on the zero time.Time and on the Unix epoch (start and query times at, before and after those instants); distinct = distinct request line + epoch; non-trivial = some list non-empty")
	k2.Exhaustive = true
	var cases []scase
	l3 := smallLists(3)
	l2 := smallLists(2)
	l1 := smallLists(1)
	for _, l := range l3 {
		s := showSgs(l)
		cases = append(cases, scase{"dur", "", s, ""}, scase{"max", "", s, ""}, scase{"summag", "", s, ""})
		_, end, _ := spans(l)
		for d := int64(-1); d <= end+1; d++ {
			cases = append(cases, scase{"active", itoa(d), s, ""}, scase{"magat", itoa(d), s, ""}, scase{"maxafter", itoa(d), s, ""}, scase{"shift", itoa(d), s, ""})
			if d > 0 {
				cases = append(cases, scase{"shift", itoa(-d), s, ""})
			}
		}
	}
	for _, l := range l1 {
		if len(l) == 1 {
			for d := int64(-1); d <= 4; d++ {
				cases = append(cases, scase{"cut", itoa(d), showSg(l[0]), ""})
			}
		}
	}
	for _, l := range l1 {
		if len(l) == 1 {
			for d := int64(-1); d <= 4; d++ {
				for _, shape := range []string{"n", "0", "2", "-3"} {
					cases = append(cases, scase{"cuts", itoa(d), showSg(l[0]) + "/" + shape, ""})
				}
			}
		}
	}
	for _, a := range l2 {
		for _, b := range l2 {
			cases = append(cases, scase{"sum", "", showSgLists([][]sg{a, b}), ""})
		}
	}
	for _, a := range l1 {
		for _, b := range l1 {
			for _, c := range l1 {
				cases = append(cases, scase{"sum", "", showSgLists([][]sg{a, b, c}), ""})
			}
		}
	}
	if f.Thorough() {
		for _, a := range l3 {
			for _, b := range l1 {
				cases = append(cases, scase{"sum", "", showSgLists([][]sg{a, b}), ""}, scase{"sum", "", showSgLists([][]sg{b, a}), ""})
			}
		}
	}
	cases = append(cases, shapedCases(l2, l1)...)
	starts := []md{{}, {hasStart: true, start: 0}, {hasStart: true, start: 2}}
	tiny := [][]sg{nil, {{mag: 1, len: 1}}, {{mag: 2, inf: true}}}
	// the mode operations, for one epoch family: the reading operations, Cut and Shift on `lists`, Sum of
	// all pairs over l1 and all triples over `tiny`, MinAt of all pairs over l1
	modeCases := func(B string, lists [][]sg) {
		for _, l := range lists {
			_, end, _ := spans(l)
			for _, st := range starts {
				mo := md{hasStart: st.hasStart, start: st.start, segs: l}
				s := showMd(mo)
				for x := int64(-1); x <= mo.start+end+3; x++ {
					cases = append(cases, scase{"mactive", itoa(x), s, B}, scase{"mmagat", itoa(x), s, B}, scase{"mmaxafter", itoa(x), s, B}, scase{"mcut", itoa(x), s, B})
				}
				for d := int64(-3); d <= 3; d++ {
					cases = append(cases, scase{"mshift", itoa(d), s, B})
				}
			}
		}
		for _, a := range l1 {
			for _, b := range l1 {
				for _, sa := range starts {
					for _, sb := range starts {
						ms := []md{{sa.hasStart, sa.start, a}, {sb.hasStart, sb.start, b}}
						cases = append(cases, scase{"msum", "", showMds(ms), B})
					}
				}
			}
		}
		for _, a := range l1 {
			for _, b := range l1 {
				for _, sb := range starts {
					ms := []md{{true, 0, a}, {sb.hasStart, sb.start, b}}
					for x := int64(-1); x <= 4; x++ {
						cases = append(cases, scase{"mminat", itoa(x), showMds(ms), B})
					}
				}
			}
		}
		cases = append(cases, scase{"mminat", "0", "none", B})
		for _, a := range tiny {
			for _, b := range tiny {
				for _, c := range tiny {
					for _, sa := range starts {
						for _, sb := range starts {
							for _, sc := range starts {
								ms := []md{{sa.hasStart, sa.start, a}, {sb.hasStart, sb.start, b}, {sc.hasStart, sc.start, c}}
								cases = append(cases, scase{"msum", "", showMds(ms), B})
							}
						}
					}
				}
			}
		}
	}
	modeCases("", l2)
	if f.Thorough() {
		modeCases("zero", l2)
		modeCases("unix", l2)
		modeCases("denorm", l1)
	} else {
		modeCases("zero", l1)
		modeCases("unix", l1)
	}
	compareSeg(k2, mon, drv, cases)

	// K1: the property's random domain
	k1 := res.Tie("segments-random", "K1",
		"random lists of 0-6 segments (magnitudes -3..4 with extra zeros, lengths 0..5, a final length-less segment in 1/3 of the lists, rarely one in the middle), "+
			"1-4 lists per Sum (rarely 0), d/t at a breakpoint or one ns either side (negated half the time for Shift), Cut also on segments carrying the shape oneof (unset or Fixed -4..4), a third of the Shift / Sum / modepb.Cut / modepb.Shift / modepb.Sum cases on segments carrying the shape oneof (and modes carrying non-timing fields, token 1..6), modes with (3/4) and without start times, 1-4 modes per modepb.Sum, model time 0 of a mode case on an ordinary instant (6/10), the zero time.Time (1/5), the Unix epoch (1/10) or an ordinary instant with denormalised start-time protos {seconds+1, nanos-1e9} (1/10); "+
			"one case in five with every length, start time and d / t multiplied by a unit (1 s, 0.5 s, 1 min, 1 ms; d / t then moved by -1, 0 or 1 ns), so that Duration / Timestamp protos with whole seconds, with seconds and nanos, and carries across the second are in play; "+
			"distinct = distinct request line + epoch; non-trivial = some list non-empty")
	r := lib.NewRand(f.Seed + 18)
	n := f.N(60000, 1500000)
	cases = cases[:0]
	for i := 0; i < n; i++ {
		cases = append(cases, randSegCase(r))
	}
	compareSeg(k1, mon, drv, cases)
	runSegEdges(f, res, drv, mon)
	runModeFar(f, res, drv, mon)
	runSegFloat(f, res, drv, mon)
	runFloatRounding(f, res, drv, mon)
	for k, v := range watchCounts {
		mon.Distribution[k] += v
	}
}

// ---- float32 tier ------------------------------------------------------------------------------

// floatSafe: every sum of any sub-multiset of the edges {+n, -n} of the magnitudes in ls is exactly
// representable in float32 — all magnitudes are multiples of 2^z/2^magShift and twice the total of their
// absolute values is below 2^24 such units.  An independent, order-free sufficient criterion for
// "float32 addition in Sum/SumMagnitude is exact whatever the order".
func floatSafe(ls [][]sg) bool {
	tz := 63
	var tot uint64
	for _, l := range ls {
		for _, s := range l {
			if s.mag == 0 {
				continue
			}
			a := uint64(abs(s.mag))
			if z := bits.TrailingZeros64(a); z < tz {
				tz = z
			}
			tot += a
		}
	}
	if tot == 0 {
		return true
	}
	return (2*tot)>>uint(tz) < 1<<24
}

// f32grid returns n with float32(x) == n / 2^40 exactly.
func f32grid(x float64) int64 {
	f := float32(x)
	return int64(math.Ldexp(float64(f), 40))
}

func randFloatSgs(r *rand.Rand, family int) []sg {
	n := r.Intn(5)
	l := make([]sg, n)
	for i := range l {
		var mag int64
		switch family {
		case 0: // eighths, |m| <= 128: always safe at shift 3
			mag = int64(r.Intn(2049)) - 1024
		case 1: // one- and two-digit decimals as float32, on the 2^-40 grid
			if r.Intn(2) == 0 {
				mag = f32grid(float64(r.Intn(81)-30) / 10)
			} else {
				mag = f32grid(float64(r.Intn(2001)-500) / 100)
			}
		case 2, 3: // very different scales side by side: small numbers, powers of two up to 2^20, and their neighbours
			switch r.Intn(3) {
			case 0:
				mag = int64(r.Intn(17)) - 8
			case 1:
				mag = int64(1) << uint(r.Intn(21))
			default:
				mag = int64(1)<<uint(r.Intn(21)) + int64(r.Intn(7)) - 3
			}
			if r.Intn(3) == 0 {
				mag = -mag
			}
		}
		if r.Intn(6) == 0 {
			mag = 0
		}
		l[i] = sg{mag: mag, len: int64(r.Intn(5))}
	}
	if n > 0 && r.Intn(3) == 0 {
		l[n-1].inf, l[n-1].len = true, 0
	}
	return l
}

// floatShapes gives every segment token of a plain text a shape: unset, or a Fixed numerator of the family.
func floatShapes(r *rand.Rand, fam int, s string) string {
	return segTok.ReplaceAllStringFunc(s, func(tok string) string {
		if r.Intn(3) == 0 {
			return tok + "/n"
		}
		if strings.HasPrefix(tok, "0/") {
			return tok + "/0"
		}
		v := randFloatSgs1(r, fam)
		return tok + "/" + strconv.FormatInt(v, 10)
	})
}

// randFloatSgs1: one magnitude numerator of the family.
func randFloatSgs1(r *rand.Rand, fam int) int64 {
	for {
		if l := randFloatSgs(r, fam); len(l) > 0 {
			return l[0].mag
		}
	}
}

func runSegFloat(f lib.Flags, res *lib.Result, drv *lib.Driver, mon *lib.Monitor) {
	k := res.Tie("segments-float32", "K1",
		"fractional float32 magnitudes, represented exactly by integer numerators over 2^3 (family 'eighths': k/8, |k|<=1024) or 2^40 (family 'decimals': float32(k/10), float32(k/100)), and magnitudes of very different scales side by side "+
			"(families 'wide-integers': small integers, powers of two up to 2^20 and their neighbours; 'wide-fractions': the same numerators over 2^20, i.e. from 1e-6 to 1); "+
			"also the shaped operations (Cut with shape, Shift, modepb.Cut, modepb.Shift) with Fixed values drawn from the same family; "+
			"the model computes on the numerators, i.e. in exact rational arithmetic; Sum (1-3 lists), SumMagnitude, Max, Shift, MagnitudeAt. A case is compared (and monitored) only if it is float-safe: "+
			"by an order-free criterion every partial sum of its edges is exactly representable in float32; an unsafe SumMagnitude, and an unsafe Sum whose edge times are all distinct, is compared with the model's float32 rendering (sumf/summagf) instead; the other cases are counted and MEASURED (does the real result equal the exact one; "+
			"does Sum change when the argument lists are passed in reverse order); distinct = distinct request line; non-trivial = every compared case")
	r := lib.NewRand(f.Seed + 3232)
	n := f.N(20000, 300000)
	itoa := func(x int64) string { return strconv.FormatInt(x, 10) }
	defer func() { magShift = 0 }()
	for fam, shift := range []int{3, 40, 0, 20} {
		magShift = shift
		var cases []scase
		var lists [][][]sg
		per := n / 2
		if fam >= 2 {
			per = n / 4
		}
		for i := 0; i < per; i++ {
			var c scase
			var ls [][]sg
			switch r.Intn(10) {
			case 0:
				l := randFloatSgs(r, fam)
				ls, c = [][]sg{l}, scase{"summag", "", showSgs(l), ""}
			case 1:
				l := randFloatSgs(r, fam)
				ls, c = nil, scase{"max", "", showSgs(l), ""}
			case 2:
				l := randFloatSgs(r, fam)
				ls, c = nil, scase{"shift", itoa(aroundBreakpoints(r, l) * int64(1-2*r.Intn(2))), showSgs(l), ""}
			case 3:
				l := randFloatSgs(r, fam)
				ls, c = nil, scase{"magat", itoa(aroundBreakpoints(r, l)), showSgs(l), ""}
			case 8:
				// the shaped operations on these magnitudes, Fixed values drawn from the same family (fractional,
				// or of a very different scale than the magnitude): shapes are only ever copied, so always exact
				l := randFloatSgs(r, fam)
				if len(l) > 0 && r.Intn(2) == 0 {
					ls, c = nil, scase{"cuts", itoa(r.Int63n(7) - 1), floatShapes(r, fam, showSg(l[0])), ""}
				} else {
					ls, c = nil, scase{"shifts", itoa(aroundBreakpoints(r, l) * int64(1-2*r.Intn(2))), floatShapes(r, fam, showSgs(l)), ""}
				}
			case 9:
				l := randFloatSgs(r, fam)
				m := md{segs: l}
				if r.Intn(3) != 0 {
					m.hasStart, m.start = true, int64(r.Intn(7))-2
				}
				op, d := "mcuts", m.start+aroundBreakpoints(r, l)
				if r.Intn(2) == 0 {
					op, d = "mshifts", int64(r.Intn(9))-4
				}
				text := floatShapes(r, fam, showMd(m))
				if k := r.Intn(5); k > 0 {
					text += "@" + strconv.Itoa(k)
				}
				ls, c = nil, scase{op, itoa(d), text, ""}
			default:
				m := 1 + r.Intn(3)
				ls = make([][]sg, m)
				for j := range ls {
					ls[j] = randFloatSgs(r, fam)
				}
				c = scase{"sum", "", showSgLists(ls), ""}
			}
			cases = append(cases, c)
			lists = append(lists, ls)
		}
		lines := make([]string, len(cases))
		for i, c := range cases {
			lines[i] = c.line()
		}
		model, err := drv.Batch(lines)
		if err != nil {
			k.Fail(err)
			return
		}
		famName := []string{"eighths", "decimals", "wide-integers", "wide-fractions"}[fam]
		for i, c := range cases {
			o := c.runCode()
			k.Count(famName + "/" + c.Op)
			if floatSafe(lists[i]) {
				k.Count(famName + "/float-safe(compared)")
				k.Record(lines[i], true, c, model[i], o.text)
				mon.Eval(lines[i], true, nil)
				mon.Count("float32/" + c.Op)
				c.safeMonitor(mon, o)
				continue
			}
			switch c.Op {
			case "sum":
				// rounding changes magnitudes only, never the timing (C18_sum_float_timing): whatever is rounded and
				// in whatever order, the finished segments of the result have the lengths of the exact sum's; and the
				// magnitude at every instant stays within the accumulated rounding bound of the pointwise sum
				// (C18_sum_float_error) - judged whether or not the order of equal-time edges is determined
				mon.Eval(lines[i], true, nil)
				sumFloatClauses(mon, c, lists[i], o)
			case "summag":
				mon.Eval(lines[i], true, nil)
				if o.mutated != "" {
					mon.Violate("C18/SumMagnitude/argument-modified", "SumMagnitude modified its argument", c, "arguments unchanged", o.mutated)
				}
				sumMagFloatClause(mon, c, lists[i][0], o.mag, o.text)
			}
			if c.Op == "summag" || (c.Op == "sum" && edgeTimesDistinct(lists[i])) {
				// rounding happens, but in an order the code fixes (list order / distinct edge times): compare
				// with the model's float32 rendering (rnd24 works on numerators over any power-of-two denominator)
				fl, err := drv.Ask(c.Op + "f " + c.L)
				if err != nil {
					k.Fail(err)
					return
				}
				k.Count(famName + "/float-unsafe but order-determined (compared with the float32 model)")
				k.Record(c.Op+"f "+c.L, true, c, fl, o.text)
				continue
			}
			k.Count(famName + "/float-unsafe(measured, not compared)")
			if o.text == model[i] {
				k.Count(famName + "/unsafe: real result equals the exact result")
			} else {
				k.Count(famName + "/unsafe: real result differs from the exact result (rounding)")
			}
			if c.Op == "sum" && len(lists[i]) > 1 {
				rev := make([][]sg, len(lists[i]))
				for j := range rev {
					rev[j] = lists[i][len(rev)-1-j]
				}
				o2 := scase{"sum", "", showSgLists(rev), ""}.runCode()
				if o2.text != o.text {
					k.Count(famName + "/unsafe: Sum depends on the order of its argument lists")
				} else {
					k.Count(famName + "/unsafe: Sum same for reversed argument lists")
				}
			}
		}
	}
}

// expectedClosedLens: the lengths of the finished segments of the pointwise sum of ls — the differences of
// consecutive distinct instants at which some reachable segment of non-zero magnitude starts or ends, from 0.
func expectedClosedLens(ls [][]sg) []int64 {
	set := map[int64]bool{}
	for _, l := range ls {
		var cur int64
		for _, s := range l {
			if s.mag != 0 {
				set[cur] = true
			}
			if s.inf {
				break
			}
			cur += s.len
			if s.mag != 0 {
				set[cur] = true
			}
		}
	}
	if len(set) == 0 {
		return nil
	}
	set[0] = true
	times := make([]int64, 0, len(set))
	for t := range set {
		times = append(times, t)
	}
	sort.Slice(times, func(i, j int) bool { return times[i] < times[j] })
	var out []int64
	for i := 1; i < len(times); i++ {
		out = append(out, times[i]-times[i-1])
	}
	return out
}

func closedLensOf(l []*traits.ElectricMode_Segment) []int64 {
	var out []int64
	for _, s := range l {
		if s != nil && s.Length != nil {
			out = append(out, int64(s.Length.AsDuration()))
		}
	}
	return out
}

// farInstant: an instant about 1.5 * 2^62 ns (219 years) before or after model time 0, so that two of them
// on opposite sides are more than 2^63 ns apart (time.Time.Sub saturates) while each fits an int64.
func farInstant(r *rand.Rand) int64 {
	x := int64(3)<<61 + int64(r.Intn(7)) - 3
	switch r.Intn(5) {
	case 0:
		x = math.MaxInt64/2 + int64(r.Intn(5)) - 1 // the difference of two of these is 2^63-1 +- a few ns
	case 1:
		x = int64(r.Intn(9)) - 2 // an ordinary instant: near/far mixes
	}
	if r.Intn(2) == 0 {
		x = -x
	}
	return x
}

func randFarCase(r *rand.Rand) scase {
	itoa := func(x int64) string { return strconv.FormatInt(x, 10) }
	far := func() md {
		m := md{segs: randSgs(r), hasStart: true, start: farInstant(r)}
		return m
	}
	switch r.Intn(8) {
	case 0, 1:
		return scase{"mmagat", itoa(farInstant(r)), showMd(far()), ""}
	case 2:
		return scase{"mactive", itoa(farInstant(r)), showMd(far()), ""}
	case 3:
		return scase{"mmaxafter", itoa(farInstant(r)), showMd(far()), ""}
	case 4:
		n := 1 + r.Intn(3)
		ms := make([]md, n)
		for i := range ms {
			ms[i] = far()
		}
		return scase{"mminat", itoa(farInstant(r)), showMds(ms), ""}
	case 5, 6:
		return scase{"mcut", itoa(farInstant(r)), showMd(far()), ""}
	default:
		n := 1 + r.Intn(3)
		ms := make([]md, n)
		for i := range ms {
			ms[i] = far()
			if r.Intn(5) == 0 {
				ms[i].hasStart, ms[i].start = false, 0
			}
		}
		return scase{"msum", "", showMds(ms), ""}
	}
}

func runModeFar(f lib.Flags, res *lib.Result, drv *lib.Driver, mon *lib.Monitor) {
	k := res.Tie("modes-far-instants", "K1",
		"modes (random lists of 0-6 segments) whose start times and query instants lie about 219 years before or after model time 0 (and some ordinary ones), so that "+
			"t.Sub(start) and start.Sub(earliest) exceed the int64 ns range and saturate: modepb.ActiveAt, MagnitudeAt, MaxSegmentAfter, MinAt (1-3 modes), Cut, Sum (1-3 modes); "+
			"the model saturates like time.Time.Sub; the reading operations are also judged by the oracle (exact big-offset step function), Cut/Sum beyond 2^20 ns are judged at the instants around every breakpoint (read through the real modepb.MagnitudeAt) unless the spans involved leave the int64 ns range and saturate (compared with the model only there); "+
			"distinct = distinct request line; non-trivial = some list non-empty")
	r := lib.NewRand(f.Seed + 2929)
	n := f.N(8000, 200000)
	cases := make([]scase, n)
	for i := range cases {
		cases[i] = randFarCase(r)
	}
	compareSeg(k, mon, drv, cases)
}

// ---- float32 rounding tier ---------------------------------------------------------------------

// f32int: a random integer that is exactly a float32 (24 significant bits times a power of two).
func f32int(r *rand.Rand) int64 {
	var m int64
	switch r.Intn(4) {
	case 0:
		m = int64(r.Intn(1 << 24))
	case 1:
		m = 1<<24 - 1 - int64(r.Intn(4))
	case 2:
		m = 1<<23 + int64(r.Intn(4))
	default:
		m = int64(r.Intn(64))
	}
	v := m << uint(r.Intn(30))
	if r.Intn(2) == 0 {
		v = -v
	}
	if float64(float32(v)) != float64(v) {
		panic("f32int: not a float32")
	}
	return v
}

// edgeTimesDistinct: no two rising/falling edges of the lists fall on the same instant, so the order in
// which sort.Slice leaves equal-time edges cannot influence Sum.
func edgeTimesDistinct(ls [][]sg) bool {
	seen := map[int64]bool{}
	for _, l := range ls {
		var cur int64
		for _, s := range l {
			if s.mag != 0 {
				if seen[cur] {
					return false
				}
				seen[cur] = true
			}
			if s.inf {
				break
			}
			cur += s.len
			if s.mag != 0 {
				if seen[cur] {
					return false
				}
				seen[cur] = true
			}
		}
	}
	return true
}

// randGappedLists: 1-3 lists of float32-integer magnitudes separated by idle gaps, retried until all edge
// times differ.
func randGappedLists(r *rand.Rand) [][]sg {
	for {
		n := 1 + r.Intn(3)
		ls := make([][]sg, n)
		for i := range ls {
			k := 1 + r.Intn(3)
			var l []sg
			for j := 0; j < k; j++ {
				l = append(l, sg{mag: 0, len: int64(1 + r.Intn(9))}, sg{mag: f32int(r), len: int64(1 + r.Intn(9))})
			}
			if r.Intn(3) == 0 {
				l = append(l, sg{mag: 0, len: int64(1 + r.Intn(9))}, sg{mag: f32int(r), inf: true})
			}
			ls[i] = l
		}
		if edgeTimesDistinct(ls) {
			return ls
		}
	}
}

func runFloatRounding(f lib.Flags, res *lib.Result, drv *lib.Driver, mon *lib.Monitor) {
	k := res.Tie("float32-rounding", "K1",
		"the model of float32 addition (round to 24 significant bits, ties to even) against Go's: f32add on pairs of integers that are float32 values (mantissas random / all-ones / just above 2^23 / tiny, "+
			"exponents 0..29, both signs, plus directed half-way and carry cases); SumMagnitude in float32 on lists of 2-6 such magnitudes; Sum in float32 on 1-3 lists of such magnitudes separated by idle gaps "+
			"with all edge times distinct (so the unstable sort cannot matter): the real result must equal the model's float rendering bit for bit; counted: how many results differ from the exact sum; "+
			"plus Sum on 2-4 ungapped lists of such magnitudes on a coarse time grid (edges share instants: compared when the edge times happen to be distinct, otherwise judged by the monitor only - "+
			"breakpoints and the accumulated rounding bound of C18_sum_float_error - and counted as order-undetermined); every sumf/summagf case also goes through those monitor clauses; "+
			"distinct = distinct request line; non-trivial = every case")
	r := lib.NewRand(f.Seed + 3232323)
	n := f.N(12000, 200000)
	itoa := func(x int64) string { return strconv.FormatInt(x, 10) }
	var cases []scase
	var exact []string // the request computing the exact (unrounded) answer, for the distribution
	// directed: half-way cases and carries around 2^24
	for _, a := range []int64{1 << 24, 1<<24 - 1, 1<<24 + 2, 1 << 25, 1<<25 - 2, -(1 << 24), 3 << 23} {
		for _, b := range []int64{1, -1, 2, 3, -3, 1 << 23, 1<<24 - 1, -(1<<24 - 1)} {
			cases = append(cases, scase{"f32add", itoa(a), itoa(b), ""})
			exact = append(exact, "")
		}
	}
	for i := 0; i < n; i++ {
		switch r.Intn(4) {
		case 0, 1:
			a, b := f32int(r), f32int(r)
			if r.Intn(4) == 0 { // b half an ulp of a, give or take
				b = (int64(1) << uint(r.Intn(29))) + int64(r.Intn(3)) - 1
				if float64(float32(b)) != float64(b) {
					b = 1
				}
			}
			cases = append(cases, scase{"f32add", itoa(a), itoa(b), ""})
			exact = append(exact, "")
		case 2:
			m := 2 + r.Intn(5)
			l := make([]sg, m)
			for j := range l {
				l[j] = sg{mag: f32int(r), len: int64(r.Intn(4))}
			}
			cases = append(cases, scase{"summagf", "", showSgs(l), ""})
			exact = append(exact, "summag "+showSgs(l))
		default:
			ls := randGappedLists(r)
			if r.Intn(3) == 0 {
				ls = randSharedLists(r)
			}
			cases = append(cases, scase{"sumf", "", showSgLists(ls), ""})
			exact = append(exact, "sum "+showSgLists(ls))
		}
	}
	lines := make([]string, len(cases))
	for i, c := range cases {
		lines[i] = c.line()
	}
	model, err := drv.Batch(lines)
	if err != nil {
		k.Fail(err)
		return
	}
	var exLines []string
	var exIdx []int
	for i, e := range exact {
		if e != "" {
			exLines = append(exLines, e)
			exIdx = append(exIdx, i)
		}
	}
	exModel, err := drv.Batch(exLines)
	if err != nil {
		k.Fail(err)
		return
	}
	exactOf := map[int]string{}
	for j, i := range exIdx {
		exactOf[i] = exModel[j]
	}
	for i, c := range cases {
		var code string
		panicked, msg := lib.Catch(func() {
			switch c.Op {
			case "f32add":
				s := float32(mustInt(c.D)) + float32(mustInt(c.L))
				code = showMag(s)
			case "summagf":
				o := scase{"summag", "", c.L, ""}.runCode()
				code = o.text
				mon.Eval(lines[i], true, nil)
				if o.mutated != "" {
					mon.Violate("C18/SumMagnitude/argument-modified", "SumMagnitude modified its argument", c, "arguments unchanged", o.mutated)
				}
				sumMagFloatClause(mon, c, parseSgs(c.L), o.mag, o.text)
			case "sumf":
				o := scase{"sum", "", c.L, ""}.runCode()
				code = o.text
				mon.Eval(lines[i], true, nil)
				sumFloatClauses(mon, c, parseSgLists(c.L), o)
			}
		})
		if panicked {
			code = "panic:" + msg
		}
		k.Count(c.Op)
		if e, ok := exactOf[i]; ok {
			if e == code {
				k.Count(c.Op + "/equals the exact result")
			} else {
				k.Count(c.Op + "/rounded (differs from the exact result)")
			}
		}
		if c.Op == "sumf" && !edgeTimesDistinct(parseSgLists(c.L)) && !strings.HasPrefix(code, "panic:") {
			// which small terms are absorbed depends on the order sort.Slice leaves equal-time edges in: the
			// result is not a function of the model's (stable) arrangement; judged by the monitor clauses only
			k.Count("sumf/order-undetermined (edges share instants: monitored, not compared)")
			if model[i] == code {
				k.Count("sumf/order-undetermined: real result equals the stable-order rendering")
			} else {
				k.Count("sumf/order-undetermined: real result differs from the stable-order rendering")
			}
			continue
		}
		k.Record(lines[i], true, c, model[i], code)
	}
}

func runSegEdges(f lib.Flags, res *lib.Result, drv *lib.Driver, mon *lib.Monitor) {
	k := res.Tie("segments-int64-edges", "K1",
		"lists of 1-3 segments with lengths from {2^61, 2^62-1, 2^62, 2^62+1, 2^63-6, 2^63-2, 2^63-1 (built as a saturating Duration proto), 0, 1, 3}, optionally a length-less tail, "+
			"d at a (wrapped) cumulative length, MaxInt64, MinInt64(+1) or 0, +-1, negated a third of the time; ActiveAt, MagnitudeAt, MaxAfter, Duration, Cut, Shift, Sum of 1-2 lists: "+
			"the model computes with 64-bit wrap-around like the code, so cases whose totals overflow are compared too (the monitor counts them as excluded and judges the rest); "+
			"distinct = distinct request line; non-trivial = every case")
	r := lib.NewRand(f.Seed + 1818)
	n := f.N(20000, 300000)
	cases := make([]scase, n)
	for i := range cases {
		cases[i] = randHugeCase(r)
	}
	compareSeg(k, mon, drv, cases)
}

func compareSeg(t *lib.Tie, mon *lib.Monitor, drv *lib.Driver, cases []scase) {
	const chunk = 50000
	for lo := 0; lo < len(cases); lo += chunk {
		hi := lo + chunk
		if hi > len(cases) {
			hi = len(cases)
		}
		part := cases[lo:hi]
		lines := make([]string, len(part))
		for i, c := range part {
			lines[i] = c.line()
		}
		// the model answers are computed by the driver process while the real code runs here
		type batch struct {
			model []string
			err   error
		}
		done := make(chan batch, 1)
		go func() {
			model, err := drv.Batch(lines)
			done <- batch{model, err}
		}()
		outs := make([]outcome, len(part))
		for i, c := range part {
			outs[i] = c.runCode()
		}
		b := <-done
		model, err := b.model, b.err
		if err != nil {
			t.Fail(err)
			return
		}
		for i, c := range part {
			o := outs[i]
			key := c.key()
			nontrivial := strings.ContainsAny(c.L, "/")
			if c.B != "" {
				t.Count("epoch=" + c.B)
			}
			t.Count(c.Op)
			if c.Op == "sum" || c.Op == "msum" {
				t.Count(fmt.Sprintf("%s/lists=%d", c.Op, strings.Count(c.L, ";")+1))
			}
			t.Record(key, nontrivial, c, model[i], o.text)
			mon.Eval(key, nontrivial, nil)
			mon.Count(c.Op)
			c.safeMonitor(mon, o)
		}
	}
	_ = sort.Ints
}
